import Props.C09
import Model.Limiter
/-!
# C01 — the background queue hands every appended entry to the stream exactly once, in order

Theorems about `Queue.step` for every event sequence (any number of producers, any interleaving
of producers, flushers and writer micro-steps, any clock bits, any per-entry stream results).
-/
namespace Queue

theorem survivors_nil (po : List Ent) : survivors po [] = po := by
  simp [survivors]

/-- **Exactly once, in order.** While nothing has overflowed, the entries handed to the stream,
followed by the entry being written, followed by the ring, are exactly the pushed entries in push
(linearisation) order: nothing is lost, nothing duplicated, nothing reordered, and the stream has
received a prefix of the push order. -/
theorem c01_exactly_once {s : QState} (hr : Reachable s) (h0 : s.overflow = 0) :
    delivered s.log ++ holding s.wpc ++ s.ring = s.pushOrder ∧ s.pushOrder.Nodup := by
  have hc := conserve_reachable hr
  have hd : displaced s.log = [] := by
    have := hc.count; simp only [core] at this
    exact List.eq_nil_of_length_eq_zero (by omega)
  have := hc.cons
  simp only [core] at this
  rw [hd, survivors_nil] at this
  exact ⟨this, pushOrder_nodup hc⟩

/-- Entries pushed by one producer reach the stream in the order that producer pushed them: the
producer's delivered entries are a prefix of the producer's pushes. -/
theorem c01_per_producer_order {s : QState} (hr : Reachable s) (h0 : s.overflow = 0) (p : Nat) :
    (delivered s.log).filter (fun e => e.1 == p) <+: s.pushOrder.filter (fun e => e.1 == p) := by
  have h := (c01_exactly_once hr h0).1
  have : delivered s.log <+: s.pushOrder := ⟨holding s.wpc ++ s.ring, by rw [← h, List.append_assoc]⟩
  exact this.filter _

/-! ### Only pushed entries and the error report reach the stream -/

theorem pushOrder_mono {s s' : QState} {ev : Ev} (h : step s ev = some s') : ∀ e ∈ s.pushOrder, e ∈ s'.pushOrder := by
  intro e he
  cases ev with
  | push p => rw [(push_core h).2.1]; simp [he]
  | w c =>
    cases wstep_core h with
    | same heq => have : s'.pushOrder = s.pushOrder := congrArg Core.pushOrder heq; rw [this]; exact he
    | pop _ _ _ _ _ _ _ _ hpo _ => rw [hpo]; exact he
    | consume _ _ _ _ _ _ _ hpo _ => rw [hpo]; exact he
  | unpark p => have := congrArg Core.pushOrder (other_core h (by intro p; simp) (by intro c; simp)); simp only [core] at this; rw [this]; exact he
  | flushSend => have := congrArg Core.pushOrder (other_core h (by intro p; simp) (by intro c; simp)); simp only [core] at this; rw [this]; exact he
  | flushUnpark i => have := congrArg Core.pushOrder (other_core h (by intro p; simp) (by intro c; simp)); simp only [core] at this; rw [this]; exact he
  | clone => have := congrArg Core.pushOrder (other_core h (by intro p; simp) (by intro c; simp)); simp only [core] at this; rw [this]; exact he
  | dropHandle => have := congrArg Core.pushOrder (other_core h (by intro p; simp) (by intro c; simp)); simp only [core] at this; rw [this]; exact he
  | forget => have := congrArg Core.pushOrder (other_core h (by intro p; simp) (by intro c; simp)); simp only [core] at this; rw [this]; exact he
  | setSubscriber b => have := congrArg Core.pushOrder (other_core h (by intro p; simp) (by intro c; simp)); simp only [core] at this; rw [this]; exact he
  | dropJoinBegin => have := congrArg Core.pushOrder (other_core h (by intro p; simp) (by intro c; simp)); simp only [core] at this; rw [this]; exact he
  | dropJoinUnpark => have := congrArg Core.pushOrder (other_core h (by intro p; simp) (by intro c; simp)); simp only [core] at this; rw [this]; exact he
  | dropJoinEnd => have := congrArg Core.pushOrder (other_core h (by intro p; simp) (by intro c; simp)); simp only [core] at this; rw [this]; exact he

/-- every `report` in the history directly follows a `next … Validation` -/
def ReportsOk (log : List Obs) : Prop :=
  ∀ pre post, log = pre ++ Obs.report :: post → ∃ pre' e, pre = pre' ++ [Obs.next e .validation]

/-- every `next e r` in the history is a pushed entry with its scripted result -/
def NextsOk (s : QState) : Prop :=
  ∀ e r, Obs.next e r ∈ s.log → e ∈ s.pushOrder ∧ r = s.res e

theorem reportsOk_append_plain {log added : List Obs} (h : ReportsOk log)
    (ha : Obs.report ∉ added) : ReportsOk (log ++ added) := by
  intro pre post heq
  rcases List.append_eq_append_iff.mp heq with ⟨a', hpre, hadd⟩ | ⟨c', hlog, hadd⟩
  · -- the report would be inside `added`
    exact absurd (by rw [hadd]; simp) ha
  · cases c' with
    | nil =>
      simp at hadd
      exact absurd (by rw [← hadd]; simp) ha
    | cons x c'' =>
      simp at hadd
      obtain ⟨rfl, _⟩ := hadd
      exact h pre c'' hlog

theorem not_report_of_plain {added : List Obs} (ha : ∀ o ∈ added, o.isNextOrReport = false) :
    Obs.report ∉ added := by
  intro hm
  have := ha _ hm
  simp [Obs.isNextOrReport] at this

theorem reportsOk_append_consume {s : QState} {c : Clock} {e : Ent} (h : ReportsOk s.log) :
    ReportsOk (s.log ++ consumeObs s c e) := by
  unfold consumeObs
  split
  · rename_i hcond
    intro pre post heq
    rcases List.append_eq_append_iff.mp heq with ⟨a', hpre, hadd⟩ | ⟨c', hlog, hadd⟩
    · -- pre = log ++ a', [next, report] = a' ++ report :: post
      cases a' with
      | nil => simp at hadd
      | cons x a'' =>
        simp at hadd
        obtain ⟨rfl, hrest⟩ := hadd
        cases a'' with
        | nil =>
          refine ⟨s.log, e, ?_⟩
          rw [hpre, hcond.1]
        | cons y a3 =>
          simp at hrest
    · cases c' with
      | nil => simp at hadd
      | cons x c'' =>
        simp at hadd
        obtain ⟨rfl, _⟩ := hadd
        exact h pre c'' hlog
  · exact reportsOk_append_plain h (by simp)

theorem extras_step {s s' : QState} {ev : Ev} (hr : Reachable s) (hn : NextsOk s)
    (hrep : ReportsOk s.log) (h : step s ev = some s') :
    NextsOk s' ∧ ReportsOk s'.log := by
  obtain ⟨hlog, hres, _, _⟩ := step_log h
  have hmono := pushOrder_mono h
  rcases hlog with ⟨c, e, _, hh, hl⟩ | ⟨added, hl, hadd⟩
  · constructor
    · intro e' r hm
      rw [hl] at hm
      rcases List.mem_append.mp hm with h1 | h1
      · obtain ⟨h2, h3⟩ := hn e' r h1
        exact ⟨hmono _ h2, by rw [hres]; exact h3⟩
      · have hc := conserve_reachable hr
        have hin : e ∈ s.pushOrder := by
          have hcons := hc.cons
          simp only [core] at hcons
          have : e ∈ survivors s.pushOrder (displaced s.log) := by
            rw [← hcons, hh]; simp
          exact (List.mem_filter.mp this).1
        have : e' = e ∧ r = s.res e := by
          unfold consumeObs at h1
          split at h1 <;> simp at h1 <;> exact h1
        rw [this.1, this.2, hres]
        exact ⟨hmono _ hin, rfl⟩
    · rw [hl]; exact reportsOk_append_consume hrep
  · constructor
    · intro e' r hm
      rw [hl] at hm
      rcases List.mem_append.mp hm with h1 | h1
      · obtain ⟨h2, h3⟩ := hn e' r h1
        exact ⟨hmono _ h2, by rw [hres]; exact h3⟩
      · have := hadd _ h1; simp [Obs.isNextOrReport] at this
    · rw [hl]; exact reportsOk_append_plain hrep (not_report_of_plain hadd)

/-- **Nothing else reaches the stream.** In every reachable state each `next` call in the history
carries an entry that was pushed, with that entry's scripted result, and each in-band error report
directly follows a `next` that returned a validation error. -/
theorem c01_only_reports_extra {s : QState} (hr : Reachable s) :
    (∀ e r, Obs.next e r ∈ s.log → e ∈ s.pushOrder ∧ r = s.res e) ∧
    (∀ pre post, s.log = pre ++ Obs.report :: post → ∃ pre' e, pre = pre' ++ [Obs.next e .validation]) := by
  have : Reachable s ∧ NextsOk s ∧ ReportsOk s.log := by
    induction hr with
    | init cap res ns =>
      refine ⟨Reachable.init _ _ _, ?_, ?_⟩
      · intro e r hm; simp [init] at hm
      · intro pre post heq; simp [init] at heq
    | step hr' hst ih =>
      obtain ⟨h1, h2, h3⟩ := ih
      exact ⟨Reachable.step h1 hst, extras_step h1 h2 h3 hst⟩
  exact ⟨this.2.1, this.2.2⟩

/-- **The report is written only while no tracing subscriber is installed** — decided at the moment
of the report, not once: a step appends `report` to the history only if it is the writer handing an
entry to the stream whose result is a validation error, the rate limiter lets the report through,
and `noSubscriber` holds in the state *in which that step is taken*. The environment may install or
remove a subscriber at any time (event `setSubscriber`); after a subscriber has been installed no
further report is written until it is removed again. -/
theorem c01_report_only_without_subscriber {s s' : QState} {ev : Ev} (h : step s ev = some s')
    (hnew : Obs.report ∈ s'.log.drop s.log.length) :
    s.noSubscriber = true ∧ ∃ c e, ev = .w c ∧ holding s.wpc = [e] ∧ s.res e = .validation ∧ c.limiterFires = true := by
  rcases (step_log h).1 with ⟨c, e, hev, hh, hl⟩ | ⟨added, hl, hadd⟩
  · rw [hl] at hnew
    simp only [List.drop_left] at hnew
    unfold consumeObs at hnew
    split at hnew
    · rename_i hcond
      exact ⟨hcond.2.1, c, e, hev, hh, hcond.1, hcond.2.2⟩
    · simp at hnew
  · rw [hl] at hnew
    simp only [List.drop_left] at hnew
    have := hadd _ hnew
    simp [Obs.isNextOrReport] at this

/-- Installing a subscriber is an event like any other: it changes nothing but the flag. -/
theorem c01_set_subscriber (s : QState) (present : Bool) :
    step s (.setSubscriber present) = some { s with noSubscriber := !present } := rfl

/-! ### "rate-limited": the limiter that guards the report (`rate_limited!`, one second) -/

theorem limiter_fires_le (hi : Nat) : ∀ (ts : List Nat) (next : Nat), ts.Pairwise (· ≤ ·) → (∀ t ∈ ts, t ≤ hi) →
    Limiter.fires next ts ≤ (hi / 1000 + 1) - max next (match ts with | [] => hi / 1000 + 1 | t :: _ => t / 1000)
  | [], _, _, _ => by simp [Limiter.fires]
  | t :: ts, next, hs, hb => by
    have htb : t ≤ hi := hb t (by simp)
    have hdiv : t / 1000 ≤ hi / 1000 := Nat.div_le_div_right htb
    have hs' := (List.pairwise_cons.mp hs).2
    have hhead := (List.pairwise_cons.mp hs).1
    have hb' : ∀ x ∈ ts, x ≤ hi := fun x hx => hb x (by simp [hx])
    simp only [Limiter.fires]
    by_cases hfire : next ≤ t / 1000
    · have hcall : Limiter.call next t = (true, t / 1000 + 1) := by
        have h1 : (t + 1000) / 1000 = t / 1000 + 1 := by omega
        simp [Limiter.call, hfire, h1]
      rw [hcall]
      simp only [if_true]
      have ih := limiter_fires_le hi ts (t / 1000 + 1) hs' hb'
      cases ts with
      | nil => simp [Limiter.fires] at ih ⊢; omega
      | cons u us =>
        simp only at ih ⊢
        have : t / 1000 ≤ u / 1000 := Nat.div_le_div_right (hhead u (by simp))
        omega
    · have hcall : Limiter.call next t = (false, next) := by simp [Limiter.call, hfire]
      rw [hcall]
      simp only [Bool.false_eq_true, if_false, Nat.zero_add]
      have ih := limiter_fires_le hi ts next hs' hb'
      cases ts with
      | nil => simp [Limiter.fires]
      | cons u us =>
        simp only at ih ⊢
        omega

/-- **The in-band report is rate-limited.** Whatever the limiter's state and however many validation
failures occur: over any sequence of calls (in time order) that lie in a window `[a, a + d]`, the guarded
expression — writing the report — is evaluated at most `⌊d⌋ + 2` times (`d` in seconds; `+2` only when the
window crosses a whole-second boundary of the process clock, otherwise `⌊d⌋ + 1`). This is the bound the
harness applies to a burst of validation failures (`Limiter.windowBound`). -/
theorem c01_limiter_bound (next a d : Nat) (ts : List Nat) (hs : ts.Pairwise (· ≤ ·))
    (hw : ∀ t ∈ ts, a ≤ t ∧ t ≤ a + d) : Limiter.fires next ts ≤ Limiter.windowBound d := by
  have h := limiter_fires_le (a + d) ts next hs (fun t ht => (hw t ht).2)
  unfold Limiter.windowBound
  cases ts with
  | nil => simp [Limiter.fires]
  | cons t rest =>
    simp only at h
    have h1 : a / 1000 ≤ t / 1000 := Nat.div_le_div_right (hw t (by simp)).1
    have h2 : (a + d) / 1000 ≤ a / 1000 + d / 1000 + 1 := by omega
    omega

/-- The limiter closes for the rest of the current second after every evaluation: two evaluations are
never in the same whole second. -/
theorem c01_limiter_closes (next t : Nat) (h : (Limiter.call next t).1 = true) (u : Nat) (hu : u / 1000 = t / 1000) :
    (Limiter.call (Limiter.call next t).2 u).1 = false := by
  unfold Limiter.call at h ⊢
  by_cases hn : next ≤ t / 1000
  · simp only [hn, if_true]
    have : ¬ (t / 1000 + 1 ≤ u / 1000) := by omega
    have h1 : (t + 1000) / 1000 = t / 1000 + 1 := by omega
    simp [h1, this]
  · simp [hn] at h

/-- The seeded variant (`next := previous slot + interval` instead of `now + interval`) is NOT rate
limited in this sense: one evaluation at time 0, silence for five seconds, then five calls within 4 ms
are all evaluated — five reports in a window whose bound is two. -/
theorem c01_limiter_catchup_violates :
    Limiter.firesCatchUp 1 [5000, 5001, 5002, 5003, 5004] = 5 ∧ Limiter.windowBound 4 = 2 ∧
    Limiter.fires 1 [5000, 5001, 5002, 5003, 5004] = 1 := by decide

/-! ### Stream errors do not prevent, repeat or reorder any other entry -/

/-- the history with results and reports erased -/
def strip (log : List Obs) : List Obs :=
  log.filterMap fun
    | .next e _ => some (.next e .ok)
    | .report => none
    | o => some o

theorem strip_append (a b : List Obs) : strip (a ++ b) = strip a ++ strip b := by
  simp [strip, List.filterMap_append]

theorem strip_consumeObs (s : QState) (c : Clock) (e : Ent) : strip (consumeObs s c e) = [.next e .ok] := by
  unfold consumeObs; split <;> simp [strip]

@[simp] theorem strip_displaced (d : Ent) : strip [Obs.displaced d] = [Obs.displaced d] := rfl
@[simp] theorem strip_completed1 (i : Nat) (b : Bool) : strip [Obs.completed i b] = [Obs.completed i b] := rfl
@[simp] theorem strip_joinReturned : strip [Obs.joinReturned] = [Obs.joinReturned] := rfl
@[simp] theorem strip_flush : strip [Obs.flush] = [Obs.flush] := rfl
@[simp] theorem strip_flush_closed : strip [Obs.flush, Obs.closed] = [Obs.flush, Obs.closed] := rfl
@[simp] theorem strip_nil : strip [] = [] := rfl
@[simp] theorem strip_completed (l : List Nat) (b : Bool) :
    strip (l.map (Obs.completed · b)) = l.map (Obs.completed · b) := by
  induction l with
  | nil => rfl
  | cons x xs ih => simp_all [strip]

theorem delivered_strip (l : List Obs) : delivered (strip l) = delivered l := by
  induction l with
  | nil => rfl
  | cons o l ih =>
    cases o <;> simp_all [strip, delivered]

/-- two states that differ only in the scripted results, the subscriber flag, and the erased parts
of the history -/
def Sim (a b : QState) : Prop :=
  a.cap = b.cap ∧ a.ring = b.ring ∧ a.token = b.token ∧ a.sigs = b.sigs ∧ a.wpc = b.wpc ∧
  a.waiting = b.waiting ∧ a.ebw = b.ebw ∧ a.pushed = b.pushed ∧ a.sent = b.sent ∧
  a.shutdown = b.shutdown ∧ a.handles = b.handles ∧ a.join = b.join ∧ a.pushOrder = b.pushOrder ∧
  a.overflow = b.overflow ∧ a.marks = b.marks ∧ a.shutMark = b.shutMark ∧ a.shutHit = b.shutHit ∧
  strip a.log = strip b.log

theorem sim_step {a b a' : QState} {ev : Ev} (hs : Sim a b) (h : step a ev = some a') :
    ∃ b', step b ev = some b' ∧ Sim a' b' := by
  obtain ⟨cap, ring, token, sigs, wpc, waiting, ebw, pushed, sent, shutdown, handles, join, res, ns, log, po, ov,
    marks, sm, sh⟩ := a
  obtain ⟨cap2, ring2, token2, sigs2, wpc2, waiting2, ebw2, pushed2, sent2, shutdown2, handles2, join2, res2, ns2,
    log2, po2, ov2, marks2, sm2, sh2⟩ := b
  simp only [Sim] at hs
  obtain ⟨rfl, rfl, rfl, rfl, rfl, rfl, rfl, rfl, rfl, rfl, rfl, rfl, rfl, rfl, rfl, rfl, rfl, hlog⟩ := hs
  cases ev with
  | push p =>
    simp only [step] at h ⊢
    split at h
    · cases h
    · rename_i hh
      simp only [hh, if_false]
      split at h <;> cases h <;>
        exact ⟨_, rfl, by simp [Sim, strip_append, hlog]⟩
  | unpark p =>
    simp only [step] at h ⊢
    split at h <;> cases h
    rename_i hm
    simp only [hm, if_true]
    exact ⟨_, rfl, by simp [Sim, hlog]⟩
  | flushSend =>
    simp only [step] at h ⊢
    split at h <;> cases h <;> rename_i hm <;> simp only [hm, if_true, if_false] <;>
      exact ⟨_, rfl, by simp [Sim, strip_append, hlog]⟩
  | flushUnpark i =>
    simp only [step] at h ⊢
    split at h <;> cases h
    rename_i hm
    simp only [hm, if_true]
    exact ⟨_, rfl, by simp [Sim, hlog]⟩
  | clone =>
    simp only [step] at h ⊢
    split at h <;> cases h
    rename_i hm
    simp only [hm, if_false]
    exact ⟨_, rfl, by simp [Sim, hlog]⟩
  | dropHandle =>
    simp only [step] at h ⊢
    split at h <;> cases h
    rename_i hm
    simp only [hm, if_false]
    exact ⟨_, rfl, by simp [Sim, hlog]⟩
  | forget =>
    simp only [step] at h ⊢
    split at h <;> cases h
    rename_i hm
    simp only [hm, if_true]
    exact ⟨_, rfl, by simp [Sim, hlog]⟩
  | setSubscriber b =>
    simp only [step] at h ⊢
    cases h
    exact ⟨_, rfl, by simp [Sim, hlog]⟩
  | dropJoinBegin =>
    simp only [step] at h ⊢
    split at h <;> cases h
    rename_i hm
    simp only [hm, if_true]
    exact ⟨_, rfl, by simp [Sim, hlog]⟩
  | dropJoinUnpark =>
    simp only [step] at h ⊢
    split at h <;> cases h
    rename_i hm
    simp only [hm, if_true]
    exact ⟨_, rfl, by simp [Sim, hlog]⟩
  | dropJoinEnd =>
    simp only [step] at h ⊢
    split at h <;> cases h
    rename_i hm
    simp only [hm, if_true]
    exact ⟨_, rfl, by simp [Sim, strip_append, hlog]⟩
  | w c =>
    simp only [step] at h ⊢
    cases wpc <;> simp only [wstep] at h ⊢ <;> (repeat' split at h) <;> (try cases h) <;>
      simp_all [Sim, strip_append, strip_consumeObs]

theorem sim_run {a b a' : QState} {evs : List Ev} (hs : Sim a b) (h : run a evs = some a') :
    ∃ b', run b evs = some b' ∧ Sim a' b' := by
  induction evs generalizing a b with
  | nil => simp only [run] at h ⊢; cases h; exact ⟨b, rfl, hs⟩
  | cons ev evs ih =>
    simp only [run] at h ⊢
    split at h
    · cases h
    · rename_i a1 ha1
      obtain ⟨b1, hb1, hs1⟩ := sim_step hs ha1
      rw [hb1]
      exact ih hs1 h

/-- **Errors are local.** Run the same event sequence (same producers, same schedule, same clock)
against two different assignments of stream results (`Ok` / `Validation` / `Io`) and subscriber
settings: the second run is possible whenever the first is, and the stream receives the same
entries in the same order — in fact the whole history is the same apart from the results returned
and the in-band error reports. A failing entry therefore neither prevents, repeats nor reorders
any other entry. -/
theorem c01_errors_independent (cap : Nat) (res₁ res₂ : Ent → Res) (ns₁ ns₂ : Bool) (evs : List Ev)
    {s₁ : QState} (h : run (init cap res₁ ns₁) evs = some s₁) :
    ∃ s₂, run (init cap res₂ ns₂) evs = some s₂ ∧ delivered s₂.log = delivered s₁.log ∧
      strip s₂.log = strip s₁.log ∧ s₂.ring = s₁.ring ∧ s₂.wpc = s₁.wpc := by
  have hs : Sim (init cap res₁ ns₁) (init cap res₂ ns₂) := by simp [Sim, init]
  obtain ⟨s₂, h2, hsim⟩ := sim_run hs h
  refine ⟨s₂, h2, ?_, hsim.2.2.2.2.2.2.2.2.2.2.2.2.2.2.2.2.2.symm, hsim.2.1.symm, hsim.2.2.2.2.1.symm⟩
  rw [← delivered_strip, ← hsim.2.2.2.2.2.2.2.2.2.2.2.2.2.2.2.2.2, delivered_strip]

/-! ### The kind of an I/O error is not an input of the model

`Res.io` has no kind: whatever `io::ErrorKind` the stream returns (Other, BrokenPipe, Interrupted, WouldBlock,
TimedOut, WriteZero, UnexpectedEof, …) `consume` counts the error, logs it (rate-limited) and goes on with the
next entry, so `c01_exactly_once`, `c01_per_producer_order` and `c01_errors_independent` hold for all kinds alike.
Two decided witnesses that variants which *do* look at the kind are not refinements: -/

/-- variant of the writer that offers an entry to the stream a second time when `next` fails with an I/O error
(seeded: retry once on `Interrupted`) -/
def wstepRetry (s : QState) (c : Clock) : Option QState :=
  match s.wpc with
  | .holding e _ => if s.res e = .io then (wstep s c).map fun s' => { s' with log := s'.log ++ [.next e .ok] } else wstep s c
  | _ => wstep s c

/-- variant that puts the entry back at the tail of the ring when `next` fails with an I/O error and there
is room (seeded: `queue.push(entry)` on `Interrupted` / `WouldBlock`) -/
def wstepRequeue (s : QState) (c : Clock) : Option QState :=
  match s.wpc with
  | .holding e _ =>
    if s.res e = .io ∧ s.ring.length < s.cap ∧ e ∉ delivered s.log then
      (wstep s c).map fun s' => { s' with ring := s'.ring ++ [e] }
    else wstep s c
  | _ => wstep s c

def ioClock : Clock := ⟨false, false, false, false⟩

def wrunWith (f : QState → Clock → Option QState) (c : Clock) : Nat → QState → QState
  | 0, s => s
  | n + 1, s => match f s c with
    | some s' => wrunWith f c n s'
    | none => s

/-- two entries pushed, the first fails with an I/O error; then the writer runs alone -/
def ioKindStart : Option QState :=
  run (init 4 (fun e => if e.2 = 0 then .io else .ok) true) [.push 0, .push 0]

/-- **Retry-on-kind violates exactly-once**: the real writer hands `[e0, e1]` to the stream, the retrying
variant `[e0, e0, e1]`. -/
theorem c01_retry_variant_violates :
    ioKindStart.map (fun s => delivered (wrunWith wstep ioClock 8 s).log) = some [(0, 0), (0, 1)] ∧
    ioKindStart.map (fun s => delivered (wrunWith wstepRetry ioClock 8 s).log) = some [(0, 0), (0, 0), (0, 1)] := by
  decide

/-- **Requeue-on-kind violates order (and exactly-once)**: the re-queued entry reaches the stream again,
after the entry that was appended after it. -/
theorem c01_requeue_variant_violates :
    ioKindStart.map (fun s => delivered (wrunWith wstepRequeue ioClock 10 s).log) = some [(0, 0), (0, 1), (0, 0)] := by
  decide

/-! ### No lost wake-up -/

/-- writer states from which it reaches `park` without looking at the ring again -/
def headingToPark : WPc → Bool
  | .afterDrain .drained _ => true
  | .postHww .drained => true
  | .parking => true
  | _ => false

/-- The wake-up invariant: if the writer has seen the ring empty and is on its way to (or inside)
`park`, and the ring is not empty any more, then the wake-up is not lost: the Parker token is set or
some producer is still between its `force_push` and its `unpark`. -/
def NoLostWakeup (s : QState) : Prop :=
  headingToPark s.wpc = true → s.ring ≠ [] → s.token = true ∨ s.pushed ≠ []

theorem nlw_step {s s' : QState} {ev : Ev} (hi : NoLostWakeup s) (h : step s ev = some s') : NoLostWakeup s' := by
  unfold NoLostWakeup at *
  cases ev with
  | push p =>
    simp only [step] at h
    split at h
    · cases h
    · split at h <;> cases h <;> simp
  | unpark p => simp only [step] at h; split at h <;> cases h; simp
  | flushSend =>
    simp only [step] at h
    split at h <;> cases h <;> exact hi
  | flushUnpark i => simp only [step] at h; split at h <;> cases h; simp
  | clone => simp only [step] at h; split at h <;> cases h; exact hi
  | dropHandle => simp only [step] at h; split at h <;> cases h; exact hi
  | forget => simp only [step] at h; split at h <;> cases h; exact hi
  | setSubscriber b => simp only [step] at h; cases h; exact hi
  | dropJoinBegin => simp only [step] at h; split at h <;> cases h; exact hi
  | dropJoinUnpark => simp only [step] at h; split at h <;> cases h; simp
  | dropJoinEnd => simp only [step] at h; split at h <;> cases h; exact hi
  | w c =>
    simp only [step] at h
    unfold wstep at h
    split at h
    · rename_i n hpc
      split at h
      · rename_i hr; cases h; simp [hr]
      · cases h; simp [headingToPark]
    · cases h; dsimp only; split <;> simp [headingToPark]
    · rename_i st n hpc
      cases h
      rw [hpc] at hi
      cases st <;> simp_all [headingToPark]
    · rename_i st hpc
      rw [hpc] at hi
      split at h
      · cases h; simp [headingToPark]
      · split at h
        · cases h; simp [headingToPark]
        · split at h <;> cases h
          · simp [headingToPark]
          · cases st <;> simp_all [headingToPark]
    · split at h
      · cases h; simp [headingToPark]
      · split at h
        · cases h; simp [headingToPark]
        · cases h
    · split at h <;> cases h <;> simp [headingToPark]
    · cases h; simp [headingToPark]
    · split at h <;> cases h <;> simp [headingToPark]
    · split at h <;> cases h <;> simp [headingToPark]
    · split at h <;> cases h <;> simp [headingToPark]
    · cases h; dsimp only; split <;> simp [headingToPark]
    · cases h; simp [headingToPark]
    · cases h

/-- **No lost wake-up.** In every reachable state: a non-empty ring together with a writer that is
inside `park` (or heading there after having seen the ring empty) implies that the token is set or
a producer is about to `unpark`. So an entry can never sit in the ring with everybody asleep. -/
theorem c01_no_lost_wakeup {s : QState} (hr : Reachable s) (hne : s.ring ≠ []) :
    headingToPark s.wpc = false ∨ s.token = true ∨ s.pushed ≠ [] := by
  have : NoLostWakeup s :=
    Reachable.inv (P := NoLostWakeup) (by intro cap res ns; simp [NoLostWakeup, init])
      (fun _ _ _ _ hi h => nlw_step hi h) hr
  cases hp : headingToPark s.wpc with
  | false => exact .inl rfl
  | true => exact .inr (this hp hne)

/-- **Quiescence means delivered.** If all producers have finished their `append` calls, the writer
is blocked in `park` and no token is pending, the ring is empty; if moreover nothing overflowed, the
stream has received every pushed entry, in push order. -/
theorem c01_quiescent_all_delivered {s : QState} (hr : Reachable s) (hp : s.pushed = [])
    (hw : s.wpc = .parking) (ht : s.token = false) :
    s.ring = [] ∧ (s.overflow = 0 → delivered s.log = s.pushOrder) := by
  have hring : s.ring = [] := by
    cases hrr : s.ring with
    | nil => rfl
    | cons e t =>
      have := c01_no_lost_wakeup hr (by rw [hrr]; simp)
      rw [hw, ht, hp] at this
      simp [headingToPark] at this
  refine ⟨hring, fun h0 => ?_⟩
  have := (c01_exactly_once hr h0).1
  rw [hw, hring] at this
  simpa [holding] using this

/-- **Trace specification (T-trace).** The executable predicate the driver evaluates on histories of
real multi-threaded runs holds of every reachable state of the model without overflow: each producer's
delivered entries are a prefix of that producer's pushes; and all of them once the queue is drained
(nothing in flight). -/
theorem c01_spec_accepts {s : QState} (hr : Reachable s) (h0 : s.overflow = 0) (n : Nat)
    (hn : ∀ e ∈ s.pushOrder, e.1 < n) :
    Spec.acceptOrder n s.pushOrder (delivered s.log) false false = true ∧
    (holding s.wpc = [] → s.ring = [] → Spec.acceptOrder n s.pushOrder (delivered s.log) false true = true) := by
  have hex := (c01_exactly_once hr h0).1
  have hsub : ∀ e ∈ delivered s.log, e.1 < n := by
    intro e he; exact hn e (by rw [← hex]; simp [he])
  constructor
  · simp only [Spec.acceptOrder, Bool.and_eq_true, List.all_eq_true]
    refine ⟨fun p _ => ?_, fun e he => by simpa using hsub e he⟩
    simp only [Spec.producerPrefix, Spec.ofProducer, Bool.false_eq_true, if_false]
    exact List.isPrefixOf_iff_prefix.mpr (c01_per_producer_order hr h0 p)
  · intro hh hr0
    rw [hh, hr0] at hex
    simp only [List.append_nil] at hex
    simp only [Spec.acceptOrder, Bool.and_eq_true, List.all_eq_true]
    refine ⟨fun p _ => ?_, fun e he => by simpa using hsub e he⟩
    simp [Spec.producerPrefix, hex]

/-! ## Non-vacuity: three producers, seven events -/

def nvClock1 : Clock := ⟨false, false, false, true⟩

def nvRun1 : Option QState :=
  run (init 4 (fun e => if e.2 = 0 then .validation else .ok) true)
    [.push 0, .push 1, .w nvClock1, .unpark 1, .w nvClock1, .push 2, .w nvClock1, .w nvClock1, .unpark 0]

example : (nvRun1.map fun s => (delivered s.log, holding s.wpc, s.ring, s.overflow, s.log.contains .report)) =
    some ([(0, 0), (1, 1)], [], [(2, 2)], 0, true) := by decide

end Queue

#print axioms Queue.c01_exactly_once
#print axioms Queue.c01_per_producer_order
#print axioms Queue.c01_only_reports_extra
#print axioms Queue.c01_report_only_without_subscriber
#print axioms Queue.c01_set_subscriber
#print axioms Queue.c01_limiter_bound
#print axioms Queue.c01_limiter_closes
#print axioms Queue.c01_limiter_catchup_violates
#print axioms Queue.c01_retry_variant_violates
#print axioms Queue.c01_requeue_variant_violates
#print axioms Queue.c01_errors_independent
#print axioms Queue.c01_no_lost_wakeup
#print axioms Queue.c01_quiescent_all_delivered
#print axioms Queue.c01_spec_accepts
