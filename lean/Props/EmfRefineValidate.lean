import Props.EmfRefineSort
import Props.C03
import Props.C08Lemmas
/-!
Stage 1 of the refinement: the validation state machine of the operational model (`Emf.Writer`:
`errors`, `vmap`, flags, the keys and indexes of the dimension-set map) simulates the validation state
machine of the declarative model (`EmfSpec.VState`), item by item.
-/
namespace EmfRefine
open EmfSpec

variable {F : Type}

def kconv : Kind → Emf.LineKind
  | .string => .string
  | .metric i => .metric i
  | .unfound => .unfoundDim

/-! ### the two name maps -/

theorem emf_find_set (m : Emf.VMap) (k q : List Nat) (v : Emf.LineKind) :
    Emf.VMap.find? (Emf.VMap.set m k v) q = if q = k then some v else Emf.VMap.find? m q := by
  induction m with
  | nil =>
    simp only [Emf.VMap.set, Emf.VMap.find?]
    by_cases h : k = q
    · simp [h]
    · have : ¬ q = k := fun e => h e.symm
      simp [h, this]
  | cons p rest ih =>
    obtain ⟨k0, v0⟩ := p
    simp only [Emf.VMap.set]
    by_cases h0 : k0 = k
    · subst h0
      simp only [if_true, Emf.VMap.find?]
      by_cases h : k0 = q
      · simp [h]
      · have : ¬ q = k0 := fun e => h e.symm
        simp [h, this]
    · simp only [h0, if_false, Emf.VMap.find?, ih]
      by_cases h : k0 = q
      · have : ¬ q = k := fun e => h0 (h.trans e)
        simp [h, this]
      · simp [h]

theorem emf_find_none (m : Emf.VMap) (q : List Nat) :
    Emf.VMap.find? m q = none ↔ q ∉ m.map (·.1) := by
  induction m with
  | nil => simp [Emf.VMap.find?]
  | cons p rest ih =>
    obtain ⟨k0, v0⟩ := p
    simp only [Emf.VMap.find?, List.map_cons, List.mem_cons, not_or]
    by_cases h : k0 = q
    · simp [h]
    · have : ¬ q = k0 := fun e => h e.symm
      simp [h, this, ih]

theorem emf_keys_set (m : Emf.VMap) (k : List Nat) (v : Emf.LineKind) :
    (Emf.VMap.set m k v).map (·.1) = if k ∈ m.map (·.1) then m.map (·.1) else m.map (·.1) ++ [k] := by
  induction m with
  | nil => simp [Emf.VMap.set]
  | cons p rest ih =>
    obtain ⟨k0, v0⟩ := p
    simp only [Emf.VMap.set]
    by_cases h0 : k0 = k
    · simp [h0]
    · have : ¬ k = k0 := fun e => h0 e.symm
      simp only [h0, if_false, List.map_cons, ih, List.mem_cons, this, false_or]
      split <;> simp

theorem spec_get_set (m : EmfSpec.VMap) (k q : Str) (v : Kind) :
    (m.set k v).get q = if q = k then some v else m.get q := by
  simp only [EmfSpec.VMap.get, EmfSpec.VMap.set, List.find?_cons]
  by_cases h : k = q
  · simp [h]
  · have : ¬ q = k := fun e => h e.symm
    have hb : (k == q) = false := by simpa using h
    simp [hb, this]

theorem spec_get_none (m : EmfSpec.VMap) (q : Str) : m.get q = none ↔ q ∉ m.map (·.1) := by
  simp only [EmfSpec.VMap.get, Option.map_eq_none_iff, List.find?_eq_none, List.mem_map, not_exists, not_and]
  constructor
  · intro h x hx e
    have := h x hx
    simp [e] at this
  · intro h x hx
    have := h x hx
    simpa using this

structure VRel (m : Emf.VMap) (m' : EmfSpec.VMap) : Prop where
  look : ∀ k, Emf.VMap.find? m k = (m'.get k).map kconv
  nodup : (m.map (·.1)).Nodup

theorem VRel.nil : VRel [] [] := ⟨fun _ => rfl, List.nodup_nil⟩

theorem VRel.set {m : Emf.VMap} {m' : EmfSpec.VMap} (h : VRel m m') (k : List Nat) (v : Kind) :
    VRel (Emf.VMap.set m k (kconv v)) (m'.set k v) := by
  refine ⟨?_, ?_⟩
  · intro q
    rw [emf_find_set, spec_get_set, h.look]
    split <;> rfl
  · rw [emf_keys_set]
    split
    · exact h.nodup
    · rename_i hk
      exact List.nodup_append.mpr ⟨h.nodup, by simp, by
        intro a ha b hb
        simp only [List.mem_singleton] at hb
        subst hb
        intro e; subst e; exact hk ha⟩

theorem kconv_eq_unfound (x : Option Kind) : x.map kconv = some .unfoundDim ↔ x = some .unfound := by
  cases x with
  | none => simp
  | some k => cases k <;> simp [kconv]

/-- the number of `UnfoundDimension` entries is the same -/
theorem VRel.unfound_count {m : Emf.VMap} {m' : EmfSpec.VMap} (h : VRel m m') :
    (m.filter (fun kv => decide (kv.2 = Emf.LineKind.unfoundDim))).length =
    ((dedup (m'.map (·.1))).filter fun d => m'.get d == some Kind.unfound).length := by
  -- count over the keys of `m`
  have h1 : ∀ (l : Emf.VMap), (l.map (·.1)).Nodup →
      (l.filter (fun kv => decide (kv.2 = Emf.LineKind.unfoundDim))).length =
      ((l.map (·.1)).filter fun k => decide (Emf.VMap.find? l k = some .unfoundDim)).length := by
    intro l
    induction l with
    | nil => simp
    | cons p rest ih =>
      obtain ⟨k0, v0⟩ := p
      intro hn
      simp only [List.map_cons, List.nodup_cons] at hn
      have hrest : (rest.map (·.1)).filter (fun k => decide (Emf.VMap.find? ((k0, v0) :: rest) k = some .unfoundDim))
          = (rest.map (·.1)).filter (fun k => decide (Emf.VMap.find? rest k = some .unfoundDim)) := by
        apply List.filter_congr
        intro k hk
        have : ¬ k0 = k := fun e => hn.1 (e ▸ hk)
        simp [Emf.VMap.find?, this]
      have hhead : Emf.VMap.find? ((k0, v0) :: rest) k0 = some v0 := by simp [Emf.VMap.find?]
      rw [List.map_cons, List.filter_cons, List.filter_cons, hrest, hhead]
      by_cases hv : v0 = Emf.LineKind.unfoundDim
      · simp [hv, ih hn.2]
      · simp [hv, ih hn.2]
  rw [h1 m h.nodup]
  have hperm : (m.map (·.1)).Perm (dedup (m'.map (·.1))) := by
    rw [List.perm_ext_iff_of_nodup h.nodup (dedup_nodup _)]
    intro a
    rw [dedup_mem]
    have := h.look a
    constructor
    · intro ha
      have h1 : Emf.VMap.find? m a ≠ none := fun e => (emf_find_none m a).mp e ha
      have h2 : m'.get a ≠ none := by
        intro e; rw [e] at this; exact h1 this
      exact Classical.not_not.mp fun hn => h2 ((spec_get_none m' a).mpr hn)
    · intro ha
      have h2 : m'.get a ≠ none := fun e => (spec_get_none m' a).mp e ha
      have h1 : Emf.VMap.find? m a ≠ none := by
        intro e; rw [e] at this
        cases hg : m'.get a with
        | none => exact h2 hg
        | some x => rw [hg] at this; simp at this
      exact Classical.not_not.mp fun hn => h1 ((emf_find_none m a).mpr hn)
  rw [(hperm.filter _).length_eq]
  congr 1
  apply List.filter_congr
  intro k _
  rw [h.look k]
  have := kconv_eq_unfound (m'.get k)
  by_cases hk : m'.get k = some Kind.unfound
  · simp [hk, kconv]
  · have h' : ¬ (m'.get k).map kconv = some Emf.LineKind.unfoundDim := fun e => hk (this.mp e)
    simp [hk, h']

/-! ### the dimension-set map -/

theorem dimFind_none (m : List Emf.DimEntry) (k : Emf.DimKey) :
    Emf.dimFind? m k = none ↔ k ∉ m.map (·.key) := by
  induction m with
  | nil => simp [Emf.dimFind?]
  | cons e rest ih =>
    simp only [Emf.dimFind?, List.map_cons, List.mem_cons, not_or]
    by_cases h : e.key = k
    · simp [h]
    · have : ¬ k = e.key := fun x => h x.symm
      simp [h, this, ih]

theorem dimFind_some {m : List Emf.DimEntry} {k : Emf.DimKey} {e : Emf.DimEntry}
    (h : Emf.dimFind? m k = some e) : e ∈ m ∧ e.key = k := by
  induction m with
  | nil => simp [Emf.dimFind?] at h
  | cons x rest ih =>
    simp only [Emf.dimFind?] at h
    by_cases hx : x.key = k
    · simp only [hx, if_true, Option.some.injEq] at h
      subst h; exact ⟨List.mem_cons_self, hx⟩
    · simp only [hx, if_false] at h
      exact ⟨List.mem_cons_of_mem _ (ih h).1, (ih h).2⟩

theorem dimSet_absent (m : List Emf.DimEntry) (e : Emf.DimEntry) (h : e.key ∉ m.map (·.key)) :
    Emf.dimSet m e = m ++ [e] := by
  induction m with
  | nil => rfl
  | cons x rest ih =>
    simp only [List.map_cons, List.mem_cons, not_or] at h
    have : ¬ x.key = e.key := fun c => h.1 c.symm
    simp [Emf.dimSet, this, ih h.2]

/-- replacing the entry that `dimFind?` found (same key, same index) keeps keys and indexes -/
theorem dimSet_present (m : List Emf.DimEntry) (e e0 : Emf.DimEntry) (h : Emf.dimFind? m e.key = some e0)
    (hi : e.index = e0.index) :
    (Emf.dimSet m e).map (·.key) = m.map (·.key) ∧
    ∀ x ∈ Emf.dimSet m e, x ∈ m ∨ (x.key = e0.key ∧ x.index = e0.index) := by
  induction m with
  | nil => simp [Emf.dimFind?] at h
  | cons x rest ih =>
    simp only [Emf.dimFind?] at h
    by_cases hx : x.key = e.key
    · simp only [hx, if_true, Option.some.injEq] at h
      subst h
      simp only [Emf.dimSet, hx, if_true, List.map_cons, true_and]
      intro y hy
      rcases List.mem_cons.mp hy with hy | hy
      · exact Or.inr ⟨by rw [hy], by rw [hy]; exact hi⟩
      · exact Or.inl (List.mem_cons_of_mem _ hy)
    · simp only [hx, if_false] at h
      obtain ⟨h1, h2⟩ := ih h
      simp only [Emf.dimSet, hx, if_false, List.map_cons, h1, true_and]
      intro y hy
      rcases List.mem_cons.mp hy with rfl | hy
      · exact Or.inl List.mem_cons_self
      · rcases h2 y hy with h | h
        · exact Or.inl (List.mem_cons_of_mem _ h)
        · exact Or.inr h

theorem indexOfKey_append_mem (k : Key) (ks : List Key) (x : Key) (h : k ∈ ks) :
    indexOfKey k (ks ++ [x]) = indexOfKey k ks := by
  induction ks with
  | nil => simp at h
  | cons y ys ih =>
    simp only [List.cons_append, indexOfKey]
    by_cases hy : y = k
    · simp [hy]
    · have : k ∈ ys := by
        rcases List.mem_cons.mp h with h | h
        · exact absurd h.symm hy
        · exact h
      simp [hy, ih this]

theorem indexOfKey_append_new (k : Key) (ks : List Key) (h : k ∉ ks) :
    indexOfKey k (ks ++ [k]) = ks.length := by
  induction ks with
  | nil => simp [indexOfKey]
  | cons y ys ih =>
    simp only [List.mem_cons, not_or] at h
    have : ¬ y = k := fun c => h.1 c.symm
    simp [indexOfKey, this, ih h.2]

/-! ### the simulation relation -/

/-- the name-map side: errors, flags, name map -/
structure SimV (w : Emf.Writer) (st : VState) : Prop where
  errs : w.errors = st.errs.map errKind
  ts : w.timestamp.isSome = st.tsSeen
  dims : w.entryDims.isSome = st.dimsSet
  split : w.allowSplit = st.split
  unr : w.unroutable = st.unroutable
  vmap : VRel w.vmap st.vmap

/-- the routing side: keys of `dimension_set_map` in insertion order, and their indexes -/
structure SimK (dm : List Emf.DimEntry) (keys : List Key) : Prop where
  ks : dm.map (·.key) = keys
  ix : ∀ e ∈ dm, e.index = indexOfKey e.key keys + 1

structure Sim (w : Emf.Writer) (st : VState) : Prop where
  v : SimV w st
  k : SimK w.st.dimMap st.keys

theorem SimV.err {w : Emf.Writer} {st : VState} (h : SimV w st) (e : Err) : SimV (w.err (errKind e)) (st.err e) := by
  refine ⟨?_, h.ts, h.dims, h.split, h.unr, h.vmap⟩
  simp [Emf.Writer.err, VState.err, h.errs]

theorem Sim.err {w : Emf.Writer} {st : VState} (h : Sim w st) (e : Err) : Sim (w.err (errKind e)) (st.err e) :=
  ⟨h.v.err e, h.k⟩

/-- only the buffers changed -/
theorem SimV.of_eq {w w' : Emf.Writer} {st st' : VState} (h : SimV w st)
    (h1 : w'.errors = w.errors) (h2 : w'.timestamp = w.timestamp) (h3 : w'.entryDims.isSome = w.entryDims.isSome)
    (h4 : w'.allowSplit = w.allowSplit) (h5 : w'.unroutable = w.unroutable) (h6 : w'.vmap = w.vmap)
    (g1 : st'.errs = st.errs) (g2 : st'.tsSeen = st.tsSeen) (g3 : st'.dimsSet = st.dimsSet)
    (g4 : st'.split = st.split) (g5 : st'.unroutable = st.unroutable) (g6 : st'.vmap = st.vmap) : SimV w' st' :=
  ⟨by rw [h1, g1]; exact h.errs, by rw [h2, g2]; exact h.ts, by rw [h3, g3]; exact h.dims,
   by rw [h4, g4]; exact h.split, by rw [h5, g5]; exact h.unr, by rw [h6, g6]; exact h.vmap⟩

theorem SimK.present {dm : List Emf.DimEntry} {keys : List Key} (h : SimK dm keys) (e e0 : Emf.DimEntry)
    (hf : Emf.dimFind? dm e.key = some e0) (hi : e.index = e0.index) : SimK (Emf.dimSet dm e) keys := by
  obtain ⟨p1, p2⟩ := dimSet_present dm e e0 hf hi
  obtain ⟨hmem, _⟩ := dimFind_some hf
  refine ⟨p1.trans h.ks, ?_⟩
  intro x hx
  rcases p2 x hx with hx | ⟨hx1, hx2⟩
  · exact h.ix x hx
  · rw [hx1, hx2]; exact h.ix e0 hmem

theorem SimK.absent {dm : List Emf.DimEntry} {keys : List Key} (h : SimK dm keys) (e : Emf.DimEntry)
    (hk : e.key ∉ keys) (hi : e.index = keys.length + 1) : SimK (Emf.dimSet dm e) (keys ++ [e.key]) := by
  have hk' : e.key ∉ dm.map (·.key) := by rw [h.ks]; exact hk
  rw [dimSet_absent dm e hk']
  refine ⟨by simp [h.ks], ?_⟩
  intro x hx
  rcases List.mem_append.mp hx with hx | hx
  · have : x.key ∈ keys := by rw [← h.ks]; exact List.mem_map.mpr ⟨x, hx, rfl⟩
    rw [indexOfKey_append_mem _ _ _ this]; exact h.ix x hx
  · simp only [List.mem_singleton] at hx
    subst hx
    rw [indexOfKey_append_new _ _ hk, hi]

/-- the facts about the constants of `build()` the simulation needs -/
structure CRel (c : Emf.Consts) (cfg : Config) (sw : Switches) : Prop where
  su : c.validation.skipUnique = sw.skipUnique
  sd : c.validation.skipDimsExist = sw.skipDimsExist
  sn : c.validation.skipNames = sw.skipNames
  ai : c.allowIgnored = cfg.allowIgnored
  base : c.vmapBase = Emf.vmapBaseOf cfg.defaultDims

theorem CRel.ofConfig (cfg : Config) (sw : Switches) : CRel (Emf.Consts.ofConfig (toEmfCfg cfg sw)) cfg sw :=
  ⟨rfl, rfl, rfl, rfl, rfl⟩

theorem simV_entryDimsValidate {c : Emf.Consts} {cfg : Config} {sw : Switches} (hc : CRel c cfg sw)
    {w : Emf.Writer} {st : VState} (h : SimV w st) (d : Str) :
    SimV (Emf.entryDimsValidate c w d) (dimsStep sw st d) := by
  unfold Emf.entryDimsValidate dimsStep
  have hl := h.vmap.look d
  cases hg : st.vmap.get d with
  | none =>
    rw [hg] at hl
    simp only [hl, Option.map_none]
    exact { h with vmap := h.vmap.set d .unfound }
  | some k =>
    rw [hg] at hl
    cases k with
    | string => simp only [hl, Option.map_some, kconv]; exact h
    | unfound => simp only [hl, Option.map_some, kconv]; exact h
    | metric i =>
      simp only [hl, Option.map_some, kconv, hc.su]
      cases sw.skipUnique with
      | true => simpa using h
      | false => simpa [errKind] using h.err (.duplicate d)

theorem entryDimsValidate_st (c : Emf.Consts) (w : Emf.Writer) (d : Str) :
    (Emf.entryDimsValidate c w d).st = w.st ∧ (Emf.entryDimsValidate c w d).entryDims = w.entryDims := by
  unfold Emf.entryDimsValidate
  split
  · exact ⟨rfl, rfl⟩
  · exact ⟨rfl, rfl⟩
  · split <;> exact ⟨rfl, rfl⟩
  · exact ⟨rfl, rfl⟩

theorem sim_foldl_entryDims {c : Emf.Consts} {cfg : Config} {sw : Switches} (hc : CRel c cfg sw)
    (ds : List Str) {w : Emf.Writer} {st : VState} (h : Sim w st) :
    Sim (ds.foldl (Emf.entryDimsValidate c) w) (ds.foldl (dimsStep sw) st) ∧
    (ds.foldl (Emf.entryDimsValidate c) w).st = w.st := by
  induction ds generalizing w st with
  | nil => exact ⟨h, rfl⟩
  | cons d ds ih =>
    have hk : (dimsStep sw st d).keys = st.keys := congrArg Frame.keys (dimsStep_frame sw st d).1
    have h1 : Sim (Emf.entryDimsValidate c w d) (dimsStep sw st d) :=
      ⟨simV_entryDimsValidate hc h.v d, by rw [(entryDimsValidate_st c w d).1, hk]; exact h.k⟩
    obtain ⟨a, b⟩ := ih h1
    exact ⟨a, b.trans (entryDimsValidate_st c w d).1⟩

theorem simV_validateString {sw : Switches} (hsu : sw.skipUnique = false) {w : Emf.Writer} {st : VState}
    (h : SimV w st) (name : Str) :
    SimV (Emf.validateString w name) (stepString sw st name) := by
  unfold Emf.validateString stepString
  simp only [hsu, Bool.false_eq_true, if_false]
  have hl := h.vmap.look name
  cases hg : st.vmap.get name with
  | none =>
    rw [hg] at hl
    simp only [hl, Option.map_none]
    exact { h with vmap := h.vmap.set name .string }
  | some k =>
    rw [hg] at hl
    cases k with
    | string => simp only [hl, Option.map_some, kconv]; exact h.err (.duplicate name)
    | metric i => simp only [hl, Option.map_some, kconv]; exact h.err (.duplicate name)
    | unfound =>
      simp only [hl, Option.map_some, kconv]
      exact { h with vmap := h.vmap.set name .string }

theorem validateString_st (w : Emf.Writer) (name : Str) : (Emf.validateString w name).st = w.st := by
  unfold Emf.validateString
  split <;> rfl

theorem simV_metricCheck {c : Emf.Consts} {cfg : Config} {sw : Switches} (hc : CRel c cfg sw)
    {w : Emf.Writer} {st : VState} (h : SimV w st) (name : Str) (index : Nat) :
    SimV (Emf.metricCheck c w name index) (mapStep sw st name index) := by
  unfold Emf.metricCheck mapStep
  rw [hc.su, h.unr, ← Bool.not_or]
  by_cases hcond : (sw.skipUnique || st.unroutable) = true
  · simp only [hcond, Bool.not_true, Bool.false_eq_true, if_false, if_true]
    exact h
  · have hcond' : (sw.skipUnique || st.unroutable) = false := by simpa using hcond
    simp only [hcond', Bool.not_false, if_true, Bool.false_eq_true, if_false]
    unfold Emf.validateMetric
    have hl := h.vmap.look name
    cases hg : st.vmap.get name with
    | none =>
      rw [hg] at hl
      simp only [hl, Option.map_none]
      exact { h with vmap := h.vmap.set name (.metric [index]) }
    | some k =>
      rw [hg] at hl
      cases k with
      | string => simp only [hl, Option.map_some, kconv]; exact h.err (.duplicate name)
      | unfound => simp only [hl, Option.map_some, kconv]; exact h.err (.metricInDimension name)
      | metric idxs =>
        simp only [hl, Option.map_some, kconv, List.contains_eq_mem, decide_eq_true_eq]
        by_cases hm : index ∈ idxs
        · simp only [hm, if_true]; exact h.err (.duplicate name)
        · simp only [hm, if_false]
          exact { h with vmap := h.vmap.set name (.metric (index :: idxs)) }

theorem metricCheck_st (c : Emf.Consts) (w : Emf.Writer) (name : Str) (i : Nat) :
    (Emf.metricCheck c w name i).st = w.st ∧ (Emf.metricCheck c w name i).entryDims = w.entryDims := by
  unfold Emf.metricCheck Emf.validateMetric
  split
  · split
    · exact ⟨rfl, rfl⟩
    · exact ⟨rfl, rfl⟩
    · split <;> exact ⟨rfl, rfl⟩
    · exact ⟨rfl, rfl⟩
  · exact ⟨rfl, rfl⟩

theorem mapStep_keys (sw : Switches) (st : VState) (n : Str) (i : Nat) : (mapStep sw st n i).keys = st.keys :=
  congrArg Frame.keys (mapStep_frame sw st n i).1

/-- the metric arm: `ValueWriter::metric` against `stepMetric` -/
theorem sim_valueMetric {c : Emf.Consts} {cfg : Config} {sw : Switches} (hc : CRel c cfg sw) (mult : Option Nat)
    {w : Emf.Writer} {st : VState} (h : Sim w st) (name : Str) (obs : List Emf.Obs) (m : Metric F) :
    Sim (Emf.valueMetric c mult w name obs m.unit m.dims (toEmfFlags m.flag)) (stepMetric cfg sw st name m) := by
  rw [stepMetric_eq]
  unfold Emf.valueMetric Emf.valueMetricCore Emf.metricPreCheck routeStep
  rw [hc.ai, h.v.split]
  simp only
  cases hg : (cfg.allowIgnored || m.dims.isEmpty) with
  | true =>
    simp only [Bool.not_true, Bool.false_and, Bool.false_eq_true, if_false, if_true]
    refine ⟨(simV_metricCheck hc h.v name 0).of_eq rfl rfl rfl rfl rfl rfl rfl rfl rfl rfl rfl rfl, ?_⟩
    simp only [Emf.metricGlobalWrite, (metricCheck_st c w name 0).1, mapStep_keys]
    exact h.k
  | false =>
    simp only [Bool.not_false, Bool.true_and, Bool.false_eq_true, if_false]
    -- the state after the per-metric-dimensions check
    have hpre : Sim (if (!st.split) = true then w.err .perMetricDims else w)
        (if (!st.split) = true then st.err (.perMetricDims name) else st) := by
      split
      · exact h.err (.perMetricDims name)
      · exact h
    generalize (if (!st.split) = true then w.err Emf.ErrKind.perMetricDims else w) = w1 at hpre
    generalize (if (!st.split) = true then st.err (.perMetricDims name) else st) = st1 at hpre
    rw [dimKeyOf_eq_sortKey]
    unfold Emf.metricSplitWrite Emf.dimEntryFor
    cases hf : Emf.dimFind? w1.st.dimMap (sortKey m.dims) with
    | some e0 =>
      obtain ⟨hmem, hkey⟩ := dimFind_some hf
      have hin : sortKey m.dims ∈ st1.keys := by
        rw [← hpre.k.ks]; exact List.mem_map.mpr ⟨e0, hmem, hkey⟩
      simp only [hin, if_true]
      have hidx : e0.index = indexOfKey (sortKey m.dims) st1.keys + 1 := by
        rw [hpre.k.ix e0 hmem, hkey]
      rw [hidx]
      have hs := simV_metricCheck hc hpre.v name (indexOfKey (sortKey m.dims) st1.keys + 1)
      have hst := (metricCheck_st c w1 name (indexOfKey (sortKey m.dims) st1.keys + 1)).1
      generalize Emf.metricCheck c w1 name (indexOfKey (sortKey m.dims) st1.keys + 1) = w2 at hs hst
      refine ⟨hs.of_eq rfl rfl rfl rfl rfl rfl rfl rfl rfl rfl rfl rfl, ?_⟩
      simp only [mapStep_keys, hst]
      exact hpre.k.present _ e0 (by simpa [hkey] using hf) hidx.symm
    | none =>
      have hnin : sortKey m.dims ∉ st1.keys := by
        rw [← hpre.k.ks]; exact (dimFind_none _ _).mp hf
      simp only [hnin, if_false]
      have hlen : w1.st.dimMap.length = st1.keys.length := by
        rw [← hpre.k.ks, List.length_map]
      have hnew : (Emf.DimEntry.new c.ns0 (w1.entryDims.getD c.eachDims) (sortKey m.dims) (w1.st.dimMap.length + 1)).index
          = st1.keys.length + 1 := by simp [Emf.DimEntry.new, hlen]
      have hnewk : (Emf.DimEntry.new c.ns0 (w1.entryDims.getD c.eachDims) (sortKey m.dims) (w1.st.dimMap.length + 1)).key
          = sortKey m.dims := rfl
      generalize Emf.DimEntry.new c.ns0 (w1.entryDims.getD c.eachDims) (sortKey m.dims) (w1.st.dimMap.length + 1) = e0
        at hnew hnewk
      rw [hnew]
      have hv1 : SimV w1 { st1 with keys := st1.keys ++ [sortKey m.dims] } :=
        hpre.v.of_eq rfl rfl rfl rfl rfl rfl rfl rfl rfl rfl rfl rfl
      have hs := simV_metricCheck hc hv1 name (st1.keys.length + 1)
      have hst := (metricCheck_st c w1 name (st1.keys.length + 1)).1
      generalize Emf.metricCheck c w1 name (st1.keys.length + 1) = w2 at hs hst
      refine ⟨hs.of_eq rfl rfl rfl rfl rfl rfl rfl rfl rfl rfl rfl rfl, ?_⟩
      simp only [mapStep_keys, hst]
      have := hpre.k.absent
        { e0 with fieldsBuf := (Emf.writeMetric name e0.fieldsBuf e0.metricsBuf w1.st.countsBuf obs m.unit
                                  (toEmfFlags m.flag) mult).1,
                  metricsBuf := (Emf.writeMetric name e0.fieldsBuf e0.metricsBuf w1.st.countsBuf obs m.unit
                                  (toEmfFlags m.flag) mult).2.1 }
        (by simpa [hnewk] using hnin) (by simpa using hnew)
      simpa [hnewk, hnew] using this

theorem sim_valueString {c : Emf.Consts} {cfg : Config} {sw : Switches} (hc : CRel c cfg sw)
    {w : Emf.Writer} {st : VState} (h : Sim w st) (name s : Str) :
    Sim (Emf.valueString c w name s) (stepString sw st name) := by
  have hk : (stepString sw st name).keys = st.keys := congrArg Frame.keys (stepString_frame sw st name).1
  have hp : SimV (Emf.pushStringField w name s) st := h.v.of_eq rfl rfl rfl rfl rfl rfl rfl rfl rfl rfl rfl rfl
  unfold Emf.valueString
  rw [hc.su]
  cases hsu : sw.skipUnique with
  | true =>
    have : stepString sw st name = st := by simp [stepString, hsu]
    rw [this]
    exact ⟨hp, h.k⟩
  | false =>
    simp only [Bool.not_false, if_true]
    refine ⟨simV_validateString hsu hp name, ?_⟩
    rw [validateString_st, hk]
    exact h.k

theorem awsName_eq : (bytes! "_aws") = awsName := rfl

theorem sim_applyItem {c : Emf.Consts} {cfg : Config} {sw : Switches} (hc : CRel c cfg sw)
    (ops : FloatOps F) (txt : F → List Nat) (mult : Option Nat)
    {w : Emf.Writer} {st : VState} (h : Sim w st) (it : Item F) :
    Sim (Emf.applyItem c mult w (toEmfItem ops txt it)) (stepItem cfg sw st it) := by
  cases it with
  | timestamp t =>
    simp only [toEmfItem, Emf.applyItem, stepItem]
    have base : Sim { w with timestamp := some t } { st with tsSeen := true } :=
      ⟨⟨h.v.errs, rfl, h.v.dims, h.v.split, h.v.unr, h.v.vmap⟩, h.k⟩
    rw [h.v.ts]
    split
    · exact base.err .multipleTimestamps
    · exact base
  | allowSplit => exact ⟨⟨h.v.errs, h.v.ts, h.v.dims, rfl, h.v.unr, h.v.vmap⟩, h.k⟩
  | otherCfg => exact h
  | allowUnroutable => exact ⟨⟨h.v.errs, h.v.ts, h.v.dims, h.v.split, rfl, h.v.vmap⟩, h.k⟩
  | entryDims sets =>
    simp only [toEmfItem, Emf.applyItem, stepItem, Emf.configEntryDims]
    have he : w.st.dimMap.isEmpty = st.keys.isEmpty := by
      rw [← h.k.ks]; simp
    rw [he, h.v.dims, hc.su, hc.sd]
    split
    · exact h.err .dimsLate
    · split
      · exact h.err .dimsTwice
      · split
        · exact h.err .dimsEmpty
        · have hw : Sim (if (!sw.skipUnique || !sw.skipDimsExist) = true then
                sets.flatten.foldl (Emf.entryDimsValidate c) w else w)
              (if (!sw.skipUnique || !sw.skipDimsExist) = true then sets.flatten.foldl (dimsStep sw) st else st) ∧
              (if (!sw.skipUnique || !sw.skipDimsExist) = true then
                sets.flatten.foldl (Emf.entryDimsValidate c) w else w).st = w.st := by
            split
            · exact sim_foldl_entryDims hc _ h
            · exact ⟨h, rfl⟩
          obtain ⟨hw1, hw2⟩ := hw
          exact ⟨⟨hw1.v.errs, hw1.v.ts, rfl, hw1.v.split, hw1.v.unr, hw1.v.vmap⟩, hw1.k⟩
  | value name v =>
    simp only [toEmfItem, Emf.applyItem, stepItem, Emf.value, Emf.validateName, hc.sn, awsName_eq]
    cases hsn : sw.skipNames with
    | false =>
      simp only [Bool.not_false, if_true, Bool.true_and, decide_eq_true_eq]
      by_cases h1 : name.isEmpty = true
      · simp only [h1, if_true]; exact h.err .emptyName
      · simp only [h1, Bool.false_eq_true, if_false]
        by_cases h2 : name = awsName
        · simp only [h2, if_true]; exact h.err .awsName
        · simp only [h2, if_false]
          cases v with
          | str s => exact sim_valueString hc h name s
          | metric m => exact sim_valueMetric hc mult h name _ m
          | error => exact h.err (.valueError name)
          | nothing => exact h
    | true =>
      simp only [Bool.not_true, Bool.false_eq_true, if_false, Bool.false_and]
      cases v with
      | str s => exact sim_valueString hc h name s
      | metric m => exact sim_valueMetric hc mult h name _ m
      | error => exact h.err (.valueError name)
      | nothing => exact h

theorem sim_foldl {c : Emf.Consts} {cfg : Config} {sw : Switches} (hc : CRel c cfg sw)
    (ops : FloatOps F) (txt : F → List Nat) (mult : Option Nat) (e : Entry F)
    {w : Emf.Writer} {st : VState} (h : Sim w st) :
    Sim ((toEmfEntry ops txt e).foldl (Emf.applyItem c mult) w) (run cfg sw st e) := by
  induction e generalizing w st with
  | nil => exact h
  | cons it e ih =>
    simp only [toEmfEntry, List.map_cons, List.foldl_cons, run]
    exact ih (sim_applyItem hc ops txt mult h it)

/-! ### the initial states -/

theorem vrel_base (dims : List Str) :
    VRel (dims.foldl (fun m d => match Emf.VMap.find? m d with
        | some _ => m
        | none => Emf.VMap.set m d .unfoundDim) []) (dims.foldl insertUnfound []) := by
  suffices ∀ (m : Emf.VMap) (m' : EmfSpec.VMap), VRel m m' →
      VRel (dims.foldl (fun m d => match Emf.VMap.find? m d with
        | some _ => m
        | none => Emf.VMap.set m d .unfoundDim) m) (dims.foldl insertUnfound m') from this [] [] VRel.nil
  induction dims with
  | nil => intro m m' h; exact h
  | cons d ds ih =>
    intro m m' h
    simp only [List.foldl_cons]
    apply ih
    have hl := h.look d
    unfold insertUnfound
    cases hg : m'.get d with
    | none =>
      rw [hg] at hl
      simp only [hl, Option.map_none]
      exact h.set d .unfound
    | some k =>
      rw [hg] at hl
      simp only [hl, Option.map_some]
      exact h

theorem sim_start {c : Emf.Consts} {cfg : Config} {sw : Switches} (hc : CRel c cfg sw) (s : Emf.State) :
    Sim (Emf.Writer.start c s) (initState cfg sw) := by
  refine ⟨⟨rfl, rfl, rfl, rfl, rfl, ?_⟩, ⟨rfl, by intro e he; simp [Emf.Writer.start, Emf.State.startCall] at he⟩⟩
  simp only [Emf.Writer.start, initState, initMap, hc.sd, hc.base, Emf.vmapBaseOf]
  cases sw.skipDimsExist with
  | true => exact VRel.nil
  | false => exact vrel_base _

/-- the error list `finish` reports is the spec's, kind by kind, in the same order -/
theorem finishErrors_eq {c : Emf.Consts} {cfg : Config} {sw : Switches} (hc : CRel c cfg sw)
    {w : Emf.Writer} {st : VState} (h : Sim w st) :
    Emf.finishErrors c w = (st.errs ++ sweep sw st).map errKind := by
  unfold Emf.finishErrors sweep
  rw [hc.sd, h.v.unr, ← Bool.not_or]
  by_cases hcond : (sw.skipDimsExist || st.unroutable) = true
  · simp [hcond, h.v.errs]
  · have hcond' : (sw.skipDimsExist || st.unroutable) = false := by simpa using hcond
    simp only [hcond', Bool.not_false, if_true, Bool.false_eq_true, if_false, List.map_append, h.v.errs,
      List.map_map]
    congr 1
    have e1 : ∀ (l : Emf.VMap), l.map (fun _ => Emf.ErrKind.missingDimension)
        = List.replicate l.length Emf.ErrKind.missingDimension := by
      intro l; induction l with
      | nil => rfl
      | cons _ _ ih => simp [List.replicate_succ, ih]
    have e2 : ∀ (l : List Str), l.map (errKind ∘ Err.missingDimension)
        = List.replicate l.length Emf.ErrKind.missingDimension := by
      intro l; induction l with
      | nil => rfl
      | cons _ _ ih => simp [List.replicate_succ, ih, errKind]
    rw [e1, e2]
    congr 1
    exact h.v.vmap.unfound_count

end EmfRefine
