import Props.EmfRefineGlobal
/-!
Stage 3 lemmas: the dimension-set map of the operational writer, described by an abstract list of
entries (key, index, metric members, declarations), and the writer calls on it.
-/
namespace EmfRefine
open JsonTree Json EmfSpec

variable {F : Type}

/-- what a `MetricsForDimensionSet` holds, abstractly -/
structure AEntry (F : Type) where
  key : Key
  index : Nat
  fields : List (Str × MVal F)
  decls : List Decl

/-- the fixed prefix of a dimension-set entry's `metrics_buf` -/
def dimMetricsPrefix (c : Emf.Consts) (ed : List (List Nat)) (key : Key) : List Nat :=
  (Emf.awsOpen ++ c.ns0) ++ Emf.dimensionsAfterNs ++
    sepBy [44] (ed.map fun d => Emf.extendWithStrings d (key.map (·.1))) ++ Emf.metricsPrefix

/-- the concrete entry -/
def conc (txt : F → List Nat) (c : Emf.Consts) (ed : List (List Nat)) (a : AEntry F) : Emf.DimEntry where
  key := a.key
  fieldsBuf := ⟨(Emf.dimFieldsPrefix a.key).length, Emf.dimFieldsPrefix a.key ++ fieldBytes txt a.fields⟩
  metricsBuf := ⟨(dimMetricsPrefix c ed a.key).length,
                  dimMetricsPrefix c ed a.key ++ printElems (a.decls.map declJson)⟩
  afterNsIndex := (Emf.awsOpen ++ c.ns0).length
  index := a.index

theorem new_eq_conc (txt : F → List Nat) (c : Emf.Consts) (ed : List (List Nat)) (k : Key) (i : Nat) :
    Emf.DimEntry.new c.ns0 ed k i = conc txt c ed (⟨k, i, [], []⟩ : AEntry F) := by
  simp [Emf.DimEntry.new, conc, Emf.PBuf.new, fieldBytes, printElems, dimMetricsPrefix]

def adFind? (ad : List (AEntry F)) (k : Key) : Option (AEntry F) :=
  match ad with
  | [] => none
  | a :: rest => if a.key = k then some a else adFind? rest k

/-- update every entry with key `k` (there is at most one) -/
def adUpd (ad : List (AEntry F)) (k : Key) (f : AEntry F → AEntry F) : List (AEntry F) :=
  ad.map fun a => if a.key = k then f a else a

theorem dimFind_map (txt : F → List Nat) (c : Emf.Consts) (ed : List (List Nat)) (ad : List (AEntry F)) (k : Key) :
    Emf.dimFind? (ad.map (conc txt c ed)) k = (adFind? ad k).map (conc txt c ed) := by
  induction ad with
  | nil => rfl
  | cons a rest ih =>
    simp only [List.map_cons, Emf.dimFind?, adFind?]
    have : (conc txt c ed a).key = a.key := rfl
    rw [this]
    split
    · rfl
    · exact ih

theorem adFind_none (ad : List (AEntry F)) (k : Key) : adFind? ad k = none ↔ k ∉ ad.map (·.key) := by
  induction ad with
  | nil => simp [adFind?]
  | cons a rest ih =>
    simp only [adFind?, List.map_cons, List.mem_cons, not_or]
    by_cases h : a.key = k
    · simp [h]
    · have : ¬ k = a.key := fun e => h e.symm
      simp [h, this, ih]

theorem adFind_some {ad : List (AEntry F)} {k : Key} {a : AEntry F} (h : adFind? ad k = some a) :
    a ∈ ad ∧ a.key = k := by
  induction ad with
  | nil => simp [adFind?] at h
  | cons x rest ih =>
    simp only [adFind?] at h
    by_cases hx : x.key = k
    · simp only [hx, if_true, Option.some.injEq] at h
      subst h; exact ⟨List.mem_cons_self, hx⟩
    · simp only [hx, if_false] at h
      exact ⟨List.mem_cons_of_mem _ (ih h).1, (ih h).2⟩

/-- replacing the found entry = updating the (unique) entry with that key -/
theorem dimSet_map (txt : F → List Nat) (c : Emf.Consts) (ed : List (List Nat)) (ad : List (AEntry F)) (k : Key)
    (f : AEntry F → AEntry F) (hf : ∀ a, (f a).key = a.key) (a0 : AEntry F)
    (hfind : adFind? ad k = some a0) (hn : (ad.map (·.key)).Nodup) :
    Emf.dimSet (ad.map (conc txt c ed)) (conc txt c ed (f a0)) = (adUpd ad k f).map (conc txt c ed) := by
  induction ad with
  | nil => simp [adFind?] at hfind
  | cons x rest ih =>
    simp only [List.map_cons, List.nodup_cons] at hn
    simp only [adFind?] at hfind
    have hk0 : (conc txt c ed (f a0)).key = a0.key := hf a0
    have hkx : (conc txt c ed x).key = x.key := rfl
    by_cases hx : x.key = k
    · simp only [hx, if_true, Option.some.injEq] at hfind
      subst hfind
      have hrest : ∀ y ∈ rest, ¬ y.key = k := by
        intro y hy e
        exact hn.1 (List.mem_map.mpr ⟨y, hy, by rw [e, hx]⟩)
      have : rest.map (fun a => if a.key = k then f a else a) = rest := by
        conv => rhs; rw [← List.map_id rest]
        apply List.map_congr_left
        intro y hy; simp [hrest y hy]
      simp [Emf.dimSet, adUpd, hkx, hk0, hx, this]
    · simp only [hx, if_false] at hfind
      have hk : a0.key = k := (adFind_some hfind).2
      have hne : ¬ x.key = a0.key := by rw [hk]; exact hx
      have := ih hfind hn.2
      simp only [List.map_cons, Emf.dimSet, hkx, hk0, hne, if_false, adUpd, hx] at this ⊢
      rw [this]

/-- the abstract effect of a metric routed to the dimension set `k` -/
def adAdd (ops : FloatOps F) (mult : Option Nat) (ad : List (AEntry F)) (k : Key) (name : Str) (m : Metric F) :
    List (AEntry F) :=
  match adFind? ad k with
  | some _ => adUpd ad k fun a =>
      { a with fields := a.fields ++ fieldsOf ops mult [(name, m)], decls := a.decls ++ declsOf ops mult [(name, m)] }
  | none => ad ++ [⟨k, ad.length + 1, fieldsOf ops mult [(name, m)], declsOf ops mult [(name, m)]⟩]

theorem adAdd_keys_nodup (ops : FloatOps F) (mult : Option Nat) (ad : List (AEntry F)) (k : Key) (name : Str)
    (m : Metric F) (hn : (ad.map (·.key)).Nodup) : ((adAdd ops mult ad k name m).map (·.key)).Nodup := by
  unfold adAdd
  cases hf : adFind? ad k with
  | some a =>
    simp only [adUpd, List.map_map]
    have : (ad.map ((fun a : AEntry F => a.key) ∘ fun a => if a.key = k then
        { a with fields := a.fields ++ fieldsOf ops mult [(name, m)], decls := a.decls ++ declsOf ops mult [(name, m)] }
        else a)) = ad.map (·.key) := by
      apply List.map_congr_left
      intro a _
      simp only [Function.comp_apply]
      split <;> rfl
    rw [this]; exact hn
  | none =>
    have hk := (adFind_none ad k).mp hf
    simp only [List.map_append, List.map_cons, List.map_nil]
    exact List.nodup_append.mpr ⟨hn, by simp, by
      intro a ha b hb
      simp only [List.mem_singleton] at hb
      subst hb
      intro e; subst e; exact hk ha⟩

/-- `write_metric` on the entry of dimension set `k` (found or created), then `dimSet` -/
theorem split_write (ops : FloatOps F) (txt : F → List Nat) {mult : Option Nat} (hm : multOk mult)
    (c : Emf.Consts) (ed : List (List Nat)) (ad : List (AEntry F)) (hn : (ad.map (·.key)).Nodup)
    (k : Key) (name : Str) (m : Metric F) :
    let dm := ad.map (conc txt c ed)
    let entry := match Emf.dimFind? dm k with
      | some e => e
      | none => Emf.DimEntry.new c.ns0 ed k (dm.length + 1)
    let r := Emf.writeMetric name entry.fieldsBuf entry.metricsBuf (Emf.PBuf.new Emf.countsPrefix)
      (m.obs.map (toEmfObs ops txt)) m.unit (toEmfFlags m.flag) mult
    Emf.dimSet dm { entry with fieldsBuf := r.1, metricsBuf := r.2.1 } = (adAdd ops mult ad k name m).map (conc txt c ed) ∧
    r.2.2 = Emf.PBuf.new Emf.countsPrefix := by
  simp only [dimFind_map]
  unfold adAdd
  cases hf : adFind? ad k with
  | some a0 =>
    simp only [Option.map_some]
    have hw := writeMetric_eq ops txt hm name (conc txt c ed a0).fieldsBuf (dimMetricsPrefix c ed a0.key) a0.decls m
    have hmb : (conc txt c ed a0).metricsBuf = ⟨(dimMetricsPrefix c ed a0.key).length,
        dimMetricsPrefix c ed a0.key ++ printElems (a0.decls.map declJson)⟩ := rfl
    rw [hmb, hw]
    refine ⟨?_, rfl⟩
    have := dimSet_map txt c ed ad k (fun a =>
      { a with fields := a.fields ++ fieldsOf ops mult [(name, m)], decls := a.decls ++ declsOf ops mult [(name, m)] })
      (fun _ => rfl) a0 hf hn
    rw [← this]
    congr 1
    simp [conc, fieldBytes_append, List.append_assoc]
  | none =>
    simp only [Option.map_none, List.length_map]
    rw [new_eq_conc txt]
    have hw := writeMetric_eq ops txt hm name (conc txt c ed (⟨k, ad.length + 1, [], []⟩ : AEntry F)).fieldsBuf
      (dimMetricsPrefix c ed k) [] m
    have hmb : (conc txt c ed (⟨k, ad.length + 1, [], []⟩ : AEntry F)).metricsBuf = ⟨(dimMetricsPrefix c ed k).length,
        dimMetricsPrefix c ed k ++ printElems (([] : List Decl).map declJson)⟩ := rfl
    rw [hmb, hw]
    refine ⟨?_, rfl⟩
    have hk := (adFind_none ad k).mp hf
    rw [dimSet_absent]
    · simp [conc, fieldBytes]
    · simpa [conc, List.map_map, Function.comp_def] using hk

/-! ### the writer calls -/

def adStep (cfg : Config) (ops : FloatOps F) (mult : Option Nat) (ad : List (AEntry F)) : Item F → List (AEntry F)
  | .value name (.metric m) =>
    match routeOf cfg m with
    | none => ad
    | some k => adAdd ops mult ad k name m
  | _ => ad

/-- the buffers of the writer: the no-dimension record's and the dimension-set map -/
structure Shape3 (txt : F → List Nat) (c : Emf.Consts) (w : Emf.Writer) (S Fd : List Nat) (Ds : List Decl)
    (ad : List (AEntry F)) : Prop where
  dm : w.st.dimMap = ad.map (conc txt c (w.entryDims.getD c.eachDims))
  nd : (ad.map (·.key)).Nodup
  sf : w.st.stringFieldsBuf = ⟨0, S⟩
  f : w.st.fieldsBuf = ⟨1, 125 :: Fd⟩
  m : w.st.metricsBuf = ⟨Emf.metricsPrefix.length, Emf.metricsPrefix ++ printElems (Ds.map declJson)⟩
  c : w.st.countsBuf = Emf.PBuf.new Emf.countsPrefix

theorem Shape3.congr {txt : F → List Nat} {c : Emf.Consts} {w w1 : Emf.Writer} {S Fd S' Fd' : List Nat}
    {Ds Ds' : List Decl} {ad ad' : List (AEntry F)} (h : Shape3 txt c w S Fd Ds ad)
    (hst : w1.st = w.st) (hed : w1.entryDims = w.entryDims) (hS : S' = S) (hF : Fd' = Fd) (hD : Ds' = Ds)
    (ha : ad' = ad) : Shape3 txt c w1 S' Fd' Ds' ad' := by
  subst hS hF hD ha
  exact ⟨by rw [hst, hed]; exact h.dm, h.nd, by rw [hst]; exact h.sf, by rw [hst]; exact h.f,
    by rw [hst]; exact h.m, by rw [hst]; exact h.c⟩

theorem routedTo_none_single_global (cfg : Config) (name : Str) (m : Metric F) (h : routeOf cfg m = none) :
    routedTo cfg none [(name, m)] = [(name, m)] := by
  simp [routedTo, h]

theorem routedTo_none_single_split (cfg : Config) (name : Str) (m : Metric F) (k : Key) (h : routeOf cfg m = some k) :
    routedTo cfg none [(name, m)] = [] := by
  simp [routedTo, h]

/-- one writer call -/
theorem shape3_applyItem {c : Emf.Consts} {cfg : Config} {sw : Switches} (hc : CRel c cfg sw)
    (ops : FloatOps F) (txt : F → List Nat) {mult : Option Nat} (hm : multOk mult)
    {w : Emf.Writer} {S Fd : List Nat} {Ds : List Decl} {ad : List (AEntry F)} (h : Shape3 txt c w S Fd Ds ad)
    (it : Item F) (hw1 : (Emf.applyItem c mult w (toEmfItem ops txt it)).errors = []) :
    Shape3 txt c (Emf.applyItem c mult w (toEmfItem ops txt it)) (S ++ strBytes (strItems [it]))
      (Fd ++ fieldBytes txt (fieldsOf ops mult (routedTo cfg none (metricItems [it]))))
      (Ds ++ declsOf ops mult (routedTo cfg none (metricItems [it]))) (adStep cfg ops mult ad it) ∧
    Rest c w (Emf.applyItem c mult w (toEmfItem ops txt it)) [it] := by
  cases it with
  | timestamp t =>
    simp only [toEmfItem, Emf.applyItem]
    have hR : Rest c w { w with timestamp := some t } [Item.timestamp (F := F) t] :=
      ⟨rfl, rfl, by simp [tsAfter, timestamps], (edAfter_noItems c _ _ rfl).symm⟩
    split
    · exact ⟨h.congr rfl rfl (by simp [strItems, strBytes]) (by simp [metricItems, routedTo, fieldsOf, fieldBytes])
        (by simp [metricItems, routedTo, declsOf]) rfl, ⟨hR.decl, hR.dbuf, hR.ts, hR.ed⟩⟩
    · exact ⟨h.congr rfl rfl (by simp [strItems, strBytes]) (by simp [metricItems, routedTo, fieldsOf, fieldBytes])
        (by simp [metricItems, routedTo, declsOf]) rfl, hR⟩
  | allowSplit =>
    exact ⟨h.congr rfl rfl (by simp [strItems, strBytes]) (by simp [metricItems, routedTo, fieldsOf, fieldBytes])
        (by simp [metricItems, routedTo, declsOf]) rfl,
      ⟨rfl, rfl, (tsAfter_noItems _ _ rfl).symm, (edAfter_noItems c _ _ rfl).symm⟩⟩
  | otherCfg =>
    exact ⟨h.congr rfl rfl (by simp [strItems, strBytes]) (by simp [metricItems, routedTo, fieldsOf, fieldBytes])
        (by simp [metricItems, routedTo, declsOf]) rfl,
      ⟨rfl, rfl, (tsAfter_noItems _ _ rfl).symm, (edAfter_noItems c _ _ rfl).symm⟩⟩
  | allowUnroutable =>
    exact ⟨h.congr rfl rfl (by simp [strItems, strBytes]) (by simp [metricItems, routedTo, fieldsOf, fieldBytes])
        (by simp [metricItems, routedTo, declsOf]) rfl,
      ⟨rfl, rfl, (tsAfter_noItems _ _ rfl).symm, (edAfter_noItems c _ _ rfl).symm⟩⟩
  | entryDims sets =>
    have hemp : w.st.dimMap.isEmpty = ad.isEmpty := by rw [h.dm]; simp
    simp only [toEmfItem, Emf.applyItem, Emf.configEntryDims, hemp] at hw1 ⊢
    cases had : ad with
    | cons a rest => simp [had, Emf.Writer.err] at hw1
    | nil =>
      subst had
      simp only [List.isEmpty_nil, Bool.not_true, Bool.false_eq_true, if_false] at hw1 ⊢
      cases hed : w.entryDims with
      | some d => simp [hed, Emf.Writer.err] at hw1
      | none =>
        simp only [hed, Option.isSome_none, Bool.false_eq_true, if_false] at hw1 ⊢
        cases hse : sets.isEmpty with
        | true => simp [hse, Emf.Writer.err] at hw1
        | false =>
          simp only [Bool.false_eq_true, if_false]
          have hfr : (if (!c.validation.skipUnique || !c.validation.skipDimsExist) = true then
              sets.flatten.foldl (Emf.entryDimsValidate c) w else w).st = w.st ∧
              (if (!c.validation.skipUnique || !c.validation.skipDimsExist) = true then
              sets.flatten.foldl (Emf.entryDimsValidate c) w else w).timestamp = w.timestamp := by
            split
            · exact foldl_entryDimsValidate_frame c _ w
            · exact ⟨rfl, rfl⟩
          generalize (if (!c.validation.skipUnique || !c.validation.skipDimsExist) = true then
              sets.flatten.foldl (Emf.entryDimsValidate c) w else w) = w2 at hfr hw1 ⊢
          obtain ⟨hst, hts⟩ := hfr
          have hdm0 : w.st.dimMap = [] := by rw [h.dm]; rfl
          refine ⟨⟨?_, ?_, ?_, ?_, ?_, ?_⟩, ⟨?_, ?_, ?_, ?_⟩⟩
          · show w2.st.dimMap = _; rw [hst, hdm0]; rfl
          · simp [adStep]
          · show w2.st.stringFieldsBuf = _; rw [hst, h.sf]; simp [strItems, strBytes]
          · show w2.st.fieldsBuf = _; rw [hst, h.f]; simp [metricItems, routedTo, fieldsOf, fieldBytes]
          · show w2.st.metricsBuf = _; rw [hst, h.m]; simp [metricItems, routedTo, declsOf]
          · show w2.st.countsBuf = _; rw [hst]; exact h.c
          · show w2.st.declBuf = _; rw [hst]
          · show w2.st.dimensionsBuf = _; rw [hst]
          · show w2.timestamp = _; rw [hts]; exact (tsAfter_noItems _ _ rfl).symm
          · simp [edAfter, entryDimsItems, dimsOf, hed]
  | value name v =>
    have hR0 : ∀ (x : Val F), tsAfter w.timestamp [Item.value name x] = w.timestamp ∧
        edAfter c w.entryDims [Item.value name x] = w.entryDims :=
      fun x => ⟨tsAfter_noItems _ _ rfl, edAfter_noItems c _ _ rfl⟩
    simp only [toEmfItem, Emf.applyItem, Emf.value] at hw1 ⊢
    have hvn : Emf.validateName c w name = (w, true) := by
      unfold Emf.validateName at hw1 ⊢
      split
      · split
        · rename_i h1 h2; simp only [h1, h2, if_true] at hw1; exact absurd hw1 (err_errors_ne _ _)
        · split
          · rename_i h1 h2 h3; simp only [h1, h3, if_true] at hw1; exact absurd hw1 (err_errors_ne _ _)
          · rfl
      · rfl
    simp only [hvn] at hw1 ⊢
    cases v with
    | error => exact absurd hw1 (err_errors_ne _ _)
    | nothing =>
      exact ⟨h.congr rfl rfl (by simp [strItems, strBytes]) (by simp [metricItems, routedTo, fieldsOf, fieldBytes])
        (by simp [metricItems, routedTo, declsOf]) rfl, ⟨rfl, rfl, (hR0 _).1.symm, (hR0 _).2.symm⟩⟩
    | str s =>
      simp only [toEmfVal, Emf.valueString]
      have hp : Shape3 txt c (Emf.pushStringField w name s) (S ++ strBytes (strItems [Item.value (F := F) name (.str s)]))
          (Fd ++ fieldBytes txt (fieldsOf ops mult (routedTo cfg none (metricItems [Item.value (F := F) name (.str s)]))))
          (Ds ++ declsOf ops mult (routedTo cfg none (metricItems [Item.value (F := F) name (.str s)]))) ad := by
        refine ⟨h.dm, h.nd, ?_, ?_, ?_, h.c⟩
        · simp [Emf.pushStringField, h.sf, Emf.PBuf.push, Emf.PBuf.jsonString, Emf.PBuf.pushRaw, strItems, strBytes]
        · simpa [strItems, metricItems, routedTo, fieldsOf, fieldBytes, Emf.pushStringField] using h.f
        · simpa [metricItems, routedTo, declsOf, Emf.pushStringField] using h.m
      split
      · obtain ⟨f1, f2, f3⟩ := validateString_frame (Emf.pushStringField w name s) name
        exact ⟨hp.congr f1 f3 rfl rfl rfl rfl, ⟨by rw [f1]; rfl, by rw [f1]; rfl, by rw [f2]; exact (hR0 _).1.symm,
          by rw [f3]; exact (hR0 _).2.symm⟩⟩
      · exact ⟨hp, ⟨rfl, rfl, (hR0 _).1.symm, (hR0 _).2.symm⟩⟩
    | metric m =>
      simp only [toEmfVal, Emf.valueMetric, Emf.valueMetricCore, hc.ai]
      generalize hw0 : Emf.metricPreCheck c w m.dims = w0
      have hw0st : w0.st = w.st ∧ w0.timestamp = w.timestamp ∧ w0.entryDims = w.entryDims := by
        rw [← hw0]; unfold Emf.metricPreCheck; split <;> exact ⟨rfl, rfl, rfl⟩
      cases hg : (cfg.allowIgnored || m.dims.isEmpty) with
      | true =>
        have hro : routeOf cfg m = none := by simp [routeOf, hg]
        simp only [if_true, Emf.metricGlobalWrite]
        obtain ⟨g1, g2, g3⟩ := metricCheck_frame c w0 name 0
        rw [g1, hw0st.1, h.f, h.m, h.c, writeMetric_eq ops txt hm]
        refine ⟨⟨?_, ?_, ?_, ?_, ?_, rfl⟩, ⟨rfl, rfl, ?_, ?_⟩⟩
        · simp only [g3, hw0st.2.2, adStep, hro]; exact h.dm
        · simp only [adStep, hro]; exact h.nd
        · simpa [strItems, strBytes] using h.sf
        · simp [metricItems, routedTo_none_single_global cfg name m hro]
        · simp [metricItems, routedTo_none_single_global cfg name m hro]
        · simp only [g2, hw0st.2.1]; exact (hR0 _).1.symm
        · simp only [g3, hw0st.2.2]; exact (hR0 _).2.symm
      | false =>
        have hro : routeOf cfg m = some (sortKey m.dims) := by simp [routeOf, hg]
        simp only [Bool.false_eq_true, if_false, dimKeyOf_eq_sortKey, Emf.metricSplitWrite, Emf.dimEntryFor]
        have g1 : ∀ i, (Emf.metricCheck c w0 name i).st = w0.st := fun i => (metricCheck_frame c w0 name i).1
        have g2 : ∀ i, (Emf.metricCheck c w0 name i).timestamp = w0.timestamp := fun i => (metricCheck_frame c w0 name i).2.1
        have g3 : ∀ i, (Emf.metricCheck c w0 name i).entryDims = w0.entryDims := fun i => (metricCheck_frame c w0 name i).2.2
        have hsw := split_write ops txt hm c (w.entryDims.getD c.eachDims) ad h.nd (sortKey m.dims) name m
        simp only at hsw
        rw [g1, hw0st.1, hw0st.2.2, h.c, h.dm]
        refine ⟨⟨?_, ?_, ?_, ?_, ?_, ?_⟩, ⟨rfl, rfl, ?_, ?_⟩⟩
        · simp only [g3, hw0st.2.2, adStep, hro]; exact hsw.1
        · simp only [adStep, hro]; exact adAdd_keys_nodup ops mult ad _ name m h.nd
        · simpa [strItems, strBytes] using h.sf
        · simpa [metricItems, routedTo_none_single_split cfg name m _ hro, fieldsOf, fieldBytes] using h.f
        · simpa [metricItems, routedTo_none_single_split cfg name m _ hro, declsOf] using h.m
        · exact hsw.2
        · simp only [g2, hw0st.2.1]; exact (hR0 _).1.symm
        · simp only [g3, hw0st.2.2]; exact (hR0 _).2.symm

/-! ### the whole entry -/

theorem routedTo_append (cfg : Config) (r : Option Key) (a b : List (Str × Metric F)) :
    routedTo cfg r (a ++ b) = routedTo cfg r a ++ routedTo cfg r b := by
  simp [routedTo]

/-- the buffers after the whole entry -/
theorem shape3_foldl {c : Emf.Consts} {cfg : Config} {sw : Switches} (hc : CRel c cfg sw)
    (ops : FloatOps F) (txt : F → List Nat) {mult : Option Nat} (hm : multOk mult) (e : Entry F)
    {w : Emf.Writer} {st : VState} (hsim : Sim w st)
    {S Fd : List Nat} {Ds : List Decl} {ad : List (AEntry F)} (hS : Shape3 txt c w S Fd Ds ad)
    (herr : (run cfg sw st e).errs = []) :
    Shape3 txt c ((toEmfEntry ops txt e).foldl (Emf.applyItem c mult) w) (S ++ strBytes (strItems e))
      (Fd ++ fieldBytes txt (fieldsOf ops mult (routedTo cfg none (metricItems e))))
      (Ds ++ declsOf ops mult (routedTo cfg none (metricItems e))) (e.foldl (adStep cfg ops mult) ad) ∧
    Rest c w ((toEmfEntry ops txt e).foldl (Emf.applyItem c mult) w) e := by
  induction e generalizing w st S Fd Ds ad with
  | nil =>
    refine ⟨?_, ⟨rfl, rfl, (tsAfter_noItems _ _ rfl).symm, (edAfter_noItems c _ _ rfl).symm⟩⟩
    exact hS.congr rfl rfl (by simp [strItems, strBytes]) (by simp [metricItems, routedTo, fieldsOf, fieldBytes])
      (by simp [metricItems, routedTo, declsOf]) rfl
  | cons it e ih =>
    have sim1 := sim_applyItem hc ops txt mult hsim it
    rw [run_cons] at herr
    have hst1 : (stepItem cfg sw st it).errs = [] := errs_nil_of_run cfg sw _ e herr
    have hw1 : (Emf.applyItem c mult w (toEmfItem ops txt it)).errors = [] := by
      rw [sim1.v.errs, hst1]; rfl
    obtain ⟨s1, r1⟩ := shape3_applyItem hc ops txt hm hS it hw1
    obtain ⟨s2, r2⟩ := ih sim1 s1 herr
    simp only [toEmfEntry, List.map_cons, List.foldl_cons] at s2 r2 ⊢
    refine ⟨?_, ⟨r2.decl.trans r1.decl, r2.dbuf.trans r1.dbuf, ?_, ?_⟩⟩
    · rw [strItems_cons, metricItems_cons, routedTo_append, fieldsOf_append, declsOf_append, fieldBytes_append,
        strBytes_append]
      exact s2.congr rfl rfl (by simp [List.append_assoc]) (by simp [List.append_assoc]) (by simp [List.append_assoc]) rfl
    · rw [r2.ts, r1.ts, tsAfter_cons]
    · rw [r2.ed, r1.ed, edAfter_cons]

end EmfRefine
