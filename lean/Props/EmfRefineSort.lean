import Model.EmfRefine
/-!
`Emf.dimKeyOf = EmfSpec.sortKey`: the two models sort the per-metric dimension list with two different
insertion sorts (`foldl` + insert-after-equals with a strict test / `foldr` + insert-before-equals with a
non-strict test). Both produce THE sorted permutation under the same strict total order.
-/
namespace EmfRefine

/-- a strict total order given by a Boolean test -/
structure StrictTotal {α : Type} (lt : α → α → Bool) : Prop where
  asymm : ∀ a b, lt a b = true → lt b a = false
  tri : ∀ a b, lt a b = false → lt b a = false → a = b
  trans : ∀ a b c, lt a b = true → lt b c = true → lt a c = true

namespace StrictTotal
variable {α : Type} {lt : α → α → Bool}

theorem irrefl (h : StrictTotal lt) (a : α) : lt a a = false := by
  cases hh : lt a a with
  | false => rfl
  | true => have := h.asymm a a hh; simp_all

/-- `a ≤ b ≤ c → a ≤ c` where `x ≤ y` is `lt y x = false` -/
theorem le_trans (h : StrictTotal lt) {a b c : α} (hab : lt b a = false) (hbc : lt c b = false) :
    lt c a = false := by
  cases hca : lt c a with
  | false => rfl
  | true =>
    cases hab' : lt a b with
    | true => have := h.trans c a b hca hab'; simp_all
    | false => have := h.tri a b hab' hab; subst this; simp_all

end StrictTotal

/-! ### the byte-string order -/

theorem bytesLt_strictTotal : StrictTotal Emf.bytesLt where
  asymm := by
    intro a
    induction a with
    | nil => intro b; cases b <;> simp [Emf.bytesLt]
    | cons x xs ih =>
      intro b
      cases b with
      | nil => simp [Emf.bytesLt]
      | cons y ys =>
        simp only [Emf.bytesLt]
        intro h
        by_cases h1 : x < y
        · have : ¬ y < x := by omega
          simp [this, h1]
        · by_cases h2 : y < x
          · simp [h1, h2] at h
          · simp only [h1, h2, if_false] at h ⊢
            exact ih ys h
  tri := by
    intro a
    induction a with
    | nil => intro b; cases b <;> simp [Emf.bytesLt]
    | cons x xs ih =>
      intro b
      cases b with
      | nil => simp [Emf.bytesLt]
      | cons y ys =>
        simp only [Emf.bytesLt]
        intro h h'
        by_cases h1 : x < y
        · simp [h1] at h
        · by_cases h2 : y < x
          · simp [h2] at h'
          · simp only [h1, h2, if_false] at h h'
            have : x = y := by omega
            rw [this, ih ys h h']
  trans := by
    intro a
    induction a with
    | nil =>
      intro b c
      cases b <;> cases c <;> simp [Emf.bytesLt]
    | cons x xs ih =>
      intro b c
      cases b with
      | nil => simp [Emf.bytesLt]
      | cons y ys =>
        cases c with
        | nil => simp [Emf.bytesLt]
        | cons z zs =>
          simp only [Emf.bytesLt]
          intro h h'
          by_cases h1 : x < y
          · by_cases h2 : y < z
            · have : x < z := by omega
              simp [this]
            · by_cases h3 : z < y
              · simp [h2, h3] at h'
              · have : x < z := by omega
                simp [this]
          · by_cases h2 : y < x
            · simp [h1, h2] at h
            · simp only [h1, h2, if_false] at h
              have hxy : x = y := by omega
              subst hxy
              by_cases h3 : x < z
              · simp [h3]
              · by_cases h4 : z < x
                · simp [h3, h4] at h'
                · simp only [h3, h4, if_false] at h' ⊢
                  exact ih ys zs h h'

theorem strLt_eq_bytesLt (a b : List Nat) : EmfSpec.strLt a b = Emf.bytesLt a b := by
  induction a generalizing b with
  | nil => cases b <;> rfl
  | cons x xs ih =>
    cases b with
    | nil => rfl
    | cons y ys =>
      simp only [EmfSpec.strLt, Emf.bytesLt, ih]
      by_cases h1 : x < y
      · simp [h1]
      · by_cases h2 : y < x
        · have : ¬ x = y := by omega
          simp [h1, h2, this]
        · have : x = y := by omega
          simp [this]

/-! ### the order on pairs -/

theorem pairLt_strictTotal : StrictTotal Emf.pairLt := by
  have B := bytesLt_strictTotal
  refine ⟨?_, ?_, ?_⟩
  · intro a b h
    unfold Emf.pairLt at h ⊢
    cases h1 : Emf.bytesLt a.1 b.1 with
    | true => simp [B.asymm _ _ h1]
    | false =>
      cases h2 : Emf.bytesLt b.1 a.1 with
      | true => simp [h1, h2] at h
      | false =>
        simp only [h1, h2, Bool.false_eq_true, if_false] at h ⊢
        exact B.asymm _ _ h
  · intro a b h h'
    unfold Emf.pairLt at h h'
    cases h1 : Emf.bytesLt a.1 b.1 with
    | true => simp [h1] at h
    | false =>
      cases h2 : Emf.bytesLt b.1 a.1 with
      | true => simp [h2] at h'
      | false =>
        simp only [h1, h2, Bool.false_eq_true, if_false] at h h'
        exact Prod.ext (B.tri _ _ h1 h2) (B.tri _ _ h h')
  · intro a b c h h'
    unfold Emf.pairLt at h h' ⊢
    cases h1 : Emf.bytesLt a.1 b.1 with
    | true =>
      cases h2 : Emf.bytesLt b.1 c.1 with
      | true => simp [B.trans _ _ _ h1 h2]
      | false =>
        cases h3 : Emf.bytesLt c.1 b.1 with
        | true => simp [h2, h3] at h'
        | false =>
          have := B.tri _ _ h2 h3
          rw [← this]; simp [h1]
    | false =>
      cases h2 : Emf.bytesLt b.1 a.1 with
      | true => simp [h1, h2] at h
      | false =>
        simp only [h1, h2, Bool.false_eq_true, if_false] at h
        have e := B.tri _ _ h1 h2
        rw [e]
        cases h3 : Emf.bytesLt b.1 c.1 with
        | true => simp
        | false =>
          cases h4 : Emf.bytesLt c.1 b.1 with
          | true => simp [h3, h4] at h'
          | false =>
            simp only [h3, h4, Bool.false_eq_true, if_false] at h' ⊢
            exact B.trans _ _ _ h h'

theorem pairLe_eq (x y : List Nat × List Nat) : EmfSpec.pairLe x y = !Emf.pairLt y x := by
  have B := bytesLt_strictTotal
  unfold EmfSpec.pairLe Emf.pairLt
  simp only [strLt_eq_bytesLt]
  cases h1 : Emf.bytesLt y.1 x.1 with
  | true =>
    have h2 := B.asymm _ _ h1
    have : (x.1 == y.1) = false := by
      cases h : x.1 == y.1 with
      | false => rfl
      | true =>
        have := eq_of_beq h
        rw [this, B.irrefl] at h1; simp at h1
    simp [h2, this]
  | false =>
    cases h2 : Emf.bytesLt x.1 y.1 with
    | true => simp
    | false =>
      have := B.tri _ _ h2 h1
      simp [this]

/-! ### insertion sorts -/

section
variable {α : Type}

/-- insertion with test `t` -/
def insBy (t : α → α → Bool) (x : α) : List α → List α
  | [] => [x]
  | y :: ys => if t x y then x :: y :: ys else y :: insBy t x ys

theorem insBy_perm (t : α → α → Bool) (x : α) (l : List α) : (insBy t x l).Perm (x :: l) := by
  induction l with
  | nil => exact List.Perm.refl _
  | cons y ys ih =>
    simp only [insBy]
    split
    · exact List.Perm.refl _
    · exact (List.Perm.cons y ih).trans (List.Perm.swap x y ys)

theorem insBy_sorted {lt : α → α → Bool} (h : StrictTotal lt) (t : α → α → Bool)
    (ht : ∀ x y, t x y = true → lt y x = false) (hf : ∀ x y, t x y = false → lt x y = false)
    (x : α) (l : List α) (hl : l.Pairwise fun a b => lt b a = false) :
    (insBy t x l).Pairwise fun a b => lt b a = false := by
  induction l with
  | nil => simp [insBy]
  | cons y ys ih =>
    simp only [insBy]
    cases hxy : t x y with
    | true =>
      simp only [if_true]
      refine List.Pairwise.cons ?_ hl
      intro z hz
      rcases List.mem_cons.mp hz with rfl | hz
      · exact ht _ _ hxy
      · exact h.le_trans (ht _ _ hxy) (List.rel_of_pairwise_cons hl hz)
    | false =>
      simp only [Bool.false_eq_true, if_false]
      refine List.Pairwise.cons ?_ (ih hl.tail)
      intro z hz
      have := (insBy_perm t x ys).subset hz
      rcases List.mem_cons.mp this with rfl | hz
      · exact hf _ _ hxy
      · exact List.rel_of_pairwise_cons hl hz
end

theorem emf_insertSorted_eq (x : List Nat × List Nat) (l : Emf.DimKey) :
    Emf.insertSorted x l = insBy Emf.pairLt x l := by
  induction l with
  | nil => rfl
  | cons y ys ih => simp only [Emf.insertSorted, insBy, ih]

theorem spec_insertSorted_eq (x : List Nat × List Nat) (l : EmfSpec.Key) :
    EmfSpec.insertSorted x l = insBy (fun a b => !Emf.pairLt b a) x l := by
  induction l with
  | nil => rfl
  | cons y ys ih => simp only [EmfSpec.insertSorted, insBy, ih, pairLe_eq]

theorem sortKey_spec (l : EmfSpec.Key) :
    (EmfSpec.sortKey l).Perm l ∧ (EmfSpec.sortKey l).Pairwise fun a b => Emf.pairLt b a = false := by
  have P := pairLt_strictTotal
  induction l with
  | nil => exact ⟨List.Perm.refl _, List.Pairwise.nil⟩
  | cons x xs ih =>
    simp only [EmfSpec.sortKey, spec_insertSorted_eq]
    refine ⟨(insBy_perm _ _ _).trans (List.Perm.cons x ih.1), ?_⟩
    refine insBy_sorted P _ ?_ ?_ x _ ih.2
    · intro a b h; simpa using h
    · intro a b h
      have : Emf.pairLt b a = true := by simpa using h
      exact P.asymm _ _ this

theorem dimKeyOf_spec_aux (l acc : Emf.DimKey) (hacc : acc.Pairwise fun a b => Emf.pairLt b a = false) :
    (l.foldl (fun acc x => Emf.insertSorted x acc) acc).Perm (acc ++ l) ∧
    (l.foldl (fun acc x => Emf.insertSorted x acc) acc).Pairwise fun a b => Emf.pairLt b a = false := by
  have P := pairLt_strictTotal
  induction l generalizing acc with
  | nil => simpa using hacc
  | cons x xs ih =>
    simp only [List.foldl_cons]
    have hs : (Emf.insertSorted x acc).Pairwise fun a b => Emf.pairLt b a = false := by
      rw [emf_insertSorted_eq]
      refine insBy_sorted P _ ?_ ?_ x _ hacc
      · intro a b h; exact P.asymm _ _ h
      · intro a b h; exact h
    obtain ⟨h1, h2⟩ := ih _ hs
    refine ⟨h1.trans ?_, h2⟩
    rw [emf_insertSorted_eq]
    have := (insBy_perm Emf.pairLt x acc).append_right xs
    refine this.trans ?_
    simp only [List.cons_append]
    exact (List.perm_middle (a := x) (l₁ := acc) (l₂ := xs)).symm

/-- both models compute the same `DimensionSetKey` -/
theorem dimKeyOf_eq_sortKey (l : List (List Nat × List Nat)) : Emf.dimKeyOf l = EmfSpec.sortKey l := by
  have P := pairLt_strictTotal
  obtain ⟨p1, s1⟩ := dimKeyOf_spec_aux l [] List.Pairwise.nil
  obtain ⟨p2, s2⟩ := sortKey_spec l
  simp only [List.nil_append] at p1
  refine List.Perm.eq_of_pairwise (le := fun a b => Emf.pairLt b a = false) ?_ s1 s2 (p1.trans p2.symm)
  intro a b _ _ h1 h2
  exact P.tri _ _ h2 h1

end EmfRefine
