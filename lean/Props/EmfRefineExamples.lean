import Props.EmfRefineCorollaries
/-!
Non-vacuity of the Stage 3 theorems: a concrete accepted entry with TWO split records and the
no-dimension record (a third dimension set has only a NaN observation and yields no record) meets every
hypothesis; the operational bytes are checked against the statement by kernel evaluation.
-/
namespace EmfRefine
open JsonTree Json EmfSpec

/-- split entry: string for the default dimension `D`; `M` in the dimension sets `Az=a` and `Az=b` (the second
high-resolution, with a float), a global counter `G`, and `N` in `Az=c` with only a NaN (no record) -/
def exSplit : Entry FText :=
  [.timestamp 1500000, .allowSplit,
   .value (bytes! "D") (.str (bytes! "x")),
   .value (bytes! "M") (.metric ⟨[.unsigned 1], some (bytes! "Count"), [(bytes! "Az", bytes! "a")], .plain⟩),
   .value (bytes! "M") (.metric ⟨[.unsigned 2, .floating (some (bytes! "2.5"))], none, [(bytes! "Az", bytes! "b")], .hires⟩),
   .value (bytes! "G") (.metric ⟨[.unsigned 7], none, [], .plain⟩),
   .value (bytes! "N") (.metric ⟨[.floating none], none, [(bytes! "Az", bytes! "c")], .plain⟩),
   .value (bytes! "M") (.metric ⟨[.repeated (some (bytes! "0.5")) 4], none, [(bytes! "Az", bytes! "a"), (bytes! "B", bytes! "b")], .plain⟩)]

example : validate exCfg2 allOn exSplit = [] := by decide
example : exCfg2.namespaces ≠ [] := by decide
example : multOk (some 3) := by intro m h; cases h; decide
example : noUnroutable exSplit = true := by decide
example : dimKeysDisjoint exCfg2 exSplit = true := by decide
/-- three split records (`Az=a`, `Az=b`, `Az=a,B=b`) and the no-dimension record; `Az=c` is skipped -/
example : (emit exCfg2 textOps (some 3) exSplit).map (·.route) =
    [some [(bytes! "Az", bytes! "a")], some [(bytes! "Az", bytes! "b")],
     some [(bytes! "Az", bytes! "a"), (bytes! "B", bytes! "b")], none] := by decide
/-- the statement of `emf_refines_spec_split`, evaluated -/
example : runEmf exCfg2 allOn textOps textTxt (some 3) 0 exSplit =
    (.ok, ((emit exCfg2 textOps (some 3) exSplit).map (lineOf textTxt 2 0)).flatten) := by decide +kernel
/-- and the lines read back, in order -/
example : ((emit exCfg2 textOps (some 3) exSplit).map fun r =>
      (readLine (lineOf textTxt 2 0 r)).map fun t => t == recordJson textTxt 2 0 r) =
    [some true, some true, some true, some true] := by decide +kernel

/-- an extra directive with `Unit::None` and high resolution (serde prints `"Unit":"None"`) -/
def exCfg3 : Config := { exCfg2 with extra := [⟨bytes! "X", [[bytes! "E"]], [⟨bytes! "EM", none, true⟩]⟩] }

example : runEmf exCfg3 allOn textOps textTxt none 7 exSplit =
    (.ok, ((emit exCfg3 textOps none exSplit).map (lineOf textTxt 2 7)).flatten) := by decide +kernel

/-! ### the dtoa law is satisfiable: numbers are naturals, printed as `<digits>.0` -/

def natOps : FloatOps Nat where
  zero := 0
  mean := fun t n => t / n
  usable := fun x => some x

def natTxt (n : Nat) : List Nat := natDigits n ++ bytes! ".0"

theorem natTxt_ok : TxtOk natOps natTxt := by
  intro x y _
  have : Emf.stripDotZero (natTxt y) = natDigits y := by
    unfold Emf.stripDotZero natTxt
    simp
  rw [this]
  exact Json.isNumber_natDigits y

def exSplitNat : Entry Nat :=
  [.allowSplit,
   .value (bytes! "D") (.str (bytes! "x")),
   .value (bytes! "M") (.metric ⟨[.floating 5], none, [(bytes! "Az", bytes! "a")], .plain⟩),
   .value (bytes! "M") (.metric ⟨[.repeated 9 2, .unsigned 4], none, [(bytes! "Az", bytes! "b")], .plain⟩)]

example : validate exCfg2 allOn exSplitNat = [] := by decide
example : (emit exCfg2 natOps none exSplitNat).length = 2 := by decide
example : dimKeysDisjoint exCfg2 exSplitNat = true := by decide
example : noUnroutable exSplitNat = true := by decide

end EmfRefine
