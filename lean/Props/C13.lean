import Props.C13LemmasB
/-!
# C13 — slot values are never lost in wait mode and never partial in discard mode

Theorems about the slot part of `KeepAlive.step` (model of `slot.rs`: `Slot`, `LazySlot`, `SlotGuard`,
`OnParentDrop`, `wait_for_data` as begin / poll / cancel, `Slot::close`), for every list of slot fields
(`cfg`: any number, eager or lazy) and every schedule of the micro-steps of all threads (`Reachable`).

Reading: `sl.gval` = the value behind the slot guard as last mutated through it (frozen once the guard's
drop has begun: `gmut` needs a live guard); `sl.closedAs = some r` = the entry's destructor has closed
this field with result `r` (`Slot::close` / `LazySlot::close`); `sl.sentOk` = the guard's `tx.send` came
before that (set by the `gSend` step to "not closed yet"); `s.dgBegun = 0` = no force-flush guard has
begun to drop; the sink receives `closedVals s.slots` (theorem `c13_emitted_slots`).
-/
namespace KeepAlive

variable {cfg : List (Bool × Nat)} {s s' : St}

/-- **C13 wait mode never loses the value.** In every reachable state, for every slot that has been opened
and whose guard is in wait mode (opened with `OnParentDrop::Wait(flush guard of this entry)` or switched by
`delay_flush`): if the entry's destructor has closed the field and no force-flush guard has begun to
drop, the close result is `Some` of the guard's last value — whichever of parent and guard dropped first and
however their micro-steps interleaved. -/
theorem c13_wait_never_lost (hr : Reachable cfg s) {sl : Slot} (hm : sl ∈ s.slots) {r : Option Nat}
    (hc : sl.closedAs = some r) (ho : sl.opened = true) (hw : sl.mode = .wait) (hd : s.dgBegun = 0) :
    r = some sl.gval := by
  have hs := sinv_reachable hr
  have hsent := hs.g1 sl hm (by simp [hc]) ho hw hd
  have := (hs.ok sl hm).closed r hc
  simpa [hsent] using this

/-- … and such a field is not closed at all while the guard is alive: a live wait-mode guard holds a flush
guard, so (C06) the destructor cannot have started unless a force-flush guard has begun to drop. -/
theorem c13_wait_blocks_close (hr : Reachable cfg s) {sl : Slot} {i : Nat} (hsl : s.slots[i]? = some sl)
    (hg : sl.g ≠ .none) (hw : sl.mode = .wait) (hd : s.dgBegun = 0) :
    anyApp s = false ∧ s.appended = [] ∧ ∀ x ∈ s.slots, x.closedAs = none := by
  have hi := inv_reachable hr
  have hs := sinv_reachable hr
  have h1 : heldBy sl = 1 := by simp [heldBy, hg, hw]
  have h2 := heldBy_le_held hsl
  have h3 := hi.heldle
  have hfg : s.fgLive > 0 := by omega
  have hna : anyApp s = false := by
    cases ha : anyApp s with
    | false => rfl
    | true => have := (anyApp_cond hr ha).2; omega
  refine ⟨hna, ?_, ?_⟩
  · cases hap : s.appended with
    | nil => rfl
    | cons a l =>
      exfalso
      obtain ⟨h1', h2', h3', h4', h5', h6', h7', h8', h9', h10', h11', h11b', h12', h13', h14'⟩ := hi
      simp only [hap, List.length_cons] at h3' h4'
      dsimp only [nApp] at *
      grind [pV, pG, pA, iA, lA, lV, b2n]
  · intro x hx
    cases hc : x.closedAs with
    | none => rfl
    | some r => have := (hs.g0 ⟨x, hx, by simp [hc]⟩).2; omega

/-- **C13 discard mode (in fact any mode): present iff sent first.** The close result of a field is `Some`
of the guard's last value exactly when the guard's send preceded the field's close, and `None` otherwise —
never anything else (no partial or stale value). -/
theorem c13_closed_iff_sent (hr : Reachable cfg s) {sl : Slot} (hm : sl ∈ s.slots) {r : Option Nat}
    (hc : sl.closedAs = some r) : r = if sl.sentOk then some sl.gval else none :=
  ((sinv_reachable hr).ok sl hm).closed r hc

theorem getElem?_modifyAt {α : Type} (f : α → α) (l : List α) (i j : Nat) :
    (modifyAt f l i)[j]? = if i = j then l[j]?.map f else l[j]? := by
  induction l generalizing i j with
  | nil => simp [modifyAt]
  | cons a r ih =>
    cases i with
    | zero => cases j <;> simp [modifyAt]
    | succ i =>
      cases j with
      | zero => simp [modifyAt]
      | succ j => simp [modifyAt, ih]

/-- what `sentOk` records: the `gSend` step (the `tx.send` in `SlotGuard::drop`) sets it to "this field has
not been closed yet"; … -/
theorem c13_sentOk_set {i : Nat} {sl : Slot} (hsl : s.slots[i]? = some sl) (h : step s (.gSend i) = some s') :
    ∃ sl', s'.slots[i]? = some sl' ∧ sl'.sentOk = sl.closedAs.isNone ∧ sl'.gval = sl.gval := by
  simp only [step, hsl] at h
  split at h
  · cases h
    simp only [setSlot, getElem?_modifyAt]
    simp [hsl]
  · cases h

/-- … a slot that was never opened, or whose guard is still alive, has not sent (so it closes to `None`). -/
theorem c13_not_sent (hr : Reachable cfg s) {sl : Slot} (hm : sl ∈ s.slots)
    (h : sl.opened = false ∨ sl.g = .live) : sl.sentOk = false := by
  have hok := (sinv_reachable hr).ok sl hm
  cases hso : sl.sentOk with
  | false => rfl
  | true =>
    have := hok.sentg hso
    rcases h with h | h
    · rw [this.2] at h; cases h
    · exact absurd h this.1

theorem closeFirst_getElem? {l l' : List Slot} (h : closeFirst l = some l') (j : Nat) {sl : Slot}
    (hj : l[j]? = some sl) : ∃ sl', l'[j]? = some sl' ∧ sl'.opened = sl.opened := by
  induction l generalizing l' j with
  | nil => simp at hj
  | cons a r ih =>
    simp only [closeFirst] at h
    split at h
    · cases h
      cases j with
      | zero => simp at hj; subst hj; exact ⟨closeSlot1 a, by simp, rfl⟩
      | succ j => exact ⟨sl, by simpa using hj, rfl⟩
    · cases hr : closeFirst r with
      | none => simp [hr] at h
      | some r' =>
        simp [hr] at h; subst h
        cases j with
        | zero => exact ⟨sl, by simpa using hj, rfl⟩
        | succ j => simpa using ih hr j (by simpa using hj)

/-- once opened, always opened -/
theorem opened_step {e : Ev} (h : step s e = some s') {j : Nat} {sl : Slot} (hj : s.slots[j]? = some sl)
    (ho : sl.opened = true) : ∃ sl', s'.slots[j]? = some sl' ∧ sl'.opened = true := by
  have key : ∀ (i : Nat) (f : Slot → Slot), (∀ x, s.slots[i]? = some x → x.opened = true → (f x).opened = true) →
      ∃ sl', (modifyAt f s.slots i)[j]? = some sl' ∧ sl'.opened = true := by
    intro i f hf
    rw [getElem?_modifyAt]
    split
    · rename_i hij; subst hij; exact ⟨f sl, by simp [hj], hf sl hj ho⟩
    · exact ⟨sl, hj, ho⟩
  cases e
  case closeSlot =>
    simp only [step] at h
    split at h
    · split at h
      · rename_i l hl
        cases h
        obtain ⟨sl', h1, h2⟩ := closeFirst_getElem? hl j hj
        exact ⟨sl', h1, by rw [h2]; exact ho⟩
      · cases h
    · cases h
  all_goals
    simp only [step, dropFG, finishInner, setSlot] at h
    (repeat' split at h) <;> (try cases h) <;>
      first
      | exact ⟨sl, by simpa using hj, ho⟩
      | (simp only [relG_more]; exact key _ _ (by intro x _ hx; simp [hx]))
      | exact key _ _ (by intro x _ hx; simp [hx])
      | exact key _ _ (by intro x hx1 hx; rw [(poll_same _).2.1]; simp_all)
      | (split <;> exact ⟨sl, by simpa using hj, ho⟩)
      | skip

theorem opened_run {es : List Ev} (h : run s es = some s') {j : Nat} {sl : Slot} (hj : s.slots[j]? = some sl)
    (ho : sl.opened = true) : ∃ sl', s'.slots[j]? = some sl' ∧ sl'.opened = true := by
  induction es generalizing s sl with
  | nil => simp [run] at h; subst h; exact ⟨sl, hj, ho⟩
  | cons e es ih =>
    simp only [run] at h
    split at h
    · cases h
    · rename_i s1 hs
      obtain ⟨sl1, h1, h2⟩ := opened_step hs hj ho
      exact ih h h1 h2

/-- **C13 a slot can be opened at most once** (`Slot` and `LazySlot` alike): after a successful `open` of
field `j`, whatever happens next, every further `open` of that field returns `None` — it changes no slot at
all (the only effect is that the flush guard inside a rejected `Wait` argument is dropped). -/
theorem c13_single_open {s1 s2 s3 : St} {j : Nat} {m m' : Mode} {v v' : Nat} {sl : Slot} {es : List Ev}
    (hj : s.slots[j]? = some sl) (hfirst : sl.opened = false)
    (h1 : step s (.open j m v) = some s1) (hrun : run s1 es = some s2)
    (h2 : step s2 (.open j m' v') = some s3) :
    (∃ sl2, s2.slots[j]? = some sl2 ∧ sl2.opened = true) ∧ s3.slots = s2.slots := by
  -- the first open succeeded
  have ho1 : ∃ sl1, s1.slots[j]? = some sl1 ∧ sl1.opened = true := by
    simp only [step, hj] at h1
    split at h1
    · simp only [hfirst] at h1
      cases h1
      simp only [setSlot, getElem?_modifyAt]
      simp [hj]
    · cases h1
  obtain ⟨sl1, a1, a2⟩ := ho1
  obtain ⟨sl2, b1, b2⟩ := opened_run hrun a1 a2
  refine ⟨⟨sl2, b1, b2⟩, ?_⟩
  simp only [step, b1] at h2
  split at h2
  · cases h2
    split
    · simp only [dropFG, relG_more]
    · rfl
  · cases h2

/-- what the sink receives: the `emit` step appends exactly one entry whose slot fields are the close results
of all fields (every field has been closed by then), and touches no slot. -/
theorem c13_emitted_slots (h : step s .emit = some s') :
    s'.appended = s.appended ++ [⟨s.plain, s.hits, closedVals s.slots⟩] ∧ allClosed s.slots = true ∧
      s'.slots = s.slots := by
  simp only [step, finishInner] at h
  split at h
  · rename_i hc
    cases h
    refine ⟨?_, hc.2, ?_⟩ <;> (repeat' split) <;> rfl
  · cases h

theorem closedVals_getElem? {l : List Slot} {i : Nat} {sl : Slot} (h : l[i]? = some sl) :
    (closedVals l)[i]? = some (sl.closedAs.getD none) := by
  simp [closedVals, h]

/-- **C13 wait mode, at the level of the emitted entry.** When the entry is handed to the sink and no
force-flush guard has begun to drop, every opened wait-mode slot `i` appears in it as `Some` of its guard's
last value. -/
theorem c13_wait_in_entry (hr : Reachable cfg s) (h : step s .emit = some s') {i : Nat} {sl : Slot}
    (hsl : s.slots[i]? = some sl) (ho : sl.opened = true) (hw : sl.mode = .wait) (hd : s.dgBegun = 0) :
    ∃ a, s'.appended = s.appended ++ [a] ∧ a.slots[i]? = some (some sl.gval) := by
  obtain ⟨h1, h2, -⟩ := c13_emitted_slots h
  refine ⟨_, h1, ?_⟩
  have hm := mem_of_getElem? hsl
  have hcl : sl.closedAs.isSome = true := by
    simp only [allClosed, List.all_eq_true] at h2
    exact h2 sl hm
  cases hc : sl.closedAs with
  | none => simp [hc] at hcl
  | some r =>
    have := c13_wait_never_lost hr hm hc ho hw hd
    simp [closedVals_getElem? hsl, hc, this]

/-- **C13 `Slot::close` is total.** Whenever a thread is inside the entry's destructor, its next step (close
the next field, or hand the entry to the sink) is enabled: there is no state — in particular none after a
cancelled `wait_for_data` — in which closing a slot has no result. -/
theorem c13_close_total (_hr : Reachable cfg s) (ha : anyApp s = true) :
    (step s .closeSlot).isSome = true ∨ (step s .emit).isSome = true := by
  cases hc : allClosed s.slots with
  | true => right; simp only [step, ha, hc]; simp
  | false =>
    left
    obtain ⟨l', hl⟩ := closeFirst_some hc
    simp only [step, ha, hl]; simp

/-! ## The order inside `SlotGuard::drop`: send, then release

In the model a slot guard's drop is two micro-steps, `gSend` (the `tx.send(value.close())` of the drop body) and
`gRelease` (the field drop of `parent_drop_mode`, i.e. of the flush guard in wait mode), and `c13_wait_never_lost` /
`c13_wait_blocks_close` quantify over every schedule — in particular over those that put the parent's whole drop (and the
drop of every other flush guard) *before* `gSend` (the value's `close()` still running: nothing the model can see has
happened yet, the guard is `live` and holds its flush guard) or *between* `gSend` and `gRelease`.  The value is never lost
because the release comes after the send.  The variant below releases first (seeded change C13-k: "release the flush guard
before the possibly slow `close()` unless we are the last holder"): the same schedule loses the value. -/

inductive EvRF where
  | ev (e : Ev)
  /-- `SlotGuard::drop` of slot `i` gives its flush guard up *before* closing and sending (wait mode, not the last holder) -/
  | releaseFirst (i : Nat)
  deriving DecidableEq, Repr

def stepRF (s : St) : EvRF → Option St
  | .ev e => step s e
  | .releaseFirst i =>
    match s.slots[i]? with
    | none => none
    | some sl =>
      if sl.g = .live ∧ sl.mode = .wait ∧ s.gS > 1 then
        some (dropFG (setSlot s i fun sl => { sl with mode := .discard }))
      else none

def runRF (s : St) : List EvRF → Option St
  | [] => some s
  | e :: es => match stepRF s e with
    | none => none
    | some s' => runRF s' es

/-- witness: a wait-mode guard starts to drop while the parent is alive and gives its flush guard up first; the parent is
dropped while the value's `close()` is still running; the entry is closed and appended **without the slot value** although
no force-flush guard exists; the later send goes to a dead channel. -/
example : (runRF (init [fresh (false, 3)]) [.ev .newFG, .ev (.open 0 .wait 0), .ev (.gmut 0 9), .releaseFirst 0,
            .ev .refDrop, .ev .pDecV, .ev .pDecG, .ev .innerDrop, .ev .closeSlot, .ev .emit, .ev (.gSend 0),
            .ev (.gRelease 0)]).map (fun s => (s.appended, s.dgBegun, inFlight s))
    = some ([⟨0, 0, [none]⟩], 0, false) := by decide

/-- the model as it is, same schedule with the parent's whole drop before the guard's `gSend` (`close()` still running):
the flush guard is still held, nothing is appended until the guard has sent and released — and then with the value. -/
example : (run (init [fresh (false, 3)]) [.newFG, .open 0 .wait 0, .gmut 0 9, .refDrop, .pDecV, .pDecG]).map
      (fun s => (s.appended.length, anyApp s, (step s .innerDrop).isSome))
    = some (0, false, false) := by decide

example : (run (init [fresh (false, 3)]) [.newFG, .open 0 .wait 0, .gmut 0 9, .refDrop, .pDecV, .pDecG, .gSend 0,
            .gRelease 0, .innerDrop, .closeSlot, .emit]).map (fun s => s.appended)
    = some [⟨0, 0, [some 9]⟩] := by decide

/-! ## Non-vacuity (kernel-evaluated schedules) -/

/-- the corpus case of the defect fixed by 839103f: open Discard, poll `wait_for_data` once, drop the future,
drop the guard, drop the parent: the entry is appended, with the slot value. -/
example : (run (init [fresh (false, 3)]) [.open 0 .discard 0, .waitBegin 0, .waitCancel, .gSend 0, .gRelease 0,
            .refDrop, .pDecV, .pDecG, .innerDrop, .closeSlot, .emit]).map (fun s => (s.appended, inFlight s))
    = some ([⟨0, 0, [some 3]⟩], false) := by decide

/-- wait mode, parent dropped first, on another thread, while the guard's drop is between its send and the
release of its flush guard (perturbation point 13): the append waits and carries the value. -/
example : (run (init [fresh (false, 3), fresh (true, 0)]) [.newFG, .open 0 .wait 0, .gmut 0 9, .gSend 0, .refDrop, .pDecV,
            .pDecG, .gRelease 0, .innerDrop, .closeSlot, .closeSlot, .emit]).map (fun s => s.appended)
    = some [⟨0, 0, [some 9, none]⟩] := by decide

/-- discard mode, the entry closes between the guard's creation and its send: the slot is absent, the rest intact -/
example : (run (init [fresh (true, 0)]) [.mutate 4, .open 0 .discard 8, .refDrop, .pDecV, .pDecG, .innerDrop,
            .closeSlot, .gSend 0, .emit, .gRelease 0]).map (fun s => s.appended)
    = some [⟨4, 0, [none]⟩] := by decide

/-- a force-flush guard releases the entry although a wait-mode guard is alive: the value is (legitimately) lost -/
example : (run (init [fresh (false, 3)]) [.newFG, .open 0 .wait 0, .newDG, .refDrop, .pDecV, .pDecG, .dgBegin, .dgLock,
            .lRun, .closeSlot, .emit, .lUnlock, .dgDec, .gSend 0, .gRelease 0, .innerDrop]).map
      (fun s => (s.appended, s.dgBegun, inFlight s))
    = some ([⟨0, 0, [none]⟩], 1, false) := by decide

end KeepAlive

#print axioms KeepAlive.c13_wait_never_lost
#print axioms KeepAlive.c13_wait_blocks_close
#print axioms KeepAlive.c13_closed_iff_sent
#print axioms KeepAlive.c13_sentOk_set
#print axioms KeepAlive.c13_not_sent
#print axioms KeepAlive.c13_single_open
#print axioms KeepAlive.c13_close_total
#print axioms KeepAlive.c13_emitted_slots
#print axioms KeepAlive.c13_wait_in_entry
