import Model.Queue
import Model.QueueSpec
/-!
Shared lemmas about the background-queue model: how each event changes the "conservation core"
(ring, entry being consumed, delivered / displaced history, push order, overflow counter).
Used by Props/C09, C01, C05, C04.
-/
namespace Queue

/-- the entry the writer has popped and not yet handed to the stream -/
def holding : WPc → List Ent
  | .holding e _ => [e]
  | .shutHolding e _ => [e]
  | _ => []

@[simp] theorem delivered_nil : delivered [] = [] := rfl
@[simp] theorem displaced_nil : displaced [] = [] := rfl

@[simp] theorem delivered_append (a b : List Obs) : delivered (a ++ b) = delivered a ++ delivered b := by
  simp [delivered, List.filterMap_append]

@[simp] theorem displaced_append (a b : List Obs) : displaced (a ++ b) = displaced a ++ displaced b := by
  simp [displaced, List.filterMap_append]

@[simp] theorem delivered_completed (l : List Nat) (b : Bool) : delivered (l.map (Obs.completed · b)) = [] := by
  induction l with
  | nil => rfl
  | cons x xs ih => simp [delivered]

@[simp] theorem displaced_completed (l : List Nat) (b : Bool) : displaced (l.map (Obs.completed · b)) = [] := by
  induction l with
  | nil => rfl
  | cons x xs ih => simp [displaced]

theorem delivered_consumeObs (s : QState) (c : Clock) (e : Ent) : delivered (consumeObs s c e) = [e] := by
  unfold consumeObs; split <;> simp [delivered]

theorem displaced_consumeObs (s : QState) (c : Clock) (e : Ent) : displaced (consumeObs s c e) = [] := by
  unfold consumeObs; split <;> simp [displaced]

/-- The part of the state the conservation invariants talk about. -/
structure Core where
  cap : Nat
  ring : List Ent
  hold : List Ent
  deliv : List Ent
  displ : List Ent
  pushOrder : List Ent
  overflow : Nat

def core (s : QState) : Core :=
  ⟨s.cap, s.ring, holding s.wpc, delivered s.log, displaced s.log, s.pushOrder, s.overflow⟩

/-- What a writer micro-step does to the core: nothing, a pop, or handing the held entry to the stream. -/
inductive WCore (s s' : QState) : Prop where
  | same : core s' = core s → WCore s s'
  | pop (e : Ent) (t : List Ent) : s.ring = e :: t → holding s.wpc = [] → s'.ring = t → holding s'.wpc = [e] →
      s'.cap = s.cap → s'.log = s.log → s'.pushOrder = s.pushOrder → s'.overflow = s.overflow → WCore s s'
  | consume (e : Ent) : holding s.wpc = [e] → holding s'.wpc = [] → s'.ring = s.ring →
      delivered s'.log = delivered s.log ++ [e] → displaced s'.log = displaced s.log →
      s'.cap = s.cap → s'.pushOrder = s.pushOrder → s'.overflow = s.overflow → WCore s s'

theorem wstep_core {s s' : QState} {c : Clock} (h : wstep s c = some s') : WCore s s' := by
  unfold wstep at h
  split at h
  · -- drain
    rename_i n hpc
    split at h
    · cases h; exact .same (by simp [core, holding, hpc])
    · rename_i e t hr
      cases h; exact .pop e t hr (by simp [holding, hpc]) rfl (by simp [holding]) rfl rfl rfl rfl
  · -- holding
    rename_i e n hpc
    cases h
    refine .consume e (by simp [holding, hpc]) ?_ rfl (by simp [delivered_consumeObs]) (by simp [displaced_consumeObs]) rfl rfl rfl
    dsimp only; split <;> simp [holding]
  · -- afterDrain
    rename_i st n hpc
    cases h
    refine .same ?_
    simp only [core, holding, hpc, delivered_append, displaced_append, delivered_completed, displaced_completed]
    split <;> simp [delivered, displaced]
  · -- postHww
    rename_i st hpc
    split at h
    · cases h; exact .same (by simp [core, holding, hpc])
    · split at h
      · cases h; exact .same (by simp [core, holding, hpc])
      · split at h <;> (cases h; exact .same (by simp [core, holding, hpc]))
  · -- parking
    rename_i hpc
    split at h
    · cases h; exact .same (by simp [core, holding, hpc])
    · split at h
      · cases h; exact .same (by simp [core, holding, hpc])
      · cases h
  · -- checkTime
    rename_i hpc
    split at h <;> (cases h; exact .same (by simp [core, holding, hpc]))
  · -- outerFlush
    rename_i hpc
    cases h; exact .same (by simp [core, holding, hpc, delivered, displaced])
  · -- checkShutdown
    rename_i hpc
    split at h <;> (cases h; exact .same (by simp [core, holding, hpc]))
  · -- checkHandles
    rename_i hpc
    split at h <;> (cases h; exact .same (by simp [core, holding, hpc]))
  · -- shutDrain
    rename_i n hpc
    split at h
    · cases h; exact .same (by simp [core, holding, hpc])
    · rename_i e t hr
      cases h; exact .pop e t hr (by simp [holding, hpc]) rfl (by simp [holding]) rfl rfl rfl rfl
  · -- shutHolding
    rename_i e n hpc
    cases h
    refine .consume e (by simp [holding, hpc]) ?_ rfl (by simp [delivered_consumeObs])
         (by simp [displaced_consumeObs]) rfl rfl rfl
    dsimp only; split <;> simp [holding]
  · -- shutFlush
    rename_i hpc
    cases h
    exact .same (by simp [core, holding, hpc, delivered, displaced])
  · cases h

/-- What `push` does. -/
inductive PushCore (s s' : QState) (p : Nat) : Prop where
  | room : s.ring.length < s.cap → s'.ring = s.ring ++ [(p, s.pushOrder.length)] →
      s'.log = s.log → s'.overflow = s.overflow → PushCore s s' p
  | zero : s.ring = [] → s'.ring = [(p, s.pushOrder.length)] →
      s'.log = s.log → s'.overflow = s.overflow → PushCore s s' p
  | displace (d : Ent) (t : List Ent) : s.cap ≤ s.ring.length → s.ring = d :: t →
      s'.ring = t ++ [(p, s.pushOrder.length)] → s'.log = s.log ++ [.displaced d] →
      s'.overflow = s.overflow + 1 → PushCore s s' p

theorem push_core {s s' : QState} {p : Nat} (h : step s (.push p) = some s') :
    PushCore s s' p ∧ s'.pushOrder = s.pushOrder ++ [(p, s.pushOrder.length)] ∧ s'.wpc = s.wpc ∧
      s'.cap = s.cap ∧ 0 < s.handles := by
  simp only [step] at h
  split at h
  · cases h
  · rename_i hh
    unfold forcePush at h
    split at h
    · rename_i ring' hfp
      split at hfp
      · rename_i hlt
        cases hfp; cases h
        exact ⟨.room hlt rfl rfl rfl, rfl, rfl, rfl, by omega⟩
      · split at hfp
        · rename_i hnil
          cases hfp; cases h
          exact ⟨.zero hnil rfl rfl rfl, rfl, rfl, rfl, by omega⟩
        · cases hfp
    · rename_i ring' d hfp
      split at hfp
      · cases hfp
      · rename_i hge
        split at hfp
        · cases hfp
        · rename_i d' t hr
          cases hfp; cases h
          exact ⟨.displace _ _ (by omega) hr rfl rfl rfl, rfl, rfl, rfl, by omega⟩

/-- Every other event leaves the core alone. -/
theorem other_core {s s' : QState} {ev : Ev} (h : step s ev = some s')
    (hp : ∀ p, ev ≠ .push p) (hw : ∀ c, ev ≠ .w c) : core s' = core s := by
  cases ev with
  | push p => exact absurd rfl (hp p)
  | w c => exact absurd rfl (hw c)
  | unpark p => simp only [step] at h; split at h <;> cases h; rfl
  | flushSend =>
    simp only [step] at h
    split at h <;> (cases h; simp [core, delivered, displaced])
  | flushUnpark i => simp only [step] at h; split at h <;> cases h; rfl
  | clone => simp only [step] at h; split at h <;> cases h; rfl
  | dropHandle => simp only [step] at h; split at h <;> cases h; rfl
  | forget => simp only [step] at h; split at h <;> cases h; rfl
  | setSubscriber b => simp only [step] at h; cases h; rfl
  | dropJoinBegin => simp only [step] at h; split at h <;> cases h; rfl
  | dropJoinUnpark => simp only [step] at h; split at h <;> cases h; rfl
  | dropJoinEnd =>
    simp only [step] at h
    split at h <;> cases h
    simp [core, delivered, displaced]


/-! ### What a step appends to the history -/

def Obs.isNextOrReport : Obs → Bool
  | .next _ _ => true
  | .report => true
  | _ => false

theorem completed_not_next (l : List Nat) (b : Bool) : ∀ o ∈ l.map (Obs.completed · b), o.isNextOrReport = false := by
  intro o ho
  obtain ⟨i, _, rfl⟩ := List.mem_map.mp ho
  rfl

/-- A step either hands the held entry to the stream (appending `consumeObs`) or appends
observations that are neither `next` nor `report`. Static configuration never changes. -/
theorem step_log {s s' : QState} {ev : Ev} (h : step s ev = some s') :
    ((∃ c e, ev = .w c ∧ holding s.wpc = [e] ∧ s'.log = s.log ++ consumeObs s c e) ∨
     (∃ added, s'.log = s.log ++ added ∧ ∀ o ∈ added, o.isNextOrReport = false)) ∧
    s'.res = s.res ∧ ((∀ b, ev ≠ .setSubscriber b) → s'.noSubscriber = s.noSubscriber) ∧ s'.cap = s.cap := by
  cases ev with
  | push p =>
    obtain ⟨hpc, _, _, hcap, _⟩ := push_core h
    simp only [step] at h
    split at h
    · cases h
    · split at h <;> cases h
      · exact ⟨.inr ⟨[], by simp, by simp⟩, rfl, fun _ => rfl, rfl⟩
      · exact ⟨.inr ⟨[_], rfl, by simp [Obs.isNextOrReport]⟩, rfl, fun _ => rfl, rfl⟩
  | unpark p =>
    simp only [step] at h; split at h <;> cases h
    exact ⟨.inr ⟨[], by simp, by simp⟩, rfl, fun _ => rfl, rfl⟩
  | flushSend =>
    simp only [step] at h
    split at h <;> cases h
    · exact ⟨.inr ⟨[_], rfl, by simp [Obs.isNextOrReport]⟩, rfl, fun _ => rfl, rfl⟩
    · exact ⟨.inr ⟨[], by simp, by simp⟩, rfl, fun _ => rfl, rfl⟩
  | flushUnpark i =>
    simp only [step] at h; split at h <;> cases h
    exact ⟨.inr ⟨[], by simp, by simp⟩, rfl, fun _ => rfl, rfl⟩
  | clone =>
    simp only [step] at h; split at h <;> cases h
    exact ⟨.inr ⟨[], by simp, by simp⟩, rfl, fun _ => rfl, rfl⟩
  | dropHandle =>
    simp only [step] at h; split at h <;> cases h
    exact ⟨.inr ⟨[], by simp, by simp⟩, rfl, fun _ => rfl, rfl⟩
  | forget =>
    simp only [step] at h; split at h <;> cases h
    exact ⟨.inr ⟨[], by simp, by simp⟩, rfl, fun _ => rfl, rfl⟩
  | setSubscriber b =>
    simp only [step] at h; cases h
    exact ⟨.inr ⟨[], by simp, by simp⟩, rfl, fun hb => absurd rfl (hb b), rfl⟩
  | dropJoinBegin =>
    simp only [step] at h; split at h <;> cases h
    exact ⟨.inr ⟨[], by simp, by simp⟩, rfl, fun _ => rfl, rfl⟩
  | dropJoinUnpark =>
    simp only [step] at h; split at h <;> cases h
    exact ⟨.inr ⟨[], by simp, by simp⟩, rfl, fun _ => rfl, rfl⟩
  | dropJoinEnd =>
    simp only [step] at h; split at h <;> cases h
    exact ⟨.inr ⟨[_], rfl, by simp [Obs.isNextOrReport]⟩, rfl, fun _ => rfl, rfl⟩
  | w c =>
    simp only [step] at h
    unfold wstep at h
    split at h
    · split at h <;> cases h <;> exact ⟨.inr ⟨[], by simp, by simp⟩, rfl, fun _ => rfl, rfl⟩
    · rename_i e n hpc
      cases h
      exact ⟨.inl ⟨c, e, rfl, by simp [holding, hpc], rfl⟩, rfl, fun _ => rfl, rfl⟩
    · cases h
      refine ⟨.inr ⟨_, by rw [List.append_assoc], ?_⟩, rfl, fun _ => rfl, rfl⟩
      intro o ho
      rcases List.mem_append.mp ho with h1 | h1
      · split at h1
        · simp at h1; subst h1; rfl
        · simp at h1
      · exact completed_not_next _ _ o h1
    · split at h
      · cases h; exact ⟨.inr ⟨[], by simp, by simp⟩, rfl, fun _ => rfl, rfl⟩
      · split at h
        · cases h; exact ⟨.inr ⟨[], by simp, by simp⟩, rfl, fun _ => rfl, rfl⟩
        · split at h <;> cases h <;> exact ⟨.inr ⟨[], by simp, by simp⟩, rfl, fun _ => rfl, rfl⟩
    · split at h
      · cases h; exact ⟨.inr ⟨[], by simp, by simp⟩, rfl, fun _ => rfl, rfl⟩
      · split at h
        · cases h; exact ⟨.inr ⟨[], by simp, by simp⟩, rfl, fun _ => rfl, rfl⟩
        · cases h
    · split at h <;> cases h <;> exact ⟨.inr ⟨[], by simp, by simp⟩, rfl, fun _ => rfl, rfl⟩
    · cases h; exact ⟨.inr ⟨[_], rfl, by simp [Obs.isNextOrReport]⟩, rfl, fun _ => rfl, rfl⟩
    · split at h <;> cases h <;> exact ⟨.inr ⟨[], by simp, by simp⟩, rfl, fun _ => rfl, rfl⟩
    · split at h <;> cases h <;> exact ⟨.inr ⟨[], by simp, by simp⟩, rfl, fun _ => rfl, rfl⟩
    · split at h <;> cases h <;> exact ⟨.inr ⟨[], by simp, by simp⟩, rfl, fun _ => rfl, rfl⟩
    · rename_i e n hpc
      cases h
      exact ⟨.inl ⟨c, e, rfl, by simp [holding, hpc], rfl⟩, rfl, fun _ => rfl, rfl⟩
    · cases h
      refine ⟨.inr ⟨_, by rw [List.append_assoc], ?_⟩, rfl, fun _ => rfl, rfl⟩
      intro o ho
      rcases List.mem_append.mp ho with h1 | h1
      · simp at h1; rcases h1 with rfl | rfl <;> rfl
      · exact completed_not_next _ _ o h1
    · cases h

/-- induction principle: a predicate that holds initially and is preserved by every step holds in
every reachable state -/
theorem Reachable.inv {P : QState → Prop} (h0 : ∀ cap res ns, P (Queue.init cap res ns))
    (hs : ∀ s s' ev, Reachable s → P s → Queue.step s ev = some s' → P s') {s : QState} (hr : Reachable s) : P s := by
  induction hr with
  | init cap res ns => exact h0 cap res ns
  | step hr' hst ih => exact hs _ _ _ hr' ih hst

theorem Reachable.run {s s' : QState} {evs : List Ev} (hr : Reachable s) (h : run s evs = some s') :
    Reachable s' := by
  induction evs generalizing s with
  | nil => simp [Queue.run] at h; exact h ▸ hr
  | cons ev evs ih =>
    simp only [Queue.run] at h
    split at h
    · cases h
    · rename_i s1 hs1
      exact ih (Reachable.step hr hs1) h

end Queue
