import Props.C14
import Props.C02Json
/-!
Lemmas for C02, part a: what `write_observation`, the observation loop, `write_metric_value` and
`write_metric` append to their buffers, in terms of the JSON fragment calculus.
-/
namespace Emf
open Json

/-! ### The float law: every float text supplied with an observation is a JSON number -/

def Obs.fmtOk : Obs → Bool
  | .unsigned _ => true
  | .floating none => true
  | .floating (some t) => isNumber (stripDotZero t)
  | .repeated none _ => true
  | .repeated (some t) _ => isNumber (stripDotZero t)

def Val.fmtOk : Val → Bool
  | .metric obs _ _ _ => obs.all Obs.fmtOk
  | _ => true

def Item.fmtOk : Item → Bool
  | .value _ v => v.fmtOk
  | _ => true

def Call.fmtOk (call : Call) : Bool := call.items.all Item.fmtOk

/-! ### `write_observation` and the observation loop -/

theorem writeObservation_spec (buf counts : PBuf) (o : Obs) (ho : o.fmtOk = true) (mult : Option Nat)
    (h : (writeObservation buf counts o mult).2.2 = true) :
    ∃ v cv, (writeObservation buf counts o mult).1 = ⟨buf.prefixLen, buf.buf ++ v⟩ ∧
      (writeObservation buf counts o mult).2.1 = ⟨counts.prefixLen, counts.buf ++ cv⟩ ∧ IsVal v ∧ IsVal cv := by
  unfold writeObservation at h ⊢
  cases o with
  | unsigned v => exact ⟨_, _, rfl, rfl, IsVal.natDigits _, IsVal.natDigits _⟩
  | floating f =>
    cases f with
    | none => simp at h
    | some t => exact ⟨_, _, rfl, rfl, IsVal.number ho, IsVal.natDigits _⟩
  | repeated f occ =>
    cases f with
    | none => simp at h
    | some t => exact ⟨_, _, rfl, rfl, IsVal.number ho, IsVal.natDigits _⟩

theorem obsLoop_spec (mult : Option Nat) (obs : List Obs) (hok : ∀ o ∈ obs, o.fmtOk = true)
    (buf counts : PBuf) (wrote : Bool) (base V cbase C : Bytes)
    (hb : buf.buf = base ++ V) (hc : counts.buf = cbase ++ C) (hV : IsItems V) (hC : IsItems C)
    (hwV : wrote = true ↔ V ≠ []) (hwC : wrote = true ↔ C ≠ []) :
    ∃ V' C', (obsLoop mult obs buf counts wrote).1 = ⟨buf.prefixLen, base ++ V'⟩ ∧
      (obsLoop mult obs buf counts wrote).2.1 = ⟨counts.prefixLen, cbase ++ C'⟩ ∧
      IsItems V' ∧ IsItems C' ∧ ((obsLoop mult obs buf counts wrote).2.2 = true ↔ V' ≠ []) := by
  induction obs generalizing buf counts wrote V C with
  | nil =>
    refine ⟨V, C, ?_, ?_, hV, hC, hwV⟩
    · cases buf; simp_all [obsLoop]
    · cases counts; simp_all [obsLoop]
  | cons o rest ih =>
    have ho := hok o (by simp)
    have hrest : ∀ o ∈ rest, o.fmtOk = true := fun x hx => hok x (by simp [hx])
    unfold obsLoop
    simp only
    have hb1 : buf.Ext (if wrote then buf.push 44 else buf) := by
      split
      · exact PBuf.ext_push _ _
      · exact PBuf.Ext.refl _
    have hc1 : counts.Ext (if wrote then counts.push 44 else counts) := by
      split
      · exact PBuf.ext_push _ _
      · exact PBuf.Ext.refl _
    cases hr : writeObservation (if wrote then buf.push 44 else buf) (if wrote then counts.push 44 else counts) o mult with
    | mk buf2 r2 =>
      obtain ⟨counts2, ok⟩ := r2
      cases ok with
      | false =>
        simp only
        have hs := writeObservation_skip (buf := if wrote then buf.push 44 else buf)
          (counts := if wrote then counts.push 44 else counts) (o := o) (mult := mult) (by rw [hr])
        rw [hr] at hs
        simp only at hs
        rw [hs.1, hs.2, hb1.truncate, hc1.truncate]
        exact ih hrest buf counts wrote V C hb hc hV hC hwV hwC
      | true =>
        simp only
        obtain ⟨v, cv, e1, e2, hv, hcv⟩ := writeObservation_spec (if wrote then buf.push 44 else buf)
          (if wrote then counts.push 44 else counts) o ho mult (by rw [hr])
        rw [hr] at e1 e2
        simp only at e1 e2
        cases wrote with
        | true =>
          have hVne : V ≠ [] := hwV.mp rfl
          have hCne : C ≠ [] := hwC.mp rfl
          simp only [↓reduceIte, PBuf.push, hb, hc] at e1 e2
          obtain ⟨V', C', g1, g2, g3, g4, g5⟩ := ih hrest buf2 counts2 true (V ++ 44 :: v) (C ++ 44 :: cv)
            (by rw [e1]; simp) (by rw [e2]; simp) (hV.push hVne hv) (hC.push hCne hcv)
            (by simp) (by simp)
          refine ⟨V', C', ?_, ?_, g3, g4, g5⟩
          · rw [g1, e1]
          · rw [g2, e2]
        | false =>
          have hVe : V = [] := by
            by_cases h : V = []
            · exact h
            · exact absurd (hwV.mpr h) (by simp)
          have hCe : C = [] := by
            by_cases h : C = []
            · exact h
            · exact absurd (hwC.mpr h) (by simp)
          subst hVe hCe
          simp only [Bool.false_eq_true, ↓reduceIte, hb, hc, List.append_nil] at e1 e2
          obtain ⟨V', C', g1, g2, g3, g4, g5⟩ := ih hrest buf2 counts2 true v cv
            (by rw [e1]) (by rw [e2]) (IsItems.one hv) (IsItems.one hcv)
            (by simp [hv.ne_nil]) (by simp [hcv.ne_nil])
          refine ⟨V', C', ?_, ?_, g3, g4, g5⟩
          · rw [g1, e1]
          · rw [g2, e2]

/-! ### The `{"Values":[…],"Counts":[…]}` object, `write_metric_value`, `write_metric` -/

def valuesObj (V C : Bytes) : Bytes := bytes! "{\"Values\":[" ++ V ++ countsPrefix ++ C ++ bytes! "]}"

theorem isKey_lit (s : Bytes) {k : Bytes} (h : k = jstr s) : IsKey k := h ▸ IsKey.jstr s

theorem IsVal.valuesObj {V C : Bytes} (hV : IsItems V) (hC : IsItems C) : IsVal (valuesObj V C) := by
  have h := IsVal.obj (isKey_lit (bytes! "Values") (k := bytes! "\"Values\"") (by decide)) (IsVal.arr hV)
    (IsMembers.one (isKey_lit (bytes! "Counts") (k := bytes! "\"Counts\"") (by decide)) (IsVal.arr hC))
  have e : Emf.valuesObj V C = 123 :: (bytes! "\"Values\"" ++ 58 :: (91 :: (V ++ [93]) ++
      (44 :: (bytes! "\"Counts\"" ++ 58 :: (91 :: (C ++ [93]))) ++ [125]))) := by
    simp [Emf.valuesObj, countsPrefix]
  rw [e]; exact h

theorem writeValues_spec (buf : PBuf) (first : Obs) (rest : List Obs)
    (hf : first.fmtOk = true) (hr : ∀ o ∈ rest, o.fmtOk = true) (mult : Option Nat) :
    (writeValues buf (PBuf.new countsPrefix) first rest mult).2.1 = PBuf.new countsPrefix ∧
    ∃ v, (writeValues buf (PBuf.new countsPrefix) first rest mult).1 = ⟨buf.prefixLen, buf.buf ++ v⟩ ∧ IsVal v := by
  unfold writeValues
  simp only [(PBuf.WF.new countsPrefix).clear_eq]
  -- first observation
  have key : ∃ V C, (writeObservation (buf.pushRaw (bytes! "{\"Values\":[")) (PBuf.new countsPrefix) first mult).1 =
        ⟨buf.prefixLen, (buf.buf ++ bytes! "{\"Values\":[") ++ V⟩ ∧
      (writeObservation (buf.pushRaw (bytes! "{\"Values\":[")) (PBuf.new countsPrefix) first mult).2.1 =
        ⟨countsPrefix.length, countsPrefix ++ C⟩ ∧ IsItems V ∧ IsItems C ∧
      ((writeObservation (buf.pushRaw (bytes! "{\"Values\":[")) (PBuf.new countsPrefix) first mult).2.2 = true ↔ V ≠ []) ∧
      ((writeObservation (buf.pushRaw (bytes! "{\"Values\":[")) (PBuf.new countsPrefix) first mult).2.2 = true ↔ C ≠ []) := by
    cases hw : (writeObservation (buf.pushRaw (bytes! "{\"Values\":[")) (PBuf.new countsPrefix) first mult).2.2 with
    | false =>
      obtain ⟨e1, e2⟩ := writeObservation_skip hw
      exact ⟨[], [], by rw [e1]; simp [PBuf.pushRaw], by rw [e2]; simp [PBuf.new], IsItems.nil, IsItems.nil,
        by simp, by simp⟩
    | true =>
      obtain ⟨v, cv, e1, e2, hv, hcv⟩ := writeObservation_spec _ _ first hf mult hw
      exact ⟨v, cv, by rw [e1]; rfl, by rw [e2]; rfl, IsItems.one hv, IsItems.one hcv,
        by simp [hv.ne_nil], by simp [hcv.ne_nil]⟩
  obtain ⟨V, C, e1, e2, hV, hC, hwV, hwC⟩ := key
  generalize writeObservation (buf.pushRaw (bytes! "{\"Values\":[")) (PBuf.new countsPrefix) first mult = r1 at *
  obtain ⟨b1, c1, w1⟩ := r1
  simp only at e1 e2 hwV hwC
  subst e1 e2
  obtain ⟨V', C', g1, g2, g3, g4, -⟩ := obsLoop_spec mult rest hr
    ⟨buf.prefixLen, (buf.buf ++ bytes! "{\"Values\":[") ++ V⟩ ⟨countsPrefix.length, countsPrefix ++ C⟩ w1
    (buf.buf ++ bytes! "{\"Values\":[") V countsPrefix C rfl rfl hV hC hwV hwC
  simp only at g1 g2
  rw [g1, g2]
  refine ⟨?_, valuesObj V' C', ?_, IsVal.valuesObj g3 g4⟩
  · simp [PBuf.clear, PBuf.new]
  · simp [PBuf.pushRaw, valuesObj, List.append_assoc]

theorem writeMetricValue_spec (name : Bytes) (fields : PBuf) (first : Obs) (rest : List Obs)
    (hf : first.fmtOk = true) (hr : ∀ o ∈ rest, o.fmtOk = true) (mult : Option Nat) :
    (writeMetricValue name fields (PBuf.new countsPrefix) first rest mult).2.1 = PBuf.new countsPrefix ∧
    ((writeMetricValue name fields (PBuf.new countsPrefix) first rest mult).2.2 = true →
      ∃ x, (writeMetricValue name fields (PBuf.new countsPrefix) first rest mult).1 =
        ⟨fields.prefixLen, fields.buf ++ x⟩ ∧ IsMembers x) := by
  unfold writeMetricValue
  simp only
  split
  · rename_i v
    refine ⟨rfl, fun _ => ⟨44 :: (jstr name ++ 58 :: natDigits v), ?_, IsMembers.one (IsKey.jstr name) (IsVal.natDigits v)⟩⟩
    simp [PBuf.push, PBuf.jsonString, PBuf.pushRaw, PBuf.pushInt]
  · rename_i t
    refine ⟨rfl, fun _ => ⟨44 :: (jstr name ++ 58 :: stripDotZero t), ?_,
      IsMembers.one (IsKey.jstr name) (IsVal.number hf)⟩⟩
    simp [PBuf.push, PBuf.jsonString, PBuf.pushRaw]
  · exact ⟨rfl, fun h => by simp at h⟩
  · obtain ⟨hc, v, e, hv⟩ := writeValues_spec (((fields.push 44).jsonString name).push 58) first rest hf hr mult
    refine ⟨hc, fun _ => ⟨44 :: (jstr name ++ 58 :: v), ?_, IsMembers.one (IsKey.jstr name) hv⟩⟩
    rw [e]
    simp [PBuf.push, PBuf.jsonString, PBuf.pushRaw]

theorem IsVal.metricDecl (name : Bytes) (unit : Option Bytes) (flags : Flags) :
    IsVal (metricDecl name unit flags) := by
  have kN := isKey_lit (bytes! "Name") (k := bytes! "\"Name\"") (by decide)
  have kU := isKey_lit (bytes! "Unit") (k := bytes! "\"Unit\"") (by decide)
  have kS := isKey_lit (bytes! "StorageResolution") (k := bytes! "\"StorageResolution\"") (by decide)
  have one : IsVal [49] := IsVal.number (by decide)
  unfold Emf.metricDecl
  cases unit with
  | none =>
    cases flags with
    | highRes =>
      have h := IsVal.obj kN (IsVal.jstr name) (IsMembers.one kS one)
      simpa using h
    | none => have h := IsVal.obj kN (IsVal.jstr name) IsMembers.nil; simpa using h
    | noMetric => have h := IsVal.obj kN (IsVal.jstr name) IsMembers.nil; simpa using h
  | some u =>
    cases flags with
    | highRes =>
      have h := IsVal.obj kN (IsVal.jstr name) ((IsMembers.one kU (IsVal.jstr u)).append (IsMembers.one kS one))
      simpa using h
    | none => have h := IsVal.obj kN (IsVal.jstr name) (IsMembers.one kU (IsVal.jstr u)); simpa using h
    | noMetric => have h := IsVal.obj kN (IsVal.jstr name) (IsMembers.one kU (IsVal.jstr u)); simpa using h

/-- what `write_metric` does to its three buffers -/
theorem writeMetric_spec (name : Bytes) (fields : PBuf) (mp M : Bytes) (hM : IsItems M) (obs : List Obs)
    (hok : ∀ o ∈ obs, o.fmtOk = true) (unit : Option Bytes) (flags : Flags) (mult : Option Nat) :
    (∃ x, (writeMetric name fields ⟨mp.length, mp ++ M⟩ (PBuf.new countsPrefix) obs unit flags mult).1 =
        ⟨fields.prefixLen, fields.buf ++ x⟩ ∧ IsMembers x) ∧
    (∃ M', (writeMetric name fields ⟨mp.length, mp ++ M⟩ (PBuf.new countsPrefix) obs unit flags mult).2.1 =
        ⟨mp.length, mp ++ M'⟩ ∧ IsItems M') ∧
    (writeMetric name fields ⟨mp.length, mp ++ M⟩ (PBuf.new countsPrefix) obs unit flags mult).2.2 =
      PBuf.new countsPrefix := by
  unfold writeMetric
  cases obs with
  | nil => exact ⟨⟨[], by simp, IsMembers.nil⟩, ⟨M, rfl, hM⟩, rfl⟩
  | cons first rest =>
    simp only
    obtain ⟨hc, hx⟩ := writeMetricValue_spec name fields first rest (hok first (by simp))
      (fun o ho => hok o (by simp [ho])) mult
    have hext := writeMetricValue_ext name fields (PBuf.new countsPrefix) first rest mult
    generalize writeMetricValue name fields (PBuf.new countsPrefix) first rest mult = r at *
    obtain ⟨f', c', ok⟩ := r
    simp only at hc hx hext
    subst hc
    cases ok with
    | false =>
      simp only
      rw [hext.truncate]
      exact ⟨⟨[], by simp, IsMembers.nil⟩, ⟨M, rfl, hM⟩, trivial⟩
    | true =>
      obtain ⟨x, e, hxm⟩ := hx rfl
      subst e
      simp only
      cases flags with
      | noMetric => exact ⟨⟨x, rfl, hxm⟩, ⟨M, rfl, hM⟩, rfl⟩
      | none =>
        refine ⟨⟨x, rfl, hxm⟩, ⟨if M = [] then metricDecl name unit .none else M ++ 44 :: metricDecl name unit .none, ?_,
          hM.pushIf (IsVal.metricDecl name unit .none)⟩, rfl⟩
        by_cases hMe : M = []
        · subst hMe; simp [PBuf.isEmpty, PBuf.pushRaw]
        · simp [PBuf.isEmpty, PBuf.pushRaw, PBuf.push, hMe]
      | highRes =>
        refine ⟨⟨x, rfl, hxm⟩, ⟨if M = [] then metricDecl name unit .highRes else M ++ 44 :: metricDecl name unit .highRes, ?_,
          hM.pushIf (IsVal.metricDecl name unit .highRes)⟩, rfl⟩
        by_cases hMe : M = []
        · subst hMe; simp [PBuf.isEmpty, PBuf.pushRaw]
        · simp [PBuf.isEmpty, PBuf.pushRaw, PBuf.push, hMe]
end Emf
