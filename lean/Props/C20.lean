import Model.MetricsRs
import Model.MetricsRsUnits
import Generated.MetricsRs
import Props.C20Lemmas
/-!
# C20 — the metrics.rs bridge reports every counter increment and sample exactly once

Theorems about `MetricsRs.run` (model of `metrique-metricsrs`), for every list of atomic events — i.e. for every
interleaving of any number of updater threads with the steps of any number of readouts — and every start state.
-/
namespace MetricsRs

/-! ## Finite maps -/

theorem FMap.get_filter_ne {α : Type} [DecidableEq α] (m : FMap α) (k k' : α) :
    FMap.get (m.filter (fun p => decide (p.1 ≠ k))) k' = if k' = k then 0 else FMap.get m k' := by
  induction m with
  | nil => simp [FMap.get]
  | cons p r ih =>
    obtain ⟨a, v⟩ := p
    by_cases h : a = k
    · subst h
      simp only [List.filter_cons, ne_eq, not_true_eq_false, decide_false, Bool.false_eq_true, ↓reduceIte, ih]
      by_cases h2 : k' = a
      · simp [h2]
      · have : ¬ a = k' := fun e => h2 e.symm
        simp [FMap.get, h2, this]
    · simp only [List.filter_cons, ne_eq, h, not_false_eq_true, decide_true, ↓reduceIte, FMap.get, ih]
      by_cases h2 : k' = k
      · subst h2; simp [h]
      · simp [h2]

theorem FMap.get_put {α : Type} [DecidableEq α] (m : FMap α) (k k' : α) (v : Nat) :
    FMap.get (FMap.put m k v) k' = if k' = k then v else FMap.get m k' := by
  unfold FMap.put
  by_cases hv : v = 0
  · simp only [hv, ↓reduceIte, FMap.get_filter_ne]
  · simp only [hv, ↓reduceIte, FMap.get, FMap.get_filter_ne]
    by_cases h : k' = k
    · simp [h]
    · have : ¬ k = k' := fun e => h e.symm
      simp [h, this]


/-! ## One atomic cell under `fetch_add` / `swap(0)` — the schedule-independent core

A cell sees, in some interleaved order, `add b` steps (a `fetch_add` of weight `w b`; `b` is the increment itself for a
counter, the recorded sample for a histogram bucket) and `swap` steps (a readout taking the value and leaving 0). -/

inductive CellEv (β : Type) where
  | add (b : β)
  | swap

/-- final cell value and the values handed to the successive swaps -/
def cellRun {β : Type} (w : β → Nat) (c : Nat) : List (CellEv β) → Nat × List Nat
  | [] => (c, [])
  | .add b :: es => cellRun w ((c + w b) % two64) es
  | .swap :: es => ((cellRun w 0 es).1, c :: (cellRun w 0 es).2)

/-- ghost bookkeeping: which additions each swap took (`.1`, one batch per swap, in order) and which are still in the
cell (`.2`) -/
def cellGhost {β : Type} (pending : List β) : List (CellEv β) → List (List β) × List β
  | [] => ([], pending)
  | .add b :: es => cellGhost (pending ++ [b]) es
  | .swap :: es => (pending :: (cellGhost [] es).1, (cellGhost [] es).2)

def cellAdds {β : Type} : List (CellEv β) → List β
  | [] => []
  | .add b :: es => b :: cellAdds es
  | .swap :: es => cellAdds es

def wsum {β : Type} (w : β → Nat) (l : List β) : Nat := (l.map w).sum

theorem wsum_append {β : Type} (w : β → Nat) (a b : List β) : wsum w (a ++ b) = wsum w a + wsum w b := by
  simp [wsum]

/-- Exactly-once for one cell, every interleaving: the batches taken by the swaps together with what is left in the cell
are a partition, in order, of everything that was added; each swap hands out exactly the (wrapped) weight of its batch;
the cell holds exactly the (wrapped) weight of what is left. -/
theorem cell_exactly_once {β : Type} (w : β → Nat) (es : List (CellEv β)) (pending : List β) (c : Nat)
    (hc : c = wsum w pending % two64) :
    (cellGhost pending es).1.flatten ++ (cellGhost pending es).2 = pending ++ cellAdds es ∧
    (cellRun w c es).2 = (cellGhost pending es).1.map (fun b => wsum w b % two64) ∧
    (cellRun w c es).1 = wsum w (cellGhost pending es).2 % two64 := by
  induction es generalizing pending c with
  | nil => simp [cellGhost, cellRun, cellAdds, hc]
  | cons e es ih =>
    cases e with
    | add b =>
      have hc' : (c + w b) % two64 = wsum w (pending ++ [b]) % two64 := by
        rw [wsum_append, hc]; simp [wsum, Nat.add_mod]
      have := ih (pending ++ [b]) _ hc'
      simp only [cellGhost, cellRun, cellAdds]
      refine ⟨?_, this.2.1, this.2.2⟩
      rw [this.1]; simp
    | swap =>
      have h0 : (0 : Nat) = wsum w ([] : List β) % two64 := by simp [wsum]
      have := ih [] 0 h0
      simp only [cellGhost, cellRun, cellAdds, List.flatten_cons, List.map_cons, List.append_assoc]
      refine ⟨?_, ?_, this.2.2⟩
      · rw [this.1]; simp
      · rw [this.2.1, hc]

/-- Conservation for one cell, every interleaving: handed out + left = initially there + added (mod 2^64). -/
theorem cell_conservation_mod {β : Type} (w : β → Nat) (es : List (CellEv β)) (c : Nat) :
    ((cellRun w c es).2.sum + (cellRun w c es).1) % two64 = (c + wsum w (cellAdds es)) % two64 := by
  induction es generalizing c with
  | nil => simp [cellRun, cellAdds, wsum]
  | cons e es ih =>
    cases e with
    | add b =>
      simp only [cellRun, cellAdds]
      rw [ih]
      have : wsum w (b :: cellAdds es) = w b + wsum w (cellAdds es) := by simp [wsum]
      rw [this, Nat.add_mod, Nat.mod_mod, ← Nat.add_mod]; congr 1; omega
    | swap =>
      simp only [cellRun, cellAdds, List.sum_cons]
      have := ih 0
      rw [Nat.add_assoc, Nat.add_mod, this]
      simp [Nat.add_mod]

/-- … and exactly, when the total never reaches 2^64. -/
theorem cell_conservation {β : Type} (w : β → Nat) (es : List (CellEv β)) (c : Nat)
    (h : c + wsum w (cellAdds es) < two64) :
    (cellRun w c es).2.sum + (cellRun w c es).1 = c + wsum w (cellAdds es) := by
  induction es generalizing c with
  | nil => simp [cellRun, cellAdds, wsum]
  | cons e es ih =>
    cases e with
    | add b =>
      have hw : wsum w (cellAdds (CellEv.add b :: es)) = w b + wsum w (cellAdds es) := by simp [cellAdds, wsum]
      rw [hw] at h ⊢
      have hlt : c + w b < two64 := by omega
      simp only [cellRun, Nat.mod_eq_of_lt hlt]
      rw [ih (c + w b) (by omega)]; omega
    | swap =>
      have hw : wsum w (cellAdds (CellEv.swap :: es)) = wsum w (cellAdds es) := by simp [cellAdds]
      rw [hw] at h ⊢
      simp only [cellRun, List.sum_cons]
      have := ih 0 (by omega)
      omega


/-! ## Projection of the bridge onto one counter cell / one histogram bucket cell -/

theorem run_cons (s : State) (e : Ev) (es : List Ev) :
    run s (e :: es) = ((run (step s e).1 es).1, (step s e).2 ++ (run (step s e).1 es).2) := rfl

theorem run_append (s : State) (a b : List Ev) :
    run s (a ++ b) = ((run (run s a).1 b).1, (run s a).2 ++ (run (run s a).1 b).2) := by
  induction a generalizing s with
  | nil => simp [run]
  | cons e es ih => simp only [List.cons_append, run_cons, ih, List.append_assoc]

/-- the steps that touch counter `k` -/
def projC (k : Key) : Ev → Option (CellEv Nat)
  | .inc k' n => if k' = k then some (.add n) else none
  | .swapC k' => if k' = k then some .swap else none
  | _ => none

/-- the deltas reported for counter `k`, in order -/
def deltasC (k : Key) : List Obs → List Nat
  | [] => []
  | .counter k' d :: os => if k' = k then d :: deltasC k os else deltasC k os
  | _ :: os => deltasC k os

theorem deltasC_append (k : Key) (a b : List Obs) : deltasC k (a ++ b) = deltasC k a ++ deltasC k b := by
  induction a with
  | nil => rfl
  | cons o os ih => cases o <;> simp only [List.cons_append, deltasC, ih] <;> split <;> simp

/-- the steps that touch bucket `i` of histogram `k`; an `add` carries the recorded sample -/
def projH (k : Key) (i : Nat) : Ev → Option (CellEv Nat)
  | .hrec k' v => if k' = k ∧ valueToIndex histGrouping histMaxPower v = some i then some (.add v) else none
  | .hswap k' i' => if k' = k ∧ i' = i then some .swap else none
  | _ => none

/-- the counts swapped out of bucket `i` of histogram `k`, in order -/
def countsH (k : Key) (i : Nat) : List Obs → List Nat
  | [] => []
  | .bucket k' i' c :: os => if k' = k ∧ i' = i then c :: countsH k i os else countsH k i os
  | _ :: os => countsH k i os

theorem countsH_append (k : Key) (i : Nat) (a b : List Obs) :
    countsH k i (a ++ b) = countsH k i a ++ countsH k i b := by
  induction a with
  | nil => rfl
  | cons o os ih => cases o <;> simp only [List.cons_append, countsH, ih] <;> split <;> simp

theorem run_counter_cell (s : State) (evs : List Ev) (k : Key) :
    (run s evs).1.ctrOf k = (cellRun id (s.ctrOf k) (evs.filterMap (projC k))).1 ∧
    deltasC k (run s evs).2 = (cellRun id (s.ctrOf k) (evs.filterMap (projC k))).2 := by
  induction evs generalizing s with
  | nil => simp [run, cellRun, deltasC]
  | cons e es ih =>
    rw [run_cons]
    simp only [deltasC_append]
    have ih' := ih (step s e).1
    cases e with
    | inc k' n =>
      by_cases h : k' = k
      · subst h
        have : (step s (.inc k' n)).1.ctrOf k' = (s.ctrOf k' + n) % two64 := by
          simp [step, State.ctrOf, FMap.get_put]
        simp only [List.filterMap_cons, projC, ↓reduceIte, cellRun, id]
        rw [← this]; simpa [step, deltasC] using ih'
      · have : (step s (.inc k' n)).1.ctrOf k = s.ctrOf k := by
          have h' : ¬ k = k' := fun e => h e.symm
          simp [step, State.ctrOf, FMap.get_put, h']
        simp only [List.filterMap_cons, projC, h, ↓reduceIte]
        rw [← this]; simpa [step, deltasC] using ih'
    | swapC k' =>
      by_cases h : k' = k
      · subst h
        have : (step s (.swapC k')).1.ctrOf k' = 0 := by simp [step, State.ctrOf, FMap.get_put]
        simp only [List.filterMap_cons, projC, ↓reduceIte, cellRun]
        rw [this] at ih'
        simpa [step, deltasC] using ih'
      · have : (step s (.swapC k')).1.ctrOf k = s.ctrOf k := by
          have h' : ¬ k = k' := fun e => h e.symm
          simp [step, State.ctrOf, FMap.get_put, h']
        simp only [List.filterMap_cons, projC, h, ↓reduceIte]
        rw [← this]; simpa [step, deltasC, h] using ih'
    | hrec k' v =>
      have : (step s (.hrec k' v)).1.ctrOf k = s.ctrOf k ∧ (step s (.hrec k' v)).2 = [] := by
        simp only [step]; split <;> simp [State.ctrOf]
      simp only [List.filterMap_cons, projC]
      rw [← this.1, this.2]; simpa [deltasC] using ih'
    | regC k' | regG k' | regH k' | gset k' b | describe nm u | gload k' | hswap k' i =>
      simp only [List.filterMap_cons, projC]
      simpa [step, deltasC, State.ctrOf] using ih'


theorem run_hist_cell (s : State) (evs : List Ev) (k : Key) (i : Nat) :
    (run s evs).1.histOf k i = (cellRun (fun _ => 1) (s.histOf k i) (evs.filterMap (projH k i))).1 ∧
    countsH k i (run s evs).2 = (cellRun (fun _ => 1) (s.histOf k i) (evs.filterMap (projH k i))).2 := by
  induction evs generalizing s with
  | nil => simp [run, cellRun, countsH]
  | cons e es ih =>
    rw [run_cons]
    simp only [countsH_append]
    have ih' := ih (step s e).1
    cases e with
    | hrec k' v =>
      cases hidx : valueToIndex histGrouping histMaxPower v with
      | none =>
        have h1 : (step s (.hrec k' v)).1 = s := by simp [step, hidx]
        have h2 : (step s (.hrec k' v)).2 = [] := by simp [step, hidx]
        simp only [List.filterMap_cons, projH, hidx]
        rw [h1] at ih'
        simpa [h1, h2, countsH] using ih'
      | some j =>
        have h2 : (step s (.hrec k' v)).2 = [] := by simp [step, hidx]
        by_cases h : k' = k ∧ j = i
        · obtain ⟨hk, hj⟩ := h
          subst hk; subst hj
          have : (step s (.hrec k' v)).1.histOf k' j = (s.histOf k' j + 1) % two64 := by
            simp [step, hidx, State.histOf, FMap.get_put]
          simp only [List.filterMap_cons, projH, hidx, and_self, ↓reduceIte, cellRun]
          rw [← this, h2]; simpa [countsH] using ih'
        · have : (step s (.hrec k' v)).1.histOf k i = s.histOf k i := by
            have h' : ¬ (k, i) = (k', j) := by
              intro e; apply h; simp only [Prod.mk.injEq] at e; exact ⟨e.1.symm, e.2.symm⟩
            simp [step, hidx, State.histOf, FMap.get_put, h']
          have hp : (if k' = k ∧ some j = some i then some (CellEv.add v) else none) = none := by
            simp only [Option.some.injEq]; simp [h]
          simp only [List.filterMap_cons, projH, hidx, hp]
          rw [← this, h2]; simpa [countsH] using ih'
    | hswap k' i' =>
      by_cases h : k' = k ∧ i' = i
      · obtain ⟨hk, hi⟩ := h
        subst hk; subst hi
        have : (step s (.hswap k' i')).1.histOf k' i' = 0 := by simp [step, State.histOf, FMap.get_put]
        simp only [List.filterMap_cons, projH, and_self, ↓reduceIte, cellRun]
        rw [this] at ih'
        simpa [step, countsH] using ih'
      · have : (step s (.hswap k' i')).1.histOf k i = s.histOf k i := by
          have h' : ¬ (k, i) = (k', i') := by
            intro e; apply h; simp only [Prod.mk.injEq] at e; exact ⟨e.1.symm, e.2.symm⟩
          simp [step, State.histOf, FMap.get_put, h']
        simp only [List.filterMap_cons, projH, h, ↓reduceIte]
        rw [← this]; simpa [step, countsH, h] using ih'
    | regC k' | regG k' | regH k' | gset k' b | describe nm u | gload k' | inc k' n | swapC k' =>
      simp only [List.filterMap_cons, projH]
      simpa [step, countsH, State.histOf] using ih'


/-! ## C20, counters -/

/-- the increments applied to counter `k`, in order -/
def incsOf (k : Key) : List Ev → List Nat
  | [] => []
  | .inc k' n :: es => if k' = k then n :: incsOf k es else incsOf k es
  | _ :: es => incsOf k es

theorem incsOf_eq (k : Key) (evs : List Ev) : cellAdds (evs.filterMap (projC k)) = incsOf k evs := by
  induction evs with
  | nil => rfl
  | cons e es ih =>
    cases e with
    | inc k' n => by_cases h : k' = k <;> simp [projC, incsOf, cellAdds, h, ih]
    | swapC k' => by_cases h : k' = k <;> simp [projC, incsOf, cellAdds, h, ih]
    | _ => exact ih

/-- **C20 (counters, exactly once).** For every interleaving `evs` of increments and readout swaps (and anything
else), from any state in which counter `k` holds the increments `pending`: the swaps of `k` take batches
`g.1` of increments, `g.2` is left in the cell, and
* the batches and the rest are, in order, exactly `pending` followed by the increments of `k` in `evs` — every
  increment is in exactly one batch (one readout) or still in the cell, none is lost or taken twice;
* the delta reported by the j-th swap is the sum of the j-th batch (mod 2^64, the width of the cell);
* the residual cell value is the sum of what is left. -/
theorem c20_counter_exactly_once (s : State) (evs : List Ev) (k : Key) (pending : List Nat)
    (h : s.ctrOf k = wsum id pending % two64) :
    (cellGhost pending (evs.filterMap (projC k))).1.flatten ++ (cellGhost pending (evs.filterMap (projC k))).2
      = pending ++ incsOf k evs ∧
    deltasC k (run s evs).2 = (cellGhost pending (evs.filterMap (projC k))).1.map (fun b => wsum id b % two64) ∧
    (run s evs).1.ctrOf k = wsum id (cellGhost pending (evs.filterMap (projC k))).2 % two64 := by
  have hc := cell_exactly_once id (evs.filterMap (projC k)) pending (s.ctrOf k) h
  have hr := run_counter_cell s evs k
  rw [incsOf_eq] at hc
  exact ⟨hc.1, hr.2.trans hc.2.1, hr.1.trans hc.2.2⟩

/-- **C20 (counters, conservation).** For every interleaving: reported deltas + residual = initial value + total
incremented, modulo 2^64 … -/
theorem c20_counter_conservation_mod (s : State) (evs : List Ev) (k : Key) :
    ((deltasC k (run s evs).2).sum + (run s evs).1.ctrOf k) % two64 = (s.ctrOf k + (incsOf k evs).sum) % two64 := by
  have hr := run_counter_cell s evs k
  have := cell_conservation_mod id (evs.filterMap (projC k)) (s.ctrOf k)
  rw [incsOf_eq] at this
  rw [hr.1, hr.2, this]; simp [wsum]

/-- … and exactly, as long as the total stays below 2^64: the reported deltas sum to the total incremented. -/
theorem c20_counter_conservation (s : State) (evs : List Ev) (k : Key)
    (h : s.ctrOf k + (incsOf k evs).sum < two64) :
    (deltasC k (run s evs).2).sum + (run s evs).1.ctrOf k = s.ctrOf k + (incsOf k evs).sum := by
  have hr := run_counter_cell s evs k
  have hw : wsum id (cellAdds (evs.filterMap (projC k))) = (incsOf k evs).sum := by rw [incsOf_eq]; simp [wsum]
  have := cell_conservation id (evs.filterMap (projC k)) (s.ctrOf k) (by rw [hw]; exact h)
  rw [hr.1, hr.2, this, hw]

/-! ## C20, histograms -/

/-- the samples recorded into bucket `i` of histogram `k`, in order -/
def samplesOf (k : Key) (i : Nat) : List Ev → List Nat
  | [] => []
  | .hrec k' v :: es =>
    if k' = k ∧ valueToIndex histGrouping histMaxPower v = some i then v :: samplesOf k i es else samplesOf k i es
  | _ :: es => samplesOf k i es

theorem samplesOf_eq (k : Key) (i : Nat) (evs : List Ev) :
    cellAdds (evs.filterMap (projH k i)) = samplesOf k i evs := by
  induction evs with
  | nil => rfl
  | cons e es ih =>
    cases e with
    | hrec k' v =>
      by_cases h : k' = k ∧ valueToIndex histGrouping histMaxPower v = some i <;>
        simp [projH, samplesOf, cellAdds, h, ih]
    | hswap k' i' => by_cases h : k' = k ∧ i' = i <;> simp [projH, samplesOf, cellAdds, h, ih]
    | _ => exact ih

theorem wsum_one {β : Type} (l : List β) : wsum (fun _ => 1) l = l.length := by
  induction l with
  | nil => rfl
  | cons a l ih => simp only [wsum, List.map_cons, List.sum_cons, List.length_cons] at ih ⊢; omega

/-- **C20 (histograms, exactly once).** Per histogram `k` and bucket `i`, for every interleaving of `record`s with the
per-bucket swaps of any number of `drain`s: the swaps of the bucket take batches of samples, and batches + rest are,
in order, exactly the samples recorded into the bucket — every sample is counted by exactly one drain or is still in
the bucket; each swap hands out the size of its batch (mod 2^64). -/
theorem c20_hist_exactly_once (s : State) (evs : List Ev) (k : Key) (i : Nat) (pending : List Nat)
    (h : s.histOf k i = pending.length % two64) :
    (cellGhost pending (evs.filterMap (projH k i))).1.flatten ++ (cellGhost pending (evs.filterMap (projH k i))).2
      = pending ++ samplesOf k i evs ∧
    countsH k i (run s evs).2 = (cellGhost pending (evs.filterMap (projH k i))).1.map (fun b => b.length % two64) ∧
    (run s evs).1.histOf k i = (cellGhost pending (evs.filterMap (projH k i))).2.length % two64 := by
  have hc := cell_exactly_once (fun _ => 1) (evs.filterMap (projH k i)) pending (s.histOf k i)
    (by rw [wsum_one]; exact h)
  have hr := run_hist_cell s evs k i
  rw [samplesOf_eq] at hc
  simp only [wsum_one] at hc
  exact ⟨hc.1, hr.2.trans hc.2.1, hr.1.trans hc.2.2⟩

/-- **C20 (histograms, conservation).** Per bucket, for every interleaving: counts handed to the drains + residual =
initial count + number of samples recorded into the bucket (below 2^64). -/
theorem c20_hist_conservation (s : State) (evs : List Ev) (k : Key) (i : Nat)
    (h : s.histOf k i + (samplesOf k i evs).length < two64) :
    (countsH k i (run s evs).2).sum + (run s evs).1.histOf k i = s.histOf k i + (samplesOf k i evs).length := by
  have hr := run_hist_cell s evs k i
  have hw : wsum (fun _ => 1) (cellAdds (evs.filterMap (projH k i))) = (samplesOf k i evs).length := by
    rw [samplesOf_eq, wsum_one]
  have := cell_conservation (fun _ => 1) (evs.filterMap (projH k i)) (s.histOf k i) (by rw [hw]; exact h)
  rw [hr.1, hr.2, this, hw]

/-- every sample of the bucket's batches really belongs to the bucket -/
theorem samplesOf_index (k : Key) (i : Nat) (evs : List Ev) :
    ∀ v ∈ samplesOf k i evs, valueToIndex histGrouping histMaxPower v = some i := by
  induction evs with
  | nil => simp [samplesOf]
  | cons e es ih =>
    cases e <;> simp only [samplesOf] <;> try exact ih
    split
    · rename_i h; intro v hv
      rcases List.mem_cons.mp hv with rfl | hv
      · exact h.2
      · exact ih v hv
    · exact ih


/-! ## C20, gauges -/

/-- the value of the last `set` of gauge `k` in `evs`, `cur` if there is none -/
def lastSet (k : Key) (cur : Nat) : List Ev → Nat
  | [] => cur
  | .gset k' b :: es => lastSet k (if k' = k then b else cur) es
  | _ :: es => lastSet k cur es

theorem run_gaugeOf (s : State) (evs : List Ev) (k : Key) :
    (run s evs).1.gaugeOf k = lastSet k (s.gaugeOf k) evs := by
  induction evs generalizing s with
  | nil => rfl
  | cons e es ih =>
    rw [run_cons]; simp only []
    rw [ih]
    cases e with
    | gset k' b =>
      have : (step s (.gset k' b)).1.gaugeOf k = if k' = k then b else s.gaugeOf k := by
        by_cases h : k' = k
        · simp [step, State.gaugeOf, FMap.get_put, h]
        · have h' : ¬ k = k' := fun e => h e.symm
          simp [step, State.gaugeOf, FMap.get_put, h, h']
      rw [this]; rfl
    | hrec k' v =>
      have : (step s (.hrec k' v)).1.gaugeOf k = s.gaugeOf k := by
        simp only [step]; split <;> simp [State.gaugeOf]
      rw [this]; rfl
    | _ => rfl

theorem lastSet_append (k : Key) (cur : Nat) (a b : List Ev) :
    lastSet k cur (a ++ b) = lastSet k (lastSet k cur a) b := by
  induction a generalizing cur with
  | nil => rfl
  | cons e es ih => cases e <;> simp only [List.cons_append, lastSet, ih]

/-- `lastSet` is what its name says: after `… gset k b` followed by steps that do not set `k`, it is `b`. -/
theorem lastSet_spec (k : Key) (cur b : Nat) (a c : List Ev) (hc : ∀ b', Ev.gset k b' ∉ c) :
    lastSet k cur (a ++ Ev.gset k b :: c) = b := by
  rw [lastSet_append]
  simp only [lastSet, ↓reduceIte]
  generalize lastSet k cur a = x
  clear a
  induction c generalizing b with
  | nil => rfl
  | cons e es ih =>
    have hes : ∀ b', Ev.gset k b' ∉ es := fun b' h => hc b' (List.mem_cons_of_mem _ h)
    cases e with
    | gset k' b2 =>
      have : ¬ k' = k := by intro h; subst h; exact hc b2 (List.mem_cons_self ..)
      simp only [lastSet, this, ↓reduceIte]; exact ih b hes
    | _ => simp only [lastSet]; exact ih b hes

/-- **C20 (gauges).** In every interleaving, a gauge load reports the value of the last `set` of that gauge that
precedes it (the initial value if there is none), and leaves the gauge unchanged. -/
theorem c20_gauge_last (s : State) (pre post : List Ev) (k : Key) :
    (run s (pre ++ Ev.gload k :: post)).2 =
      (run s pre).2 ++ Obs.gauge k (lastSet k (s.gaugeOf k) pre) :: (run (run s pre).1 post).2 ∧
    (run s (pre ++ Ev.gload k :: post)).1 = (run (run s pre).1 post).1 := by
  rw [run_append, run_cons]
  simp [step, run_gaugeOf]

/-! ## C20, units: describe-before / describe-after register -/

/-- the unit of the last `describe` of name `nm` in `evs`, `cur` if there is none -/
def lastDescribe (nm : Nat) (cur : Nat) : List Ev → Nat
  | [] => cur
  | .describe nm' u :: es => lastDescribe nm (if nm' = nm then u else cur) es
  | _ :: es => lastDescribe nm cur es

theorem run_unitOf (s : State) (evs : List Ev) (nm : Nat) :
    (run s evs).1.unitOf nm = lastDescribe nm (s.unitOf nm) evs := by
  induction evs generalizing s with
  | nil => rfl
  | cons e es ih =>
    rw [run_cons]; simp only []
    rw [ih]
    cases e with
    | describe nm' u =>
      have : (step s (.describe nm' u)).1.unitOf nm = if nm' = nm then u else s.unitOf nm := by
        by_cases h : nm' = nm
        · simp [step, State.unitOf, FMap.get_put, h]
        · have h' : ¬ nm = nm' := fun e => h e.symm
          simp [step, State.unitOf, FMap.get_put, h, h']
      rw [this]; rfl
    | hrec k' v =>
      have : (step s (.hrec k' v)).1.unitOf nm = s.unitOf nm := by
        simp only [step]; split <;> simp [State.unitOf]
      rw [this]; rfl
    | _ => rfl

def Ev.isDescribe : Ev → Bool
  | .describe _ _ => true
  | _ => false

/-- **C20 (describe order).** The unit a readout sees for a name is the unit of the last `describe_*` of that name
before the readout reads the unit map — whatever else happened in between: registrations (before or after the
describe), updates and readout steps do not matter. -/
theorem c20_describe_order (s : State) (evs : List Ev) (nm : Nat) :
    (run s evs).1.unitOf nm = lastDescribe nm (s.unitOf nm) (evs.filter Ev.isDescribe) := by
  rw [run_unitOf]
  generalize s.unitOf nm = cur
  induction evs generalizing cur with
  | nil => rfl
  | cons e es ih => cases e <;> simp [lastDescribe, Ev.isDescribe, List.filter_cons, ih]

/-! ## C20, the entry written for a readout -/

theorem mem_counterItems (ez : Bool) (units : Nat → Nat) (obs : List Obs) (it : Item) :
    it ∈ counterItems ez units obs ↔
      ∃ k d, Obs.counter k d ∈ obs ∧ (ez = true ∨ d ≠ 0) ∧
        it = { name := k.name, dims := k.labels, unit := units k.name, obs := [.unsigned d] } := by
  induction obs with
  | nil => simp [counterItems]
  | cons o os ih =>
    cases o with
    | counter k d =>
      simp only [counterItems]
      by_cases h : (ez || d != 0) = true
      · simp only [h, ↓reduceIte, List.mem_cons, ih]
        constructor
        · rintro (rfl | ⟨k', d', hm, hz, rfl⟩)
          · exact ⟨k, d, Or.inl rfl, by simpa using h, rfl⟩
          · exact ⟨k', d', Or.inr hm, hz, rfl⟩
        · rintro ⟨k', d', hm | hm, hz, rfl⟩
          · cases hm; exact Or.inl rfl
          · exact Or.inr ⟨k', d', hm, hz, rfl⟩
      · simp only [h, Bool.false_eq_true, ↓reduceIte, ih, List.mem_cons]
        constructor
        · rintro ⟨k', d', hm, hz, rfl⟩; exact ⟨k', d', Or.inr hm, hz, rfl⟩
        · rintro ⟨k', d', hm | hm, hz, rfl⟩
          · cases hm; exact absurd (by simpa using hz) h
          · exact ⟨k', d', hm, hz, rfl⟩
    | gauge k b => simp only [counterItems, ih, List.mem_cons]; simp
    | bucket k i c => simp only [counterItems, ih, List.mem_cons]; simp

theorem mem_gaugeItems (units : Nat → Nat) (obs : List Obs) (it : Item) :
    it ∈ gaugeItems units obs ↔
      ∃ k b, Obs.gauge k b ∈ obs ∧
        it = { name := k.name, dims := k.labels, unit := units k.name, obs := [.floating b] } := by
  induction obs with
  | nil => simp [gaugeItems]
  | cons o os ih =>
    cases o with
    | gauge k b =>
      simp only [gaugeItems, List.mem_cons, ih]
      constructor
      · rintro (rfl | ⟨k', b', hm, rfl⟩)
        · exact ⟨k, b, Or.inl rfl, rfl⟩
        · exact ⟨k', b', Or.inr hm, rfl⟩
      · rintro ⟨k', b', hm | hm, rfl⟩
        · cases hm; exact Or.inl rfl
        · exact Or.inr ⟨k', b', hm, rfl⟩
    | counter k d => simp only [gaugeItems, ih, List.mem_cons]; simp
    | bucket k i c => simp only [gaugeItems, ih, List.mem_cons]; simp

theorem mem_bucketsOf (k : Key) (obs : List Obs) (ov : OV) :
    ov ∈ bucketsOf k obs ↔
      ∃ i c, Obs.bucket k i c ∈ obs ∧ 0 < c ∧ ov = .repeated (bucketValue i) (c % two32) := by
  induction obs with
  | nil => simp [bucketsOf]
  | cons o os ih =>
    cases o with
    | bucket k' i c =>
      simp only [bucketsOf]
      by_cases h : k' = k ∧ c > 0
      · obtain ⟨rfl, hc⟩ := h
        simp only [hc, and_self, ↓reduceIte, List.mem_cons, ih]
        constructor
        · rintro (rfl | ⟨i', c', hm, hz, rfl⟩)
          · exact ⟨i, c, Or.inl rfl, hc, rfl⟩
          · exact ⟨i', c', Or.inr hm, hz, rfl⟩
        · rintro ⟨i', c', hm | hm, hz, rfl⟩
          · cases hm; exact Or.inl rfl
          · exact Or.inr ⟨i', c', hm, hz, rfl⟩
      · simp only [h, ↓reduceIte, ih, List.mem_cons]
        constructor
        · rintro ⟨i', c', hm, hz, rfl⟩; exact ⟨i', c', Or.inr hm, hz, rfl⟩
        · rintro ⟨i', c', hm | hm, hz, rfl⟩
          · cases hm; exact absurd ⟨rfl, hz⟩ h
          · exact ⟨i', c', hm, hz, rfl⟩
    | counter k d => simp only [bucketsOf, ih, List.mem_cons]; simp
    | gauge k b => simp only [bucketsOf, ih, List.mem_cons]; simp

/-- **C20 (entry shape).** The entry written for a readout that observed `obs` in (final) state `s`: a timestamp and
`AllowSplitEntries`; exactly one counter value per reported non-zero (or, with `emit_zero_counters`, any) delta, one
gauge value per loaded gauge, one histogram value per registered histogram — each under the key's registered name,
with the key's labels as dimensions and the unit described for that name; a histogram's observations are exactly
the non-empty buckets swapped out for it, as (bucket value, count as u32). -/
theorem c20_entry_shape (s : State) (obs : List Obs) :
    (buildEntry s obs).hasTimestamp = true ∧ (buildEntry s obs).allowSplit = true ∧
    (∀ it, it ∈ (buildEntry s obs).counters ↔
      ∃ k d, Obs.counter k d ∈ obs ∧ (s.emitZero = true ∨ d ≠ 0) ∧
        it = { name := k.name, dims := k.labels, unit := s.unitOf k.name, obs := [.unsigned d] }) ∧
    (∀ it, it ∈ (buildEntry s obs).gauges ↔
      ∃ k b, Obs.gauge k b ∈ obs ∧
        it = { name := k.name, dims := k.labels, unit := s.unitOf k.name, obs := [.floating b] }) ∧
    (buildEntry s obs).hists =
      s.regH.map (fun k => { name := k.name, dims := k.labels, unit := s.unitOf k.name, obs := bucketsOf k obs }) ∧
    (∀ k ov, ov ∈ bucketsOf k obs ↔
      ∃ i c, Obs.bucket k i c ∈ obs ∧ 0 < c ∧ ov = .repeated (bucketValue i) (c % two32)) :=
  ⟨rfl, rfl, mem_counterItems _ _ _, mem_gaugeItems _ _, rfl, fun k ov => mem_bucketsOf k obs ov⟩

/-! ## C20, the described unit: the table of `unit.rs` and the histogram configuration, regenerated from the source -/

/-- the model's histogram layout is the one configured in `Histogram::default_configuration` (T-gen) -/
theorem c20_hist_config_matches_source :
    Generated.MetricsRs.histGrouping = histGrouping ∧ Generated.MetricsRs.histMaxPower = histMaxPower := by
  decide

/-- **C20 (described unit).** `metrics_024_unit_to_metrique_unit` (as regenerated from `unit.rs`) maps every
metrics.rs unit, exactly once, to a metrique unit that denotes the same physical quantity (`MUnit.denote` /
`QUnit.denote` are written by hand from the two crates' documentation); no unit maps to `Unit::None`. -/
theorem c20_unit_table_preserves_quantity (u : MUnit) :
    (Generated.MetricsRs.unitTable.lookup u).bind QUnit.denote = some u.denote ∧
      (Generated.MetricsRs.unitTable.filter (fun p => p.1 == u)).length = 1 := by
  cases u <;> decide

theorem c20_unit_none_is_none : Generated.MetricsRs.unitNone = QUnit.None := by decide

/-! ## C20, the value a histogram sample is reported at -/

theorem layout_linear : ∀ v, v < 32 → lowerBound 4 v = v ∧ upperBound 4 32 v = v := by decide

/-- **C20 (histograms, value error).** Every `u32` sample `v` is recorded into a bucket `i` of the (4, 32) layout
(so `record` never fails and never indexes out of the 464 buckets) whose bounds contain `v`; the value reported for
the bucket (the midpoint, as `u32`) lies inside the bucket and differs from `v` by at most `v/32` — half of the
documented 6.25 % bucket error. -/
theorem c20_hist_value_error (v : Nat) (hv : v < two32) :
    ∃ i, valueToIndex histGrouping histMaxPower v = some i ∧ i < nBuckets ∧
      lowerBound histGrouping i ≤ v ∧ v ≤ upperBound histGrouping histMaxPower i ∧
      lowerBound histGrouping i ≤ bucketValue i ∧ bucketValue i ≤ upperBound histGrouping histMaxPower i ∧
      32 * (bucketValue i - v) ≤ v ∧ 32 * (v - bucketValue i) ≤ v := by
  have hnb : nBuckets = 464 := by decide
  simp only [two32] at hv
  simp only [histGrouping, histMaxPower, hnb, bucketValue, two32]
  by_cases hsmall : v < 32
  · refine ⟨v, ?_, by omega, ?_⟩
    · simp [valueToIndex, hsmall]
    · obtain ⟨hl, hu⟩ := layout_linear v hsmall
      rw [hl, hu]
      have : midpoint v v = v := by simp [midpoint]
      rw [this, Nat.mod_eq_of_lt hv]
      omega
  · have hv0 : v ≠ 0 := by omega
    have hlo := Nat.log2_self_le hv0
    have hhi := @Nat.lt_log2_self v
    have hp31 : v.log2 ≤ 31 := by
      have := (Nat.log2_lt hv0 (k := 32)).mpr (by simpa using hv)
      omega
    have hp5 : 5 ≤ v.log2 := by
      have h := (Nat.log2_lt hv0 (k := 5))
      have : ¬ v < 2 ^ 5 := by simpa using hsmall
      have : ¬ v.log2 < 5 := fun hh => this (h.mp hh)
      omega
    obtain ⟨i, lo, hi, hi_def, hlo_def, hhi_def, h1, h2, h3, h4, h5, h6, h7, h8⟩ :=
      layout_log v v.log2 hp5 hp31 hlo hhi
    refine ⟨i, ?_, h1, ?_⟩
    · have h32 : ¬ v < 2 ^ (4 + 1) := by simpa using hsmall
      have hmax : ¬ v > 2 ^ 32 - 1 := by simp; omega
      simp only [valueToIndex, h32, hmax, ↓reduceIte, hi_def]
    · subst hlo_def; subst hhi_def
      have hmod : midpoint (lowerBound 4 i) (upperBound 4 32 i) % 4294967296
          = midpoint (lowerBound 4 i) (upperBound 4 32 i) := Nat.mod_eq_of_lt (by omega)
      rw [hmod]
      exact ⟨h2, h3, h4, h5, h7, h8⟩

/-! ## C20, a whole readout run without interference -/

theorem step_swapC_ctrOf_ne (s : State) (k k' : Key) (h : k' ≠ k) :
    (step s (.swapC k)).1.ctrOf k' = s.ctrOf k' := by
  simp [step, State.ctrOf, FMap.get_put, h]

/-- the counter part of a readout: with one registry cell per key, every registered counter is swapped exactly once
and hands out its current value -/
theorem run_swapC_list (s : State) (ks : List Key) (hnd : ks.Nodup) :
    (run s (ks.map Ev.swapC)).2 = ks.map (fun k => Obs.counter k (s.ctrOf k)) := by
  induction ks generalizing s with
  | nil => rfl
  | cons k ks ih =>
    have hk : k ∉ ks := (List.nodup_cons.mp hnd).1
    have hks := (List.nodup_cons.mp hnd).2
    simp only [List.map_cons, run_cons]
    rw [ih _ hks]
    simp only [step, List.singleton_append, List.cons.injEq, true_and]
    apply List.map_congr_left
    intro k' hk'
    have : k' ≠ k := fun e => hk (e ▸ hk')
    have := step_swapC_ctrOf_ne s k k' this
    simp only [step] at this
    rw [this]



def Ev.isReadoutStep : Ev → Bool
  | .swapC _ | .gload _ | .hswap _ _ => true
  | _ => false

theorem run_emitZero (s : State) (evs : List Ev) : (run s evs).1.emitZero = s.emitZero := by
  induction evs generalizing s with
  | nil => rfl
  | cons e es ih =>
    rw [run_cons]; simp only []; rw [ih]
    cases e <;> simp only [step] <;> try rfl
    split <;> rfl

theorem run_regH_readoutSteps (s : State) (evs : List Ev) (h : ∀ e ∈ evs, e.isReadoutStep = true) :
    (run s evs).1.regH = s.regH := by
  induction evs generalizing s with
  | nil => rfl
  | cons e es ih =>
    rw [run_cons]; simp only []
    rw [ih _ (fun e' he' => h e' (List.mem_cons_of_mem _ he'))]
    have := h e (List.mem_cons_self ..)
    cases e <;> simp_all [Ev.isReadoutStep, step]

theorem lastDescribe_readoutSteps (nm cur : Nat) (evs : List Ev) (h : ∀ e ∈ evs, e.isReadoutStep = true) :
    lastDescribe nm cur evs = cur := by
  induction evs generalizing cur with
  | nil => rfl
  | cons e es ih =>
    have := h e (List.mem_cons_self ..)
    have ih' := fun c => ih c (fun e' he' => h e' (List.mem_cons_of_mem _ he'))
    cases e <;> simp_all [Ev.isReadoutStep, lastDescribe]

theorem lastSet_readoutSteps (k : Key) (cur : Nat) (evs : List Ev) (h : ∀ e ∈ evs, e.isReadoutStep = true) :
    lastSet k cur evs = cur := by
  induction evs generalizing cur with
  | nil => rfl
  | cons e es ih =>
    have := h e (List.mem_cons_self ..)
    have ih' := fun c => ih c (fun e' he' => h e' (List.mem_cons_of_mem _ he'))
    cases e <;> simp_all [Ev.isReadoutStep, lastSet]

theorem readoutEvents_steps (s : State) : ∀ e ∈ readoutEvents s, e.isReadoutStep = true := by
  intro e he
  simp only [readoutEvents, List.mem_append, List.mem_map, List.mem_flatMap] at he
  rcases he with (⟨k, _, rfl⟩ | ⟨k, _, rfl⟩) | ⟨k, _, i, _, rfl⟩ <;> rfl

theorem run_gload_list (s : State) (ks : List Key) :
    run s (ks.map Ev.gload) = (s, ks.map (fun k => Obs.gauge k (s.gaugeOf k))) := by
  induction ks with
  | nil => rfl
  | cons k ks ih => simp only [List.map_cons, run_cons, step, ih, List.singleton_append]

theorem counterItems_append (ez : Bool) (u : Nat → Nat) (a b : List Obs) :
    counterItems ez u (a ++ b) = counterItems ez u a ++ counterItems ez u b := by
  induction a with
  | nil => rfl
  | cons o os ih => cases o <;> simp only [List.cons_append, counterItems, ih] <;> split <;> simp

theorem gaugeItems_append (u : Nat → Nat) (a b : List Obs) :
    gaugeItems u (a ++ b) = gaugeItems u a ++ gaugeItems u b := by
  induction a with
  | nil => rfl
  | cons o os ih => cases o <;> simp [gaugeItems, ih]

def Obs.isBucket : Obs → Bool
  | .bucket _ _ _ => true
  | _ => false

theorem run_hswaps_obs (s : State) (evs : List Ev) (h : ∀ e ∈ evs, ∃ k i, e = Ev.hswap k i) :
    ∀ o ∈ (run s evs).2, o.isBucket = true := by
  induction evs generalizing s with
  | nil => simp [run]
  | cons e es ih =>
    rw [run_cons]
    obtain ⟨k, i, rfl⟩ := h _ (List.mem_cons_self ..)
    intro o ho
    simp only [step, List.singleton_append, List.mem_cons] at ho
    rcases ho with rfl | ho
    · rfl
    · exact ih _ (fun e' he' => h e' (List.mem_cons_of_mem _ he')) o ho

theorem counterItems_buckets (ez : Bool) (u : Nat → Nat) (obs : List Obs) (h : ∀ o ∈ obs, o.isBucket = true) :
    counterItems ez u obs = [] := by
  induction obs with
  | nil => rfl
  | cons o os ih =>
    have := h o (List.mem_cons_self ..)
    have ih' := ih (fun o' ho' => h o' (List.mem_cons_of_mem _ ho'))
    cases o <;> simp_all [Obs.isBucket, counterItems]

theorem gaugeItems_buckets (u : Nat → Nat) (obs : List Obs) (h : ∀ o ∈ obs, o.isBucket = true) :
    gaugeItems u obs = [] := by
  induction obs with
  | nil => rfl
  | cons o os ih =>
    have := h o (List.mem_cons_self ..)
    have ih' := ih (fun o' ho' => h o' (List.mem_cons_of_mem _ ho'))
    cases o <;> simp_all [Obs.isBucket, gaugeItems]

theorem counterItems_counters (ez : Bool) (u : Nat → Nat) (c : Key → Nat) (ks : List Key) :
    counterItems ez u (ks.map (fun k => Obs.counter k (c k))) =
      (ks.filter (fun k => ez || c k != 0)).map
        (fun k => { name := k.name, dims := k.labels, unit := u k.name, obs := [.unsigned (c k)] }) := by
  induction ks with
  | nil => rfl
  | cons k ks ih =>
    simp only [List.map_cons, counterItems, List.filter_cons, ih]
    split <;> simp

theorem gaugeItems_counters (u : Nat → Nat) (c : Key → Nat) (ks : List Key) :
    gaugeItems u (ks.map (fun k => Obs.counter k (c k))) = [] := by
  induction ks with
  | nil => rfl
  | cons k ks ih => simp [gaugeItems, ih]

theorem counterItems_gauges (ez : Bool) (u : Nat → Nat) (c : Key → Nat) (ks : List Key) :
    counterItems ez u (ks.map (fun k => Obs.gauge k (c k))) = [] := by
  induction ks with
  | nil => rfl
  | cons k ks ih => simp [counterItems, ih]

theorem gaugeItems_gauges (u : Nat → Nat) (c : Key → Nat) (ks : List Key) :
    gaugeItems u (ks.map (fun k => Obs.gauge k (c k))) =
      ks.map (fun k => { name := k.name, dims := k.labels, unit := u k.name, obs := [.floating (c k)] }) := by
  induction ks with
  | nil => rfl
  | cons k ks ih => simp [gaugeItems, ih]

/-- **C20 (a whole readout).** A readout that runs without interference on a state whose counter registry has one
cell per key (`regC.Nodup`, which `register` maintains) writes: every registered counter whose cell is non-zero (every
registered counter under `emit_zero_counters`) with exactly the cell's value, every registered gauge with its current
value, every registered histogram — all under the registered name, labels and the currently described unit. -/
theorem c20_readout_entry (s : State) (hnd : s.regC.Nodup) :
    (readout s).2.counters =
      (s.regC.filter (fun k => s.emitZero || s.ctrOf k != 0)).map
        (fun k => { name := k.name, dims := k.labels, unit := s.unitOf k.name, obs := [.unsigned (s.ctrOf k)] }) ∧
    (readout s).2.gauges =
      s.regG.map (fun k => { name := k.name, dims := k.labels, unit := s.unitOf k.name, obs := [.floating (s.gaugeOf k)] }) ∧
    (readout s).2.hists.map (fun it => (it.name, it.dims, it.unit)) =
      s.regH.map (fun k => (k.name, k.labels, s.unitOf k.name)) := by
  have hsteps := readoutEvents_steps s
  have hez : (run s (readoutEvents s)).1.emitZero = s.emitZero := run_emitZero _ _
  have hunit : (run s (readoutEvents s)).1.unitOf = s.unitOf := by
    funext nm; rw [run_unitOf, lastDescribe_readoutSteps _ _ _ hsteps]
  have hregH : (run s (readoutEvents s)).1.regH = s.regH := run_regH_readoutSteps _ _ hsteps
  -- the observations, block by block
  have hobs : (run s (readoutEvents s)).2 =
      s.regC.map (fun k => Obs.counter k (s.ctrOf k)) ++
      (s.regG.map (fun k => Obs.gauge k (s.gaugeOf k)) ++
       (run (run s (s.regC.map Ev.swapC)).1
          (s.regH.flatMap (fun k => (List.range nBuckets).map (Ev.hswap k)))).2) := by
    unfold readoutEvents
    rw [List.append_assoc, run_append, run_append]
    simp only []
    rw [run_swapC_list s _ hnd, run_gload_list]
    simp only []
    have : ∀ k, (run s (s.regC.map Ev.swapC)).1.gaugeOf k = s.gaugeOf k := by
      intro k
      rw [run_gaugeOf, lastSet_readoutSteps]
      intro e he
      simp only [List.mem_map] at he
      obtain ⟨k', _, rfl⟩ := he; rfl
    simp only [this]
  have hbuckets : ∀ o ∈ (run (run s (s.regC.map Ev.swapC)).1
      (s.regH.flatMap (fun k => (List.range nBuckets).map (Ev.hswap k)))).2, o.isBucket = true := by
    apply run_hswaps_obs
    intro e he
    simp only [List.mem_flatMap, List.mem_map] at he
    obtain ⟨k, _, i, _, rfl⟩ := he
    exact ⟨k, i, rfl⟩
  refine ⟨?_, ?_, ?_⟩
  · simp only [readout, buildEntry, hez, hunit, hobs, counterItems_append, counterItems_counters,
      counterItems_gauges, counterItems_buckets _ _ _ hbuckets, List.append_nil]
  · simp only [readout, buildEntry, hunit, hobs, gaugeItems_append, gaugeItems_counters, gaugeItems_gauges,
      gaugeItems_buckets _ _ hbuckets, List.append_nil, List.nil_append]
  · simp only [readout, buildEntry, histItems, hunit, hregH, List.map_map]
    rfl

/-- `register` keeps one cell per key -/
theorem register_nodup (reg : List Key) (k : Key) (h : reg.Nodup) : (register reg k).Nodup := by
  unfold register
  split
  · exact h
  · rename_i hk
    rw [List.nodup_append]
    refine ⟨h, by simp, ?_⟩
    intro a ha b hb
    simp only [List.mem_singleton] at hb
    subst hb; intro e; subst e; exact hk ha

theorem run_regC_nodup (s : State) (evs : List Ev) (h : s.regC.Nodup) : (run s evs).1.regC.Nodup := by
  induction evs generalizing s with
  | nil => exact h
  | cons e es ih =>
    rw [run_cons]; simp only []
    apply ih
    cases e <;> simp only [step] <;> try exact h
    · exact register_nodup _ _ h
    · split <;> exact h


/-- Non-vacuity / boundary witness for the `count as u32` cast in `Histogram::drain`: a bucket that received 2^32
samples between two drains is written with 0 occurrences (confirmed on the real code by the opt-in `--u32-probe`);
the entry-level count equals the drained count only below 2^32 (assumption of `props/C20.json`). -/
example : bucketsOf ⟨1, []⟩ [Obs.bucket ⟨1, []⟩ 7 4294967296] = [OV.repeated 7 0] := by decide


/-! ## C20, the ORDER inside a readout: walk first, unit map afterwards -/

theorem runTagged_state (s : State) (tagged : List (Bool × Ev)) :
    (runTagged s tagged).1 = (run s (tagged.map (·.2))).1 := by
  induction tagged generalizing s with
  | nil => rfl
  | cons p ps ih => obtain ⟨b, e⟩ := p; simp only [runTagged, List.map_cons, run_cons, ih]

/-- a readout that is not interleaved with anything is the all-`true` tagging -/
theorem runTagged_all (s : State) (evs : List Ev) : runTagged s (evs.map (fun e => (true, e))) = run s evs := by
  induction evs generalizing s with
  | nil => rfl
  | cons e es ih => simp only [List.map_cons, runTagged, run_cons, ih, ↓reduceIte]

theorem lastDescribe_append (nm cur : Nat) (a b : List Ev) :
    lastDescribe nm cur (a ++ b) = lastDescribe nm (lastDescribe nm cur a) b := by
  induction a generalizing cur with
  | nil => rfl
  | cons e es ih => cases e <;> simp only [List.cons_append, lastDescribe, ih]

theorem lastDescribe_spec (nm cur u : Nat) (a c : List Ev) (hc : ∀ u', Ev.describe nm u' ∉ c) :
    lastDescribe nm cur (a ++ Ev.describe nm u :: c) = u := by
  rw [lastDescribe_append]
  simp only [lastDescribe, ↓reduceIte]
  generalize lastDescribe nm cur a = x
  clear a
  induction c generalizing u with
  | nil => rfl
  | cons e es ih =>
    have hes : ∀ u', Ev.describe nm u' ∉ es := fun u' h => hc u' (List.mem_cons_of_mem _ h)
    cases e with
    | describe nm' u2 =>
      have : ¬ nm' = nm := by intro h; subst h; exact hc u2 (List.mem_cons_self ..)
      simp only [lastDescribe, this, ↓reduceIte]; exact ih u hes
    | _ => simp only [lastDescribe]; exact ih u hes

/-- every value written by an interleaved readout carries the unit the map holds for its name when the map is read -/
theorem walk_item_unit (ez : Bool) (units : Nat → Nat) (obs : List Obs) (it : Item)
    (h : it ∈ (buildEntryWalk ez units obs).items) : it.unit = units it.name := by
  simp only [Entry.items, buildEntryWalk, List.mem_append] at h
  rcases h with (h | h) | h
  · obtain ⟨k, d, _, _, rfl⟩ := (mem_counterItems _ _ _ _).mp h; rfl
  · obtain ⟨k, b, _, rfl⟩ := (mem_gaugeItems _ _ _).mp h; rfl
  · simp only [histItems, List.mem_map] at h
    obtain ⟨k, _, rfl⟩ := h; rfl

/-- **C20 (unit map is read after the walk).** In every interleaving of a readout's walk with other threads, every
value the readout writes carries the unit of the last `describe_*` of its name that precedes the *end of the walk* —
describes that happen while the walk is in progress included. -/
theorem c20_unit_read_after_walk (s : State) (tagged : List (Bool × Ev)) (it : Item)
    (h : it ∈ (readoutInterleaved s tagged).items) :
    it.unit = lastDescribe it.name (s.unitOf it.name) (tagged.map (·.2)) := by
  have := walk_item_unit _ _ _ it h
  rw [this, runTagged_state, run_unitOf]

theorem runTagged_append (s : State) (a b : List (Bool × Ev)) :
    runTagged s (a ++ b) =
      ((runTagged (runTagged s a).1 b).1, (runTagged s a).2 ++ (runTagged (runTagged s a).1 b).2) := by
  induction a generalizing s with
  | nil => simp [runTagged]
  | cons p ps ih => obtain ⟨m, e⟩ := p; simp only [List.cons_append, runTagged, ih, List.append_assoc]

theorem mem_histKeys (k : Key) (obs : List Obs) : k ∈ histKeys obs ↔ ∃ i c, Obs.bucket k i c ∈ obs := by
  induction obs with
  | nil => simp [histKeys]
  | cons o os ih =>
    cases o with
    | bucket k' i c =>
      simp only [histKeys, List.mem_cons]
      by_cases hk : k' ∈ histKeys os
      · simp only [hk, ↓reduceIte, ih]
        constructor
        · rintro ⟨i', c', h⟩; exact ⟨i', c', Or.inr h⟩
        · rintro ⟨i', c', h | h⟩
          · cases h; exact ih.mp hk
          · exact ⟨i', c', h⟩
      · simp only [hk, ↓reduceIte, List.mem_cons, ih]
        constructor
        · rintro (rfl | ⟨i', c', h⟩)
          · exact ⟨i, c, Or.inl rfl⟩
          · exact ⟨i', c', Or.inr h⟩
        · rintro ⟨i', c', h | h⟩
          · cases h; exact Or.inl rfl
          · exact Or.inr ⟨i', c', h⟩
    | counter k' d => simp only [histKeys, ih, List.mem_cons]; simp
    | gauge k' b => simp only [histKeys, ih, List.mem_cons]; simp

/-- **C20 (describe before register, under concurrency).** Take any interleaving in which `describe nm u` happens —
on any thread — and is the last describe of `nm`; everything after it (`post`) may contain the registration of a
metric named `nm`, its updates, and steps of this readout's walk. Then every value named `nm` that the readout writes
carries `u`; and if the walk loads a gauge `k` / swaps a bucket of a histogram `k` named `nm` after the describe, the
entry does contain that gauge / histogram, under its name, with its labels, with unit `u`. (For a counter the same
holds whenever its delta is written, by the first clause.) This is what fixes the order "walk, then unit map". -/
theorem c20_described_before_registered (s : State) (pre post : List (Bool × Ev)) (b : Bool) (nm u : Nat)
    (hlast : ∀ u', Ev.describe nm u' ∉ post.map (·.2)) :
    (∀ it ∈ (readoutInterleaved s (pre ++ (b, Ev.describe nm u) :: post)).items, it.name = nm → it.unit = u) ∧
    (∀ k, k.name = nm → (true, Ev.gload k) ∈ post →
      ∃ bits, ({ name := nm, dims := k.labels, unit := u, obs := [.floating bits] } : Item) ∈
        (readoutInterleaved s (pre ++ (b, Ev.describe nm u) :: post)).gauges) ∧
    (∀ k i, k.name = nm → (true, Ev.hswap k i) ∈ post →
      ∃ ovs, ({ name := nm, dims := k.labels, unit := u, obs := ovs } : Item) ∈
        (readoutInterleaved s (pre ++ (b, Ev.describe nm u) :: post)).hists) := by
  have hunit : (runTagged s (pre ++ (b, Ev.describe nm u) :: post)).1.unitOf nm = u := by
    rw [runTagged_state, run_unitOf]
    simp only [List.map_append, List.map_cons]
    exact lastDescribe_spec nm _ u _ _ hlast
  -- observations of a tagged step of `post` are among the readout's observations
  have hmem : ∀ (t : List (Bool × Ev)) (s0 : State) (e : Ev), (true, e) ∈ t →
      ∃ s1, ∀ o ∈ (step s1 e).2, o ∈ (runTagged s0 t).2 := by
    intro t
    induction t with
    | nil => intro s0 e h; cases h
    | cons p ps ih =>
      intro s0 e h
      obtain ⟨m, e'⟩ := p
      rcases List.mem_cons.mp h with h | h
      · cases h
        exact ⟨s0, fun o ho => by simp only [runTagged, ↓reduceIte]; exact List.mem_append_left _ ho⟩
      · obtain ⟨s1, hs1⟩ := ih (step s0 e').1 e h
        exact ⟨s1, fun o ho => by simp only [runTagged]; exact List.mem_append_right _ (hs1 o ho)⟩
  have hpost : ∀ e, (true, e) ∈ post → ∃ s1, ∀ o ∈ (step s1 e).2,
      o ∈ (runTagged s (pre ++ (b, Ev.describe nm u) :: post)).2 := by
    intro e he
    exact hmem _ s e (List.mem_append_right _ (List.mem_cons_of_mem _ he))
  refine ⟨?_, ?_, ?_⟩
  · intro it hit hname
    have := walk_item_unit _ _ _ it hit
    rw [this, hname, hunit]
  · intro k hk hg
    obtain ⟨s1, hs1⟩ := hpost _ hg
    have ho := hs1 (Obs.gauge k (s1.gaugeOf k)) (by simp [step])
    refine ⟨s1.gaugeOf k, ?_⟩
    simp only [readoutInterleaved, buildEntryWalk]
    rw [mem_gaugeItems]
    exact ⟨k, _, ho, by simp [hk, hunit]⟩
  · intro k i hk hh
    obtain ⟨s1, hs1⟩ := hpost _ hh
    have ho := hs1 (Obs.bucket k i (s1.histOf k i)) (by simp [step])
    have hkeys := (mem_histKeys k _).mpr ⟨i, _, ho⟩
    refine ⟨bucketsOf k (runTagged s (pre ++ (b, Ev.describe nm u) :: post)).2, ?_⟩
    simp only [readoutInterleaved, buildEntryWalk, histItems, List.mem_map]
    exact ⟨k, hkeys, by simp [hk, hunit]⟩

/-- **Witness that the order matters** (this is exactly the change "clone the unit map before the walk"): a readout is
walking (it has already swapped counter `c`); another thread describes name 7 with unit 4 (Milliseconds), registers
histogram `h` named 7 and records a sample; the walk then drains `h`. Reading the unit map after the walk writes the
histogram with unit 4; reading it before the walk writes it with `Unit::None`. -/
example :
    let c : Key := ⟨1, []⟩
    let h : Key := ⟨7, [(0, 1)]⟩
    let s := (run (State.init false) [.regC c, .inc c 3]).1
    let tagged : List (Bool × Ev) :=
      [(true, .swapC c), (false, .describe 7 4), (false, .regH h), (false, .hrec h 1000), (true, .hswap h 111)]
    (readoutInterleaved s tagged).hists = [⟨7, [(0, 1)], 4, [.repeated 1007 1]⟩] ∧
    (readoutUnitsFirst s tagged).hists = [⟨7, [(0, 1)], 0, [.repeated 1007 1]⟩] ∧
    (readoutInterleaved s tagged).counters = [⟨1, [], 0, [.unsigned 3]⟩] := by
  decide

/-- the sequential `readout` is the interleaved readout with nobody else running (counters and gauges literally; the
histogram list of the sequential entry is the registry's, that of a walk the histograms it visited) -/
theorem readout_is_interleaved (s : State) :
    (readout s).2.counters = (readoutInterleaved s ((readoutEvents s).map (fun e => (true, e)))).counters ∧
    (readout s).2.gauges = (readoutInterleaved s ((readoutEvents s).map (fun e => (true, e)))).gauges := by
  simp only [readout, readoutInterleaved, runTagged_all, buildEntry, buildEntryWalk, and_self]

open Reporter

/-! ## C20, the reporter task: shutdown publishes the rest -/

theorem runR_append (step : RState → RStep → RState × List Mark) (s : RState) (a b : List RStep) :
    runR step s (a ++ b) = ((runR step (runR step s a).1 b).1, (runR step s a).2 ++ (runR step (runR step s a).1 b).2) := by
  induction a generalizing s with
  | nil => simp [runR]
  | cons e es ih => simp only [List.cons_append, runR, ih, List.append_assoc]

/-- from any state in which the task has not ended: if the run ends with the task ended, a readout was published
during it -/
theorem orig_done_publishes (s : RState) (tr : List RStep) (h0 : s.pc ≠ .done)
    (hd : (runR stepOrig s tr).1.pc = .done) : Mark.pub ∈ (runR stepOrig s tr).2 := by
  induction tr generalizing s with
  | nil => exact absurd hd h0
  | cons e es ih =>
    simp only [runR] at hd ⊢
    by_cases hp : Mark.pub ∈ (stepOrig s e).2
    · exact List.mem_append_left _ hp
    · apply List.mem_append_right
      apply ih _ _ hd
      cases e with
      | update => simpa [stepOrig] using h0
      | cancel => simpa [stepOrig] using h0
      | cloneHandle => simpa [stepOrig] using h0
      | dropHandle => simpa [stepOrig] using h0
      | task fired =>
        rcases hpc : s.pc with _ | _ | _ | _
        · simp [stepOrig, hpc]
        · simp only [stepOrig, hpc]; split
          · simp [hpc]
          · split <;> simp [hpc]
        · exfalso; apply hp; simp [stepOrig, hpc]
        · exact absurd hpc h0

/-- without a cancel the task stays in its loop -/
theorem orig_no_cancel_stays (tr : List RStep) (h : RStep.cancel ∉ tr) (s : RState) (hs : s.pc = .sel)
    (hc : s.cancelled = false) : (runR stepOrig s tr).1.pc = .sel ∧ (runR stepOrig s tr).1.cancelled = false := by
  induction tr generalizing s with
  | nil => exact ⟨hs, hc⟩
  | cons e es ih =>
    have hes : RStep.cancel ∉ es := fun h' => h (List.mem_cons_of_mem _ h')
    simp only [runR]
    cases e with
    | update => exact ih hes _ hs hc
    | cancel => exact absurd (List.mem_cons_self ..) h
    | cloneHandle => exact ih hes _ hs hc
    | dropHandle => exact ih hes _ hs hc
    | task fired =>
      apply ih hes
      · simp only [stepOrig, hs]; split
        · exact hs
        · simp [hc, hs]
      · simp only [stepOrig, hs]; split
        · exact hc
        · simp [hc]

/-- **C20 (shutdown publishes the rest).** Every run of the program and the reporter task — any interleaving of
updates, the shutdown's cancel and task steps, with any timer behaviour — in which `shutdown()` completes (the task
has ended) contains a published readout AFTER the cancel, hence after every update that preceded the shutdown call:
nothing that was recorded before `shutdown()` was called can be left unreported. -/
theorem c20_shutdown_publishes_rest (pre post : List RStep) (hpre : RStep.cancel ∉ pre)
    (hdone : (runR stepOrig initOrig (pre ++ RStep.cancel :: post)).1.pc = .done) :
    (runR stepOrig initOrig (pre ++ RStep.cancel :: post)).2 =
      (runR stepOrig initOrig pre).2 ++ (runR stepOrig (runR stepOrig initOrig pre).1 (RStep.cancel :: post)).2 ∧
    Mark.pub ∈ (runR stepOrig (runR stepOrig initOrig pre).1 (RStep.cancel :: post)).2 := by
  rw [runR_append] at hdone ⊢
  refine ⟨rfl, ?_⟩
  have hstay := orig_no_cancel_stays pre hpre initOrig rfl rfl
  exact orig_done_publishes _ _ (by rw [hstay.1]; decide) hdone

/-- **Witnesses** that the "deduplicated" loop breaks this: (1) the cancel precedes the task's first poll — the task
ends without publishing anything, the update is lost; (2) the cancel lands between a periodic publish and the next
test of the loop condition. The code's loop publishes in both runs. -/
example :
    (runR stepDedup initDedup [.update, .cancel, .task false, .task false]) = (⟨.done, true, 1⟩, [.upd]) ∧
    (runR stepOrig initOrig [.update, .cancel, .task false, .task false]) = (⟨.done, true, 1⟩, [.upd, .pub]) ∧
    (runR stepDedup initDedup [.task false, .update, .task true, .update, .cancel, .task false, .task false])
      = (⟨.done, true, 1⟩, [.upd, .pub, .upd]) ∧
    (runR stepOrig initOrig [.task false, .update, .task true, .update, .cancel, .task false, .task false])
      = (⟨.done, true, 1⟩, [.upd, .pub, .upd, .pub]) := by
  decide

/-! ### Handles: cloning and dropping `MetricReporter` handles does nothing to the task -/

/-- the trace without the clone / drop steps of `MetricReporter` handles -/
def eraseHandles : List RStep → List RStep
  | [] => []
  | .cloneHandle :: es => eraseHandles es
  | .dropHandle :: es => eraseHandles es
  | .update :: es => .update :: eraseHandles es
  | .cancel :: es => .cancel :: eraseHandles es
  | .task f :: es => .task f :: eraseHandles es

theorem handles_key (tr : List RStep) : ∀ (s t : RState), s.pc = t.pc → s.cancelled = t.cancelled →
    (runR stepOrig s tr).2 = (runR stepOrig t (eraseHandles tr)).2 ∧
    (runR stepOrig s tr).1.pc = (runR stepOrig t (eraseHandles tr)).1.pc ∧
    (runR stepOrig s tr).1.cancelled = (runR stepOrig t (eraseHandles tr)).1.cancelled := by
  induction tr with
  | nil => intro s t h1 h2; exact ⟨rfl, h1, h2⟩
  | cons e es ih =>
    intro s t h1 h2
    cases e with
    | cloneHandle => simpa only [runR, stepOrig, eraseHandles, List.nil_append] using ih { s with handles := s.handles + 1 } t h1 h2
    | dropHandle => simpa only [runR, stepOrig, eraseHandles, List.nil_append] using ih { s with handles := s.handles - 1 } t h1 h2
    | update =>
      have := ih s t h1 h2
      simp only [eraseHandles, runR, stepOrig]
      exact ⟨by rw [this.1], this.2⟩
    | cancel =>
      have := ih { s with cancelled := true } { t with cancelled := true } h1 rfl
      simp only [eraseHandles, runR, stepOrig]
      exact ⟨by rw [this.1], this.2⟩
    | task fired =>
      have hstep : (stepOrig s (.task fired)).2 = (stepOrig t (.task fired)).2 ∧
          (stepOrig s (.task fired)).1.pc = (stepOrig t (.task fired)).1.pc ∧
          (stepOrig s (.task fired)).1.cancelled = (stepOrig t (.task fired)).1.cancelled := by
        simp only [stepOrig, ← h1, ← h2]
        rcases s.pc with _ | _ | _ | _ <;> simp only [] <;> (try split) <;> (try split) <;> simp_all
      have := ih _ _ hstep.2.1 hstep.2.2
      simp only [eraseHandles, runR]
      exact ⟨by rw [hstep.1, this.1], this.2⟩

/-- **C20 (reporter handles).** The token is cancelled by `shutdown()` only: in every run, deleting all clone / drop
steps of `MetricReporter` handles changes neither what is published (and when, relative to the updates) nor the
task's state — the handle count is bookkeeping that no transition reads. -/
theorem c20_reporter_handles_irrelevant (s : RState) (tr : List RStep) :
    (runR stepOrig s tr).2 = (runR stepOrig s (eraseHandles tr)).2 ∧
    (runR stepOrig s tr).1.pc = (runR stepOrig s (eraseHandles tr)).1.pc ∧
    (runR stepOrig s tr).1.cancelled = (runR stepOrig s (eraseHandles tr)).1.cancelled :=
  handles_key tr s s rfl rfl

/-- **Witness**: were dropping a handle to cancel the token (`stepDropCancels`), a clone dropped while the program is
still running ends the task early — the update made afterwards is never published, although `shutdown()` is called on
the surviving handle and completes; the code's task publishes it. -/
example :
    let tr : List RStep := [.task false, .update, .cloneHandle, .dropHandle, .task false, .task false,
                            .update, .cancel, .task false, .task false]
    (runR stepDropCancels initOrig tr).2 = [.upd, .pub, .upd] ∧ (runR stepDropCancels initOrig tr).1.pc = .done ∧
    (runR stepOrig initOrig tr).2 = [.upd, .upd, .pub] ∧ (runR stepOrig initOrig tr).1.pc = .done := by
  decide


/-! ## C20, `record_many` -/

theorem runScript_evs (s : State) (evs : List Ev) (ops : List Op) :
    runScript s (evs.map Op.ev ++ ops) = runScript (run s evs).1 ops := by
  induction evs generalizing s with
  | nil => rfl
  | cons e es ih => simp only [List.map_cons, List.cons_append, runScript, stepOp, run_cons, ih]

/-- **C20 (`record_many`).** `Histogram::record_many(v, n)` is `n` times `record(v)`: every later readout of the script
writes exactly what it writes after `n` single records — so the exactly-once and conservation theorems (stated for
`hrec` steps) cover `record_many` by construction. -/
theorem c20_record_many_is_n_records (s : State) (k : Key) (v n : Nat) (ops : List Op) :
    runScript s (Op.recordMany k v n :: ops) = runScript s ((List.replicate n (Ev.hrec k v)).map Op.ev ++ ops) := by
  rw [runScript_evs]; rfl

theorem cellRun_replicate_add (c n : Nat) (v : Nat) :
    cellRun (fun _ => 1) c (List.replicate n (CellEv.add v)) = ((c + n) % two64, []) ∨ (n = 0 ∧
      cellRun (fun _ => 1) c (List.replicate n (CellEv.add v)) = (c, [])) := by
  induction n generalizing c with
  | zero => right; exact ⟨rfl, rfl⟩
  | succ n ih =>
    left
    simp only [List.replicate_succ, cellRun]
    rcases ih ((c + 1) % two64) with h | ⟨hn, h⟩
    · rw [h]; simp only [two64, Prod.mk.injEq, and_true]
      omega
    · subst hn; rw [h]

/-- … and the `n` single `fetch_add(1)`s amount to one `fetch_add(n)` on the bucket of `v` (what an overriding
`record_many` may do instead): the bucket cell afterwards holds `(cell + n) mod 2^64`, nothing is handed out. -/
theorem c20_record_many_single_add (s : State) (k : Key) (v n i : Nat)
    (hi : valueToIndex histGrouping histMaxPower v = some i) (hn : 0 < n) :
    (run s (List.replicate n (Ev.hrec k v))).1.histOf k i = (s.histOf k i + n) % two64 ∧
    countsH k i (run s (List.replicate n (Ev.hrec k v))).2 = [] := by
  have hr := run_hist_cell s (List.replicate n (Ev.hrec k v)) k i
  have hf : (List.replicate n (Ev.hrec k v)).filterMap (projH k i) = List.replicate n (CellEv.add v) := by
    clear hr hn
    induction n with
    | zero => rfl
    | succ n ih => simp [List.replicate_succ, projH, hi, ih]
  rw [hf] at hr
  rcases cellRun_replicate_add (s.histOf k i) n v with h | ⟨h0, _⟩
  · rw [h] at hr; exact hr
  · omega

/-- Non-vacuity: `record_many(1000, 3)` then a readout reports bucket value 1007 three times; `absolute` and gauge
increment / decrement act on one cell. -/
example :
    let h : Key := ⟨2, []⟩
    let c : Key := ⟨1, []⟩
    let r := runScript (State.init false)
      [.ev (.regH h), .recordMany h 1000 3, .ev (.regC c), .ev (.inc c 4), .absolute c 9, .absolute c 2, .readout]
    r.2.map (fun e => (e.counters, e.hists)) =
      [([⟨1, [], 0, [.unsigned 9]⟩], [⟨2, [], 0, [.repeated 1007 3]⟩])] := by
  decide +kernel

/-- Non-vacuity of the sequential readout: a counter with labels, a described histogram; the second readout reports
nothing for the counter (zero delta dropped) and an empty histogram. -/
example :
    let k : Key := ⟨1, [(0, 1)]⟩
    let h : Key := ⟨2, []⟩
    let r := runScript (State.init false)
      [.ev (.regC k), .ev (.inc k 5), .ev (.describe 2 4), .ev (.regH h), .ev (.hrec h 1000), .ev (.hrec h 1001),
       .readout, .ev (.inc k 0), .readout]
    r.2.map (fun e => (e.counters, e.hists)) =
      [([⟨1, [(0, 1)], 0, [.unsigned 5]⟩], [⟨2, [], 4, [.repeated 1007 2]⟩]), ([], [⟨2, [], 4, []⟩])] := by
  decide +kernel

/-- Non-vacuity: two updaters racing with two readouts on one counter (`inc 5`, swap, `inc 7`, `inc 2^64-1`, swap,
`inc 3`): the reported deltas are 5 and 6 (= 7 + 2^64-1 wrapped), 3 stays; a histogram sample lands between the
bucket swaps of a drain. -/
example :
    let k : Key := ⟨1, [(0, 1)]⟩
    let evs := [Ev.regC k, .inc k 5, .swapC k, .inc k 7, .hrec k 1000, .inc k 18446744073709551615, .hswap k 111,
                .swapC k, .hrec k 1001, .inc k 3]
    deltasC k (run (State.init false) evs).2 = [5, 6] ∧ (run (State.init false) evs).1.ctrOf k = 3 ∧
    countsH k 111 (run (State.init false) evs).2 = [1] ∧ (run (State.init false) evs).1.histOf k 111 = 1 := by
  decide

end MetricsRs

#print axioms MetricsRs.c20_counter_exactly_once
#print axioms MetricsRs.c20_counter_conservation_mod
#print axioms MetricsRs.c20_counter_conservation
#print axioms MetricsRs.c20_hist_exactly_once
#print axioms MetricsRs.c20_hist_conservation
#print axioms MetricsRs.c20_gauge_last
#print axioms MetricsRs.c20_describe_order
#print axioms MetricsRs.c20_entry_shape
#print axioms MetricsRs.c20_hist_config_matches_source
#print axioms MetricsRs.c20_unit_table_preserves_quantity
#print axioms MetricsRs.c20_unit_none_is_none
#print axioms MetricsRs.c20_hist_value_error
#print axioms MetricsRs.c20_readout_entry
#print axioms MetricsRs.c20_unit_read_after_walk
#print axioms MetricsRs.c20_described_before_registered
#print axioms MetricsRs.c20_shutdown_publishes_rest
#print axioms MetricsRs.c20_record_many_is_n_records
#print axioms MetricsRs.c20_record_many_single_add
#print axioms MetricsRs.c20_reporter_handles_irrelevant
