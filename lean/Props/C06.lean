import Model.KeepAlive
namespace KeepAlive
theorem c06_placeholder : (init []).vS = 2 := rfl
end KeepAlive
#print axioms KeepAlive.c06_placeholder
