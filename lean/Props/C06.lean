import Props.C06LemmasB
/-!
# C06 — a unit-of-work entry is closed and appended exactly once, at the right moment

Theorems about the micro-step transition system `KeepAlive.step` (model of `keep_alive.rs`,
`AppendAndCloseOnDrop`, handles, flush guards, force-flush guards; `lean/Model/KeepAlive.lean`).
`Reachable cfg s` quantifies over *every* schedule: any number of handles, flush guards, force-flush
guards and slot guards, created and dropped in any order (guards may be created after a force-flush
guard was dropped), every drop split into its atomic reference-count operations and those of different
threads interleaved arbitrarily.

Reading of the state: `hS` = owning references (the owner or its handles) whose drop has not begun;
`fgLive` = flush guards (free or stored in a slot guard) whose drop has not begun; `dgBegun` / `dgDone` =
force-flush guards whose drop has begun / returned; `inFlight s` = some drop has begun and not returned;
`appended` = what the sink received; `atDrop` = the entry's own fields at the instant the last owning
reference began to drop.
-/
namespace KeepAlive

variable {cfg : List (Bool × Nat)} {s s' : St}

/-- **C06 never twice.** In every reachable state the sink has received at most one entry. -/
theorem c06_at_most_once (hr : Reachable cfg s) : s.appended.length ≤ 1 := by
  have hi := inv_reachable hr
  have h0 := hi.apps0
  have h1 := hi.apps1
  by_cases h : s.vS = 0
  · have := h0 h; omega
  · have := h1 (by omega); omega

@[simp] theorem relG_frozen (k : Kind) (s : St) :
    (relG k s).appended = s.appended ∧ (relG k s).hS = s.hS ∧ (relG k s).atDrop = s.atDrop ∧
    (relG k s).plain = s.plain ∧ (relG k s).hits = s.hits := by
  unfold relG; split <;> simp

/-- only `emit` (the `sink.append` inside `Drop for AppendAndCloseOnDropInner`) changes what the sink has -/
theorem appended_unchanged {e : Ev} (h : step s e = some s') (he : e ≠ .emit) : s'.appended = s.appended := by
  cases e
  case emit => exact absurd rfl he
  all_goals
    simp only [step, dropFG, finishInner, setSlot] at h
    (repeat' split at h) <;> (try cases h) <;> simp

/-- while a thread is inside the entry's destructor the owner, every handle and (every flush guard or a
force-flush guard) have begun to drop -/
theorem anyApp_cond (hr : Reachable cfg s) (ha : anyApp s = true) :
    s.hS = 0 ∧ (s.fgLive = 0 ∨ s.dgBegun > 0) := by
  obtain ⟨h1,h2,h3,h4,h5,h6,h7,h8,h9,h10,h11,h11b,h12,h13,h14⟩ := inv_reachable hr
  simp only [anyApp] at ha
  dsimp only [nApp] at *
  constructor <;> grind [pV, pG, pA, iA, lA, lV, b2n]

/-- **C06 never early.** A step that makes the sink receive the entry — and likewise a step that closes one
of its fields — is enabled only in a state where the owner and every handle have begun to drop (`hS = 0`)
and either every flush guard has begun to drop (`fgLive = 0`) or some force-flush guard has begun to drop. -/
theorem c06_not_early {e : Ev} (hr : Reachable cfg s) (h : step s e = some s')
    (hch : s'.appended ≠ s.appended ∨ e = .closeSlot) :
    s.hS = 0 ∧ (s.fgLive = 0 ∨ s.dgBegun > 0) := by
  have ha : anyApp s = true := by
    rcases hch with hch | hch
    · have : e = .emit := by
        by_cases he : e = .emit
        · exact he
        · exact absurd (appended_unchanged h he) hch
      subst this
      simp only [step] at h
      split at h
      · rename_i hc; exact hc.1
      · cases h
    · subst hch
      simp only [step] at h
      split at h
      · assumption
      · cases h
  exact anyApp_cond hr ha

/-- **C06 never not at all.** In every reachable state in which no drop is in flight, the owner and every
handle have been dropped, and either every flush guard has been dropped or some force-flush guard has been
dropped (its drop has returned), the sink has received exactly one entry.

(Without "no drop is in flight" the statement is false in the model and in the code, harmlessly: see the two
`example`s below — a force-flush guard's drop can return while the thread that dropped the last flush
guard is still running the entry's destructor, and vice versa.  The entry is then being appended by that
other thread.) -/
theorem c06_not_late (hr : Reachable cfg s) (hq : inFlight s = false) (hown : s.hS = 0)
    (hg : s.fgLive = 0 ∨ s.dgDone > 0) : s.appended.length = 1 := by
  obtain ⟨h1,h2,h3,h4,h5,h6,h7,h8,h9,h10,h11,h11b,h12,h13,h14⟩ := inv_reachable hr
  simp only [inFlight, Bool.or_eq_false_iff, Bool.and_eq_false_iff] at hq
  dsimp only [nApp] at *
  grind [pV, pG, pA, iA, lA, lV, b2n]

/-- **C06 late guards never delay.** Once some force-flush guard's drop has returned, flush guards — those
alive and those created later, in any number — hold nothing: the closure that kept the entry alive is gone
(or the guard cell is dead) in every later state … -/
theorem c06_late_guards_hold_nothing (hr : Reachable cfg s) (hd : s.dgDone > 0) :
    s.closure = false ∨ s.gS = 0 :=
  (inv_reachable hr).dgdone hd

/-- … so the entry is appended as soon as the owner and all handles are gone and nothing is in flight,
whatever the number `fgLive` of flush guards still alive. -/
theorem c06_late_guards_harmless (hr : Reachable cfg s) (hd : s.dgDone > 0) (hown : s.hS = 0)
    (hq : inFlight s = false) : s.appended.length = 1 :=
  c06_not_late hr hq hown (Or.inr hd)

/-- after the last owning reference began to drop nothing changes the entry's own fields -/
theorem frozen_step {e : Ev} (h : step s e = some s') (h0 : s.hS = 0) :
    s'.hS = 0 ∧ s'.atDrop = s.atDrop ∧ s'.plain = s.plain ∧ s'.hits = s.hits := by
  cases e
  all_goals
    simp only [step, dropFG, finishInner, setSlot, ownerUsable] at h
    (repeat' split at h) <;> (try cases h) <;> simp_all [relG_frozen]

theorem frozen_run {es : List Ev} (h : run s es = some s') (h0 : s.hS = 0) :
    s'.hS = 0 ∧ s'.atDrop = s.atDrop := by
  induction es generalizing s with
  | nil => simp [run] at h; subst h; exact ⟨h0, rfl⟩
  | cons e es ih =>
    simp only [run] at h
    split at h
    · cases h
    · rename_i s1 hs
      obtain ⟨a, b, -, -⟩ := frozen_step hs h0
      obtain ⟨c, d⟩ := ih h a
      exact ⟨c, d.trans b⟩

/-- **C06 content.** Let `s` be any reachable state in which one owning reference is left, let that
reference begin to drop, and let any schedule follow: every entry the sink ever receives carries the
entry's own fields (`plain`: written through `&mut`, `hits`: written through `&self`, possibly via a
handle) exactly as they were when that drop began — every mutation made before, none after. -/
theorem c06_content {s1 s2 : St} {es : List Ev} {a : Appended} (hr : Reachable cfg s) (h1 : s.hS = 1)
    (hd : step s .refDrop = some s1) (hrun : run s1 es = some s2) (ha : a ∈ s2.appended) :
    a.plain = s.plain ∧ a.hits = s.hits := by
  have hr1 : Reachable cfg s1 := Reachable.step _ hr hd
  have hr2 : Reachable cfg s2 := reachable_run es hr1 hrun
  have hat : s1.atDrop = some (s.plain, s.hits) ∧ s1.hS = 0 := by
    simp only [step, h1] at hd
    split at hd
    · simp at hd; subst hd; exact ⟨rfl, rfl⟩
    · cases hd
  obtain ⟨-, hfz⟩ := frozen_run hrun hat.2
  have := (inv_reachable hr2).appval a ha
  rw [hfz, hat.1] at this
  simp at this
  exact ⟨this.1.symm, this.2.symm⟩

/-- in every reachable state the sink's entry (if any) equals the snapshot `atDrop` -/
theorem c06_content_snapshot (hr : Reachable cfg s) {a : Appended} (ha : a ∈ s.appended) :
    s.atDrop = some (a.plain, a.hits) :=
  (inv_reachable hr).appval a ha

theorem closeFirst_some {l : List Slot} (h : allClosed l = false) : ∃ l', closeFirst l = some l' := by
  induction l with
  | nil => simp [allClosed] at h
  | cons a r ih =>
    simp only [closeFirst]
    by_cases ha : a.closedAs.isNone
    · simp [ha]
    · simp only [ha]
      have : allClosed r = false := by
        simp only [allClosed, List.all_cons, Bool.and_eq_false_iff] at h
        rcases h with h | h
        · cases hc : a.closedAs <;> simp_all
        · exact h
      obtain ⟨l', hl⟩ := ih this
      exact ⟨a :: l', by simp [hl]⟩

theorem sent_index {l : List Slot} (h : l.any (·.g = .sent) = true) : ∃ (i : Nat) (sl : Slot), l[i]? = some sl ∧ sl.g = GPc.sent := by
  induction l with
  | nil => simp at h
  | cons a r ih =>
    simp only [List.any_cons, Bool.or_eq_true, decide_eq_true_eq] at h
    rcases h with h | h
    · exact ⟨0, a, by simp, h⟩
    · obtain ⟨i, sl, h1, h2⟩ := ih h
      exact ⟨i + 1, sl, by simpa using h1, h2⟩

/-- the steps a thread takes inside a drop it has begun -/
def continuation (e : Ev) : Prop := e ∈ internal ∨ ∃ i, e = .gRelease i

/-- **C06 no deadlock.** Whenever some drop is in flight, some thread inside a drop can take its next step
(the mutex inside `DropAll::drop` never blocks everybody; the entry's destructor is total — in particular
`Slot::close` has a result in every reachable state, C13). -/
theorem c06_progress (hr : Reachable cfg s) (hf : inFlight s = true) :
    ∃ e, continuation e ∧ (step s e).isSome = true := by
  have hi := inv_reachable hr
  -- a thread inside the destructor can always go on
  have happ : anyApp s = true → ∃ e, continuation e ∧ (step s e).isSome = true := by
    intro ha
    cases hc : allClosed s.slots with
    | true => exact ⟨.emit, Or.inl (by simp [internal]), by simp only [step, ha, hc]; simp⟩
    | false =>
      obtain ⟨l', hl⟩ := closeFirst_some hc
      exact ⟨.closeSlot, Or.inl (by simp [internal]), by simp only [step, ha, hl]; simp⟩
  have hlock : s.lPc ≠ .free → ∃ e, continuation e ∧ (step s e).isSome = true := by
    intro hl
    cases hp : s.lPc with
    | free => exact absurd hp hl
    | run => exact ⟨.lRun, Or.inl (by simp [internal]), by simp [step, hp]⟩
    | app => exact happ (by simp [anyApp, hp])
    | unlock => exact ⟨.lUnlock, Or.inl (by simp [internal]), by simp [step, hp]⟩
  simp only [inFlight, Bool.or_eq_true, Bool.and_eq_true, decide_eq_true_eq] at hf
  rcases hf with ((((hf | hf) | hf) | hf) | hf) | hf
  · cases hp : s.pPc with
    | idle => simp [hp] at hf
    | done => simp [hp] at hf
    | decV => exact ⟨.pDecV, Or.inl (by simp [internal]), by simp [step, hp]⟩
    | app => exact happ (by simp [anyApp, hp])
    | decG => exact ⟨.pDecG, Or.inl (by simp [internal]), by simp [step, hp]⟩
  · cases hp : s.iPc with
    | idle => simp [hp] at hf
    | done => simp [hp] at hf
    | pending =>
      refine ⟨.innerDrop, Or.inl (by simp [internal]), ?_⟩
      simp only [step, hp]
      repeat' split
      all_goals first | rfl | simp_all
    | app => exact happ (by simp [anyApp, hp])
  · by_cases hl : s.lock = true
    · exact hlock (hi.lockpc.mp hl)
    · refine ⟨.dgLock, Or.inl (by simp [internal]), ?_⟩
      have hl' : s.lock = false := by simpa using hl
      have hc : s.nUp > 0 ∧ s.lock = false := ⟨hf, hl'⟩
      simp only [step, hc]
      repeat' split
      all_goals first | rfl | simp_all
  · exact hlock (by simpa using hf)
  · exact ⟨.dgDec, Or.inl (by simp [internal]), by simp only [step]; simp [hf]⟩
  · obtain ⟨i, sl, h1, h2⟩ := sent_index hf
    exact ⟨.gRelease i, Or.inr ⟨i, rfl⟩, by simp only [step, h1, h2]; simp⟩

/-! ## The strengthened "not late": a force-flush drop that has left the mutex

`DropAll::drop` takes the closure **and runs it** under the guard cell's mutex (`dgLock`, `lRun`, possibly the whole
destructor, then `lUnlock`).  So a second force-flush guard's drop cannot get past `dgLock` while the first is between
taking and having run the closure.  Consequence (next theorem): once *any* force-flush drop has left its critical
section, the closure's reference on the value cell is gone for good and nobody is still about to release it; so as soon
as the owner's drop has returned the entry has been appended — without any quiescence hypothesis, whatever flush
guards are alive.  (Specification clause `Spec.forceLate`; judged on real traces, incl. gated ones.) -/

/-- the closure has been taken and completely run (or dropped) and nobody is inside the destructor on its behalf -/
def closureDone (s : St) : Prop := s.closure = false ∧ s.lPc ≠ .run ∧ s.lPc ≠ .app ∧ s.iPc ≠ .app

theorem closureDone_relG (k : Kind) (hd : closureDone s) : closureDone (relG k s) := by
  obtain ⟨h1, h2, h3, h4⟩ := hd
  unfold relG; split <;> simp_all [closureDone]

theorem closureDone_step {e : Ev} (h : step s e = some s') (hd : closureDone s) : closureDone s' := by
  have hd' := hd
  obtain ⟨h1, h2, h3, h4⟩ := hd
  cases e
  all_goals
    simp only [step, dropFG, finishInner, setSlot] at h
    (repeat' split at h) <;> (try cases h) <;>
      first
      | (simp_all [closureDone]; done)
      | (apply closureDone_relG; simp_all [closureDone]; done)
      | (split <;> first | (simp_all [closureDone]; done) | (apply closureDone_relG; simp_all [closureDone]; done))

theorem closureDone_run {es : List Ev} (h : run s es = some s') (hd : closureDone s) : closureDone s' := by
  induction es generalizing s with
  | nil => simp [run] at h; subst h; exact hd
  | cons e es ih =>
    simp only [run] at h
    split at h
    · cases h
    · rename_i s1 hs; exact ih h (closureDone_step hs hd)

/-- **C06 a force-flush drop that has left the mutex is never overtaken.** Take any reachable state in which a
force-flush guard's thread releases the mutex (`lUnlock`: its `DropAll::drop` is about to return), and any later
schedule: in every later state in which the owner's (last owning reference's) drop has returned, the entry has been
appended — no matter which flush guards are still alive and which other drops are in flight.  In particular another
force-flush guard's drop cannot return before the append unless the owner is still there. -/
theorem c06_force_return_appended {s1 s2 : St} {es : List Ev} (hr : Reachable cfg s)
    (hu : step s .lUnlock = some s1) (hrun : run s1 es = some s2) (hown : s2.pPc = .done) :
    s2.appended.length = 1 := by
  have hi := inv_reachable hr
  have hr1 : Reachable cfg s1 := Reachable.step _ hr hu
  have hd1 : closureDone s1 := by
    simp only [step] at hu
    split at hu
    · rename_i hl
      have hcl := hi.lclos (Or.inl (by simp [hl]))
      have hlock : s.lock = true := hi.lockpc.mpr (by simp [hl])
      have hg := hi.gcount
      have hz := hi.izero
      cases hu
      refine ⟨hcl, by simp, by simp, ?_⟩
      intro hip
      simp only at hip
      have : s.gS = 0 := hz.mp (by simp [hip])
      simp [hlock] at hg
      omega
    · cases hu
  obtain ⟨c1, c2, c3, c4⟩ := closureDone_run hrun hd1
  obtain ⟨h1,h2,h3,h4,h5,h6,h7,h8,h9,h10,h11,h11b,h12,h13,h14⟩ := inv_reachable (reachable_run es hr1 hrun)
  dsimp only [nApp] at *
  grind [pV, pG, pA, iA, lA, lV, b2n]

/-- the corresponding state invariant: closure completely done ∧ owner's drop returned ⇒ appended -/
theorem c06_closure_done_appended (hr : Reachable cfg s) (hd : closureDone s) (hown : s.pPc = .done) :
    s.appended.length = 1 := by
  obtain ⟨c1, c2, c3, c4⟩ := hd
  obtain ⟨h1,h2,h3,h4,h5,h6,h7,h8,h9,h10,h11,h11b,h12,h13,h14⟩ := inv_reachable hr
  dsimp only [nApp] at *
  grind [pV, pG, pA, iA, lA, lV, b2n]

/-! ### A non-atomic variant violates it

Variant of the model in which `DropAll::drop` takes the closure under the mutex but runs it *after* releasing the
mutex (seeded change C06-h).  `naTake` = lock; take; unlock (the thread now holds the taken closure outside the lock);
`naRun` = run it (release the value reference; append if it was the last; then the thread is where `lUnlock` leaves
it).  Every other event is the original `step`. -/

structure StNA where
  base : St
  /-- threads holding a taken closure outside the mutex -/
  holding : Nat := 0
  deriving DecidableEq, Repr

inductive EvNA where
  | ev (e : Ev) | naTake | naRun
  deriving DecidableEq, Repr

def stepNA (t : StNA) : EvNA → Option StNA
  | .ev e => (step t.base e).map fun b => { t with base := b }
  | .naTake =>
    if t.base.nUp > 0 ∧ t.base.lock = false ∧ t.base.closure = true then
      some { base := { t.base with nUp := t.base.nUp - 1, closure := false, nDec := t.base.nDec + 1 }, holding := t.holding + 1 }
    else none
  | .naRun =>
    if t.holding > 0 then
      let b := t.base
      if b.vS - 1 = 0 then
        some { base := { b with vS := 0, appended := b.appended ++ [⟨b.plain, b.hits, closedVals b.slots⟩] }, holding := t.holding - 1 }
      else some { base := { b with vS := b.vS - 1 }, holding := t.holding - 1 }
    else none

def runNA (t : StNA) : List EvNA → Option StNA
  | [] => some t
  | e :: es => match stepNA t e with
    | none => none
    | some t' => runNA t' es

/-- the witness (the gated schedule of the harness): owner dropped, one flush guard alive, two force-flush guards;
the first thread takes the closure and is held before running it; the second thread's drop goes through the (free)
mutex, finds nothing and **returns** (`lUnlock`, `dgDec`): the owner's drop has returned, a force-flush drop has left
the mutex, and nothing has been appended — `c06_force_return_appended`'s conclusion fails in the variant.  In the
original model the second `dgLock` is simply not enabled at that point (next example). -/
example : (runNA { base := init [] } [.ev .newFG, .ev .newDG, .ev .newDG, .ev .refDrop, .ev .pDecV, .ev .pDecG,
            .ev .dgBegin, .ev .dgBegin, .naTake, .ev .dgLock, .ev .lUnlock, .ev .dgDec]).map
      (fun t => (t.base.pPc, t.base.dgDone, t.base.fgLive, t.base.appended.length, t.holding))
    = some (.done, 1, 1, 0, 1) := by decide

/-- original model, same situation: while the first thread is between take and run it holds the mutex, the second
thread cannot proceed (`dgLock` not enabled); after the first has run the closure (and appended) it can. -/
example : (run (init []) [.newFG, .newDG, .newDG, .refDrop, .pDecV, .pDecG, .dgBegin, .dgBegin, .dgLock]).map
      (fun s => ((step s .dgLock).isSome, s.lPc, s.appended.length))
    = some (false, .run, 0) := by decide

example : (run (init []) [.newFG, .newDG, .newDG, .refDrop, .pDecV, .pDecG, .dgBegin, .dgBegin, .dgLock, .lRun,
            .emit, .lUnlock, .dgLock, .lUnlock, .dgDec]).map (fun s => (s.dgDone, s.fgLive, s.appended.length))
    = some (1, 1, 1) := by decide

/-! ## Non-vacuity: concrete schedules (kernel-evaluated) -/

/-- a racing schedule: one flush guard, one force-flush guard; the owner's thread is between its two field
drops when the force-flush guard's thread takes the closure; the flush guard is still alive at the end and
the entry has been appended exactly once, with the last written contents, by the force-flush thread. -/
example : (run (init []) [.newFG, .newDG, .mutate 7, .hit 5, .refDrop, .dgBegin, .pDecV, .dgLock, .pDecG,
            .lRun, .emit, .lUnlock, .dgDec]).map (fun s => (s.appended, s.fgLive, inFlight s, s.hS, s.dgDone))
    = some ([⟨7, 5, []⟩], 1, false, 0, 1) := by decide

/-- a guard created after a completed force-flush does not delay the append -/
example : (run (init []) [.newDG, .dgBegin, .dgLock, .lRun, .lUnlock, .dgDec, .newFG, .newFG, .refDrop,
            .pDecV, .emit, .pDecG]).map (fun s => (s.appended.length, s.fgLive, inFlight s))
    = some (1, 2, false) := by decide

/-- why `c06_not_late` needs "nothing in flight" (1): the owner and a force-flush guard have been dropped
completely, the thread that dropped the last flush guard has not yet run the closure: nothing appended yet. -/
example : (run (init []) [.newFG, .newDG, .refDrop, .pDecV, .pDecG, .fgDrop, .dgBegin]).map
      (fun s => (s.appended.length, s.hS, s.pPc, s.dgDone, inFlight s))
    = some (0, 0, .done, 1, true) := by decide

/-- why `c06_not_late` needs "nothing in flight" (2): the owner and every flush guard have been dropped
completely, a force-flush guard's thread holds the taken closure: nothing appended yet. -/
example : (run (init []) [.newFG, .newDG, .dgBegin, .dgLock, .refDrop, .pDecV, .pDecG, .fgDrop]).map
      (fun s => (s.appended.length, s.hS, s.pPc, s.fgLive, inFlight s))
    = some (0, 0, .done, 0, true) := by decide

end KeepAlive

#print axioms KeepAlive.c06_at_most_once
#print axioms KeepAlive.c06_not_early
#print axioms KeepAlive.c06_not_late
#print axioms KeepAlive.c06_late_guards_hold_nothing
#print axioms KeepAlive.c06_late_guards_harmless
#print axioms KeepAlive.c06_content
#print axioms KeepAlive.c06_content_snapshot
#print axioms KeepAlive.c06_progress
#print axioms KeepAlive.c06_force_return_appended
#print axioms KeepAlive.c06_closure_done_appended
