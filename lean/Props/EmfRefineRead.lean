import Props.EmfRefine
import Props.JsonTreeRoundtrip
/-!
Stage 2 in the words of the reader: the operational line of an entry without split records READS BACK
(`JsonTree.readLine`) as `recordJson` of the declarative record, provided the float text function yields
JSON numbers on usable values (the dtoa law; `Emf.Call.fmtOk` in C02).
-/
namespace EmfRefine
open JsonTree Json EmfSpec

variable {F : Type}

/-- the dtoa law: the text of a usable value, `.0` stripped, is a JSON number -/
def TxtOk (ops : FloatOps F) (txt : F → List Nat) : Prop :=
  ∀ x y, ops.usable x = some y → isNumber (Emf.stripDotZero (txt y)) = true

def NumOk (txt : F → List Nat) : Num F → Prop
  | .int _ => True
  | .flt y => isNumber (Emf.stripDotZero (txt y)) = true

def MValOk (txt : F → List Nat) : MVal F → Prop
  | .str _ => True
  | .scalar x => NumOk txt x
  | .hist vs _ => ∀ v ∈ vs, NumOk txt v

theorem WFL_map {α : Type} (f : α → JVal) (l : List α) (h : ∀ x ∈ l, WF (f x)) : WFL (l.map f) := by
  induction l with
  | nil => trivial
  | cons a l ih =>
    exact ⟨h a List.mem_cons_self, ih fun x hx => h x (List.mem_cons_of_mem _ hx)⟩

theorem WFM_map {α : Type} (f : α → List Nat × JVal) (l : List α) (h : ∀ x ∈ l, WF (f x).2) : WFM (l.map f) := by
  induction l with
  | nil => trivial
  | cons a l ih =>
    exact ⟨h a List.mem_cons_self, ih fun x hx => h x (List.mem_cons_of_mem _ hx)⟩

theorem WFL_append (a b : List JVal) (ha : WFL a) (hb : WFL b) : WFL (a ++ b) := by
  induction a with
  | nil => exact hb
  | cons x xs ih => exact ⟨ha.1, ih ha.2⟩

theorem WF_numTok (txt : F → List Nat) (x : Num F) (h : NumOk txt x) : WF (.num (numTok txt x)) := by
  cases x with
  | int n => exact Json.isNumber_natDigits n
  | flt y => exact h

theorem WF_mvalJson (txt : F → List Nat) (v : MVal F) (h : MValOk txt v) : WF (mvalJson txt v) := by
  cases v with
  | str s => trivial
  | scalar x => exact WF_numTok txt x h
  | hist vs cs =>
    refine ⟨WFL_map _ _ fun v hv => WF_numTok txt v (h v hv), ⟨WFL_map _ _ fun c _ => Json.isNumber_natDigits c, trivial⟩⟩

theorem WF_declJson (d : Decl) : WF (declJson d) := by
  obtain ⟨n, u, hi⟩ := d
  cases u <;> cases hi <;> simp [declJson, WF, WFM] <;> decide

theorem WF_extraDeclJson (d : Decl) : WF (extraDeclJson d) := by
  obtain ⟨n, u, hi⟩ := d
  cases hi <;> simp [extraDeclJson, WF, WFM] <;> decide

theorem WF_dimsJson (dims : List (List Str)) : WF (dimsJson dims) :=
  WFL_map _ _ fun s _ => WFL_map _ _ fun _ _ => trivial

theorem WF_nsDirective (d : Directive) : WF (nsDirectiveJson d) :=
  ⟨trivial, WF_dimsJson _, WFL_map _ _ fun m _ => WF_declJson m, trivial⟩

theorem WF_extraDirective (d : Directive) : WF (extraDirectiveJson d) :=
  ⟨WF_dimsJson _, WFL_map _ _ fun m _ => WF_extraDeclJson m, trivial, trivial⟩

theorem WF_recordJson (txt : F → List Nat) (n now : Nat) (r : Record F)
    (h : ∀ m ∈ r.members, MValOk txt m.2) : WF (recordJson txt n now r) := by
  refine ⟨?_, WFM_map _ _ fun m hm => WF_mvalJson txt m.2 (h m hm)⟩
  have hd : WF (JVal.arr ((r.directives.take n).map nsDirectiveJson ++ (r.directives.drop n).map extraDirectiveJson)) :=
    WFL_append _ _ (WFL_map _ _ fun d _ => WF_nsDirective d) (WFL_map _ _ fun d _ => WF_extraDirective d)
  cases r.logGroup with
  | none => exact ⟨hd, Json.isNumber_natDigits _, trivial⟩
  | some g => exact ⟨hd, trivial, Json.isNumber_natDigits _, trivial⟩

/-- the numbers of a metric field come from usable observations -/
theorem fieldOf_ok (ops : FloatOps F) (txt : F → List Nat) (ht : TxtOk ops txt) (mult : Option Nat) (m : Metric F)
    (v : MVal F) (h : fieldOf ops mult m = some v) : MValOk txt v := by
  have hobs : ∀ (o : Obs F) (p : Num F × Nat), obsOut ops mult o = some p → NumOk txt p.1 := by
    intro o p hp
    cases o with
    | unsigned n => simp [obsOut, Obs.value] at hp; rw [← hp]; trivial
    | floating x =>
      cases hx : ops.usable x with
      | none => simp [obsOut, Obs.value, hx] at hp
      | some y => simp [obsOut, Obs.value, hx] at hp; rw [← hp]; exact ht x y hx
    | repeated t k =>
      cases hx : ops.usable (if k = 0 then ops.zero else ops.mean t k) with
      | none => simp [obsOut, Obs.value, hx] at hp
      | some y => simp [obsOut, Obs.value, hx] at hp; rw [← hp]; exact ht _ y hx
  have hhist : ∀ obs : List (Obs F), ∀ v ∈ (usableObs ops mult obs).map (·.1), NumOk txt v := by
    intro obs v hv
    obtain ⟨p, hp, rfl⟩ := List.mem_map.mp hv
    obtain ⟨o, _, ho⟩ := List.mem_filterMap.mp hp
    exact hobs o p ho
  unfold fieldOf at h
  split at h
  · simp at h
  · simp only [Option.some.injEq] at h; rw [← h]; trivial
  · rename_i x _
    cases hx : ops.usable x with
    | none => simp [hx] at h
    | some y => simp only [hx, Option.map_some, Option.some.injEq] at h; rw [← h]; exact ht x y hx
  · split at h
    · simp at h
    · simp only [Option.some.injEq] at h; rw [← h]; exact hhist _

/-- **Stage 2, reader form.** Under the hypotheses of `emf_refines_spec_global_partial` and the dtoa law, the
single line the operational model writes reads back as the JSON tree of the declarative record. -/
theorem emf_refines_spec_global_read_partial (cfg : Config) (sw : Switches) (ops : FloatOps F) (txt : F → List Nat)
    (mult : Option Nat) (nowMs : Nat) (e : Entry F)
    (hns : cfg.namespaces ≠ []) (hm : multOk mult) (ht : TxtOk ops txt)
    (hsplit : noSplit cfg e = true) (hv : validate cfg sw e = []) :
    (runEmf cfg sw ops txt mult nowMs e).1 = .ok ∧
    readLine (runEmf cfg sw ops txt mult nowMs e).2 =
      some (recordJson txt cfg.namespaces.length nowMs (mkRecord cfg ops mult e none (metricItems e) cfg.extra)) := by
  have h := (emf_refines_spec_global_partial cfg sw ops txt mult nowMs e hns hm hsplit hv).2
  rw [h]
  refine ⟨rfl, readLine_print _ (WF_recordJson txt _ _ _ ?_)⟩
  intro m hmem
  simp only [mkRecord, Option.getD_none, List.map_nil, List.nil_append, List.mem_append, List.mem_map] at hmem
  rcases hmem with hmem | ⟨p, _, rfl⟩
  · unfold fieldsOf at hmem
    obtain ⟨p, _, hp⟩ := List.mem_filterMap.mp hmem
    cases hf : fieldOf ops mult p.2 with
    | none => simp [hf] at hp
    | some v =>
      simp only [hf, Option.map_some, Option.some.injEq] at hp
      rw [← hp]
      exact fieldOf_ok ops txt ht mult p.2 v hf
  · trivial

end EmfRefine

#print axioms EmfRefine.emf_refines_spec_global_read_partial
