import Props.C06RefineLemmas
/-!
Logging slack of the T-trace harness, end observations: an `eR` / `eF` / `eD` logged later than the last micro-step
of its drop keeps a history accepted (`acceptFrom_end_later`).  Used by `c06_logging_slack_partial`.
-/
namespace KeepAlive
open Spec

/-- one more drop in flight -/
def bump (t : SSt) : SSt := { t with inflight := t.inflight + 1 }
/-- one more drop in flight, one force-flush drop fewer returned -/
def bumpD (t : SSt) : SSt := { t with inflight := t.inflight + 1, dgEnded := t.dgEnded - 1 }

theorem feed_bump {t u : SSt} {o : Obs} (h : feed t o = some u) : feed (bump t) o = some (bump u) := by
  cases o <;> simp only [feed, bump] at h ⊢
  all_goals (repeat' split at h) <;> (try cases h) <;> simp_all [Spec.cond] <;> (try omega)

theorem feed_bumpD {t u : SSt} {o : Obs} (h : feed t o = some u) (hd : t.dgEnded ≥ 1) :
    feed (bumpD t) o = some (bumpD u) := by
  cases o <;> simp only [feed, bumpD] at h ⊢
  all_goals (repeat' split at h) <;> (try cases h) <;> simp_all [Spec.cond] <;> (try omega)

theorem feedChecked_eq_some {t u : SSt} {o : Obs} :
    feedChecked t o = some u ↔ feed t o = some u ∧ (due u && decide (u.apps = 0)) = false := by
  cases h : feed t o with
  | none => simp [feedChecked, h]
  | some v =>
    cases hd : (due v && decide (v.apps = 0)) with
    | false =>
      simp only [feedChecked, h, hd, Bool.false_eq_true, if_false, Option.some.injEq]
      constructor
      · rintro rfl; exact ⟨rfl, hd⟩
      · rintro ⟨rfl, _⟩; rfl
    | true =>
      simp only [feedChecked, h, hd, if_true, Option.some.injEq]
      constructor
      · intro h; cases h
      · rintro ⟨h1, h2⟩; cases h1; rw [hd] at h2; cases h2

theorem not_due_of_inflight {t : SSt} (h : t.inflight > 0) : (due t && decide (t.apps = 0)) = false := by
  simp only [due]
  have : decide (t.inflight = 0) = false := by simp; omega
  simp [this]

/-- the shape of the argument: `B` undoes `e` -/
theorem end_later_of {t : SSt} {e o : Obs} {rest : List Obs} (B : SSt → SSt)
    (ha : ∀ t1, feed t e = some t1 → t = B t1 ∧ ∀ u, feed t1 o = some u → feed (B t1) o = some (B u))
    (hc : ∀ u, (B u).inflight > 0 ∧ feed (B u) e = some u)
    (h : acceptFrom t (e :: o :: rest) = true) : acceptFrom t (o :: e :: rest) = true := by
  simp only [acceptFrom] at h ⊢
  cases h1 : feedChecked t e with
  | none => simp [h1] at h
  | some t1 =>
    simp only [h1] at h
    cases h2 : feedChecked t1 o with
    | none => simp [h2] at h
    | some u =>
      simp only [h2] at h
      obtain ⟨f1, -⟩ := feedChecked_eq_some.mp h1
      obtain ⟨f2, d2⟩ := feedChecked_eq_some.mp h2
      obtain ⟨ht, hb⟩ := ha t1 f1
      obtain ⟨hi, hf⟩ := hc u
      have f3 := hb u f2
      rw [← ht] at f3
      have c3 : feedChecked t o = some (B u) := feedChecked_eq_some.mpr ⟨f3, not_due_of_inflight hi⟩
      have c4 : feedChecked (B u) e = some u := feedChecked_eq_some.mpr ⟨hf, d2⟩
      simp only [c3, c4]
      exact h

/-- **Logging slack, end observations.** Logging the return of an owner / flush-guard / force-flush-guard drop
(`eR`, `eF`, `eD`) one observation later keeps a history accepted. -/
theorem acceptFrom_end_later {t : SSt} {e o : Obs} {rest : List Obs} (he : e = .eR ∨ e = .eF ∨ e = .eD)
    (h : acceptFrom t (e :: o :: rest) = true) : acceptFrom t (o :: e :: rest) = true := by
  rcases he with rfl | rfl | rfl
  · refine end_later_of bump ?_ ?_ h
    · intro t1 f1
      simp only [feed] at f1
      split at f1
      · cases f1
        refine ⟨by cases t; simp only [bump, SSt.mk.injEq]; simp at *; omega, fun u f2 => feed_bump f2⟩
      · cases f1
    · intro u; exact ⟨by simp [bump], by simp [feed, bump]⟩
  · refine end_later_of bump ?_ ?_ h
    · intro t1 f1
      simp only [feed] at f1
      split at f1
      · cases f1
        refine ⟨by cases t; simp only [bump, SSt.mk.injEq]; simp at *; omega, fun u f2 => feed_bump f2⟩
      · cases f1
    · intro u; exact ⟨by simp [bump], by simp [feed, bump]⟩
  · -- `eD`: the shift also takes back `dgEnded + 1`; `feed` never reads `dgEnded`
    simp only [acceptFrom] at h ⊢
    cases h1 : feedChecked t .eD with
    | none => simp [h1] at h
    | some t1 =>
      simp only [h1] at h
      cases h2 : feedChecked t1 o with
      | none => simp [h2] at h
      | some u =>
        simp only [h2] at h
        obtain ⟨f1, -⟩ := feedChecked_eq_some.mp h1
        obtain ⟨f2, d2⟩ := feedChecked_eq_some.mp h2
        simp only [feed] at f1
        split at f1
        · rename_i hpos
          cases f1
          have ht : t = bumpD { t with inflight := t.inflight - 1, dgEnded := t.dgEnded + 1 } := by
            cases t; simp only [bumpD, SSt.mk.injEq]; simp at *; omega
          have f3 := feed_bumpD f2 (by simp)
          rw [← ht] at f3
          have hu : u.dgEnded ≥ 1 := by
            have hmono : ∀ {a b : SSt} {o : Obs}, feed a o = some b → a.dgEnded ≤ b.dgEnded := by
              intro a b o hf
              cases o <;> simp only [feed] at hf
              all_goals (repeat' split at hf) <;> (try cases hf) <;> simp
            have := hmono f2
            simp at this; omega
          have c3 : feedChecked t o = some (bumpD u) :=
            feedChecked_eq_some.mpr ⟨f3, not_due_of_inflight (by simp [bumpD])⟩
          have f4 : feed (bumpD u) .eD = some u := by
            cases u; simp only [feed, bumpD]; simp at hu ⊢; omega
          have c4 : feedChecked (bumpD u) .eD = some u := feedChecked_eq_some.mpr ⟨f4, d2⟩
          simp only [c3, c4]
          exact h
        · cases f1
end KeepAlive
