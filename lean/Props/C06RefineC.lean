import Props.C06RefineB
/-! Simulation steps of the slot events (`open`, `wait_for_data`, `delay_flush`, guard mutation, guard drop). -/
namespace KeepAlive
open Spec

variable {cfg : List (Bool × Nat)} {s s' : St} {w w' : Option Nat} {t t' : SSt}

theorem feed_opn {i : Nat} {tl : SSlot} (m : Mode) (v : Nat) (htl : t.slots[i]? = some tl) (h1 : tl.opened = false)
    (h2 : t.refsOut > 0) : feed t (.opn i m v) =
      some { t with slots := modifyAt (fun sl => { sl with opened := true, mode := m, gval := v }) t.slots i } := by
  simp [feed, htl, h1, h2]

theorem feed_opnFail_w (h : t.fgOut > 0) : feed t (.opnFail .wait) = some { t with fgOut := t.fgOut - 1 } := by
  simp [feed, h]

theorem feed_opnFail_d : feed t (.opnFail .discard) = some t := by simp [feed]

theorem feed_delay_w {i : Nat} {tl : SSlot} (htl : t.slots[i]? = some tl) (h1 : tl.opened = true) (h2 : tl.gone = false)
    (h3 : t.fgOut > 0) (h4 : tl.mode = .wait) : feed t (.delay i) = some { t with fgOut := t.fgOut - 1 } := by
  simp [feed, htl, h1, h2, h3, h4]

theorem feed_delay_d {i : Nat} {tl : SSlot} (htl : t.slots[i]? = some tl) (h1 : tl.opened = true) (h2 : tl.gone = false)
    (h3 : t.fgOut > 0) (h4 : tl.mode ≠ .wait) : feed t (.delay i) =
      some { t with slots := modifyAt (fun sl => { sl with mode := .wait }) t.slots i } := by
  simp [feed, htl, h1, h2, h3, h4]

theorem feed_gm {i : Nat} {tl : SSlot} (v : Nat) (htl : t.slots[i]? = some tl) (h1 : tl.opened = true) (h2 : tl.gone = false) :
    feed t (.gm i v) = some { t with slots := modifyAt (fun sl => { sl with gval := v }) t.slots i } := by
  simp [feed, htl, h1, h2]

theorem feed_bG {i : Nat} {tl : SSlot} (htl : t.slots[i]? = some tl) (h1 : tl.opened = true) (h2 : tl.gone = false) :
    feed t (.bG i) = some { t with slots := modifyAt (fun sl => { sl with gone := true }) t.slots i,
                                   inflight := t.inflight + 1,
                                   fgOut := if tl.mode = .wait then t.fgOut - 1 else t.fgOut } := by
  simp [feed, htl, h1, h2]

macro "slot_sim" : tactic =>
  `(tactic| (refine ⟨?_, ?_, ?_, ?_, ?_, ?_, ?_⟩ <;> (try dsimp only) <;> grind [PendAt]))

theorem sim_gmut (i v : Nat) (hr : Reachable cfg s) (hsim : Sim s w t) (h : step s (.gmut i v) = some s') :
    StepSim s w t (.gmut i v) s' := by
  have hr' := Reachable.step _ hr h
  have hsinv := sinv_reachable hr
  obtain ⟨r1, r2, r3, r4, r5, r6, r7, r8, r9, r10, -, -⟩ := id hsim
  simp only [step] at h
  split at h
  · cases h
  · rename_i sl hsl
    simp only [Option.ite_none_right_eq_some, Option.some.injEq] at h
    obtain ⟨hg, rfl⟩ := h
    simp only [setSlot] at hr' ⊢
    obtain ⟨tl, htl⟩ := getElem?_of_len hsim hsl
    obtain ⟨o1, o2, o3, o4, o5, o6, o7⟩ := hsim.slots i sl tl hsl htl
    obtain ⟨a1, a2, a3, a4, a5, a6, a7, a8⟩ := hsinv.ok sl (List.mem_of_getElem? hsl)
    have e1 := sumBy_modify (f := sentBy) (fun sl => { sl with gval := v }) hsl
    have e2 := sumBy_modify (f := sentWBy) (fun sl => { sl with gval := v }) hsl
    simp only [sentBy, sentWBy, hg] at e1 e2
    refine stepSim_one hr' rfl (feed_gm v htl (by grind) (by grind))
      (sim_mod_slots hsim hsl htl rfl rfl (by intro j _ hp; exact hp) (by slot_sim) (by sim_scalars))

theorem sim_gSend (i : Nat) (hr : Reachable cfg s) (hsim : Sim s w t) (h : step s (.gSend i) = some s') :
    StepSim s w t (.gSend i) s' := by
  have hr' := Reachable.step _ hr h
  have hsinv := sinv_reachable hr
  obtain ⟨h1,h2,h3,h4,h5,h6,h7,h8,h9,h10,h11,h11b,h12,h13,h14⟩ := inv_reachable hr
  obtain ⟨r1, r2, r3, r4, r5, r6, r7, r8, r9, r10, -, -⟩ := id hsim
  simp only [step] at h
  split at h
  · cases h
  · rename_i sl hsl
    simp only [Option.ite_none_right_eq_some, Option.some.injEq] at h
    obtain ⟨hg, rfl⟩ := h
    simp only [setSlot] at hr' ⊢
    obtain ⟨tl, htl⟩ := getElem?_of_len hsim hsl
    obtain ⟨o1, o2, o3, o4, o5, o6, o7⟩ := hsim.slots i sl tl hsl htl
    obtain ⟨a1, a2, a3, a4, a5, a6, a7, a8⟩ := hsinv.ok sl (List.mem_of_getElem? hsl)
    have e1 := sumBy_modify (f := sentBy) (fun sl => { sl with g := .sent, cell := (if sl.rx then some sl.gval else none), sentOk := sl.closedAs.isNone }) hsl
    have e2 := sumBy_modify (f := sentWBy) (fun sl => { sl with g := .sent, cell := (if sl.rx then some sl.gval else none), sentOk := sl.closedAs.isNone }) hsl
    have e3 := sumBy_le (f := liveWBy) hsl
    have hsp := held_split s.slots
    simp only [sentBy, sentWBy, liveWBy, hg] at e1 e2 e3
    have hop : tl.opened = true := by grind
    have hgo : tl.gone = false := by grind
    refine stepSim_one hr' rfl (feed_bG htl hop hgo)
      (sim_mod_slots hsim hsl htl rfl rfl (by intro j _ hp; exact hp) (by slot_sim) ?_)
    cases hm : sl.mode <;> simp only [hm, o2] at e1 e2 e3 ⊢ <;> simp at e1 e2 e3 ⊢ <;> sim_scalars

theorem sim_wait_slots {i : Nat} {sl : Slot} {b : Option Nat} (hsim : Sim s w t) (hsl : s.slots[i]? = some sl) :
    Sim { setSlot s i (fun _ => (poll sl).1) with borrowed := b } w t := by
  obtain ⟨r1, r2, r3, r4, r5, r6, r7, r8, r9, r10, -, -⟩ := id hsim
  obtain ⟨tl, htl⟩ := getElem?_of_len hsim hsl
  obtain ⟨o1, o2, o3, o4, o5, o6, o7⟩ := hsim.slots i sl tl hsl htl
  obtain ⟨p1, p2, p3, p4, p5, p6⟩ := poll_same sl
  have e1 := sumBy_modify (f := sentBy) (fun _ => (poll sl).1) hsl
  have e2 := sumBy_modify (f := sentWBy) (fun _ => (poll sl).1) hsl
  simp only [sentBy, sentWBy, p5, p3] at e1 e2
  simp only [setSlot]
  refine sim_mod_slots (g := fun x => x) hsim hsl htl rfl (by simp [modifyAt_id]) (by intro j _ hp; exact hp) ?_ ?_
  · refine ⟨?_, ?_, ?_, ?_, ?_, ?_, ?_⟩ <;> simp only [p2, p3, p4, p5, p6] <;> assumption
  · refine ⟨r1, ?_, r3, r4, r5, ?_, r7, r8, r9⟩ <;> dsimp only <;> omega

theorem sim_waitBegin (i : Nat) (hsim : Sim s w t) (h : step s (.waitBegin i) = some s') :
    StepSim s w t (.waitBegin i) s' := by
  simp only [step] at h
  split at h
  · cases h
  · rename_i sl hsl
    simp only [Option.ite_none_right_eq_some, Option.some.injEq] at h
    obtain ⟨hc, rfl⟩ := h
    exact stepSim_zero rfl (sim_wait_slots hsim hsl)

theorem sim_waitPoll (hsim : Sim s w t) (h : step s .waitPoll = some s') : StepSim s w t .waitPoll s' := by
  simp only [step] at h
  split at h
  · cases h
  · split at h
    · cases h
    · rename_i sl hsl
      simp only [Option.some.injEq] at h
      subst h
      exact stepSim_zero rfl (sim_wait_slots hsim hsl)

/-- `!cond t` at the end of a guard's drop implies that the send preceded the close -/
theorem sure_sent {sl : Slot} (hsim : Sim s w t) (hsinv : SInv s) (hmem : sl ∈ s.slots) (hop : sl.opened = true)
    (hg : sl.g ≠ .live) (hsure : (!Spec.cond t) = true) : sl.sentOk = true := by
  simp [Spec.cond] at hsure
  rcases (hsinv.ok sl hmem).gone hop hg with h | h
  · exact h
  · exfalso
    have := hsinv.g0 ⟨sl, hmem, h⟩
    have r1 := hsim.refs
    have r2 := hsim.fg
    have r4 := hsim.dgb
    omega

theorem sim_gRelease (i : Nat) (hr : Reachable cfg s) (hsim : Sim s w t) (h : step s (.gRelease i) = some s') :
    StepSim s w t (.gRelease i) s' := by
  have hr' := Reachable.step _ hr h
  have hsinv := sinv_reachable hr
  obtain ⟨h1,h2,h3,h4,h5,h6,h7,h8,h9,h10,h11,h11b,h12,h13,h14⟩ := inv_reachable hr
  obtain ⟨r1, r2, r3, r4, r5, r6, r7, r8, r9, r10, -, -⟩ := id hsim
  simp only [step] at h
  split at h
  · cases h
  · rename_i sl hsl
    simp only [Option.ite_none_right_eq_some, Option.some.injEq] at h
    obtain ⟨hg, h⟩ := h
    have hmem := List.mem_of_getElem? hsl
    obtain ⟨tl, htl⟩ := getElem?_of_len hsim hsl
    obtain ⟨o1, o2, o3, o4, o5, o6, o7⟩ := hsim.slots i sl tl hsl htl
    obtain ⟨a1, a2, a3, a4, a5, a6, a7, a8⟩ := hsinv.ok sl hmem
    have e1 := sumBy_modify (f := sentBy) (fun sl => { sl with g := .none }) hsl
    have e2 := sumBy_modify (f := sentWBy) (fun sl => { sl with g := .none }) hsl
    have e3 := sumBy_le (f := sentWBy) hsl
    have e4 := sumBy_le (f := sentBy) hsl
    have hsp := held_split s.slots
    simp only [sentBy, sentWBy, hg] at e1 e2 e3 e4
    have hop : sl.opened = true := by grind
    have hgo : tl.gone = true := by grind
    have hen : tl.ended = false := by grind
    have hsure := sure_sent hsim hsinv hmem hop (by simp [hg])
    have hnp : ¬ PendAt s w i := by grind
    cases hm : sl.mode with
    | discard =>
      simp only [hm] at e1 e2 e3 e4
      simp at e1 e2 e3 e4
      simp only [hm, reduceCtorEq, if_false] at h
      subst h
      simp only [setSlot] at hr' ⊢
      refine stepSim_one (w' := w) hr' (by simp [obsOf, hsl, hm]) (feed_eG htl hgo hen (by omega))
        (sim_mod_slots hsim hsl htl rfl rfl (by intro j _ hp; exact hp) (by slot_sim) (by sim_scalars))
    | wait =>
      simp only [hm] at e1 e2 e3 e4
      simp at e1 e2 e3 e4
      simp only [hm, if_true, dropFG, relG, setSlot] at h
      by_cases hz : s.gS - 1 = 0
      · simp only [hz, if_true] at h
        subst h
        refine stepSim_zero (w' := some i) (by simp [obsOf, hsl, hm, relObs, relWho, hz]) ?_
        refine sim_mod_slots (g := fun x => x) hsim hsl htl rfl (by simp [modifyAt_id]) ?_ (by slot_sim) (by sim_scalars)
        intro j hj hp
        simp only [PendAt] at hp
        exact absurd (Option.some.inj hp.2.2).symm hj
      · simp only [hz, if_false] at h
        subst h
        refine stepSim_one (w' := w) hr' (by simp [obsOf, hsl, hm, relObs, relWho, hz]) (feed_eG htl hgo hen (by omega))
          (sim_mod_slots hsim hsl htl rfl rfl (by intro j _ hp; exact hp) (by slot_sim) (by sim_scalars))

theorem sim_delay (i : Nat) (hr : Reachable cfg s) (hsim : Sim s w t) (h : step s (.delay i) = some s') :
    StepSim s w t (.delay i) s' := by
  have hr' := Reachable.step _ hr h
  have hsinv := sinv_reachable hr
  obtain ⟨h1,h2,h3,h4,h5,h6,h7,h8,h9,h10,h11,h11b,h12,h13,h14⟩ := inv_reachable hr
  obtain ⟨r1, r2, r3, r4, r5, r6, r7, r8, r9, r10, -, -⟩ := id hsim
  simp only [step] at h
  split at h
  · cases h
  · rename_i sl hsl
    simp only [Option.ite_none_right_eq_some] at h
    obtain ⟨⟨hg, hlt⟩, h⟩ := h
    have hmem := List.mem_of_getElem? hsl
    obtain ⟨tl, htl⟩ := getElem?_of_len hsim hsl
    obtain ⟨o1, o2, o3, o4, o5, o6, o7⟩ := hsim.slots i sl tl hsl htl
    obtain ⟨a1, a2, a3, a4, a5, a6, a7, a8⟩ := hsinv.ok sl hmem
    have e1 := sumBy_modify (f := sentBy) (fun sl => { sl with mode := .wait }) hsl
    have e2 := sumBy_modify (f := sentWBy) (fun sl => { sl with mode := .wait }) hsl
    have e3 := sumBy_le (f := liveWBy) hsl
    have hsp := held_split s.slots
    simp only [sentBy, sentWBy, liveWBy, hg] at e1 e2 e3
    simp at e1 e2 e3
    have hop : tl.opened = true := by grind
    have hgo : tl.gone = false := by grind
    have hfo : t.fgOut > 0 := by omega
    cases hm : sl.mode with
    | wait =>
      simp only [hm, if_true, dropFG, relG, Option.some.injEq] at h
      simp only [hm] at e3
      have hz : ¬ (s.gS - 1 = 0) := by simp at e3; omega
      simp only [hz, if_false] at h
      subst h
      refine stepSim_one (w' := w) hr' rfl (feed_delay_w htl hop hgo hfo (by rw [o2]; exact hm))
        (sim_same_slots hsim rfl rfl (by sim_pend) (by sim_scalars))
    | discard =>
      simp only [hm, reduceCtorEq, if_false, Option.some.injEq] at h
      subst h
      simp only [setSlot] at hr' ⊢
      refine stepSim_one (w' := w) hr' rfl (feed_delay_d htl hop hgo hfo (by rw [o2, hm]; simp))
        (sim_mod_slots hsim hsl htl rfl rfl (by intro j _ hp; exact hp) (by slot_sim) (by sim_scalars))

theorem sim_open (i : Nat) (m : Mode) (v0 : Nat) (hr : Reachable cfg s) (hsim : Sim s w t)
    (h : step s (.open i m v0) = some s') : StepSim s w t (.open i m v0) s' := by
  have hr' := Reachable.step _ hr h
  have hsinv := sinv_reachable hr
  obtain ⟨h1,h2,h3,h4,h5,h6,h7,h8,h9,h10,h11,h11b,h12,h13,h14⟩ := inv_reachable hr
  obtain ⟨r1, r2, r3, r4, r5, r6, r7, r8, r9, r10, -, -⟩ := id hsim
  simp only [step] at h
  split at h
  · cases h
  · rename_i sl hsl
    simp only [Option.ite_none_right_eq_some] at h
    obtain ⟨⟨hu, hlt⟩, h⟩ := h
    have hmem := List.mem_of_getElem? hsl
    obtain ⟨tl, htl⟩ := getElem?_of_len hsim hsl
    obtain ⟨o1, o2, o3, o4, o5, o6, o7⟩ := hsim.slots i sl tl hsl htl
    obtain ⟨a1, a2, a3, a4, a5, a6, a7, a8⟩ := hsinv.ok sl hmem
    have hsp := held_split s.slots
    have hro : t.refsOut > 0 := by grind [ownerUsable]
    cases hopn : sl.opened with
    | true =>
      simp only [hopn, if_true, Option.some.injEq] at h
      cases m with
      | wait =>
        simp only [if_true, dropFG, relG] at h
        have hlt' := hlt rfl
        have hz : ¬ (s.gS - 1 = 0) := by grind [pG, ownerUsable]
        simp only [hz, if_false] at h
        subst h
        refine stepSim_one (w' := w) hr' (by simp [obsOf, hsl, hopn]) (feed_opnFail_w (by omega))
          (sim_same_slots hsim rfl rfl (by sim_pend) (by sim_scalars))
      | discard =>
        simp only [reduceCtorEq, if_false] at h
        subst h
        exact stepSim_one (w' := w) hr' (by simp [obsOf, hsl, hopn]) feed_opnFail_d hsim
    | false =>
      simp only [hopn, Bool.false_eq_true, if_false, Option.some.injEq] at h
      subst h
      simp only [setSlot] at hr' ⊢
      have hgn : sl.g = .none := a1 hopn
      have e1 := sumBy_modify (f := sentBy) (fun sl => { sl with opened := true, g := .live, mode := m, gval := (if sl.lazy then v0 else sl.init) }) hsl
      have e2 := sumBy_modify (f := sentWBy) (fun sl => { sl with opened := true, g := .live, mode := m, gval := (if sl.lazy then v0 else sl.init) }) hsl
      simp only [sentBy, sentWBy, hgn] at e1 e2
      simp at e1 e2
      refine stepSim_one (w' := w) hr' (by simp [obsOf, hsl, hopn]) (feed_opn m (if sl.lazy then v0 else sl.init) htl (by rw [o1]; exact hopn) hro)
        (sim_mod_slots hsim hsl htl rfl rfl (by intro j _ hp; exact hp) (by slot_sim) (by sim_scalars))

end KeepAlive
