import Props.EmfRefineValidate
import Props.EmfRefineMetric
import Props.C02
/-!
Stage 2 lemmas: the buffers of the operational writer after an entry WITHOUT per-metric dimensions, and
the bytes of the single record `finish` writes, as the printed `recordJson` of the declarative record.
-/
namespace EmfRefine
open JsonTree Json EmfSpec

variable {F : Type}

/-- every metric of the entry goes to the no-dimension record -/
def noSplit (cfg : Config) (e : Entry F) : Bool :=
  (metricItems e).all fun p => cfg.allowIgnored || p.2.dims.isEmpty

/-- `,"name":"value"` for every string item -/
def strBytes (l : List (Str × Str)) : List Nat :=
  (l.map fun p => 44 :: (jstr p.1 ++ 58 :: jstr p.2)).flatten

/-- the buffers of the no-dimension record -/
structure Shape (w : Emf.Writer) (S Fd : List Nat) (Ds : List Decl) : Prop where
  dm : w.st.dimMap = []
  sf : w.st.stringFieldsBuf = ⟨0, S⟩
  f : w.st.fieldsBuf = ⟨1, 125 :: Fd⟩
  m : w.st.metricsBuf = ⟨Emf.metricsPrefix.length, Emf.metricsPrefix ++ printElems (Ds.map declJson)⟩
  c : w.st.countsBuf = Emf.PBuf.new Emf.countsPrefix

def dimsOf (c : Emf.Consts) (sets : List (List Str)) : List (List Nat) :=
  c.eachDims.flatMap fun d => sets.map fun e => Emf.extendWithStrings d e

/-- `entry_dimensions` after the items `e` when no error was reported -/
def edAfter (c : Emf.Consts) (cur : Option (List (List Nat))) (e : Entry F) : Option (List (List Nat)) :=
  match cur with
  | some d => some d
  | none => match entryDimsItems e with
    | [] => none
    | sets :: _ => some (dimsOf c sets)

def tsAfter (cur : Option Int) (e : Entry F) : Option Int :=
  match (timestamps e).getLast? with
  | some t => some t
  | none => cur

/-- the parts of the writer `finish` reads besides the three record buffers -/
structure Rest (c : Emf.Consts) (w w1 : Emf.Writer) (e : Entry F) : Prop where
  decl : w1.st.declBuf = w.st.declBuf
  dbuf : w1.st.dimensionsBuf = w.st.dimensionsBuf
  ts : w1.timestamp = tsAfter w.timestamp e
  ed : w1.entryDims = edAfter c w.entryDims e

theorem foldl_entryDimsValidate_frame (c : Emf.Consts) (ds : List Str) (w : Emf.Writer) :
    (ds.foldl (Emf.entryDimsValidate c) w).st = w.st ∧
    (ds.foldl (Emf.entryDimsValidate c) w).timestamp = w.timestamp := by
  induction ds generalizing w with
  | nil => exact ⟨rfl, rfl⟩
  | cons d ds ih =>
    simp only [List.foldl_cons]
    have h1 : (Emf.entryDimsValidate c w d).st = w.st ∧ (Emf.entryDimsValidate c w d).timestamp = w.timestamp := by
      unfold Emf.entryDimsValidate
      split
      · exact ⟨rfl, rfl⟩
      · exact ⟨rfl, rfl⟩
      · split <;> exact ⟨rfl, rfl⟩
      · exact ⟨rfl, rfl⟩
    exact ⟨(ih _).1.trans h1.1, (ih _).2.trans h1.2⟩

theorem validateString_frame (w : Emf.Writer) (name : Str) :
    (Emf.validateString w name).st = w.st ∧ (Emf.validateString w name).timestamp = w.timestamp ∧
    (Emf.validateString w name).entryDims = w.entryDims := by
  unfold Emf.validateString
  split <;> exact ⟨rfl, rfl, rfl⟩

theorem metricCheck_frame (c : Emf.Consts) (w : Emf.Writer) (name : Str) (i : Nat) :
    (Emf.metricCheck c w name i).st = w.st ∧ (Emf.metricCheck c w name i).timestamp = w.timestamp ∧
    (Emf.metricCheck c w name i).entryDims = w.entryDims := by
  unfold Emf.metricCheck Emf.validateMetric
  split
  · split
    · exact ⟨rfl, rfl, rfl⟩
    · exact ⟨rfl, rfl, rfl⟩
    · split <;> exact ⟨rfl, rfl, rfl⟩
    · exact ⟨rfl, rfl, rfl⟩
  · exact ⟨rfl, rfl, rfl⟩

theorem err_errors_ne (w : Emf.Writer) (k : Emf.ErrKind) : (w.err k).errors ≠ [] := by
  simp [Emf.Writer.err]

theorem edAfter_noItems (c : Emf.Consts) (cur : Option (List (List Nat))) (e : Entry F) (h : entryDimsItems e = []) :
    edAfter c cur e = cur := by
  unfold edAfter
  cases cur with
  | some d => rfl
  | none => simp [h]

theorem tsAfter_noItems (cur : Option Int) (e : Entry F) (h : timestamps e = []) : tsAfter cur e = cur := by
  simp [tsAfter, h]

/-- one writer call on the buffers of the no-dimension record -/
theorem shape_applyItem {c : Emf.Consts} {cfg : Config} {sw : Switches} (hc : CRel c cfg sw)
    (ops : FloatOps F) (txt : F → List Nat) {mult : Option Nat} (hm : multOk mult)
    {w : Emf.Writer} {S Fd : List Nat} {Ds : List Decl} (h : Shape w S Fd Ds) (it : Item F)
    (hns : noSplit cfg [it] = true)
    (hw1 : (Emf.applyItem c mult w (toEmfItem ops txt it)).errors = []) :
    Shape (Emf.applyItem c mult w (toEmfItem ops txt it)) (S ++ strBytes (strItems [it]))
      (Fd ++ fieldBytes txt (fieldsOf ops mult (metricItems [it]))) (Ds ++ declsOf ops mult (metricItems [it])) ∧
    Rest c w (Emf.applyItem c mult w (toEmfItem ops txt it)) [it] := by
  cases it with
  | timestamp t =>
    simp only [toEmfItem, Emf.applyItem]
    have hS : Shape { w with timestamp := some t } (S ++ strBytes (strItems [Item.timestamp (F := F) t]))
        (Fd ++ fieldBytes txt (fieldsOf ops mult (metricItems [Item.timestamp (F := F) t])))
        (Ds ++ declsOf ops mult (metricItems [Item.timestamp (F := F) t])) := by
      simpa [strItems, metricItems, strBytes, fieldsOf, declsOf, fieldBytes] using
        (⟨h.dm, h.sf, h.f, h.m, h.c⟩ : Shape { w with timestamp := some t } S Fd Ds)
    have hR : Rest c w { w with timestamp := some t } [Item.timestamp (F := F) t] :=
      ⟨rfl, rfl, by simp [tsAfter, timestamps], (edAfter_noItems c _ _ rfl).symm⟩
    split
    · exact ⟨⟨hS.dm, hS.sf, hS.f, hS.m, hS.c⟩, ⟨hR.decl, hR.dbuf, hR.ts, hR.ed⟩⟩
    · exact ⟨hS, hR⟩
  | allowSplit =>
    refine ⟨?_, ⟨rfl, rfl, (tsAfter_noItems _ _ rfl).symm, (edAfter_noItems c _ _ rfl).symm⟩⟩
    simpa [strItems, metricItems, strBytes, fieldsOf, declsOf, fieldBytes, toEmfItem, Emf.applyItem] using
      (⟨h.dm, h.sf, h.f, h.m, h.c⟩ : Shape { w with allowSplit := true } S Fd Ds)
  | otherCfg =>
    refine ⟨?_, ⟨rfl, rfl, (tsAfter_noItems _ _ rfl).symm, (edAfter_noItems c _ _ rfl).symm⟩⟩
    simpa [strItems, metricItems, strBytes, fieldsOf, declsOf, fieldBytes, toEmfItem, Emf.applyItem] using h
  | allowUnroutable =>
    refine ⟨?_, ⟨rfl, rfl, (tsAfter_noItems _ _ rfl).symm, (edAfter_noItems c _ _ rfl).symm⟩⟩
    simpa [strItems, metricItems, strBytes, fieldsOf, declsOf, fieldBytes, toEmfItem, Emf.applyItem] using
      (⟨h.dm, h.sf, h.f, h.m, h.c⟩ : Shape { w with unroutable := true } S Fd Ds)
  | entryDims sets =>
    simp only [toEmfItem, Emf.applyItem, Emf.configEntryDims, h.dm, List.isEmpty_nil, Bool.not_true,
      Bool.false_eq_true, if_false] at hw1 ⊢
    cases hed : w.entryDims with
    | some d => simp [hed, Emf.Writer.err] at hw1
    | none =>
      simp only [hed, Option.isSome_none, Bool.false_eq_true, if_false] at hw1 ⊢
      cases hse : sets.isEmpty with
      | true => simp [hse, Emf.Writer.err] at hw1
      | false =>
        simp only [Bool.false_eq_true, if_false]
        have hfr : (if (!c.validation.skipUnique || !c.validation.skipDimsExist) = true then
            sets.flatten.foldl (Emf.entryDimsValidate c) w else w).st = w.st ∧
            (if (!c.validation.skipUnique || !c.validation.skipDimsExist) = true then
            sets.flatten.foldl (Emf.entryDimsValidate c) w else w).timestamp = w.timestamp := by
          split
          · exact foldl_entryDimsValidate_frame c _ w
          · exact ⟨rfl, rfl⟩
        generalize (if (!c.validation.skipUnique || !c.validation.skipDimsExist) = true then
            sets.flatten.foldl (Emf.entryDimsValidate c) w else w) = w2 at hfr hw1 ⊢
        obtain ⟨hst, hts⟩ := hfr
        have : Shape w (S ++ strBytes (strItems [Item.entryDims (F := F) sets]))
            (Fd ++ fieldBytes txt (fieldsOf ops mult (metricItems [Item.entryDims (F := F) sets])))
            (Ds ++ declsOf ops mult (metricItems [Item.entryDims (F := F) sets])) := by
          simpa [strItems, metricItems, strBytes, fieldsOf, declsOf, fieldBytes] using h
        refine ⟨⟨?_, ?_, ?_, ?_, ?_⟩, ⟨?_, ?_, ?_, ?_⟩⟩
        · show w2.st.dimMap = []; rw [hst]; exact this.dm
        · show w2.st.stringFieldsBuf = _; rw [hst]; exact this.sf
        · show w2.st.fieldsBuf = _; rw [hst]; exact this.f
        · show w2.st.metricsBuf = _; rw [hst]; exact this.m
        · show w2.st.countsBuf = _; rw [hst]; exact this.c
        · show w2.st.declBuf = _; rw [hst]
        · show w2.st.dimensionsBuf = _; rw [hst]
        · show w2.timestamp = _; rw [hts]; exact (tsAfter_noItems _ _ rfl).symm
        · simp [edAfter, entryDimsItems, dimsOf, hed]
  | value name v =>
    have hR0 : ∀ (x : Val F), tsAfter w.timestamp [Item.value name x] = w.timestamp ∧
        edAfter c w.entryDims [Item.value name x] = w.entryDims :=
      fun x => ⟨tsAfter_noItems _ _ rfl, edAfter_noItems c _ _ rfl⟩
    simp only [toEmfItem, Emf.applyItem, Emf.value] at hw1 ⊢
    have hvn : Emf.validateName c w name = (w, true) := by
      unfold Emf.validateName at hw1 ⊢
      split
      · split
        · rename_i h1 h2; simp only [h1, h2, if_true] at hw1; exact absurd hw1 (err_errors_ne _ _)
        · split
          · rename_i h1 h2 h3; simp only [h1, h2, h3, if_true, if_false] at hw1; exact absurd hw1 (err_errors_ne _ _)
          · rfl
      · rfl
    simp only [hvn] at hw1 ⊢
    cases v with
    | error => exact absurd hw1 (err_errors_ne _ _)
    | nothing =>
      refine ⟨?_, ⟨rfl, rfl, (hR0 _).1.symm, (hR0 _).2.symm⟩⟩
      simpa [strItems, metricItems, strBytes, fieldsOf, declsOf, fieldBytes, toEmfVal] using h
    | str s =>
      simp only [toEmfVal, Emf.valueString]
      have hp : Shape (Emf.pushStringField w name s) (S ++ strBytes (strItems [Item.value (F := F) name (.str s)]))
          (Fd ++ fieldBytes txt (fieldsOf ops mult (metricItems [Item.value (F := F) name (.str s)])))
          (Ds ++ declsOf ops mult (metricItems [Item.value (F := F) name (.str s)])) := by
        refine ⟨h.dm, ?_, ?_, ?_, h.c⟩
        · simp [Emf.pushStringField, h.sf, Emf.PBuf.push, Emf.PBuf.jsonString, Emf.PBuf.pushRaw, strItems, strBytes]
        · simpa [strItems, metricItems, fieldsOf, fieldBytes, Emf.pushStringField] using h.f
        · simpa [metricItems, declsOf, Emf.pushStringField] using h.m
      split
      · obtain ⟨f1, f2, f3⟩ := validateString_frame (Emf.pushStringField w name s) name
        exact ⟨⟨by rw [f1]; exact hp.dm, by rw [f1]; exact hp.sf, by rw [f1]; exact hp.f, by rw [f1]; exact hp.m,
          by rw [f1]; exact hp.c⟩, ⟨by rw [f1]; rfl, by rw [f1]; rfl, by rw [f2]; exact (hR0 _).1.symm,
          by rw [f3]; exact (hR0 _).2.symm⟩⟩
      · exact ⟨hp, ⟨rfl, rfl, (hR0 _).1.symm, (hR0 _).2.symm⟩⟩
    | metric m =>
      have hg : (cfg.allowIgnored || m.dims.isEmpty) = true := by
        simpa [noSplit, metricItems] using hns
      simp only [toEmfVal, Emf.valueMetric, Emf.valueMetricCore, hc.ai, hg, if_true, Emf.metricGlobalWrite]
      generalize hw0 : Emf.metricPreCheck c w m.dims = w0
      have hw0st : w0.st = w.st ∧ w0.timestamp = w.timestamp ∧ w0.entryDims = w.entryDims := by
        rw [← hw0]; unfold Emf.metricPreCheck; split <;> exact ⟨rfl, rfl, rfl⟩
      obtain ⟨g1, g2, g3⟩ := metricCheck_frame c w0 name 0
      rw [g1, hw0st.1, h.f, h.m, h.c, writeMetric_eq ops txt hm]
      refine ⟨⟨h.dm, ?_, ?_, ?_, rfl⟩, ⟨rfl, rfl, ?_, ?_⟩⟩
      · simpa [strItems, strBytes] using h.sf
      · simp [metricItems]
      · simp [metricItems]
      · simp only [g2, hw0st.2.1]; exact (hR0 _).1.symm
      · simp only [g3, hw0st.2.2]; exact (hR0 _).2.symm

/-! ### the whole entry -/

theorem strItems_cons (it : Item F) (e : Entry F) : strItems (it :: e) = strItems [it] ++ strItems e := by
  cases it with
  | value n v => cases v <;> rfl
  | _ => rfl

theorem metricItems_cons (it : Item F) (e : Entry F) : metricItems (it :: e) = metricItems [it] ++ metricItems e := by
  cases it with
  | value n v => cases v <;> rfl
  | _ => rfl

theorem fieldsOf_append (ops : FloatOps F) (mult : Option Nat) (a b : List (Str × Metric F)) :
    fieldsOf ops mult (a ++ b) = fieldsOf ops mult a ++ fieldsOf ops mult b := by
  simp [fieldsOf, List.filterMap_append]

theorem declsOf_append (ops : FloatOps F) (mult : Option Nat) (a b : List (Str × Metric F)) :
    declsOf ops mult (a ++ b) = declsOf ops mult a ++ declsOf ops mult b := by
  simp [declsOf, List.filterMap_append]

theorem fieldBytes_append (txt : F → List Nat) (a b : List (Str × MVal F)) :
    fieldBytes txt (a ++ b) = fieldBytes txt a ++ fieldBytes txt b := by
  simp [fieldBytes]

theorem strBytes_append (a b : List (Str × Str)) : strBytes (a ++ b) = strBytes a ++ strBytes b := by
  simp [strBytes]

theorem tsAfter_cons (cur : Option Int) (it : Item F) (e : Entry F) :
    tsAfter (tsAfter cur [it]) e = tsAfter cur (it :: e) := by
  cases it with
  | timestamp t =>
    simp only [tsAfter, timestamps, List.getLast?_singleton, List.getLast?_cons]
    cases (timestamps e).getLast? <;> rfl
  | value n v => cases v <;> rfl
  | _ => rfl

theorem edAfter_cons (c : Emf.Consts) (cur : Option (List (List Nat))) (it : Item F) (e : Entry F) :
    edAfter c (edAfter c cur [it]) e = edAfter c cur (it :: e) := by
  cases cur with
  | some d => rfl
  | none =>
    cases it with
    | value n v => cases v <;> rfl
    | _ => rfl

theorem noSplit_cons (cfg : Config) (it : Item F) (e : Entry F) :
    noSplit cfg (it :: e) = (noSplit cfg [it] && noSplit cfg e) := by
  unfold noSplit
  rw [metricItems_cons, List.all_append]

/-- the buffers after the whole entry -/
theorem shape_foldl {c : Emf.Consts} {cfg : Config} {sw : Switches} (hc : CRel c cfg sw)
    (ops : FloatOps F) (txt : F → List Nat) {mult : Option Nat} (hm : multOk mult) (e : Entry F)
    (hns : noSplit cfg e = true) {w : Emf.Writer} {st : VState} (hsim : Sim w st)
    {S Fd : List Nat} {Ds : List Decl} (hS : Shape w S Fd Ds) (herr : (run cfg sw st e).errs = []) :
    Shape ((toEmfEntry ops txt e).foldl (Emf.applyItem c mult) w) (S ++ strBytes (strItems e))
      (Fd ++ fieldBytes txt (fieldsOf ops mult (metricItems e))) (Ds ++ declsOf ops mult (metricItems e)) ∧
    Rest c w ((toEmfEntry ops txt e).foldl (Emf.applyItem c mult) w) e := by
  induction e generalizing w st S Fd Ds with
  | nil =>
    refine ⟨?_, ⟨rfl, rfl, (tsAfter_noItems _ _ rfl).symm, (edAfter_noItems c _ _ rfl).symm⟩⟩
    simpa [toEmfEntry, strItems, metricItems, strBytes, fieldsOf, declsOf, fieldBytes] using hS
  | cons it e ih =>
    rw [noSplit_cons, Bool.and_eq_true] at hns
    have sim1 := sim_applyItem hc ops txt mult hsim it
    rw [run_cons] at herr
    have hst1 : (stepItem cfg sw st it).errs = [] := errs_nil_of_run cfg sw _ e herr
    have hw1 : (Emf.applyItem c mult w (toEmfItem ops txt it)).errors = [] := by
      rw [sim1.v.errs, hst1]; rfl
    obtain ⟨s1, r1⟩ := shape_applyItem hc ops txt hm hS it hns.1 hw1
    obtain ⟨s2, r2⟩ := ih hns.2 sim1 s1 herr
    simp only [toEmfEntry, List.map_cons, List.foldl_cons] at s2 r2 ⊢
    refine ⟨?_, ⟨r2.decl.trans r1.decl, r2.dbuf.trans r1.dbuf, ?_, ?_⟩⟩
    · rw [strItems_cons, metricItems_cons, fieldsOf_append, declsOf_append, fieldBytes_append, strBytes_append]
      simpa [List.append_assoc] using s2
    · rw [r2.ts, r1.ts, tsAfter_cons]
    · rw [r2.ed, r1.ed, edAfter_cons]

/-! ### `finish` -/

theorem sepBy_cons_flat (d : List Nat) (rest : List (List Nat)) :
    sepBy [44] (d :: rest) = d ++ (rest.map fun x => 44 :: x).flatten := by
  induction rest generalizing d with
  | nil => simp [sepBy]
  | cons y ys ih => simp [sepBy, ih y]

theorem pushDimensions_eq (dims : List (List Nat)) (first : Bool) (b : Emf.PBuf) :
    Emf.pushDimensions dims first b =
      ⟨b.prefixLen, b.buf ++ (if first then sepBy [44] dims else (dims.map fun x => 44 :: x).flatten)⟩ := by
  induction dims generalizing first b with
  | nil => cases first <;> simp [Emf.pushDimensions, sepBy]
  | cons d rest ih =>
    simp only [Emf.pushDimensions, ih, Bool.false_eq_true, if_false]
    cases first <;> simp [Emf.PBuf.pushRaw, Emf.PBuf.push, sepBy_cons_flat]

theorem new_clear (x : List Nat) : (Emf.PBuf.new x).clear = Emf.PBuf.new x := by
  simp [Emf.PBuf.new, Emf.PBuf.clear]

/-- the bytes of the single record of an entry without split records -/
def globalLine (ecfg : Emf.Config) (dims : List (List Nat)) (M : List Nat) (ts : List Nat) (Fd S : List Nat) : List Nat :=
  let Dg := sepBy [44] dims
  let X := Emf.metricsPrefix ++ M ++ bytes! "]}"
  (Emf.dimensionsPrefix ecfg ++ Dg) ++
  (X ++ ((Emf.Consts.ofConfig ecfg).moreNs.map fun ns => Emf.nsOpen ++ ns ++ (Emf.dimensionsAfterNs ++ Dg) ++ X).flatten) ++
  (Emf.extraDirectivesStr ecfg.extraDirectives ++ (Emf.Consts.ofConfig ecfg).logGroupTs ++ ts) ++
  (125 :: Fd) ++ (S ++ bytes! "}\n")

theorem finish_global (ecfg : Emf.Config) (w : Emf.Writer) (nowMs : Nat) {S Fd : List Nat} {Ds : List Decl}
    (hS : Shape w S Fd Ds)
    (hdecl : w.st.declBuf = Emf.PBuf.new (Emf.extraDirectivesStr ecfg.extraDirectives))
    (hdb : w.st.dimensionsBuf = Emf.PBuf.new (Emf.dimensionsPrefix ecfg))
    (herr : Emf.finishErrors (Emf.Consts.ofConfig ecfg) w = []) :
    (Emf.finish (Emf.Consts.ofConfig ecfg) w nowMs ⟨none, [], false⟩).2 =
      (.ok, ⟨none, globalLine ecfg (w.entryDims.getD (Emf.Consts.ofConfig ecfg).eachDims)
        (printElems (Ds.map declJson)) (natDigits (Emf.timestampMillis w.timestamp nowMs)) Fd S, false⟩) := by
  unfold Emf.finish
  simp only [herr, List.isEmpty_nil, Bool.not_true, Bool.false_eq_true, if_false]
  unfold Emf.finishWrite
  simp only [hS.dm, Emf.finishDims, Bool.not_false, Bool.true_or, if_true]
  unfold Emf.finishGlobal
  simp only [hdb, new_clear, pushDimensions_eq, if_true, hS.m, hS.f, hS.sf, hdecl]
  have hX : (Emf.PBuf.mk Emf.metricsPrefix.length (Emf.metricsPrefix ++ printElems (Ds.map declJson))).pushRaw (bytes! "]}")
      = ⟨Emf.metricsPrefix.length, (Emf.metricsPrefix ++ printElems (Ds.map declJson) ++ bytes! "]}") ++ []⟩ := by
    simp [Emf.PBuf.pushRaw]
  have hlen : ((Emf.PBuf.mk Emf.metricsPrefix.length (Emf.metricsPrefix ++ printElems (Ds.map declJson))).pushRaw
      (bytes! "]}")).buf.length = (Emf.metricsPrefix ++ printElems (Ds.map declJson) ++ bytes! "]}").length := by
    simp [Emf.PBuf.pushRaw]
  rw [hlen, hX, Emf.replicateNsGlobal_spec, Emf.afterNsIndex_eq]
  have hdrop : ((Emf.PBuf.new (Emf.dimensionsPrefix ecfg)).buf ++
        sepBy [44] (w.entryDims.getD (Emf.Consts.ofConfig ecfg).eachDims)).drop (Emf.awsOpen ++ jstr ecfg.ns0).length
      = Emf.dimensionsAfterNs ++ sepBy [44] (w.entryDims.getD (Emf.Consts.ofConfig ecfg).eachDims) := by
    have : (Emf.PBuf.new (Emf.dimensionsPrefix ecfg)).buf ++
        sepBy [44] (w.entryDims.getD (Emf.Consts.ofConfig ecfg).eachDims)
        = (Emf.awsOpen ++ jstr ecfg.ns0) ++ (Emf.dimensionsAfterNs ++
            sepBy [44] (w.entryDims.getD (Emf.Consts.ofConfig ecfg).eachDims)) := by
      simp [Emf.PBuf.new, Emf.dimensionsPrefix, List.append_assoc]
    rw [this, List.drop_left]
  simp only [hdrop]
  simp [Emf.Out.writeAll, globalLine, Emf.PBuf.new, Emf.PBuf.pushRaw, List.append_assoc]

/-! ### the line is the printed record -/

theorem extras_eq_print (cfg : Config) :
    Emf.extraDirectivesStr (cfg.extra.map toEmfExtra) =
      (cfg.extra.map fun d => 44 :: print (extraDirectiveJson d)).flatten := by
  unfold Emf.extraDirectivesStr
  rw [List.map_map]
  congr 1
  apply List.map_congr_left
  intro d _
  simp only [Function.comp_apply]
  rw [extraDirective_eq_print d]

theorem nsDirective_print (ns : Str) (dims : List (List Str)) (decls : List Decl) :
    print (nsDirectiveJson ⟨ns, dims, decls⟩) =
      bytes! "{\"Namespace\":" ++ jstr ns ++ Emf.dimensionsAfterNs ++ sepBy [44] (dims.map jarrStrings) ++
        Emf.metricsPrefix ++ printElems (decls.map declJson) ++ bytes! "]}" := by
  simp [nsDirectiveJson, print, printMembers, dimsJson, dimsJson_print, jstr_Namespace, jstr_Dimensions, jstr_Metrics,
    Emf.dimensionsAfterNs, Emf.metricsPrefix]

theorem globalLine_eq_print (cfg : Config) (sw : Switches) (txt : F → List Nat) (ns0 : Str) (more : List Str)
    (hns : cfg.namespaces = ns0 :: more)
    (dims : List (List Str)) (decls : List Decl) (T : Nat) (fields : List (Str × MVal F)) (strs : List (Str × Str)) :
    globalLine (toEmfCfg cfg sw) (dims.map jarrStrings) (printElems (decls.map declJson)) (natDigits T)
        (fieldBytes txt fields) (strBytes strs)
      = print (.obj ((bytes! "_aws", .obj (
            [(bytes! "CloudWatchMetrics",
              JVal.arr ((cfg.namespaces.map fun ns => nsDirectiveJson ⟨ns, dims, decls⟩) ++ cfg.extra.map extraDirectiveJson))] ++
            (match cfg.logGroup with | some g => [(bytes! "LogGroupName", JVal.str g)] | none => []) ++
            [(bytes! "Timestamp", JVal.num (natDigits T))]))
          :: (fields.map (fun m => (m.1, mvalJson txt m.2)) ++ strs.map fun p => (p.1, JVal.str p.2)))) ++ [10] := by
  have hF : fieldBytes txt fields = ((fields.map fun m => (m.1, mvalJson txt m.2)).map fun y => 44 :: pm y).flatten := by
    simp [fieldBytes, List.map_map, Function.comp_def]
  have hSt : strBytes strs = ((strs.map fun p => (p.1, JVal.str p.2)).map fun y => 44 :: pm y).flatten := by
    simp [strBytes, List.map_map, Function.comp_def, pm, print]
  have hreps : ((Emf.Consts.ofConfig (toEmfCfg cfg sw)).moreNs.map fun ns =>
        Emf.nsOpen ++ ns ++ (Emf.dimensionsAfterNs ++ sepBy [44] (dims.map jarrStrings)) ++
          (Emf.metricsPrefix ++ printElems (decls.map declJson) ++ bytes! "]}")).flatten
      = ((more.map fun ns => nsDirectiveJson ⟨ns, dims, decls⟩).map fun y => 44 :: print y).flatten := by
    simp only [Emf.Consts.ofConfig, toEmfCfg, hns, List.tail_cons, List.map_map]
    congr 1
    apply List.map_congr_left
    intro ns _
    simp [nsDirective_print, Emf.nsOpen, List.append_assoc]
  unfold globalLine
  simp only [hreps, hF, hSt]
  rw [show (toEmfCfg cfg sw).extraDirectives = cfg.extra.map toEmfExtra from rfl, extras_eq_print cfg]
  simp only [print, printMembers_cons, pm, hns, List.map_cons, List.cons_append, printElems_cons, nsDirective_print,
    List.map_append, List.flatten_append, List.map_map]
  cases hlg : cfg.logGroup with
  | none =>
    simp [Emf.dimensionsPrefix, Emf.awsOpen, toEmfCfg, hns, Emf.Consts.ofConfig, Emf.logGroupTsStr, hlg, printMembers, print,
      jstr_aws, jstr_CWM, jstr_Timestamp, Function.comp_def, List.append_assoc, pm]
  | some g =>
    simp [Emf.dimensionsPrefix, Emf.awsOpen, toEmfCfg, hns, Emf.Consts.ofConfig, Emf.logGroupTsStr, hlg, printMembers, print,
      jstr_aws, jstr_CWM, jstr_Timestamp, jstr_LGN, Function.comp_def, List.append_assoc, pm]

end EmfRefine
