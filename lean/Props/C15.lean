import Model.Wrappers
/-!
# C15 — entry and value wrappers are transparent apart from their documented additions

`Model/Wrappers.lean` transcribes every wrapper's `impl Entry` / `impl Value` operationally (writer
transformers, the double-dispatch bridge of `BoxEntry`, `Option::take`, `SmallVec` collects, deny list,
flag merge, the empty-dimension shortcut of `MergeGlobalDimensions`).  Here that operational model is
proved equal to the specification — plain list functions on call logs — for **every** entry, **every**
(lawful) writer and **every** composition of wrappers, with no bound on sizes or nesting depth.

A writer is *lawful* when it uses a value only through `Value::write` (Rust's type system enforces this:
an `impl EntryWriter` receives `&impl Value`, about which it knows nothing else).
-/
namespace Wrappers

/-! ## Values -/

@[simp] theorem collect_eq {α : Type} (l : List α) : collect l = l := by
  unfold collect
  have h : ∀ (acc : List α), l.foldl (fun sv x => sv ++ [x]) acc = acc ++ l := by
    induction l with
    | nil => intro acc; simp
    | cons x xs ih => intro acc; simp [ih]
  simpa using h []

@[simp] theorem apply_recVW (c : VCall) : VCall.apply recVW c = c := by
  cases c <;> rfl

theorem map_apply_recVW (c : Option VCall) : c.map (VCall.apply recVW) = c := by
  cases c <;> simp

theorem apply_dimsVW {ρ : Type} (d : Dims) (w : VWriter ρ) (c : VCall) :
    VCall.apply (dimsVW d w) c = VCall.apply w (c.addDims d) := by
  cases c <;> rfl

theorem apply_globalDimsVW {ρ : Type} (d : Dims) (w : VWriter ρ) (c : VCall) :
    VCall.apply (globalDimsVW d w) c = VCall.apply w (c.addDims d) := by
  cases c <;> rfl

/-- `MetricFlags::try_merge` + `EmfOptions::try_merge` compute the join of `none < high < noMetric`. -/
theorem tryMerge_eq_join (a b : Flags) : tryMerge a b = joinFlags a b := by
  cases a with
  | none => cases b with
    | none => rfl
    | some y => cases y <;> rfl
  | some x => cases b with
    | none => cases x <;> rfl
    | some y => cases x <;> cases y <;> rfl

/-- "Flags merged": `try_merge` is the join of the chain `none < HighStorageResolution < NoMetric` —
commutative, associative, idempotent, with `none` neutral — so the order and number of `ForceFlag`
layers never matters and a forced flag never weakens a value's own flag. -/
theorem c15_try_merge_is_join (a b c : Flags) :
    tryMerge a b = joinFlags a b ∧ tryMerge a b = tryMerge b a ∧
    tryMerge (tryMerge a b) c = tryMerge a (tryMerge b c) ∧ tryMerge a a = a ∧
    tryMerge a none = a ∧ tryMerge none a = a := by
  refine ⟨tryMerge_eq_join a b, ?_, ?_, ?_, ?_, ?_⟩ <;>
  · rcases a with _ | a <;> rcases b with _ | b <;> rcases c with _ | c <;>
      (try cases a) <;> (try cases b) <;> (try cases c) <;> rfl

theorem apply_flagVW {ρ : Type} (f : Flags) (w : VWriter ρ) (c : VCall) :
    VCall.apply (flagVW f w) c = VCall.apply w (c.forceFlag f) := by
  cases c with
  | metric m => simp [VCall.apply, flagVW, VCall.forceFlag, tryMerge_eq_join]
  | string s => rfl
  | error e => rfl

/-- Through the `ValueWriterFromDyn` → `ValueWriterToDyn` bridge a call reaches the real writer
unchanged, empties the slot and does not panic. -/
theorem apply_bridge {ρ : Type} (w : VWriter ρ) (c : VCall) :
    VCall.apply (fromDynVW toDynVW ({ slot := some w, out := none, panicked := false } : ToDyn ρ)) c
      = { slot := none, out := some (VCall.apply w c), panicked := false } := by
  cases c <;> simp [VCall.apply, fromDynVW, toDynVW]

theorem format_nat {ρ : Type} (fmt : Fmt) (v : Val) (w : VWriter ρ) :
    Val.format fmt v w = (Val.format fmt v recVW).map (VCall.apply w) := by
  induction v with
  | leaf c =>
    cases fmt with
    | id => simp [Val.format, Fmt.apply, map_apply_recVW]
    | count => simp [Val.format, Fmt.apply, VCall.apply, recVW]
  | ref v ih => simpa [Val.format] using ih
  | box v ih => simpa [Val.format] using ih
  | arc v ih => simpa [Val.format] using ih
  | cow v ih => simpa [Val.format] using ih
  | optSome v ih => simpa [Val.format] using ih
  | optNone => simp [Val.format]
  | withDims v d _ => simp [Val.format]
  | globalDims v d _ => simp [Val.format]
  | forceFlag v f _ => simp [Val.format]
  | dyn v _ => simp [Val.format]
  | formatted f v _ => simp [Val.format]

theorem format_spec (fmt : Fmt) (v : Val) : Val.format fmt v recVW = v.plain.bind (Fmt.spec fmt) := by
  induction v with
  | leaf c =>
    cases fmt with
    | id => simp [Val.format, Fmt.apply, Val.plain, Fmt.spec, map_apply_recVW]
    | count =>
      cases c with
      | none => simp [Val.format, Fmt.apply, Val.plain, Fmt.spec, recVW]
      | some c => cases c <;> simp [Val.format, Fmt.apply, Val.plain, Fmt.spec, recVW]
  | ref v ih => simpa [Val.format, Val.plain] using ih
  | box v ih => simpa [Val.format, Val.plain] using ih
  | arc v ih => simpa [Val.format, Val.plain] using ih
  | cow v ih => simpa [Val.format, Val.plain] using ih
  | optSome v ih => simpa [Val.format, Val.plain] using ih
  | optNone => simp [Val.format, Val.plain]
  | withDims v d _ => simp [Val.format, Val.plain]
  | globalDims v d _ => simp [Val.format, Val.plain]
  | forceFlag v f _ => simp [Val.format, Val.plain]
  | dyn v _ => simp [Val.format, Val.plain]
  | formatted f v _ => simp [Val.format, Val.plain]

/-- **Naturality of values.** Whatever the wrappers around a value, writing it to *any* writer is the
same as performing, on that writer, the one call a recording writer sees (or none). -/
theorem write_nat (v : Val) : ∀ {ρ : Type} (w : VWriter ρ), v.write w = v.sem.map (VCall.apply w) := by
  induction v with
  | leaf c => intro ρ w; simp [Val.sem, Val.write, map_apply_recVW]
  | ref v ih => intro ρ w; simpa [Val.sem, Val.write] using ih w
  | box v ih => intro ρ w; simpa [Val.sem, Val.write] using ih w
  | arc v ih => intro ρ w; simpa [Val.sem, Val.write] using ih w
  | cow v ih => intro ρ w; simpa [Val.sem, Val.write] using ih w
  | optSome v ih => intro ρ w; simpa [Val.sem, Val.write] using ih w
  | optNone => intro ρ w; simp [Val.sem, Val.write]
  | withDims v d ih =>
    intro ρ w
    simp only [Val.sem, Val.write]
    rw [ih (dimsVW d w), ih (dimsVW d recVW)]
    cases v.sem <;> simp [apply_dimsVW]
  | globalDims v d ih =>
    intro ρ w
    simp only [Val.sem, Val.write]
    rw [ih (globalDimsVW d w), ih (globalDimsVW d recVW)]
    cases v.sem <;> simp [apply_globalDimsVW]
  | forceFlag v f ih =>
    intro ρ w
    simp only [Val.sem, Val.write]
    rw [ih (flagVW f w), ih (flagVW f recVW)]
    cases v.sem <;> simp [apply_flagVW]
  | dyn v ih =>
    intro ρ w
    simp only [Val.sem, Val.write]
    rw [ih (fromDynVW toDynVW _), ih (fromDynVW toDynVW _)]
    cases v.sem <;> simp [apply_bridge]
  | formatted fmt v _ =>
    intro ρ w
    simp only [Val.sem, Val.write]
    exact format_nat fmt v w

/-- What a recording writer sees of a wrapped value is given by the list-function specification. -/
theorem sem_eq_spec (v : Val) : v.sem = v.spec := by
  induction v with
  | leaf c => simp [Val.sem, Val.write, Val.spec, map_apply_recVW]
  | ref v ih => simpa [Val.sem, Val.write, Val.spec] using ih
  | box v ih => simpa [Val.sem, Val.write, Val.spec] using ih
  | arc v ih => simpa [Val.sem, Val.write, Val.spec] using ih
  | cow v ih => simpa [Val.sem, Val.write, Val.spec] using ih
  | optSome v ih => simpa [Val.sem, Val.write, Val.spec] using ih
  | optNone => simp [Val.sem, Val.write, Val.spec]
  | withDims v d ih =>
    simp only [Val.sem, Val.write, Val.spec]
    rw [write_nat v (dimsVW d recVW), ← ih]
    cases v.sem <;> simp [apply_dimsVW]
  | globalDims v d ih =>
    simp only [Val.sem, Val.write, Val.spec]
    rw [write_nat v (globalDimsVW d recVW), ← ih]
    cases v.sem <;> simp [apply_globalDimsVW]
  | forceFlag v f ih =>
    simp only [Val.sem, Val.write, Val.spec]
    rw [write_nat v (flagVW f recVW), ← ih]
    cases v.sem <;> simp [apply_flagVW]
  | dyn v ih =>
    simp only [Val.sem, Val.write, Val.spec]
    rw [write_nat v (fromDynVW toDynVW _), ← ih]
    cases v.sem <;> simp [apply_bridge]
  | formatted fmt v _ =>
    simp only [Val.sem, Val.write, Val.spec]
    exact format_spec fmt v

/-- **C15 (values), full strength.** For every value, however wrapped, and every `ValueWriter`: the
writer receives exactly the call given by the specification `Val.spec` (containers and the dyn bridge:
identity; `Option::None`: nothing; `WithDimensions`: dimensions appended after the existing ones;
`ForceFlag`: flags joined; `FormattedValue`: the formatter applied to the plain value under the
containers) — or no call at all. -/
theorem c15_value_transparent (v : Val) {ρ : Type} (w : VWriter ρ) :
    v.write w = v.spec.map (VCall.apply w) := by
  rw [write_nat v w, sem_eq_spec]

/-- The `take().unwrap()` of `ValueWriterToDyn` never hits `None`: no value, however wrapped, makes
the bridge panic. -/
theorem c15_dyn_never_panics (v : Val) : v.dynPanics = false := by
  show ((v.write (fromDynVW toDynVW _)).getD _).panicked = false
  rw [write_nat v (fromDynVW toDynVW _)]
  cases v.sem <;> simp [apply_bridge]

/-- Per-value dimensions go AFTER the existing ones; strings, errors and empty values are untouched. -/
theorem c15_value_dims_after_existing (v : Val) (d : Dims) :
    (Val.withDims v d).sem = v.sem.map (VCall.addDims d) := by
  rw [sem_eq_spec, sem_eq_spec]; rfl

/-- Forced flags are merged (join of `none < HighStorageResolution < NoMetric`) with the value's own. -/
theorem c15_value_flags_merged (v : Val) (f : Flags) :
    (Val.forceFlag v f).sem = v.sem.map (VCall.forceFlag f) := by
  rw [sem_eq_spec, sem_eq_spec]; rfl

/-- `&`, `Box`, `Arc`, `Cow`, `Some` and the dyn bridge change nothing; `None` writes nothing. -/
theorem c15_value_containers_id (v : Val) :
    (Val.ref v).sem = v.sem ∧ (Val.box v).sem = v.sem ∧ (Val.arc v).sem = v.sem ∧
    (Val.cow v).sem = v.sem ∧ (Val.optSome v).sem = v.sem ∧ (Val.dyn v).sem = v.sem ∧
    Val.optNone.sem = none := by
  simp only [sem_eq_spec, Val.spec, and_self]

/-- A lifted formatter sees the plain value under any stack of containers, and nothing under a `None`. -/
theorem c15_formatted_lifted (fmt : Fmt) (v : Val) :
    (Val.formatted fmt v).sem = v.plain.bind (Fmt.spec fmt) := by
  rw [sem_eq_spec]; rfl

theorem applyAllV_append (ws : List VWrapper) (w : VWrapper) (v : Val) :
    applyAllV (ws ++ [w]) v = w.apply (applyAllV ws v) := by
  simp [applyAllV]

/-! ## Entries -/

/-- A writer that uses a value only through `Value::write`: values that make the same call are
interchangeable. -/
def EWriter.Lawful {σ : Type} (w : EWriter σ) : Prop :=
  ∀ s n v v', v.sem = v'.sem → w.value s n v = w.value s n v'

/-- Perform a recorded call log on a writer. -/
def replayCall {σ : Type} (w : EWriter σ) (s : σ) : Call → σ
  | .ts t => w.timestamp s t
  | .cfg c => w.config s c
  | .val n c => w.value s n (Val.leaf c)

def replay {σ : Type} (w : EWriter σ) (log : Log) (s : σ) : σ := log.foldl (replayCall w) s

@[simp] theorem replay_nil {σ : Type} (w : EWriter σ) (s : σ) : replay w [] s = s := rfl

theorem replay_append {σ : Type} (w : EWriter σ) (a b : Log) (s : σ) :
    replay w (a ++ b) s = replay w b (replay w a s) := by
  simp [replay, List.foldl_append]

@[simp] theorem leaf_sem (c : Option VCall) : (Val.leaf c).sem = c := by
  simp [Val.sem, Val.write, map_apply_recVW]

theorem recEW_lawful : recEW.Lawful := by
  intro s n v v' h; simp [recEW, h]

theorem replay_rec (log acc : Log) : replay recEW log acc = acc ++ log := by
  induction log generalizing acc with
  | nil => simp
  | cons c rest ih =>
    simp only [replay, List.foldl_cons] at ih ⊢
    rw [ih]
    cases c <;> simp [replayCall, recEW]

/-- The generic shape of every writer wrapper: forwards `timestamp`/`config`, maps the value. -/
def mapEW {σ : Type} (g : Str → Val → Val) (w : EWriter σ) : EWriter σ where
  timestamp s t := w.timestamp s t
  value s n v := w.value s n (g n v)
  config s c := w.config s c

/-- `g` acts on the call a value makes as `g'` does. -/
def Semantic (g : Str → Val → Val) (g' : Str → VCall → VCall) : Prop :=
  ∀ n v, (g n v).sem = v.sem.map (g' n)

theorem mapEW_lawful {σ : Type} {g : Str → Val → Val} {g' : Str → VCall → VCall}
    (hg : Semantic g g') {w : EWriter σ} (hw : w.Lawful) : (mapEW g w).Lawful := by
  intro s n v v' h
  apply hw
  rw [hg, hg, h]

theorem replay_mapEW {σ : Type} {g : Str → Val → Val} {g' : Str → VCall → VCall}
    (hg : Semantic g g') {w : EWriter σ} (hw : w.Lawful) (log : Log) (s : σ) :
    replay (mapEW g w) log s = replay w (log.map (Call.mapVal g')) s := by
  induction log generalizing s with
  | nil => rfl
  | cons c rest ih =>
    simp only [replay, List.foldl_cons, List.map_cons] at ih ⊢
    rw [ih]
    congr 1
    cases c with
    | ts t => rfl
    | cfg c => rfl
    | val n c =>
      simp only [replayCall, mapEW, Call.mapVal]
      apply hw
      rw [hg]; simp

theorem sem_boxed : Semantic (fun _ v => Val.dyn v) (fun _ c => c) := by
  intro n v; simp [sem_eq_spec, Val.spec]

theorem sem_dims (d : Dims) : Semantic (fun _ v => Val.withDims v d) (fun _ => VCall.addDims d) := by
  intro n v; simp [sem_eq_spec, Val.spec]

theorem sem_globalDims (d : Dims) (deny : List Str) :
    Semantic (fun n v => if deny.contains n then v else Val.globalDims v d)
      (fun n c => if n ∈ deny then c else VCall.addDims d c) := by
  intro n v
  by_cases h : n ∈ deny
  · simp [h]
  · simp [h, sem_eq_spec, Val.spec]

theorem sem_flag (f : Flags) :
    Semantic (fun _ v => Val.forceFlag (Val.ref v) f) (fun _ => VCall.forceFlag f) := by
  intro n v; simp [sem_eq_spec, Val.spec]

theorem boxedEW_eq {σ : Type} (w : EWriter σ) :
    fromDynEW (toDynEW (refMutEW w)) = mapEW (fun _ v => Val.dyn v) w := rfl
theorem dimsEW_eq {σ : Type} (d : Dims) (w : EWriter σ) :
    dimsEW d (refMutEW w) = mapEW (fun _ v => Val.withDims v d) w := rfl
theorem flagEW_eq {σ : Type} (f : Flags) (w : EWriter σ) :
    flagEW f w = mapEW (fun _ v => Val.forceFlag (Val.ref v) f) w := rfl
theorem globalDimsEW_eq {σ : Type} (d : Dims) (deny : List Str) (w : EWriter σ) :
    globalDimsEW d deny (refMutEW w)
      = mapEW (fun n v => if deny.contains n then v else Val.globalDims v d) w := by
  simp only [globalDimsEW, refMutEW, mapEW]
  congr 1
  funext s n v
  split <;> rfl

def Item.call : Item → Call
  | .timestamp t => .ts t
  | .config c => .cfg c
  | .value n v => .val n v.sem

theorem writeItems_replay {σ : Type} {w : EWriter σ} (hw : w.Lawful) (items : List Item) (s : σ) :
    items.foldl (writeItem w) s = replay w (items.map Item.call) s := by
  induction items generalizing s with
  | nil => rfl
  | cons it rest ih =>
    simp only [List.foldl_cons, List.map_cons, replay] at ih ⊢
    rw [ih]
    congr 1
    cases it with
    | timestamp t => rfl
    | config c => rfl
    | value n v =>
      simp only [writeItem, Item.call, replayCall]
      apply hw; simp

/-- The two facts proved together by induction on the entry: writing to any lawful writer replays the
entry's log, from any state. -/
theorem write_eq_replay (e : Ent) :
    ∀ {σ : Type} (w : EWriter σ), w.Lawful → ∀ s, e.write w s = replay w e.log s := by
  induction e with
  | base items sg =>
    intro σ w hw s
    have hl : (Ent.base items sg).log = items.map Item.call := by
      simp only [Ent.log, Ent.write]
      rw [writeItems_replay recEW_lawful, replay_rec]; simp
    rw [hl]; exact writeItems_replay hw items s
  | boxed e ih =>
    intro σ w hw s
    have hl : (Ent.boxed e).log = e.log.map (Call.mapVal fun _ c => c) := by
      simp only [Ent.log, Ent.write, boxedEW_eq]
      rw [ih _ (mapEW_lawful sem_boxed recEW_lawful), replay_mapEW sem_boxed recEW_lawful, replay_rec]
      simp [Ent.log]
    simp only [Ent.write, boxedEW_eq]
    rw [ih _ (mapEW_lawful sem_boxed hw), replay_mapEW sem_boxed hw, hl]
  | merged a b iha ihb =>
    intro σ w hw s
    have hl : (Ent.merged a b).log = a.log ++ b.log := by
      simp only [Ent.log, Ent.write]
      rw [ihb _ recEW_lawful, replay_rec]; rfl
    simp only [Ent.write]
    rw [hl, replay_append, iha w hw, ihb w hw]
  | mergedRef a b iha ihb =>
    intro σ w hw s
    have hl : (Ent.mergedRef a b).log = a.log ++ b.log := by
      simp only [Ent.log, Ent.write]
      rw [ihb _ recEW_lawful, replay_rec]; rfl
    simp only [Ent.write]
    rw [hl, replay_append, iha w hw, ihb w hw]
  | withDims e d ih =>
    intro σ w hw s
    have hl : (Ent.withDims e d).log = e.log.map (Call.mapVal fun _ => VCall.addDims d) := by
      simp only [Ent.log, Ent.write, dimsEW_eq]
      rw [ih _ (mapEW_lawful (sem_dims d) recEW_lawful), replay_mapEW (sem_dims d) recEW_lawful, replay_rec]
      simp [Ent.log]
    simp only [Ent.write, dimsEW_eq]
    rw [ih _ (mapEW_lawful (sem_dims d) hw), replay_mapEW (sem_dims d) hw, hl]
  | globalDims e d deny ih =>
    intro σ w hw s
    have hl : (Ent.globalDims e d deny).log
        = e.log.map (Call.mapVal fun n c => if n ∈ deny then c else VCall.addDims d c) := by
      simp only [Ent.log, Ent.write, globalDimsEW_eq]
      rw [ih _ (mapEW_lawful (sem_globalDims d deny) recEW_lawful),
        replay_mapEW (sem_globalDims d deny) recEW_lawful, replay_rec]
      simp [Ent.log]
    simp only [Ent.write, globalDimsEW_eq]
    rw [ih _ (mapEW_lawful (sem_globalDims d deny) hw), replay_mapEW (sem_globalDims d deny) hw, hl]
  | forceFlag e f ih =>
    intro σ w hw s
    have hl : (Ent.forceFlag e f).log = e.log.map (Call.mapVal fun _ => VCall.forceFlag f) := by
      simp only [Ent.log, Ent.write, flagEW_eq]
      rw [ih _ (mapEW_lawful (sem_flag f) recEW_lawful), replay_mapEW (sem_flag f) recEW_lawful, replay_rec]
      simp [Ent.log]
    simp only [Ent.write, flagEW_eq]
    rw [ih _ (mapEW_lawful (sem_flag f) hw), replay_mapEW (sem_flag f) hw, hl]
  | ref e ih => intro σ w hw s; simpa [Ent.write, Ent.log] using ih w hw s
  | box e ih => intro σ w hw s; simpa [Ent.write, Ent.log] using ih w hw s
  | arc e ih => intro σ w hw s; simpa [Ent.write, Ent.log] using ih w hw s
  | cow e ih => intro σ w hw s; simpa [Ent.write, Ent.log] using ih w hw s
  | optSome e ih => intro σ w hw s; simpa [Ent.write, Ent.log] using ih w hw s
  | optNone => intro σ w hw s; simp [Ent.write, Ent.log]
  | root e ih => intro σ w hw s; simpa [Ent.write, Ent.log] using ih w hw s

theorem mapVal_id (l : Log) : l.map (Call.mapVal fun _ c => c) = l := by
  induction l with
  | nil => rfl
  | cons c rest ih =>
    simp only [List.map_cons, ih]
    cases c with
    | val n c => cases c <;> simp [Call.mapVal]
    | ts t => rfl
    | cfg c => rfl

/-! ### One theorem per wrapper -/

/-- `BoxEntry`: the double-dispatch bridge (entry writer to dyn and back, value to dyn and back, the
`SmallVec` collects, config forwarding) is the identity on the call log and on the sample group. The sample group is collected from the inner group as a list, whatever the inner iterator's size hint. -/
theorem c15_boxed_id (e : Ent) :
    (Ent.boxed e).log = e.log ∧ (Ent.boxed e).sampleGroup = e.sampleGroup := by
  refine ⟨?_, by simp [Ent.sampleGroup]⟩
  simp only [Ent.log, Ent.write, boxedEW_eq]
  rw [write_eq_replay e _ (mapEW_lawful sem_boxed recEW_lawful), replay_mapEW sem_boxed recEW_lawful,
    replay_rec, mapVal_id]
  simp [Ent.log]

/-- `Merged` / `MergedRef`: first entry's calls, then the second's; sample groups chained the same way. -/
theorem c15_merged_append (a b : Ent) :
    (Ent.merged a b).log = a.log ++ b.log ∧ (Ent.mergedRef a b).log = a.log ++ b.log ∧
    (Ent.merged a b).sampleGroup = a.sampleGroup ++ b.sampleGroup ∧
    (Ent.mergedRef a b).sampleGroup = a.sampleGroup ++ b.sampleGroup := by
  refine ⟨?_, ?_, rfl, rfl⟩ <;>
  · simp only [Ent.log, Ent.write]
    rw [write_eq_replay b _ recEW_lawful, replay_rec]; rfl

/-- `WithDimensions<E, N>` as an entry: every metric gets the extra dimensions AFTER its existing
ones; timestamps, configs, names, strings, errors, empty values and the sample group are untouched. -/
theorem c15_dims_after_existing (e : Ent) (d : Dims) :
    (Ent.withDims e d).log = e.log.map (Call.mapVal fun _ => VCall.addDims d) ∧
    (Ent.withDims e d).sampleGroup = e.sampleGroup := by
  refine ⟨?_, rfl⟩
  simp only [Ent.log, Ent.write, dimsEW_eq]
  rw [write_eq_replay e _ (mapEW_lawful (sem_dims d) recEW_lawful),
    replay_mapEW (sem_dims d) recEW_lawful, replay_rec]
  simp [Ent.log]

/-- `WithGlobalDimensions<E, N>`: as above except for values whose NAME is on the deny list, which
pass through unchanged (the deny list is never applied to dimension keys or values). -/
theorem c15_global_dims_deny (e : Ent) (d : Dims) (deny : List Str) :
    (Ent.globalDims e d deny).log
      = e.log.map (Call.mapVal fun n c => if n ∈ deny then c else VCall.addDims d c) ∧
    (Ent.globalDims e d deny).sampleGroup = e.sampleGroup := by
  refine ⟨?_, rfl⟩
  simp only [Ent.log, Ent.write, globalDimsEW_eq]
  rw [write_eq_replay e _ (mapEW_lawful (sem_globalDims d deny) recEW_lawful),
    replay_mapEW (sem_globalDims d deny) recEW_lawful, replay_rec]
  simp [Ent.log]

/-- `ForceFlag<E, FLAGS>` as an entry: every metric's flags are joined with the forced flag. -/
theorem c15_flags_merged (e : Ent) (f : Flags) :
    (Ent.forceFlag e f).log = e.log.map (Call.mapVal fun _ => VCall.forceFlag f) ∧
    (Ent.forceFlag e f).sampleGroup = e.sampleGroup := by
  refine ⟨?_, rfl⟩
  simp only [Ent.log, Ent.write, flagEW_eq]
  rw [write_eq_replay e _ (mapEW_lawful (sem_flag f) recEW_lawful),
    replay_mapEW (sem_flag f) recEW_lawful, replay_rec]
  simp [Ent.log]

/-- `&E`, `Box<E>`, `Arc<E>`, `Cow<E>`, `Some(e)` and `RootEntry` are the identity on log and sample
group; `None::<E>` writes nothing and has the empty sample group. -/
theorem c15_containers_id (e : Ent) :
    ((Ent.ref e).log = e.log ∧ (Ent.box e).log = e.log ∧ (Ent.arc e).log = e.log ∧
     (Ent.cow e).log = e.log ∧ (Ent.optSome e).log = e.log ∧ (Ent.root e).log = e.log ∧
     Ent.optNone.log = []) ∧
    ((Ent.ref e).sampleGroup = e.sampleGroup ∧ (Ent.box e).sampleGroup = e.sampleGroup ∧
     (Ent.arc e).sampleGroup = e.sampleGroup ∧ (Ent.cow e).sampleGroup = e.sampleGroup ∧
     (Ent.optSome e).sampleGroup = e.sampleGroup ∧ (Ent.root e).sampleGroup = e.sampleGroup ∧
     Ent.optNone.sampleGroup = []) := by
  simp [Ent.log, Ent.write, Ent.sampleGroup]

/-- Each wrapper, as an operation on entries, acts on the call log as its list-function specification. -/
theorem wrapper_log (w : Wrapper) (e : Ent) : (w.apply e).log = w.specLog e.log := by
  cases w with
  | boxed => exact (c15_boxed_id e).1
  | mergeAfter o => exact (c15_merged_append e o).1
  | mergeBefore o => exact (c15_merged_append o e).1
  | mergeRefAfter o => exact (c15_merged_append e o).2.1
  | mergeRefBefore o => exact (c15_merged_append o e).2.1
  | withDims d => exact (c15_dims_after_existing e d).1
  | globalDims d deny => exact (c15_global_dims_deny e d deny).1
  | forceFlag f => exact (c15_flags_merged e f).1
  | ref => rfl
  | box => rfl
  | arc => rfl
  | cow => rfl
  | optSome => rfl
  | optNone => rfl
  | root => rfl
  | streamMergeGlobals g => exact (c15_merged_append g e).2.1
  | streamGlobalDims d deny =>
    simp only [Wrapper.apply, Wrapper.specLog]
    split
    · -- the empty-dimension shortcut agrees with the general path
      rename_i hd
      have hd' : d = [] := by simpa using hd
      subst hd'
      have : (fun (n : Str) (c : VCall) => if n ∈ deny then c else VCall.addDims [] c) = fun _ c => c := by
        funext n c
        cases c <;> simp [VCall.addDims]
      rw [this, mapVal_id]; rfl
    · exact (c15_global_dims_deny (Ent.ref e) d deny).1
  | streamForceFlag f => exact (c15_flags_merged (Ent.ref e) f).1

theorem wrapper_sg (w : Wrapper) (e : Ent) : (w.apply e).sampleGroup = w.specSG e.sampleGroup := by
  cases w with
  | boxed => simp [Wrapper.apply, Wrapper.specSG, Ent.sampleGroup]
  | streamGlobalDims d deny => simp only [Wrapper.apply, Wrapper.specSG]; split <;> rfl
  | _ => rfl

/-- The stream adapters: `MergeGlobals` puts the global fields FIRST; `MergeGlobalDimensions` (with or
without its empty-dimension shortcut) appends the global dimensions except on deny-listed names;
a `ForceFlag` stream joins flags. All three preserve the entry's sample group (globals' first). -/
theorem c15_stream_adapters (e g : Ent) (d : Dims) (deny : List Str) (f : Flags) :
    ((Wrapper.streamMergeGlobals g).apply e).log = g.log ++ e.log ∧
    ((Wrapper.streamGlobalDims d deny).apply e).log
      = e.log.map (Call.mapVal fun n c => if n ∈ deny then c else VCall.addDims d c) ∧
    ((Wrapper.streamGlobalDims [] deny).apply e).log = e.log ∧
    ((Wrapper.streamForceFlag f).apply e).log = e.log.map (Call.mapVal fun _ => VCall.forceFlag f) ∧
    ((Wrapper.streamMergeGlobals g).apply e).sampleGroup = g.sampleGroup ++ e.sampleGroup ∧
    ((Wrapper.streamGlobalDims d deny).apply e).sampleGroup = e.sampleGroup ∧
    ((Wrapper.streamForceFlag f).apply e).sampleGroup = e.sampleGroup := by
  refine ⟨wrapper_log _ e, wrapper_log _ e, rfl, wrapper_log _ e, wrapper_sg _ e, wrapper_sg _ e, wrapper_sg _ e⟩

/-! ### Composition -/

theorem applyAll_log (ws : List Wrapper) (e : Ent) : (applyAll ws e).log = specLogAll ws e.log := by
  induction ws generalizing e with
  | nil => rfl
  | cons w rest ih =>
    simp only [applyAll, specLogAll, List.foldl_cons] at ih ⊢
    rw [ih, wrapper_log]

/-- **C15, full strength.** For every plain or already wrapped entry `e`, every list of wrappers `ws`
(any kinds, any order, any depth), every lawful writer `w` and every writer state `s`: writing the
wrapped entry to `w` performs on `w` exactly the call sequence obtained from the entry's own call log
by the wrappers' list-function specifications, in order. -/
theorem c15_compose (ws : List Wrapper) (e : Ent) {σ : Type} (w : EWriter σ) (hw : w.Lawful) (s : σ) :
    (applyAll ws e).write w s = replay w (specLogAll ws e.log) s := by
  rw [write_eq_replay _ w hw, applyAll_log]

/-- The recording writer's view of `c15_compose`: the call log of the composition is the composition
of the specifications applied to the plain entry's call log. -/
theorem c15_compose_log (ws : List Wrapper) (e : Ent) : (applyAll ws e).log = specLogAll ws e.log :=
  applyAll_log ws e

/-- Sample groups are preserved in the same way, for every composition.

The sample group of a wrapper is a function of the inner group **as a list** (`Ent.sampleGroup : Ent →
Dims`): the `size_hint()` of the Rust iterator that produces the inner group is deliberately NOT an
input of the model, so transparency holds however lazily the inner entry builds its group (`filter`,
`flatten`, `from_fn`, the per-variant iterator enum of `#[metrics] enum`, …).  An implementation that
looks at the size hint is a different function; `c15_size_hint_variant_not_transparent` below shows that the
obvious one (skip the collect when the lower bound is 0) violates this theorem. -/
theorem c15_compose_sample_group (ws : List Wrapper) (e : Ent) :
    (applyAll ws e).sampleGroup = specSGAll ws e.sampleGroup := by
  induction ws generalizing e with
  | nil => rfl
  | cons w rest ih =>
    simp only [applyAll, specSGAll, List.foldl_cons] at ih ⊢
    rw [ih, wrapper_sg]

/-- Value wrappers compose the same way: the call made by a value under any stack of value wrappers,
on any writer, is given by `Val.spec` of the stack (itself a composition of list functions). -/
theorem c15_value_compose (ws : List VWrapper) (v : Val) {ρ : Type} (w : VWriter ρ) :
    (applyAllV ws v).write w = (applyAllV ws v).spec.map (VCall.apply w) :=
  c15_value_transparent _ w

/-! ### What the specifications never touch -/

/-- the part of a call no dimension / flag / container wrapper may alter -/
def Call.skeleton : Call → Call
  | .val n (some (.metric m)) => .val n (some (.metric { m with dims := [], flags := none }))
  | c => c

def Wrapper.isTransformer : Wrapper → Bool
  | .mergeAfter _ | .mergeBefore _ | .mergeRefAfter _ | .mergeRefBefore _ | .streamMergeGlobals _ | .optNone => false
  | _ => true

theorem skeleton_mapVal (g : Str → VCall → VCall)
    (hg : ∀ n c, Call.skeleton (.val n (some (g n c))) = Call.skeleton (.val n (some c))) (l : Log) :
    (l.map (Call.mapVal g)).map Call.skeleton = l.map Call.skeleton := by
  induction l with
  | nil => rfl
  | cons c rest ih =>
    simp only [List.map_cons, ih]
    congr 1
    cases c with
    | ts t => rfl
    | cfg c => rfl
    | val n c =>
      cases c with
      | none => rfl
      | some c => exact hg n c

theorem skeleton_addDims (d : Dims) (n : Str) (c : VCall) :
    Call.skeleton (.val n (some (c.addDims d))) = Call.skeleton (.val n (some c)) := by
  cases c <;> rfl

theorem skeleton_forceFlag (f : Flags) (n : Str) (c : VCall) :
    Call.skeleton (.val n (some (c.forceFlag f))) = Call.skeleton (.val n (some c)) := by
  cases c <;> rfl

/-- Every wrapper other than a merge or `None` keeps the number and order of calls, every timestamp,
config and name, every string, error and empty value, and every metric's observations (bit for bit)
and unit; only dimensions and flags of metrics may differ. -/
theorem c15_transformers_keep_skeleton (w : Wrapper) (h : w.isTransformer = true) (l : Log) :
    (w.specLog l).map Call.skeleton = l.map Call.skeleton := by
  cases w with
  | mergeAfter o => simp [Wrapper.isTransformer] at h
  | mergeBefore o => simp [Wrapper.isTransformer] at h
  | mergeRefAfter o => simp [Wrapper.isTransformer] at h
  | mergeRefBefore o => simp [Wrapper.isTransformer] at h
  | streamMergeGlobals g => simp [Wrapper.isTransformer] at h
  | optNone => simp [Wrapper.isTransformer] at h
  | withDims d => exact skeleton_mapVal _ (fun n c => skeleton_addDims d n c) l
  | globalDims d deny =>
    refine skeleton_mapVal _ (fun n c => ?_) l
    split
    · rfl
    · exact skeleton_addDims d n c
  | streamGlobalDims d deny =>
    refine skeleton_mapVal _ (fun n c => ?_) l
    split
    · rfl
    · exact skeleton_addDims d n c
  | forceFlag f => exact skeleton_mapVal _ (fun n c => skeleton_forceFlag f n c) l
  | streamForceFlag f => exact skeleton_mapVal _ (fun n c => skeleton_forceFlag f n c) l
  | boxed => rfl
  | ref => rfl
  | box => rfl
  | arc => rfl
  | cow => rfl
  | optSome => rfl
  | root => rfl

/-! ### Non-vacuity -/

/-- A concrete entry: timestamp, config, a metric with a two-observation distribution, its own
dimension and the high-resolution flag, a string, an error value, an empty value; sample group of one
pair.  Under `WithDimensions`, `BoxEntry`, `ForceFlag(NoMetric)`, `WithGlobalDimensions` (deny list
naming the metric) and `MergeGlobals`, the log is as documented. -/
def exEntry : Ent :=
  .base [.timestamp 5, .config [83],
         .value [65] (.leaf (some (.metric ⟨[.u 1, .f 4607182418800017408], [110], [([107], [118])], some .high⟩))),
         .value [66] (.leaf (some (.string [97]))),
         .value [67] (.leaf (some (.error [98]))),
         .value [68] (.leaf none)]
        [([111], [112])]

def exGlobals : Ent := .base [.value [90] (.leaf (some (.string [122])))] [([113], [114])]

example :
    (applyAll [.withDims [([97], [98])], .boxed, .forceFlag (some .noMetric), .globalDims [([99], [100])] [[65]],
               .streamMergeGlobals exGlobals] exEntry).log
      = [.val [90] (some (.string [122])), .ts 5, .cfg [83],
         .val [65] (some (.metric ⟨[.u 1, .f 4607182418800017408], [110], [([107], [118]), ([97], [98])], some .noMetric⟩)),
         .val [66] (some (.string [97])), .val [67] (some (.error [98])), .val [68] none] ∧
    (applyAll [.withDims [([97], [98])], .boxed, .forceFlag (some .noMetric), .globalDims [([99], [100])] [[65]],
               .streamMergeGlobals exGlobals] exEntry).sampleGroup
      = [([113], [114]), ([111], [112])] := by
  decide

/-- an empty forced flag keeps `NoMetric`; a real one below an empty one still applies -/
example :
    (applyAllV [.forceFlag (some .noMetric), .forceFlag none, .forceFlag (some .high), .forceFlag none]
      (.leaf (some (.metric ⟨[.u 7], [110], [], none⟩)))).sem
      = some (.metric ⟨[.u 7], [110], [], some .noMetric⟩) := by
  decide

/-- `recEW` is a lawful writer, so `c15_compose` is not vacuous; and a value under
`Some(Arc(ForceFlag(WithDimensions(·))))` through the dyn bridge makes the documented call. -/
example : recEW.Lawful := recEW_lawful

example :
    (applyAllV [.withDims [([97], [98])], .forceFlag (some .high), .arc, .optSome, .dyn]
      (.leaf (some (.metric ⟨[.u 7], [110], [([107], [118])], none⟩)))).sem
      = some (.metric ⟨[.u 7], [110], [([107], [118]), ([97], [98])], some .high⟩) := by
  decide

theorem forceFlag_none (c : VCall) : VCall.forceFlag none c = c := by
  cases c with
  | metric m =>
    rcases m with ⟨o, u, d, fl⟩
    rcases fl with _ | fl
    · rfl
    · cases fl <;> rfl
  | string s => rfl
  | error e => rfl

/-- A `ForceFlag` whose `FlagConstructor` yields `MetricFlags::empty()` (a switched-off flag) is
transparent at value, entry and stream level: whatever flags the wrapped thing already carries —
none, `HighStorageResolution`, `NoMetric` — survive unchanged. -/
theorem c15_force_empty_flags_id (v : Val) (e : Ent) :
    (Val.forceFlag v none).sem = v.sem ∧ (Ent.forceFlag e none).log = e.log ∧
    ((Wrapper.streamForceFlag none).apply e).log = e.log := by
  have hfun : (fun (_ : Str) => VCall.forceFlag none) = fun _ c => c := by
    funext n c; exact forceFlag_none c
  refine ⟨?_, ?_, ?_⟩
  · rw [c15_value_flags_merged]; cases v.sem <;> simp [forceFlag_none]
  · rw [(c15_flags_merged e none).1, hfun, mapVal_id]
  · rw [wrapper_log]; simp only [Wrapper.specLog]; rw [hfun, mapVal_id]

/-! ### The size hint is not an input -/

/-- A variant of `DynEntry::sample_group` that takes the iterator's `size_hint()` lower bound as an extra
input and returns the empty group when it is 0 ("most entries keep the default group"). -/
def boxedSampleGroupWithHint (lowerBound : Nat) (inner : Dims) : Dims :=
  if lowerBound = 0 then [] else collect inner

/-- Witness: for a one-pair group produced by a lazy iterator (lower bound 0) the variant differs from
what `c15_boxed_id` / `c15_compose_sample_group` require of `BoxEntry` — it is not transparent;
with an exact hint it agrees, which is why exact-size test entries cannot see it. -/
theorem c15_size_hint_variant_not_transparent :
    boxedSampleGroupWithHint 0 [([111], [112])] ≠ (Ent.boxed (.base [] [([111], [112])])).sampleGroup ∧
    boxedSampleGroupWithHint 1 [([111], [112])] = (Ent.boxed (.base [] [([111], [112])])).sampleGroup := by
  decide

/-! ### Long-lived adapters are history independent -/

theorem applyAll_cons (w : Wrapper) (ws : List Wrapper) (e : Ent) :
    applyAll (w :: ws) e = applyAll ws (w.apply e) := rfl

theorem stackNext_eq (as : List Adapter) (r : RecStream) (e : Ent) :
    stackNext as r e
      = (as, (r.next (applyAll (as.map Adapter.toWrapper) e)).1,
             (r.next (applyAll (as.map Adapter.toWrapper) e)).2) := by
  induction as generalizing e with
  | nil => rfl
  | cons a rest ih =>
    rw [List.map_cons, applyAll_cons]
    cases a with
    | mergeGlobals g => simp only [stackNext, Adapter.call, ih]; rfl
    | globalDims d deny =>
      by_cases h : d.isEmpty = true
      · simp only [stackNext, Adapter.call, h, if_true, ih, Adapter.toWrapper, Wrapper.apply]
      · simp only [stackNext, Adapter.call, h, ih, Adapter.toWrapper, Wrapper.apply]
        rfl
    | forceFlag f => simp only [stackNext, Adapter.call, ih]; rfl

/-- what the stateless specification says the recording stream sees of entry `e` under adapters `as` -/
def adapterSpec (as : List Adapter) (e : Ent) : Log × Dims :=
  (specLogAll (as.map Adapter.toWrapper) e.log, specSGAll (as.map Adapter.toWrapper) e.sampleGroup)

theorem runSeq_eq (as : List Adapter) (r : RecStream) (es : List Ent) :
    runSeq as r es
      = (as, { seen := r.seen ++ es.map (adapterSpec as), script := r.script.drop es.length },
         scriptResults es.length r.script) := by
  induction es generalizing r with
  | nil => simp [runSeq, scriptResults]
  | cons e es ih =>
    simp only [runSeq, stackNext_eq, ih, RecStream.next, List.map_cons, List.length_cons, scriptResults,
      adapterSpec, c15_compose_log, c15_compose_sample_group]
    simp [List.append_assoc]

/-- **C15 for long-lived adapters (history independence).** For every stack of stream / format
adapters (`MergeGlobals`, `MergeGlobalDimensions` incl. its empty-dimension shortcut, `ForceFlag`
stream, nested in any order), every sequence of entries pushed through the SAME instance and every
script of results (`Ok` / `Validation` / `Io`) of the stream below: the adapters' fields are unchanged
at the end, the `i`-th entry reaches the stream below exactly as the stateless specification says —
independently of every earlier entry and of every earlier result — and the results are passed up
unchanged. -/
theorem c15_adapters_history_independent (as : List Adapter) (script : List IoRes) (es : List Ent) :
    (runSeq as ⟨[], script⟩ es).1 = as ∧
    (runSeq as ⟨[], script⟩ es).2.1.seen = es.map (adapterSpec as) ∧
    (∀ i : Nat, (runSeq as ⟨[], script⟩ es).2.1.seen[i]? = es[i]?.map (adapterSpec as)) ∧
    (runSeq as ⟨[], script⟩ es).2.2 = scriptResults es.length script := by
  rw [runSeq_eq]
  refine ⟨rfl, by simp, fun i => by simp, rfl⟩

/-- Non-vacuity: `MergeGlobalDimensions` (outermost) over `MergeGlobals`; the first entry is rejected
with a validation error, the second with an io error; the third still gets globals and dimensions. -/
example :
    let m : VCall := .metric ⟨[.u 1], [110], [], none⟩
    let e : Ent := .base [.value [65] (.leaf (some m))] []
    (runSeq [.globalDims [([99], [100])] [], .mergeGlobals exGlobals] ⟨[], [.validation, .io]⟩ [e, e, e]).2.1.seen[2]?
      = some ([.val [90] (some (.string [122])),
               .val [65] (some (.metric ⟨[.u 1], [110], [([99], [100])], none⟩))], [([113], [114])]) ∧
    (runSeq [.globalDims [([99], [100])] [], .mergeGlobals exGlobals] ⟨[], [.validation, .io]⟩ [e, e, e]).2.2
      = [.validation, .io, .ok] := by
  decide

end Wrappers

#print axioms Wrappers.c15_value_transparent
#print axioms Wrappers.c15_dyn_never_panics
#print axioms Wrappers.c15_try_merge_is_join
#print axioms Wrappers.c15_value_dims_after_existing
#print axioms Wrappers.c15_value_flags_merged
#print axioms Wrappers.c15_value_containers_id
#print axioms Wrappers.c15_formatted_lifted
#print axioms Wrappers.c15_boxed_id
#print axioms Wrappers.c15_merged_append
#print axioms Wrappers.c15_dims_after_existing
#print axioms Wrappers.c15_global_dims_deny
#print axioms Wrappers.c15_flags_merged
#print axioms Wrappers.c15_containers_id
#print axioms Wrappers.c15_stream_adapters
#print axioms Wrappers.c15_compose
#print axioms Wrappers.c15_compose_log
#print axioms Wrappers.c15_compose_sample_group
#print axioms Wrappers.c15_value_compose
#print axioms Wrappers.c15_transformers_keep_skeleton
#print axioms Wrappers.c15_adapters_history_independent
#print axioms Wrappers.c15_force_empty_flags_id
#print axioms Wrappers.c15_size_hint_variant_not_transparent
