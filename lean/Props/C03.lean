import Model.EmfSpec
/-!
# C03 — EMF records carry exactly the entry's values, units, counts, dimensions and time

Theorems about `EmfSpec.emit` (the records of an accepted entry; `records` returns exactly `emit`
when validation reports nothing), for every configuration, float instance, multiplicity and entry.
-/
namespace EmfSpec

variable {F : Type}

/-! ### helper lemmas -/

theorem dedup_mem {α : Type} [DecidableEq α] (l : List α) (a : α) : a ∈ dedup l ↔ a ∈ l := by
  induction l with
  | nil => simp [dedup]
  | cons x xs ih =>
    simp only [dedup, List.mem_cons, List.mem_filter, ih]
    by_cases h : a = x <;> simp [h]

theorem dedup_nodup {α : Type} [DecidableEq α] (l : List α) : (dedup l).Nodup := by
  induction l with
  | nil => simp [dedup]
  | cons x xs ih =>
    simp only [dedup, List.nodup_cons, List.mem_filter]
    exact ⟨by simp, ih.filter _⟩

theorem flatMap_congr' {α β : Type} (l : List α) (f g : α → List β) (h : ∀ a ∈ l, f a = g a) :
    l.flatMap f = l.flatMap g := by
  induction l with
  | nil => rfl
  | cons a l ih =>
    simp only [List.flatMap_cons]
    rw [h a (List.mem_cons_self ..), ih (fun b hb => h b (List.mem_cons_of_mem _ hb))]

/-- Splitting a list by a partial key: the classes of the keys in `ks` (distinct, covering) followed by
the class without key are a permutation of the list. -/
theorem partition_perm {α κ : Type} [DecidableEq κ] (key : α → Option κ) (ks : List κ) (hnd : ks.Nodup)
    (ms : List α) (hcov : ∀ x ∈ ms, ∀ k, key x = some k → k ∈ ks) :
    (ks.flatMap (fun k => ms.filter (fun x => decide (key x = some k))) ++ ms.filter (fun x => decide (key x = none))).Perm ms := by
  induction ms with
  | nil => simp
  | cons x ms ih =>
    have ih := ih (fun y hy => hcov y (List.mem_cons_of_mem _ hy))
    cases hx : key x with
    | none =>
      have h1 : ∀ k, (x :: ms).filter (fun y => decide (key y = some k)) = ms.filter (fun y => decide (key y = some k)) := by
        intro k; simp [List.filter_cons, hx]
      have h2 : (x :: ms).filter (fun y => decide (key y = none)) = x :: ms.filter (fun y => decide (key y = none)) := by
        simp [List.filter_cons, hx]
      simp only [h1, h2]
      exact List.perm_middle.trans (ih.cons x)
    | some k0 =>
      have hk0 : k0 ∈ ks := hcov x (List.mem_cons_self ..) k0 hx
      have h2 : (x :: ms).filter (fun y => decide (key y = none)) = ms.filter (fun y => decide (key y = none)) := by
        simp [List.filter_cons, hx]
      rw [h2]
      -- inserting `x` into the class of `k0`
      have key_lemma : ∀ (ks : List κ), ks.Nodup → k0 ∈ ks →
          (ks.flatMap (fun k => (x :: ms).filter (fun y => decide (key y = some k)))).Perm
            (x :: ks.flatMap (fun k => ms.filter (fun y => decide (key y = some k)))) := by
        intro ks
        induction ks with
        | nil => intro _ h; cases h
        | cons k ks ihk =>
          intro hnd hmem
          have hnd' := List.nodup_cons.mp hnd
          simp only [List.flatMap_cons]
          by_cases hk : k = k0
          · subst hk
            have hnot : k ∉ ks := hnd'.1
            have hrest : ks.flatMap (fun k' => (x :: ms).filter (fun y => decide (key y = some k')))
                = ks.flatMap (fun k' => ms.filter (fun y => decide (key y = some k'))) := by
              apply flatMap_congr'
              intro k' hk'
              have : k ≠ k' := fun h => hnot (h ▸ hk')
              simp [List.filter_cons, hx, this]
            rw [hrest]
            simp [List.filter_cons, hx]
          · have hmem' : k0 ∈ ks := by
              rcases List.mem_cons.mp hmem with h | h
              · exact absurd h.symm hk
              · exact h
            have hne : k0 ≠ k := fun h => hk h.symm
            have hhead : (x :: ms).filter (fun y => decide (key y = some k)) = ms.filter (fun y => decide (key y = some k)) := by
              simp [List.filter_cons, hx, hne]
            rw [hhead]
            exact ((ihk hnd'.2 hmem').append_left _).trans List.perm_middle
      exact ((key_lemma ks hnd hk0).append_right _).trans (by simpa using ih.cons x)

/-- a metric never becomes a string member -/
def MVal.isStr : MVal F → Bool
  | .str _ => true
  | _ => false

def asStr (p : Str × MVal F) : Option (Str × Str) :=
  match p.2 with
  | .str s => some (p.1, s)
  | _ => none

theorem fieldOf_not_str (ops : FloatOps F) (mult : Option Nat) (m : Metric F) (v : MVal F)
    (h : fieldOf ops mult m = some v) : v.isStr = false := by
  unfold fieldOf at h
  split at h
  · cases h
  · cases h; rfl
  · cases hx : ops.usable ‹F› <;> simp [hx] at h
    subst h; rfl
  · split at h
    · cases h
    · cases h; rfl

theorem fieldsOf_not_str (ops : FloatOps F) (mult : Option Nat) (ms : List (Str × Metric F)) :
    ∀ p ∈ fieldsOf ops mult ms, p.2.isStr = false := by
  intro p hp
  simp only [fieldsOf, List.mem_filterMap, Option.map_eq_some_iff] at hp
  obtain ⟨q, _, v, hv, rfl⟩ := hp
  exact fieldOf_not_str ops mult q.2 v hv

theorem filterMap_asStr_fields (ops : FloatOps F) (mult : Option Nat) (ms : List (Str × Metric F)) :
    (fieldsOf ops mult ms).filterMap asStr = [] := by
  rw [List.filterMap_eq_nil_iff]
  intro p hp
  have := fieldsOf_not_str ops mult ms p hp
  unfold asStr
  cases h : p.2 <;> simp_all [MVal.isStr]

theorem filter_nonstr_fields (ops : FloatOps F) (mult : Option Nat) (ms : List (Str × Metric F)) :
    (fieldsOf ops mult ms).filter (fun p => !p.2.isStr) = fieldsOf ops mult ms := by
  rw [List.filter_eq_self]
  intro p hp
  simp [fieldsOf_not_str ops mult ms p hp]

/-- the metric members of a record -/
def Record.metricMembers (r : Record F) : List (Str × MVal F) := r.members.filter fun p => !p.2.isStr

/-- the string members of a record -/
def Record.stringMembers (r : Record F) : List (Str × Str) := r.members.filterMap asStr

theorem mkRecord_metricMembers (cfg : Config) (ops : FloatOps F) (mult : Option Nat) (e : Entry F)
    (route : Option Key) (ms : List (Str × Metric F)) (extra : List Directive) :
    (mkRecord cfg ops mult e route ms extra).metricMembers = fieldsOf ops mult ms := by
  simp only [Record.metricMembers, mkRecord, List.filter_append, filter_nonstr_fields]
  have h1 : ∀ (k : Key), (k.map fun kv => ((kv.1, MVal.str kv.2) : Str × MVal F)).filter (fun p => !p.2.isStr) = [] := by
    intro k; rw [List.filter_eq_nil_iff]; intro p hp
    simp only [List.mem_map] at hp; obtain ⟨_, _, rfl⟩ := hp; simp [MVal.isStr]
  have h2 : ((strItems e).map fun p => ((p.1, MVal.str p.2) : Str × MVal F)).filter (fun p => !p.2.isStr) = [] := by
    rw [List.filter_eq_nil_iff]; intro p hp
    simp only [List.mem_map] at hp; obtain ⟨_, _, rfl⟩ := hp; simp [MVal.isStr]
  rw [h1, h2]; simp

theorem mkRecord_stringMembers (cfg : Config) (ops : FloatOps F) (mult : Option Nat) (e : Entry F)
    (route : Option Key) (ms : List (Str × Metric F)) (extra : List Directive) :
    (mkRecord cfg ops mult e route ms extra).stringMembers = route.getD [] ++ strItems e := by
  simp only [Record.stringMembers, mkRecord, List.filterMap_append, filterMap_asStr_fields]
  have h : ∀ (l : List (Str × Str)), (l.map fun p => ((p.1, MVal.str p.2) : Str × MVal F)).filterMap asStr = l := by
    intro l; induction l with
    | nil => rfl
    | cons a l ih => simp [asStr, List.filterMap_cons] at ih ⊢; exact ih
  simp [h]

/-- Every record of `emit` is `mkRecord` of a route and exactly the metrics routed there. -/
theorem mem_emit {cfg : Config} {ops : FloatOps F} {mult : Option Nat} {e : Entry F} {r : Record F}
    (h : r ∈ emit cfg ops mult e) :
    (∃ k ∈ splitKeys cfg e,
        r = mkRecord cfg ops mult e (some k) (routedTo cfg (some k) (metricItems e)) []
        ∧ fieldsOf ops mult (routedTo cfg (some k) (metricItems e)) ≠ [])
    ∨ r = mkRecord cfg ops mult e none (routedTo cfg none (metricItems e)) cfg.extra := by
  have hsplit : ∀ r' ∈ (splitKeys cfg e).filterMap (fun k =>
      if (fieldsOf ops mult (routedTo cfg (some k) (metricItems e))).isEmpty then none
      else some (mkRecord cfg ops mult e (some k) (routedTo cfg (some k) (metricItems e)) [])),
      ∃ k ∈ splitKeys cfg e,
        r' = mkRecord cfg ops mult e (some k) (routedTo cfg (some k) (metricItems e)) []
        ∧ fieldsOf ops mult (routedTo cfg (some k) (metricItems e)) ≠ [] := by
    intro r' hr'
    simp only [List.mem_filterMap] at hr'
    obtain ⟨k, hk, hif⟩ := hr'
    split at hif
    · cases hif
    · rename_i hne
      cases hif
      exact ⟨k, hk, rfl, by simpa [List.isEmpty_iff] using hne⟩
  unfold emit at h
  simp only at h
  split at h
  · rcases List.mem_append.mp h with h | h
    · exact Or.inl (hsplit r h)
    · simp only [List.mem_singleton] at h; exact Or.inr h
  · exact Or.inl (hsplit r h)

/-! ### the property theorems -/

/-- Strings: in every record the string members are exactly the record's per-metric dimensions
followed by the entry's string items, in order, each with its exact text — every string item
appears once per occurrence in the entry, in every record. -/
theorem c03_strings_once (cfg : Config) (ops : FloatOps F) (mult : Option Nat) (e : Entry F)
    (r : Record F) (h : r ∈ emit cfg ops mult e) :
    r.stringMembers = r.splitKey ++ strItems e := by
  rcases mem_emit h with ⟨k, _, rfl, _⟩ | rfl <;> rw [mkRecord_stringMembers] <;> simp [Record.splitKey, mkRecord]

/-- Metrics, exactly once overall: the metric members of all records together are a permutation of the
usable metric fields of the entry (`fieldOf … = some _`); a metric without usable observation
contributes nothing, nothing else appears. -/
theorem c03_metric_once (cfg : Config) (ops : FloatOps F) (mult : Option Nat) (e : Entry F) :
    ((emit cfg ops mult e).flatMap Record.metricMembers).Perm (fieldsOf ops mult (metricItems e)) := by
  -- all records (including the ones skipped for having no field) listed by route
  have hsplit : ((splitKeys cfg e).filterMap (fun k =>
      if (fieldsOf ops mult (routedTo cfg (some k) (metricItems e))).isEmpty then none
      else some (mkRecord cfg ops mult e (some k) (routedTo cfg (some k) (metricItems e)) []))).flatMap
        Record.metricMembers
      = (splitKeys cfg e).flatMap (fun k => fieldsOf ops mult (routedTo cfg (some k) (metricItems e))) := by
    induction splitKeys cfg e with
    | nil => rfl
    | cons k ks ih =>
      simp only [List.filterMap_cons, List.flatMap_cons]
      split
      · rename_i heq
        split at heq
        · rename_i hemp
          rw [ih]; simp [List.isEmpty_iff.mp hemp]
        · cases heq
      · rename_i r heq
        split at heq
        · cases heq
        · cases heq
          simp only [List.flatMap_cons, ih, mkRecord_metricMembers]
  have hall : (emit cfg ops mult e).flatMap Record.metricMembers
      = (splitKeys cfg e).flatMap (fun k => fieldsOf ops mult (routedTo cfg (some k) (metricItems e)))
        ++ fieldsOf ops mult (routedTo cfg none (metricItems e)) := by
    unfold emit
    simp only
    split
    · simp only [List.flatMap_append, hsplit, List.flatMap_cons, List.flatMap_nil, List.append_nil,
        mkRecord_metricMembers]
    · rename_i hc
      simp only [Bool.or_eq_true, Bool.not_eq_eq_eq_not, Bool.not_true, not_or, Bool.not_eq_true,
        Bool.not_eq_false] at hc
      rw [hsplit, List.isEmpty_iff.mp hc.2]; simp
  rw [hall]
  -- fields of a filtered list = filterMap, commuting with flatMap/append; then the partition lemma
  have hperm := partition_perm (fun p : Str × Metric F => routeOf cfg p.2) (splitKeys cfg e)
    (dedup_nodup _) (metricItems e) (by
      intro x hx k hk
      simp only [splitKeys, dedup_mem, List.mem_filterMap]
      exact ⟨x, hx, hk⟩)
  have := hperm.filterMap (fun p => (fieldOf ops mult p.2).map fun v => (p.1, v))
  simpa [fieldsOf, routedTo, List.filterMap_append, List.filterMap_flatMap] using this

/-- Unusable metrics appear nowhere, and every metric member is the field of a metric of the entry
that was routed to this very record. -/
theorem c03_unusable_nowhere (cfg : Config) (ops : FloatOps F) (mult : Option Nat) (e : Entry F)
    (r : Record F) (h : r ∈ emit cfg ops mult e) (p : Str × MVal F) (hp : p ∈ r.metricMembers) :
    ∃ m, (p.1, m) ∈ metricItems e ∧ routeOf cfg m = r.route ∧ fieldOf ops mult m = some p.2 := by
  have key : ∀ route, p ∈ fieldsOf ops mult (routedTo cfg route (metricItems e)) →
      ∃ m, (p.1, m) ∈ metricItems e ∧ routeOf cfg m = route ∧ fieldOf ops mult m = some p.2 := by
    intro route hp
    simp only [fieldsOf, routedTo, List.mem_filterMap, List.mem_filter, Option.map_eq_some_iff] at hp
    obtain ⟨q, ⟨hq, hr⟩, v, hv, rfl⟩ := hp
    exact ⟨q.2, hq, by simpa using hr, hv⟩
  rcases mem_emit h with ⟨k, _, rfl, _⟩ | rfl
  · rw [mkRecord_metricMembers] at hp; simpa [mkRecord] using key _ hp
  · rw [mkRecord_metricMembers] at hp; simpa [mkRecord] using key _ hp

/-- A metric with a usable field is a member of a record with its own route. -/
theorem c03_usable_somewhere (cfg : Config) (ops : FloatOps F) (mult : Option Nat) (e : Entry F)
    (n : Str) (m : Metric F) (v : MVal F) (hm : (n, m) ∈ metricItems e) (hv : fieldOf ops mult m = some v) :
    ∃ r ∈ emit cfg ops mult e, r.route = routeOf cfg m ∧ (n, v) ∈ r.metricMembers := by
  have hfield : (n, v) ∈ fieldsOf ops mult (routedTo cfg (routeOf cfg m) (metricItems e)) := by
    simp only [fieldsOf, routedTo, List.mem_filterMap, List.mem_filter, Option.map_eq_some_iff]
    exact ⟨(n, m), ⟨hm, by simp⟩, v, hv, rfl⟩
  cases hr : routeOf cfg m with
  | none =>
    rw [hr] at hfield
    refine ⟨mkRecord cfg ops mult e none (routedTo cfg none (metricItems e)) cfg.extra, ?_, rfl, ?_⟩
    · unfold emit
      simp only
      have hne : (fieldsOf ops mult (routedTo cfg none (metricItems e))).isEmpty = false := by
        cases hf : fieldsOf ops mult (routedTo cfg none (metricItems e)) with
        | nil => rw [hf] at hfield; cases hfield
        | cons _ _ => rfl
      simp [hne]
    · rw [mkRecord_metricMembers]; exact hfield
  | some k =>
    rw [hr] at hfield
    refine ⟨mkRecord cfg ops mult e (some k) (routedTo cfg (some k) (metricItems e)) [], ?_, rfl, ?_⟩
    · have hk : k ∈ splitKeys cfg e := by
        simp only [splitKeys, dedup_mem, List.mem_filterMap]; exact ⟨(n, m), hm, hr⟩
      have hne : (fieldsOf ops mult (routedTo cfg (some k) (metricItems e))).isEmpty = false := by
        cases hf : fieldsOf ops mult (routedTo cfg (some k) (metricItems e)) with
        | nil => rw [hf] at hfield; cases hfield
        | cons _ _ => rfl
      have hin : mkRecord cfg ops mult e (some k) (routedTo cfg (some k) (metricItems e)) [] ∈
          (splitKeys cfg e).filterMap (fun k =>
            if (fieldsOf ops mult (routedTo cfg (some k) (metricItems e))).isEmpty then none
            else some (mkRecord cfg ops mult e (some k) (routedTo cfg (some k) (metricItems e)) [])) := by
        simp only [List.mem_filterMap]
        exact ⟨k, hk, by simp [hne]⟩
      unfold emit
      simp only
      split
      · exact List.mem_append_left _ hin
      · exact hin
    · rw [mkRecord_metricMembers]; exact hfield

/-- A metric field exists iff at least one observation is usable. -/
theorem c03_field_iff_usable (ops : FloatOps F) (mult : Option Nat) (m : Metric F) :
    (fieldOf ops mult m).isSome ↔ ∃ o ∈ m.obs, (o.value ops).isSome := by
  have hgen : ∀ obs : List (Obs F),
      ((usableObs ops mult obs).isEmpty = false) ↔ ∃ o ∈ obs, (o.value ops).isSome := by
    intro obs
    induction obs with
    | nil => simp [usableObs]
    | cons o os ih =>
      simp only [usableObs, List.filterMap_cons, obsOut] at ih ⊢
      cases ho : o.value ops with
      | none => simp [ho, ih]
      | some v => simp [ho]
  unfold fieldOf
  split
  · rename_i h; simp [h]
  · rename_i v h; simp [h, Obs.value]
  · rename_i x h
    simp only [h, Option.isSome_map, List.mem_singleton, exists_eq_left, Obs.value]
  · rename_i h1 h2 h3
    split
    · rename_i hemp
      have := (not_congr (hgen m.obs)).mp (by simp [hemp])
      simp only [Option.isSome_none, Bool.false_eq_true, false_iff]
      exact this
    · rename_i hemp
      have := (hgen m.obs).mp (by simpa using hemp)
      simp [this]

/-- Values/Counts: the arrays are aligned; `Values` are the usable observations' values in order
(`Obs.value`: the integer, or the clamped float / clamped mean), `Counts` their occurrences
saturating-times the multiplicity. -/
theorem c03_values_counts (ops : FloatOps F) (mult : Option Nat) (m : Metric F) (vs : List (Num F))
    (cs : List Nat) (h : fieldOf ops mult m = some (.hist vs cs)) :
    vs.length = cs.length
    ∧ vs = m.obs.filterMap (fun o => o.value ops)
    ∧ cs = (m.obs.filter fun o => (o.value ops).isSome).map fun o => satMul o.occ (mult.getD 1) := by
  have hgen : ∀ obs : List (Obs F),
      (usableObs ops mult obs).map (·.1) = obs.filterMap (fun o => o.value ops)
      ∧ (usableObs ops mult obs).map (·.2)
          = (obs.filter fun o => (o.value ops).isSome).map fun o => satMul o.occ (mult.getD 1) := by
    intro obs
    induction obs with
    | nil => simp [usableObs]
    | cons o os ih =>
      simp only [usableObs, List.filterMap_cons, obsOut, List.filter_cons] at ih ⊢
      cases ho : o.value ops with
      | none => simpa [ho, obsOut] using ih
      | some v => simpa [ho, obsOut] using ih
  unfold fieldOf at h
  split at h
  · cases h
  · cases h
  · cases hx : ops.usable ‹F› <;> simp [hx] at h
  · split at h
    · cases h
    · cases h
      obtain ⟨h1, h2⟩ := hgen m.obs
      refine ⟨by simp, h1, h2⟩

/-- Scalar form: only without multiplicity, for a single `Unsigned` / `Floating` observation, and
the number is that observation's value. -/
theorem c03_scalar (ops : FloatOps F) (mult : Option Nat) (m : Metric F) (x : Num F)
    (h : fieldOf ops mult m = some (.scalar x)) :
    mult = none ∧ ∃ o, m.obs = [o] ∧ o.value ops = some x ∧ o.occ = 1 := by
  unfold fieldOf at h
  split at h
  · cases h
  · rename_i v hm; cases h; exact ⟨rfl, _, hm, rfl, rfl⟩
  · rename_i y hm
    cases hx : ops.usable y <;> simp [hx] at h
    subst h
    exact ⟨rfl, _, hm, by simp [Obs.value, hx], rfl⟩
  · split at h <;> cases h

/-- Conversely a single `Unsigned` / `Floating` observation without multiplicity is written as a scalar. -/
theorem c03_scalar_form (ops : FloatOps F) (m : Metric F) (o : Obs F) (ho : m.obs = [o]) (hocc : ∀ t n, o ≠ .repeated t n) :
    fieldOf ops none m = (o.value ops).map .scalar := by
  unfold fieldOf
  cases o with
  | unsigned v => simp [ho, Obs.value]
  | floating x => cases h : ops.usable x <;> simp [ho, Obs.value, h]
  | repeated t n => exact absurd rfl (hocc t n)

/-- counts saturate at `u64::MAX` and are the exact product below it -/
theorem c03_count_law (occ mult : Nat) :
    satMul occ mult ≤ u64Max ∧ (occ * mult ≤ u64Max → satMul occ mult = occ * mult)
      ∧ (u64Max ≤ occ * mult → satMul occ mult = u64Max) := by
  unfold satMul; omega

/-- Record shape: in every record the directives are one per configured namespace, in order, each
with the same dimension sets (the base sets extended by the record's per-metric dimension keys) and
the same declarations — the declarations of exactly the usable metrics of this record that are not
flagged no-metric, with unit and storage resolution — followed by the extra directives in the
no-dimension record only. -/
theorem c03_declared_everywhere (cfg : Config) (ops : FloatOps F) (mult : Option Nat) (e : Entry F)
    (r : Record F) (h : r ∈ emit cfg ops mult e) :
    r.directives = cfg.namespaces.map (fun ns =>
        ⟨ns, (baseDims cfg e).map (fun d => d ++ r.splitKey.map (·.1)),
          declsOf ops mult (routedTo cfg r.route (metricItems e))⟩)
      ++ (if r.route = none then cfg.extra else []) := by
  rcases mem_emit h with ⟨k, _, rfl, _⟩ | rfl <;> simp [mkRecord, Record.splitKey]

/-- a usable metric that is not flagged no-metric is declared, with its unit (absent iff `Unit::None`)
and `StorageResolution` 1 iff high-resolution, in the directive of every namespace of its record;
a no-metric one has no declaration of its own -/
theorem c03_decl_of_metric (cfg : Config) (ops : FloatOps F) (mult : Option Nat) (e : Entry F)
    (r : Record F) (h : r ∈ emit cfg ops mult e) (n : Str) (m : Metric F)
    (hm : (n, m) ∈ metricItems e) (hr : routeOf cfg m = r.route) (hu : (fieldOf ops mult m).isSome)
    (ns : Str) (hns : ns ∈ cfg.namespaces) :
    ∃ d ∈ r.directives, d.ns = ns ∧
      (m.flag ≠ .noMetric → (⟨n, m.unit, decide (m.flag = .hires)⟩ : Decl) ∈ d.metrics) := by
  rw [c03_declared_everywhere cfg ops mult e r h]
  refine ⟨⟨ns, _, _⟩, List.mem_append_left _ (List.mem_map.mpr ⟨ns, hns, rfl⟩), rfl, ?_⟩
  intro hflag
  simp only [declsOf, routedTo, List.mem_filterMap, List.mem_filter]
  refine ⟨(n, m), ⟨⟨hm, by simp [hr]⟩, hu⟩, ?_⟩
  unfold declOf
  cases hf : m.flag <;> simp_all

/-- every declaration belongs to a usable, not no-metric metric of the same record -/
theorem c03_decl_only_metrics (ops : FloatOps F) (mult : Option Nat) (ms : List (Str × Metric F))
    (d : Decl) (hd : d ∈ declsOf ops mult ms) :
    ∃ m, (d.name, m) ∈ ms ∧ (fieldOf ops mult m).isSome ∧ m.flag ≠ .noMetric ∧ d.unit = m.unit
      ∧ d.hires = decide (m.flag = .hires) := by
  simp only [declsOf, List.mem_filterMap, List.mem_filter] at hd
  obtain ⟨p, ⟨hp, hu⟩, hdecl⟩ := hd
  unfold declOf at hdecl
  cases hf : p.2.flag <;> simp [hf] at hdecl
  all_goals (subst hdecl; exact ⟨p.2, hp, hu, by simp [hf], rfl, by simp [hf]⟩)

/-- Timestamp: every record carries the entry's (last written) timestamp in whole milliseconds. -/
theorem c03_timestamp (cfg : Config) (ops : FloatOps F) (mult : Option Nat) (e : Entry F)
    (r : Record F) (h : r ∈ emit cfg ops mult e) :
    r.timestamp = (timestamps e).getLast?.map msOf := by
  rcases mem_emit h with ⟨k, _, rfl, _⟩ | rfl <;> rfl

/-- `msOf` is `⌊t / 1 ms⌋` for times at or after the epoch and `0` before it -/
theorem c03_timestamp_ms (us : Int) :
    (0 ≤ us → 1000 * (msOf us : Int) ≤ us ∧ us < 1000 * ((msOf us : Int) + 1)) ∧ (us < 0 → msOf us = 0) := by
  unfold msOf
  constructor
  · intro h
    have : 0 ≤ us / 1000 := Int.ediv_nonneg h (by decide)
    rw [Int.toNat_of_nonneg this]
    omega
  · intro h
    have : us / 1000 < 0 := Int.ediv_neg_of_neg_of_pos h (by decide)
    omega

/-- Dimension sets: the configured sets, crossed with the entry-level sets when the entry configures
them, each extended by the per-metric dimension keys of the (split) record; the per-metric
dimensions' values are string members of that record (`c03_strings_once`). -/
theorem c03_dimension_sets (cfg : Config) (ops : FloatOps F) (mult : Option Nat) (e : Entry F)
    (r : Record F) (h : r ∈ emit cfg ops mult e) (d : Directive)
    (hd : d ∈ r.directives.take cfg.namespaces.length) :
    d.dims = (match entryDimsItems e with
              | [] => cfg.defaultDims
              | sets :: _ => cfg.defaultDims.flatMap fun dd => sets.map fun s => dd ++ s).map
        (fun dd => dd ++ r.splitKey.map (fun (kv : Str × Str) => kv.1)) := by
  rw [c03_declared_everywhere cfg ops mult e r h] at hd
  rw [List.take_append_of_le_length (by simp)] at hd
  have := List.mem_of_mem_take hd
  simp only [List.mem_map] at this
  obtain ⟨ns, _, rfl⟩ := this
  rfl

/-- the namespaces of a record's directives are the configured namespaces in order -/
theorem c03_namespaces (cfg : Config) (ops : FloatOps F) (mult : Option Nat) (e : Entry F)
    (r : Record F) (h : r ∈ emit cfg ops mult e) :
    (r.directives.take cfg.namespaces.length).map (·.ns) = cfg.namespaces := by
  rw [c03_declared_everywhere cfg ops mult e r h, List.take_append_of_le_length (by simp)]
  simp [List.take_of_length_le, Function.comp_def]

/-- `records` is `emit` whenever validation reports nothing -/
theorem c03_records_eq_emit (cfg : Config) (sw : Switches) (ops : FloatOps F) (mult : Option Nat) (e : Entry F)
    (rs : List (Record F)) (h : records cfg sw ops mult e = .ok rs) : rs = emit cfg ops mult e := by
  unfold records at h
  split at h
  · cases h; rfl
  · cases h

/-! ### non-vacuity: a concrete entry (two strings, a distribution with an unusable observation, a split
metric, a no-metric one, two namespaces, entry dimensions) over `F := Int` with `usable x = none` for
negative `x` -/

def demoOps : FloatOps Int := { zero := 0, mean := fun t n => t / n, usable := fun x => if x < 0 then none else some x }

def demoCfg : Config :=
  { namespaces := [[1], [2]], defaultDims := [[[10]], []], logGroup := none, allowIgnored := false, extra := [] }

def demoEntry : Entry Int :=
  [ .timestamp 1500999, .allowSplit, .entryDims [[[11]]],
    .value [10] (.str [65]), .value [11] (.str [66]),
    .value [20] (.metric ⟨[.floating (-1), .unsigned 7, .repeated 10 4, .floating (-1)], some [99], [], .hires⟩),
    .value [21] (.metric ⟨[.unsigned 3], none, [([31], [32])], .noMetric⟩),
    .value [22] (.metric ⟨[.floating (-5)], none, [], .plain⟩) ]

example : validate demoCfg allOn demoEntry = [] := by decide
example : (emit demoCfg demoOps (some 4) demoEntry).length = 2 := by decide
example : (emit demoCfg demoOps (some 4) demoEntry).map (·.timestamp) = [some 1500, some 1500] := by decide
example : (emit demoCfg demoOps (some 4) demoEntry).flatMap Record.metricMembers
    = [([21], .hist [.int 3] [4]), ([20], .hist [.int 7, .flt 2] [4, 16])] := by decide
example : (emit demoCfg demoOps none demoEntry).flatMap Record.metricMembers
    = [([21], .scalar (.int 3)), ([20], .hist [.int 7, .flt 2] [1, 4])] := by decide

end EmfSpec

#print axioms EmfSpec.c03_strings_once
#print axioms EmfSpec.c03_metric_once
#print axioms EmfSpec.c03_unusable_nowhere
#print axioms EmfSpec.c03_usable_somewhere
#print axioms EmfSpec.c03_field_iff_usable
#print axioms EmfSpec.c03_values_counts
#print axioms EmfSpec.c03_scalar
#print axioms EmfSpec.c03_scalar_form
#print axioms EmfSpec.c03_count_law
#print axioms EmfSpec.c03_declared_everywhere
#print axioms EmfSpec.c03_decl_of_metric
#print axioms EmfSpec.c03_decl_only_metrics
#print axioms EmfSpec.c03_timestamp
#print axioms EmfSpec.c03_timestamp_ms
#print axioms EmfSpec.c03_dimension_sets
#print axioms EmfSpec.c03_namespaces
#print axioms EmfSpec.c03_records_eq_emit
