import Props.C06
/-!
Slot invariants (C13): a per-slot local invariant `SlotOk` (oneshot cell / receiver / data / close result
are consistent with "the guard has sent"), and two global ones tying the closing of the entry's fields to
the flush-guard protocol.
-/
namespace KeepAlive

/-- consistency of one slot; `sentOk` = the guard's `tx.send` happened before this field was closed -/
structure SlotOk (sl : Slot) : Prop where
  unopened : sl.opened = false → sl.g = .none
  nothing : sl.sentOk = false → sl.cell = none ∧ sl.data = none
  sentg : sl.sentOk = true → sl.g ≠ .live ∧ sl.opened = true
  /-- the receiver stays in place until the value arrives or the field is closed (a cancelled wait does not remove it) -/
  rxstays : sl.closedAs = none → sl.sentOk = false → sl.rx = true
  /-- a sent value is in the channel, or has been moved to `data` by a completed `wait_for_data` -/
  delivered : sl.closedAs = none → sl.sentOk = true →
    (sl.cell = some sl.gval ∧ sl.rx = true ∧ sl.data = none) ∨ (sl.data = some sl.gval ∧ sl.rx = false ∧ sl.cell = none)
  gone : sl.opened = true → sl.g ≠ .live → sl.sentOk = true ∨ sl.closedAs.isSome
  /-- `Slot::close` returned the sent value iff the send came first -/
  closed : ∀ r, sl.closedAs = some r → r = if sl.sentOk then some sl.gval else none
  afterclose : sl.closedAs.isSome → sl.cell = none ∧ sl.data = none ∧ sl.rx = false

structure SInv (s : St) : Prop where
  ok : ∀ sl ∈ s.slots, SlotOk sl
  /-- fields are closed only inside the entry's destructor, i.e. after the conditions of C06 -/
  g0 : (∃ sl ∈ s.slots, sl.closedAs.isSome) → s.hS = 0 ∧ (s.fgLive = 0 ∨ s.dgBegun > 0)
  /-- a wait-mode slot that was closed before any force-flush guard began to drop had been sent first -/
  g1 : ∀ sl ∈ s.slots, sl.closedAs.isSome → sl.opened = true → sl.mode = .wait → s.dgBegun = 0 → sl.sentOk = true

theorem slotOk_fresh (c : Bool × Nat) : SlotOk (fresh c) := by
  constructor <;> simp [fresh]

theorem sinv_init (cfg : List (Bool × Nat)) : SInv (init (cfg.map fresh)) := by
  constructor
  · intro sl h; obtain ⟨c, _, rfl⟩ := List.mem_map.mp h; exact slotOk_fresh _
  · rintro ⟨sl, h, hc⟩; obtain ⟨c, _, rfl⟩ := List.mem_map.mp h; simp [fresh] at hc
  · intro sl h hc; obtain ⟨c, _, rfl⟩ := List.mem_map.mp h; simp [fresh] at hc

theorem mem_modifyAt {α : Type} {f : α → α} {l : List α} {i : Nat} {x : α} (h : x ∈ modifyAt f l i) :
    x ∈ l ∨ ∃ a, l[i]? = some a ∧ x = f a := by
  induction l generalizing i with
  | nil => simp [modifyAt] at h
  | cons a r ih =>
    cases i with
    | zero =>
      simp only [modifyAt, List.mem_cons] at h
      rcases h with h | h
      · exact Or.inr ⟨a, by simp, h⟩
      · exact Or.inl (by simp [h])
    | succ i =>
      simp only [modifyAt, List.mem_cons] at h
      rcases h with h | h
      · exact Or.inl (by simp [h])
      · rcases ih h with h | ⟨b, h1, h2⟩
        · exact Or.inl (by simp [h])
        · exact Or.inr ⟨b, by simpa using h1, h2⟩

theorem mem_of_getElem? {α : Type} {l : List α} {i : Nat} {a : α} (h : l[i]? = some a) : a ∈ l :=
  List.mem_of_getElem? h

theorem mem_closeFirst {l l' : List Slot} {x : Slot} (h : closeFirst l = some l') (hx : x ∈ l') :
    x ∈ l ∨ ∃ a ∈ l, a.closedAs = none ∧ x = closeSlot1 a := by
  induction l generalizing l' with
  | nil => simp [closeFirst] at h
  | cons a r ih =>
    simp only [closeFirst] at h
    split at h
    · rename_i hn
      cases h
      simp only [List.mem_cons] at hx
      rcases hx with hx | hx
      · exact Or.inr ⟨a, by simp, by simpa using hn, hx⟩
      · exact Or.inl (by simp [hx])
    · cases hr : closeFirst r with
      | none => simp [hr] at h
      | some r' =>
        simp [hr] at h; subst h
        simp only [List.mem_cons] at hx
        rcases hx with hx | hx
        · exact Or.inl (by simp [hx])
        · rcases ih hr hx with h | ⟨b, hb, h1, h2⟩
          · exact Or.inl (by simp [h])
          · exact Or.inr ⟨b, by simp [hb], h1, h2⟩

/-- every element that was closed before is still closed the same way after `closeFirst` -/
theorem closeFirst_closed_mono {l l' : List Slot} (h : closeFirst l = some l') :
    (∃ sl ∈ l', sl.closedAs.isSome) := by
  induction l generalizing l' with
  | nil => simp [closeFirst] at h
  | cons a r ih =>
    simp only [closeFirst] at h
    split at h
    · cases h; exact ⟨closeSlot1 a, by simp, by simp [closeSlot1]⟩
    · cases hr : closeFirst r with
      | none => simp [hr] at h
      | some r' =>
        simp [hr] at h; subst h
        obtain ⟨sl, h1, h2⟩ := ih hr
        exact ⟨sl, by simp [h1], h2⟩

/-- if no flush guard is held by a slot guard, every wait-mode slot guard is completely gone -/
theorem held_zero {l : List Slot} (h : held l = 0) : ∀ sl ∈ l, sl.mode = .wait → sl.g = .none := by
  induction l with
  | nil => simp
  | cons a r ih =>
    simp only [held] at h
    intro sl hsl hm
    simp only [List.mem_cons] at hsl
    rcases hsl with rfl | hsl
    · have : heldBy sl = 0 := by omega
      simp only [heldBy] at this
      split at this
      · omega
      · rename_i hn
        by_cases hg : sl.g = .none
        · exact hg
        · exact absurd ⟨hg, hm⟩ hn
    · exact ih (by omega) sl hsl hm

theorem slotOk_closeSlot1 {sl : Slot} (h : SlotOk sl) (hn : sl.closedAs = none) : SlotOk (closeSlot1 sl) := by
  obtain ⟨a1, a2, a3, a4, a5, a6, a7, a8⟩ := h
  constructor <;> simp only [closeSlot1, closeVal] <;> grind

theorem slotOk_poll {sl : Slot} (h : SlotOk sl) : SlotOk (poll sl).1 := by
  obtain ⟨a1, a2, a3, a4, a5, a6, a7, a8⟩ := h
  cases hrx : sl.rx with
  | false => simp only [poll, hrx]; constructor <;> assumption
  | true =>
    cases hc : sl.cell with
    | some v => simp only [poll, hrx, hc]; constructor <;> grind
    | none =>
      cases hs : senderAlive sl with
      | true => simp only [poll, hrx, hc, hs]; constructor <;> assumption
      | false =>
        simp only [senderAlive] at hs
        simp only [poll, hrx, hc, senderAlive, hs]
        constructor <;> grind

theorem poll_same (sl : Slot) : (poll sl).1.closedAs = sl.closedAs ∧ (poll sl).1.opened = sl.opened ∧
    (poll sl).1.mode = sl.mode ∧ (poll sl).1.sentOk = sl.sentOk ∧ (poll sl).1.g = sl.g ∧ (poll sl).1.gval = sl.gval := by
  cases hrx : sl.rx with
  | false => simp [poll, hrx]
  | true =>
    cases hc : sl.cell with
    | some v => simp [poll, hrx, hc]
    | none => cases hs : senderAlive sl <;> simp [poll, hrx, hc, hs]

end KeepAlive
