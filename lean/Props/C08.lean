import Model.EmfSpec
import Props.C08Lemmas
/-!
# C08 — EMF validation rejects exactly the malformed entries, never alters valid output

Theorems about `EmfSpec.validate` (transcription of the validation-map state machine of emf.rs),
`EmfSpec.Defective` (the property's list of defects) and `EmfSpec.records`.
The helper lemmas (state-machine invariant) are in `Props/C08Lemmas.lean`.
-/
namespace EmfSpec

variable {F : Type}

/-- A rejected entry produces a validation error and no record at all. -/
theorem c08_error_writes_nothing (cfg : Config) (sw : Switches) (ops : FloatOps F) (mult : Option Nat)
    (e : Entry F) (h : validate cfg sw e ≠ []) :
    records cfg sw ops mult e = .error (validate cfg sw e) := by
  unfold records
  cases hv : validate cfg sw e with
  | nil => exact absurd hv h
  | cons a l => rfl

/-- The switches only gate checks: an accepted entry's records do not depend on them. -/
theorem c08_switches_gate_only_checks (cfg : Config) (sw sw' : Switches) (ops : FloatOps F) (mult : Option Nat)
    (e : Entry F) (rs rs' : List (Record F))
    (h : records cfg sw ops mult e = .ok rs) (h' : records cfg sw' ops mult e = .ok rs') : rs = rs' := by
  unfold records at h h'
  split at h <;> split at h' <;> simp_all

/-- Whatever a formatter that skips all validations rejects, the validating one rejects too. -/
theorem c08_off_errors_subset (cfg : Config) (e : Entry F) (h : validate cfg allOn e = []) :
    validate cfg allOff e = [] :=
  validate_off_of_on cfg e h

/-- Transparency: an entry accepted with all validations on yields exactly the records it yields
with all validations off. -/
theorem c08_transparent (cfg : Config) (ops : FloatOps F) (mult : Option Nat) (e : Entry F)
    (h : validate cfg allOn e = []) :
    records cfg allOn ops mult e = records cfg allOff ops mult e := by
  have h' := validate_off_of_on cfg e h
  unfold records
  rw [h, h']

/-- Value errors are rejected whatever the switches. -/
theorem c08_value_error_rejected (cfg : Config) (sw : Switches) (e : Entry F) (h : noValueError e = false) :
    validate cfg sw e ≠ [] :=
  validate_value_error cfg sw e h

/-! ### the confirmed defect of the unchanged code: a per-metric dimension key that equals another
member's name is not checked -/

def witnessCfg : Config :=
  { namespaces := [[78]], defaultDims := [[]], logGroup := none, allowIgnored := false, extra := [] }

/-- string `Foo` + metric `M` with the per-metric dimension (`Foo`, `v`) in split mode -/
def witnessEntry : Entry Nat :=
  [ .timestamp 0, .allowSplit, .value [70, 111, 111] (.str [115]),
    .value [77] (.metric ⟨[.unsigned 1], none, [([70, 111, 111], [118])], .plain⟩) ]

def natOps : FloatOps Nat := { zero := 0, mean := fun t n => t / n, usable := some }

/-- The full statement `validate cfg allOn e = [] → ∀ r ∈ emit …, member names pairwise distinct` is
FALSE for the model of the unchanged code: the witness is accepted with all validations on, is not
`Defective`, and its only record has the member `Foo` twice. -/
theorem c08_dup_member_witness :
    validate witnessCfg allOn witnessEntry = []
    ∧ ¬ Defective witnessCfg witnessEntry
    ∧ dimKeysDisjoint witnessCfg witnessEntry = false
    ∧ (emit witnessCfg natOps none witnessEntry).map (fun r => r.members.map (·.1))
        = [[[70, 111, 111], [77], [70, 111, 111]]] := by
  decide

end EmfSpec

#print axioms EmfSpec.c08_error_writes_nothing
#print axioms EmfSpec.c08_switches_gate_only_checks
#print axioms EmfSpec.c08_off_errors_subset
#print axioms EmfSpec.c08_transparent
#print axioms EmfSpec.c08_value_error_rejected
#print axioms EmfSpec.c08_dup_member_witness
