import Model.EmfSpec
import Props.C08Lemmas
import Props.C08Inv
import Props.C08Members
/-!
# C08 — EMF validation rejects exactly the malformed entries, never alters valid output

Theorems about `EmfSpec.validate` (transcription of the validation-map state machine of emf.rs),
`EmfSpec.Defective` (the property's list of defects) and `EmfSpec.records`.
The helper lemmas are in `Props/C08Lemmas.lean` (simulation), `Props/C08Inv.lean` (state-machine invariant)
and `Props/C08Members.lean` (lift from the entry's slots to the records' member names).
-/
namespace EmfSpec

variable {F : Type}

/-- A rejected entry produces a validation error and no record at all. -/
theorem c08_error_writes_nothing (cfg : Config) (sw : Switches) (ops : FloatOps F) (mult : Option Nat)
    (e : Entry F) (h : validate cfg sw e ≠ []) :
    records cfg sw ops mult e = .error (validate cfg sw e) := by
  unfold records
  cases hv : validate cfg sw e with
  | nil => exact absurd hv h
  | cons a l => rfl

/-- The switches only gate checks: an accepted entry's records do not depend on them. -/
theorem c08_switches_gate_only_checks (cfg : Config) (sw sw' : Switches) (ops : FloatOps F) (mult : Option Nat)
    (e : Entry F) (rs rs' : List (Record F))
    (h : records cfg sw ops mult e = .ok rs) (h' : records cfg sw' ops mult e = .ok rs') : rs = rs' := by
  unfold records at h h'
  split at h <;> split at h' <;> simp_all

/-- Whatever a formatter that skips all validations rejects, the validating one rejects too. -/
theorem c08_off_errors_subset (cfg : Config) (e : Entry F) (h : validate cfg allOn e = []) :
    validate cfg allOff e = [] :=
  validate_off_of_on cfg e h

/-- Transparency: an entry accepted with all validations on yields exactly the records it yields
with all validations off. -/
theorem c08_transparent (cfg : Config) (ops : FloatOps F) (mult : Option Nat) (e : Entry F)
    (h : validate cfg allOn e = []) :
    records cfg allOn ops mult e = records cfg allOff ops mult e := by
  have h' := validate_off_of_on cfg e h
  unfold records
  rw [h, h']

/-- Value errors are rejected whatever the switches. -/
theorem c08_value_error_rejected (cfg : Config) (sw : Switches) (e : Entry F) (h : noValueError e = false) :
    validate cfg sw e ≠ [] :=
  validate_value_error cfg sw e h

/-- `Defective` unfolded: an entry has none of the listed defects iff its prefix predicate `Good` holds
(≤ 1 timestamp, valid names, no two values under one name in one record, no metric under a dimension
name, per-metric dimensions only after `AllowSplitEntries`, entry dimensions non-empty / once / not
late) and every declared dimension has a string value. -/
theorem defective_iff_good (cfg : Config) (e : Entry F) :
    ¬ Defective cfg e ↔ Good cfg e ∧ ∀ d ∈ declaredDims cfg e, d ∈ strNames e := by
  unfold Defective defective
  simp only [Bool.or_eq_true, not_or, Bool.not_eq_true, decide_eq_false_iff_not, Nat.not_le,
    List.any_eq_false, Bool.or_eq_false_iff, Bool.not_eq_eq_eq_not, Bool.not_false, Bool.not_true,
    List.contains_eq_mem, decide_eq_true_eq, decide_eq_false_iff_not, List.isEmpty_eq_false_iff,
    beq_eq_false_iff_ne, ne_eq, Bool.not_eq_false]
  constructor
  · rintro ⟨⟨⟨⟨⟨⟨⟨⟨h1, h2⟩, h3⟩, h4⟩, h5⟩, h6⟩, h7⟩, h8⟩, h9⟩
    refine ⟨⟨by omega, ?_, h3, ?_, h6, ?_, by omega, h9⟩, ?_⟩
    · intro n hn; have := h2 n hn; exact ⟨by simpa using this.1, this.2⟩
    · intro p hp; exact h4 p hp
    · intro s hs; exact h7 s hs
    · intro d hd; have := h5 d hd; simpa [strNames] using this
  · rintro ⟨g, hm⟩
    refine ⟨⟨⟨⟨⟨⟨⟨⟨by have := g.ts; omega, ?_⟩, g.conf⟩, ?_⟩, ?_⟩, g.split⟩, ?_⟩, by have := g.dtwice; omega⟩, g.late⟩
    · intro n hn; have := g.names n hn; exact ⟨by simpa using this.1, this.2⟩
    · intro p hp; exact g.under p hp
    · intro d hd; have := hm d hd; simpa [strNames] using this
    · intro s hs; exact g.dempty s hs

/-- **Validation rejects exactly the malformed entries.** For entries whose values report no error
of their own and that do not carry the (documented) `AllowUnroutableEntries` exemption, the
transcribed validation state machine with all checks on records no failure iff the entry has none
of the listed defects. -/
theorem c08_validate_iff_defective (cfg : Config) (e : Entry F)
    (hu : noUnroutable e = true) (hv : noValueError e = true) :
    validate cfg allOn e = [] ↔ ¬ Defective cfg e := by
  obtain ⟨h1, h2⟩ := run_spec cfg e hu hv
  rw [defective_iff_good]
  unfold validate
  simp only [List.append_eq_nil_iff]
  constructor
  · rintro ⟨he, hs⟩
    have hg := h1.mp he
    exact ⟨hg, (sweep_spec cfg e _ hg (h2 he)).mp hs⟩
  · rintro ⟨hg, hm⟩
    have he := h1.mpr hg
    exact ⟨he, (sweep_spec cfg e _ hg (h2 he)).mpr hm⟩

/-- every listed defect is rejected (validation error; `c08_error_writes_nothing`: and nothing is written) -/
theorem c08_rejects_defective (cfg : Config) (e : Entry F)
    (hu : noUnroutable e = true) (hv : noValueError e = true) (hd : Defective cfg e) :
    validate cfg allOn e ≠ [] :=
  fun h => (c08_validate_iff_defective cfg e hu hv).mp h hd

/-- entries without defect are accepted, and their records are those of a non-validating formatter -/
theorem c08_accepts_valid (cfg : Config) (ops : FloatOps F) (mult : Option Nat) (e : Entry F)
    (hu : noUnroutable e = true) (hv : noValueError e = true) (hd : ¬ Defective cfg e) :
    records cfg allOn ops mult e = .ok (emit cfg ops mult e)
    ∧ records cfg allOff ops mult e = .ok (emit cfg ops mult e) := by
  have h := (c08_validate_iff_defective cfg e hu hv).mpr hd
  have h' := validate_off_of_on cfg e h
  unfold records
  rw [h, h']
  exact ⟨rfl, rfl⟩

/-- consequences of acceptance at the level of names: no two values under one name in one record, a
string's name is used by no metric, names are valid, every declared dimension has a string value
(the entry-level core; the record-level statement is `c08_no_dup_members_partial` below) -/
theorem c08_accepted_names_partial (cfg : Config) (e : Entry F)
    (hu : noUnroutable e = true) (hv : noValueError e = true) (h : validate cfg allOn e = []) :
    noConflict (slots cfg e) = true
    ∧ (∀ n ∈ strNames e, metricsNamed n e = [])
    ∧ (∀ n ∈ valueNames e, n ≠ [] ∧ n ≠ awsName)
    ∧ (∀ d ∈ declaredDims cfg e, d ∈ strNames e) := by
  have hd := (c08_validate_iff_defective cfg e hu hv).mp h
  obtain ⟨g, hm⟩ := (defective_iff_good cfg e).mp hd
  exact ⟨g.conf, fun n hn => str_no_metric cfg e n g.conf hn, g.names, hm⟩

/-! ### the confirmed defect of the unchanged code: a per-metric dimension key that equals another
member's name is not checked -/

def witnessCfg : Config :=
  { namespaces := [[78]], defaultDims := [[]], logGroup := none, allowIgnored := false, extra := [] }

/-- string `Foo` + metric `M` with the per-metric dimension (`Foo`, `v`) in split mode -/
def witnessEntry : Entry Nat :=
  [ .timestamp 0, .allowSplit, .value [70, 111, 111] (.str [115]),
    .value [77] (.metric ⟨[.unsigned 1], none, [([70, 111, 111], [118])], .plain⟩) ]

def natOps : FloatOps Nat := { zero := 0, mean := fun t n => t / n, usable := some }

/-- The full statement `validate cfg allOn e = [] → ∀ r ∈ emit …, member names pairwise distinct` is
FALSE for the model of the unchanged code: the witness is accepted with all validations on, is not
`Defective`, and its only record has the member `Foo` twice. -/
example : noUnroutable witnessEntry = true ∧ noValueError witnessEntry = true := by decide

theorem c08_dup_member_witness :
    validate witnessCfg allOn witnessEntry = []
    ∧ ¬ Defective witnessCfg witnessEntry
    ∧ dimKeysDisjoint witnessCfg witnessEntry = false
    ∧ (emit witnessCfg natOps none witnessEntry).map (fun r => r.members.map (·.1))
        = [[[70, 111, 111], [77], [70, 111, 111]]] := by
  decide

/-! ### the record-level statement

The full statement

    theorem c08_no_dup_members (cfg) (ops) (mult) (e) (hu : noUnroutable e = true)
        (h : validate cfg allOn e = []) : ∀ r ∈ emit cfg ops mult e, r.memberNames.Nodup

is FALSE for the model of the unchanged code (`c08_dup_member_witness` above and the four witnesses
below): the keys of per-metric dimensions become members of the split record and are never validated.
It holds under `dimKeysDisjoint cfg e` = `keysDistinct ∧ keysNotAws ∧ keysNotStrings ∧ keysNotMetrics`
(`Model/EmfSpec.lean`), and none of the four clauses can be dropped. `noUnroutable` stays a hypothesis:
`AllowUnroutableEntries` switches the uniqueness checks of metrics off (documented exemption). -/

/-- **No emitted record has two members with the same name** (the `_aws` metadata member, the per-metric
dimension members, the metric members and the string members of the record), for every configuration,
number instance, sampling multiplicity and entry that is accepted with all validations on, does not
carry the `AllowUnroutableEntries` exemption, and whose per-metric dimension keys collide with nothing.
`_partial`: the hypothesis `dimKeysDisjoint` is necessary, the code does not enforce it. -/
theorem c08_no_dup_members_partial (cfg : Config) (ops : FloatOps F) (mult : Option Nat) (e : Entry F)
    (hu : noUnroutable e = true) (h : validate cfg allOn e = []) (hd : dimKeysDisjoint cfg e = true) :
    records cfg allOn ops mult e = .ok (emit cfg ops mult e)
    ∧ ∀ r ∈ emit cfg ops mult e, r.memberNames.Nodup := by
  have hv : noValueError e = true := by
    cases hve : noValueError e with
    | true => rfl
    | false => exact absurd h (c08_value_error_rejected cfg allOn e hve)
  obtain ⟨hc, _, hn, _⟩ := c08_accepted_names_partial cfg e hu hv h
  refine ⟨by unfold records; rw [h], emit_memberNames_nodup cfg ops mult e hc hn hd⟩

/-- The default / entry dimension names need no clause of their own: in an accepted entry each of them
is the name of a string value, so `keysNotStrings` keeps the per-metric dimension keys away from them. -/
theorem c08_keys_not_declared (cfg : Config) (e : Entry F)
    (hu : noUnroutable e = true) (hv : noValueError e = true) (h : validate cfg allOn e = [])
    (hk : keysNotStrings cfg e = true) :
    ∀ p ∈ metricItems e, ∀ k, routeOf cfg p.2 = some k → ∀ d ∈ k.map (·.1), d ∉ declaredDims cfg e := by
  intro p hp k hr d hd hdecl
  have hs := (c08_accepted_names_partial cfg e hu hv h).2.2.2 d hdecl
  have hk' := allSplitKeys_spec cfg e _ hk k ((mem_splitKeys cfg e k).mpr ⟨p, hp, hr⟩)
  have := List.all_eq_true.mp hk' d hd
  simp [strNames] at hs this
  obtain ⟨x, hx⟩ := hs
  exact this x hx

/-! #### tightness: each clause of `dimKeysDisjoint` alone

Each witness is accepted with all validations on, is not `Defective`, violates exactly one clause, and
its record has a duplicate member. `A` = 65, `M` = 77, `v` = 118, `w` = 119, `_aws` = 95 97 119 115. -/

/-- one split metric `M` = 1 with the per-metric dimensions `dims` -/
def tightEntry (dims : Key) : Entry Nat :=
  [ .timestamp 0, .allowSplit, .value [77] (.metric ⟨[.unsigned 1], none, dims, .plain⟩) ]

/-- what every tightness witness has in common: accepted, in scope of the iff, not `Defective`, and
the conclusion of `c08_no_dup_members_partial` fails -/
def tightWitness (cfg : Config) (e : Entry Nat) : Prop :=
  validate cfg allOn e = [] ∧ noUnroutable e = true ∧ noValueError e = true ∧ ¬ Defective cfg e
  ∧ ¬ ∀ r ∈ emit cfg natOps none e, r.memberNames.Nodup

instance (cfg : Config) (e : Entry Nat) : Decidable (tightWitness cfg e) := by
  unfold tightWitness; infer_instance

/-- only `keysDistinct` fails: the key `A` twice in one metric's dimensions → members `_aws A A M` -/
example :
    tightWitness witnessCfg (tightEntry [([65], [118]), ([65], [119])])
    ∧ (keysDistinct witnessCfg (tightEntry [([65], [118]), ([65], [119])]),
       keysNotAws witnessCfg (tightEntry [([65], [118]), ([65], [119])]),
       keysNotStrings witnessCfg (tightEntry [([65], [118]), ([65], [119])]),
       keysNotMetrics witnessCfg (tightEntry [([65], [118]), ([65], [119])])) = (false, true, true, true)
    ∧ (emit witnessCfg natOps none (tightEntry [([65], [118]), ([65], [119])])).map Record.memberNames
        = [[awsName, [65], [65], [77]]] := by
  decide

/-- only `keysNotAws` fails: the key `_aws` → members `_aws _aws M` -/
example :
    tightWitness witnessCfg (tightEntry [(awsName, [118])])
    ∧ (keysDistinct witnessCfg (tightEntry [(awsName, [118])]),
       keysNotAws witnessCfg (tightEntry [(awsName, [118])]),
       keysNotStrings witnessCfg (tightEntry [(awsName, [118])]),
       keysNotMetrics witnessCfg (tightEntry [(awsName, [118])])) = (true, false, true, true)
    ∧ (emit witnessCfg natOps none (tightEntry [(awsName, [118])])).map Record.memberNames
        = [[awsName, awsName, [77]]] := by
  decide

/-- only `keysNotStrings` fails (the entry of `c08_dup_member_witness`): the key `Foo` and the string
`Foo` → members `_aws Foo M Foo` -/
example :
    tightWitness witnessCfg witnessEntry
    ∧ (keysDistinct witnessCfg witnessEntry, keysNotAws witnessCfg witnessEntry,
       keysNotStrings witnessCfg witnessEntry, keysNotMetrics witnessCfg witnessEntry)
        = (true, true, false, true)
    ∧ (emit witnessCfg natOps none witnessEntry).map Record.memberNames
        = [[awsName, [70, 111, 111], [77], [70, 111, 111]]] := by
  decide

/-- the same clause through a default dimension: the default dimension `A` (with its string value, as
validation demands) and the per-metric dimension key `A` → members `_aws A M A` -/
example :
    let cfg : Config := { witnessCfg with defaultDims := [[[65]]] }
    let e : Entry Nat := .value [65] (.str [115]) :: tightEntry [([65], [118])]
    tightWitness cfg e
    ∧ (keysDistinct cfg e, keysNotAws cfg e, keysNotStrings cfg e, keysNotMetrics cfg e)
        = (true, true, false, true)
    ∧ (emit cfg natOps none e).map Record.memberNames = [[awsName, [65], [77], [65]]] := by
  decide

/-- … and through an entry dimension -/
example :
    let e : Entry Nat := .entryDims [[[65]]] :: .value [65] (.str [115]) :: tightEntry [([65], [118])]
    tightWitness witnessCfg e
    ∧ (keysDistinct witnessCfg e, keysNotAws witnessCfg e, keysNotStrings witnessCfg e,
       keysNotMetrics witnessCfg e) = (true, true, false, true)
    ∧ (emit witnessCfg natOps none e).map Record.memberNames = [[awsName, [65], [77], [65]]] := by
  decide

/-- only `keysNotMetrics` fails: the key `M` of the metric `M` itself → members `_aws M M` -/
example :
    tightWitness witnessCfg (tightEntry [([77], [118])])
    ∧ (keysDistinct witnessCfg (tightEntry [([77], [118])]),
       keysNotAws witnessCfg (tightEntry [([77], [118])]),
       keysNotStrings witnessCfg (tightEntry [([77], [118])]),
       keysNotMetrics witnessCfg (tightEntry [([77], [118])])) = (true, true, true, false)
    ∧ (emit witnessCfg natOps none (tightEntry [([77], [118])])).map Record.memberNames
        = [[awsName, [77], [77]]] := by
  decide

/-- `keysNotMetrics` only looks at the metrics of the SAME record: the key `G` of `M`'s dimensions and a
metric `G` (= 71) without per-metric dimensions live in different records; all hypotheses hold. -/
example :
    let e : Entry Nat := tightEntry [([71], [118])] ++ [.value [71] (.metric ⟨[.unsigned 2], none, [], .plain⟩)]
    validate witnessCfg allOn e = [] ∧ noUnroutable e = true ∧ dimKeysDisjoint witnessCfg e = true
    ∧ (emit witnessCfg natOps none e).map Record.memberNames = [[awsName, [71], [77]], [awsName, [71]]] := by
  decide

/-! #### non-vacuity -/

/-- a split entry with an entry dimension `S` (= 83), two strings `S`, `T`, the metric `M` in two
different per-metric dimension sets (`A`=`v` and `B`=`w`), a second metric `N` in the set `B`=`w` with two
observations (a histogram), and a metric `G` without per-metric dimensions -/
def goodEntry : Entry Nat :=
  [ .timestamp 1000, .allowSplit, .entryDims [[[83]]],
    .value [83] (.str [115]), .value [84] (.str [116]),
    .value [77] (.metric ⟨[.unsigned 1], none, [([65], [118])], .plain⟩),
    .value [77] (.metric ⟨[.unsigned 2], some [109, 115], [([66], [119])], .hires⟩),
    .value [78] (.metric ⟨[.unsigned 3, .unsigned 4], none, [([66], [119])], .plain⟩),
    .value [71] (.metric ⟨[.unsigned 5], none, [], .noMetric⟩) ]

/-- `goodEntry` meets every hypothesis of `c08_no_dup_members_partial`; it yields three records -/
example :
    noUnroutable goodEntry = true ∧ validate witnessCfg allOn goodEntry = []
    ∧ dimKeysDisjoint witnessCfg goodEntry = true
    ∧ (emit witnessCfg natOps none goodEntry).map Record.memberNames
        = [ [awsName, [65], [77], [83], [84]],
            [awsName, [66], [77], [78], [83], [84]],
            [awsName, [71], [83], [84]] ] := by
  decide

end EmfSpec

#print axioms EmfSpec.c08_error_writes_nothing
#print axioms EmfSpec.c08_switches_gate_only_checks
#print axioms EmfSpec.c08_off_errors_subset
#print axioms EmfSpec.c08_transparent
#print axioms EmfSpec.c08_value_error_rejected
#print axioms EmfSpec.c08_validate_iff_defective
#print axioms EmfSpec.c08_rejects_defective
#print axioms EmfSpec.c08_accepts_valid
#print axioms EmfSpec.c08_accepted_names_partial
#print axioms EmfSpec.c08_dup_member_witness
#print axioms EmfSpec.c08_keys_not_declared
#print axioms EmfSpec.c08_no_dup_members_partial
