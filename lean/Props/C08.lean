import Model.EmfSpec
import Props.C08Lemmas
import Props.C08Inv
/-!
# C08 — EMF validation rejects exactly the malformed entries, never alters valid output

Theorems about `EmfSpec.validate` (transcription of the validation-map state machine of emf.rs),
`EmfSpec.Defective` (the property's list of defects) and `EmfSpec.records`.
The helper lemmas (state-machine invariant) are in `Props/C08Lemmas.lean`.
-/
namespace EmfSpec

variable {F : Type}

/-- A rejected entry produces a validation error and no record at all. -/
theorem c08_error_writes_nothing (cfg : Config) (sw : Switches) (ops : FloatOps F) (mult : Option Nat)
    (e : Entry F) (h : validate cfg sw e ≠ []) :
    records cfg sw ops mult e = .error (validate cfg sw e) := by
  unfold records
  cases hv : validate cfg sw e with
  | nil => exact absurd hv h
  | cons a l => rfl

/-- The switches only gate checks: an accepted entry's records do not depend on them. -/
theorem c08_switches_gate_only_checks (cfg : Config) (sw sw' : Switches) (ops : FloatOps F) (mult : Option Nat)
    (e : Entry F) (rs rs' : List (Record F))
    (h : records cfg sw ops mult e = .ok rs) (h' : records cfg sw' ops mult e = .ok rs') : rs = rs' := by
  unfold records at h h'
  split at h <;> split at h' <;> simp_all

/-- Whatever a formatter that skips all validations rejects, the validating one rejects too. -/
theorem c08_off_errors_subset (cfg : Config) (e : Entry F) (h : validate cfg allOn e = []) :
    validate cfg allOff e = [] :=
  validate_off_of_on cfg e h

/-- Transparency: an entry accepted with all validations on yields exactly the records it yields
with all validations off. -/
theorem c08_transparent (cfg : Config) (ops : FloatOps F) (mult : Option Nat) (e : Entry F)
    (h : validate cfg allOn e = []) :
    records cfg allOn ops mult e = records cfg allOff ops mult e := by
  have h' := validate_off_of_on cfg e h
  unfold records
  rw [h, h']

/-- Value errors are rejected whatever the switches. -/
theorem c08_value_error_rejected (cfg : Config) (sw : Switches) (e : Entry F) (h : noValueError e = false) :
    validate cfg sw e ≠ [] :=
  validate_value_error cfg sw e h

/-- `Defective` unfolded: an entry has none of the listed defects iff its prefix predicate `Good` holds
(≤ 1 timestamp, valid names, no two values under one name in one record, no metric under a dimension
name, per-metric dimensions only after `AllowSplitEntries`, entry dimensions non-empty / once / not
late) and every declared dimension has a string value. -/
theorem defective_iff_good (cfg : Config) (e : Entry F) :
    ¬ Defective cfg e ↔ Good cfg e ∧ ∀ d ∈ declaredDims cfg e, d ∈ strNames e := by
  unfold Defective defective
  simp only [Bool.or_eq_true, not_or, Bool.not_eq_true, decide_eq_false_iff_not, Nat.not_le,
    List.any_eq_false, Bool.or_eq_false_iff, Bool.not_eq_eq_eq_not, Bool.not_false, Bool.not_true,
    List.contains_eq_mem, decide_eq_true_eq, decide_eq_false_iff_not, List.isEmpty_eq_false_iff,
    beq_eq_false_iff_ne, ne_eq, Bool.not_eq_false]
  constructor
  · rintro ⟨⟨⟨⟨⟨⟨⟨⟨h1, h2⟩, h3⟩, h4⟩, h5⟩, h6⟩, h7⟩, h8⟩, h9⟩
    refine ⟨⟨by omega, ?_, h3, ?_, h6, ?_, by omega, h9⟩, ?_⟩
    · intro n hn; have := h2 n hn; exact ⟨by simpa using this.1, this.2⟩
    · intro p hp; exact h4 p hp
    · intro s hs; exact h7 s hs
    · intro d hd; have := h5 d hd; simpa [strNames] using this
  · rintro ⟨g, hm⟩
    refine ⟨⟨⟨⟨⟨⟨⟨⟨by have := g.ts; omega, ?_⟩, g.conf⟩, ?_⟩, ?_⟩, g.split⟩, ?_⟩, by have := g.dtwice; omega⟩, g.late⟩
    · intro n hn; have := g.names n hn; exact ⟨by simpa using this.1, this.2⟩
    · intro p hp; exact g.under p hp
    · intro d hd; have := hm d hd; simpa [strNames] using this
    · intro s hs; exact g.dempty s hs

/-- **Validation rejects exactly the malformed entries.** For entries whose values report no error
of their own and that do not carry the (documented) `AllowUnroutableEntries` exemption, the
transcribed validation state machine with all checks on records no failure iff the entry has none
of the listed defects. -/
theorem c08_validate_iff_defective (cfg : Config) (e : Entry F)
    (hu : noUnroutable e = true) (hv : noValueError e = true) :
    validate cfg allOn e = [] ↔ ¬ Defective cfg e := by
  obtain ⟨h1, h2⟩ := run_spec cfg e hu hv
  rw [defective_iff_good]
  unfold validate
  simp only [List.append_eq_nil_iff]
  constructor
  · rintro ⟨he, hs⟩
    have hg := h1.mp he
    exact ⟨hg, (sweep_spec cfg e _ hg (h2 he)).mp hs⟩
  · rintro ⟨hg, hm⟩
    have he := h1.mpr hg
    exact ⟨he, (sweep_spec cfg e _ hg (h2 he)).mpr hm⟩

/-- every listed defect is rejected (validation error; `c08_error_writes_nothing`: and nothing is written) -/
theorem c08_rejects_defective (cfg : Config) (e : Entry F)
    (hu : noUnroutable e = true) (hv : noValueError e = true) (hd : Defective cfg e) :
    validate cfg allOn e ≠ [] :=
  fun h => (c08_validate_iff_defective cfg e hu hv).mp h hd

/-- entries without defect are accepted, and their records are those of a non-validating formatter -/
theorem c08_accepts_valid (cfg : Config) (ops : FloatOps F) (mult : Option Nat) (e : Entry F)
    (hu : noUnroutable e = true) (hv : noValueError e = true) (hd : ¬ Defective cfg e) :
    records cfg allOn ops mult e = .ok (emit cfg ops mult e)
    ∧ records cfg allOff ops mult e = .ok (emit cfg ops mult e) := by
  have h := (c08_validate_iff_defective cfg e hu hv).mpr hd
  have h' := validate_off_of_on cfg e h
  unfold records
  rw [h, h']
  exact ⟨rfl, rfl⟩

/-- consequences of acceptance at the level of names: a string's name is used by no other value,
(`c08_no_dup_members`, the statement that every emitted record has pairwise distinct member names, is
FALSE for the unchanged code — see the witness below — because per-metric dimension KEYS are not
checked; the record-level theorem under `dimKeysDisjoint` is not proved here, see notes/C08.md) -/
theorem c08_accepted_names_partial (cfg : Config) (e : Entry F)
    (hu : noUnroutable e = true) (hv : noValueError e = true) (h : validate cfg allOn e = []) :
    noConflict (slots cfg e) = true
    ∧ (∀ n ∈ strNames e, metricsNamed n e = [])
    ∧ (∀ n ∈ valueNames e, n ≠ [] ∧ n ≠ awsName)
    ∧ (∀ d ∈ declaredDims cfg e, d ∈ strNames e) := by
  have hd := (c08_validate_iff_defective cfg e hu hv).mp h
  obtain ⟨g, hm⟩ := (defective_iff_good cfg e).mp hd
  exact ⟨g.conf, fun n hn => str_no_metric cfg e n g.conf hn, g.names, hm⟩

/-! ### the confirmed defect of the unchanged code: a per-metric dimension key that equals another
member's name is not checked -/

def witnessCfg : Config :=
  { namespaces := [[78]], defaultDims := [[]], logGroup := none, allowIgnored := false, extra := [] }

/-- string `Foo` + metric `M` with the per-metric dimension (`Foo`, `v`) in split mode -/
def witnessEntry : Entry Nat :=
  [ .timestamp 0, .allowSplit, .value [70, 111, 111] (.str [115]),
    .value [77] (.metric ⟨[.unsigned 1], none, [([70, 111, 111], [118])], .plain⟩) ]

def natOps : FloatOps Nat := { zero := 0, mean := fun t n => t / n, usable := some }

/-- The full statement `validate cfg allOn e = [] → ∀ r ∈ emit …, member names pairwise distinct` is
FALSE for the model of the unchanged code: the witness is accepted with all validations on, is not
`Defective`, and its only record has the member `Foo` twice. -/
example : noUnroutable witnessEntry = true ∧ noValueError witnessEntry = true := by decide

theorem c08_dup_member_witness :
    validate witnessCfg allOn witnessEntry = []
    ∧ ¬ Defective witnessCfg witnessEntry
    ∧ dimKeysDisjoint witnessCfg witnessEntry = false
    ∧ (emit witnessCfg natOps none witnessEntry).map (fun r => r.members.map (·.1))
        = [[[70, 111, 111], [77], [70, 111, 111]]] := by
  decide

end EmfSpec

#print axioms EmfSpec.c08_error_writes_nothing
#print axioms EmfSpec.c08_switches_gate_only_checks
#print axioms EmfSpec.c08_off_errors_subset
#print axioms EmfSpec.c08_transparent
#print axioms EmfSpec.c08_value_error_rejected
#print axioms EmfSpec.c08_validate_iff_defective
#print axioms EmfSpec.c08_rejects_defective
#print axioms EmfSpec.c08_accepts_valid
#print axioms EmfSpec.c08_accepted_names_partial
#print axioms EmfSpec.c08_dup_member_witness
