import Props.C09
/-!
# C05 — shutdown drains, flushes and closes the stream; the writer thread terminates

Theorems about `Queue.step` for every sequence of push / clone / drop-handle / flush / forget /
drop-join events and every interleaving with the writer's micro-steps.
-/
namespace Queue

/-- the writer is inside `shut_down` (or done) -/
def shutPhase : WPc → Bool
  | .shutDrain _ => true
  | .shutHolding _ _ => true
  | .shutFlush => true
  | .exited => true
  | _ => false

/-- the writer has finished the drain loop of `shut_down` -/
def drainDone : WPc → Bool
  | .shutFlush => true
  | .exited => true
  | _ => false

/-- calls on the stream object -/
def Obs.isStreamCall : Obs → Bool
  | .next _ _ => true
  | .report => true
  | .flush => true
  | .closed => true
  | _ => false

/-- number of pushes that `drop(join_handle)` promises to have written: those before the shutdown
flag was stored (all of them if the thread shut down because no handle was left) -/
def promised (s : QState) : Nat := if s.shutdown then s.shutMark else s.pushOrder.length

structure ShutInv (s : QState) : Prop where
  /-- `shut_down` is entered only after the flag was seen or no handle was left -/
  why : shutPhase s.wpc = true → s.shutdown = true ∨ s.handles = 0
  flag : s.shutdown = true ↔ (s.join = .stored ∨ s.join = .joining ∨ s.join = .joined)
  joined : s.join = .joined → s.wpc = .exited
  mark : s.shutMark ≤ s.pushOrder.length
  drained : drainDone s.wpc = true → s.shutHit = false →
    ∀ e ∈ s.pushOrder.take (promised s), e ∈ delivered s.log ∨ e ∈ displaced s.log
  notClosed : s.wpc ≠ .exited → Obs.closed ∉ s.log
  closedLast : s.wpc = .exited → ∃ pre tail, s.log = pre ++ [Obs.flush, Obs.closed] ++ tail ∧
    (∀ o ∈ tail, o.isStreamCall = false) ∧ Obs.closed ∉ pre

theorem log_grows {s s' : QState} {ev : Ev} (h : step s ev = some s') : ∃ added, s'.log = s.log ++ added := by
  rcases (step_log h).1 with ⟨c, e, _, _, hl⟩ | ⟨added, hl, _⟩
  · exact ⟨_, hl⟩
  · exact ⟨_, hl⟩

theorem delivered_mono {s s' : QState} {ev : Ev} (h : step s ev = some s') {e : Ent}
    (he : e ∈ delivered s.log ∨ e ∈ displaced s.log) : e ∈ delivered s'.log ∨ e ∈ displaced s'.log := by
  obtain ⟨added, hl⟩ := log_grows h
  rw [hl]
  rcases he with he | he
  · left; simp [he]
  · right; simp [he]

theorem all_accounted {s : QState} (hc : Conserve (core s)) (hh : holding s.wpc = []) (hr : s.ring = []) :
    ∀ e ∈ s.pushOrder, e ∈ delivered s.log ∨ e ∈ displaced s.log := by
  intro e he
  by_cases hd : e ∈ displaced s.log
  · exact .inr hd
  · left
    have hcons := hc.cons
    simp only [core] at hcons
    rw [hh, hr] at hcons
    simp only [List.append_nil] at hcons
    rw [hcons]
    simp [survivors, he, hd]

theorem shutInv_init (cap res ns) : ShutInv (init cap res ns) := by
  refine ⟨by simp [init, shutPhase], by simp [init], by simp [init], by simp [init], by simp [init, drainDone],
    by simp [init], by simp [init]⟩

/-- frame for the events that do not touch writer, ring or history -/
theorem shutInv_frame {s s' : QState} (hi : ShutInv s)
    (hwpc : s'.wpc = s.wpc) (hlog : s'.log = s.log) (hpo : s'.pushOrder = s.pushOrder)
    (hsd : s'.shutdown = s.shutdown) (hj : s'.join = s.join) (hm : s'.shutMark = s.shutMark)
    (hh : s'.shutHit = s.shutHit) (hhd : s.handles = 0 → s'.handles = 0) : ShutInv s' := by
  refine ⟨?_, ?_, ?_, ?_, ?_, ?_, ?_⟩
  · rw [hwpc, hsd]; intro h; rcases hi.why h with h1 | h1
    · exact .inl h1
    · exact .inr (hhd h1)
  · rw [hsd, hj]; exact hi.flag
  · rw [hj, hwpc]; exact hi.joined
  · rw [hm, hpo]; exact hi.mark
  · unfold promised; rw [hwpc, hh, hlog, hpo, hsd, hm]; exact hi.drained
  · rw [hwpc, hlog]; exact hi.notClosed
  · rw [hwpc, hlog]; exact hi.closedLast

theorem closedLast_append {log added : List Obs}
    (h : ∃ pre tail, log = pre ++ [Obs.flush, Obs.closed] ++ tail ∧ (∀ o ∈ tail, o.isStreamCall = false) ∧ Obs.closed ∉ pre)
    (ha : ∀ o ∈ added, o.isStreamCall = false) :
    ∃ pre tail, log ++ added = pre ++ [Obs.flush, Obs.closed] ++ tail ∧ (∀ o ∈ tail, o.isStreamCall = false) ∧
      Obs.closed ∉ pre := by
  obtain ⟨pre, tail, hl, ht, hp⟩ := h
  refine ⟨pre, tail ++ added, by rw [hl]; simp, ?_, hp⟩
  intro o ho
  rcases List.mem_append.mp ho with h1 | h1
  · exact ht o h1
  · exact ha o h1

theorem shutInv_step {s s' : QState} {ev : Ev} (hr : Reachable s) (hi : ShutInv s) (h : step s ev = some s') :
    ShutInv s' := by
  have hc := conserve_reachable hr
  cases ev with
  | unpark p =>
    simp only [step] at h; split at h <;> cases h
    exact shutInv_frame hi rfl rfl rfl rfl rfl rfl rfl id
  | flushUnpark i =>
    simp only [step] at h; split at h <;> cases h
    exact shutInv_frame hi rfl rfl rfl rfl rfl rfl rfl id
  | clone =>
    simp only [step] at h; split at h <;> cases h
    rename_i hh
    exact shutInv_frame hi rfl rfl rfl rfl rfl rfl rfl (fun h0 => absurd h0 hh)
  | dropHandle =>
    simp only [step] at h; split at h <;> cases h
    exact shutInv_frame hi rfl rfl rfl rfl rfl rfl rfl (fun h0 => by simp [h0])
  | setSubscriber b =>
    simp only [step] at h; cases h
    exact shutInv_frame hi rfl rfl rfl rfl rfl rfl rfl id
  | forget =>
    simp only [step] at h; split at h <;> cases h
    rename_i hj
    refine ⟨hi.why, ?_, ?_, hi.mark, hi.drained, hi.notClosed, hi.closedLast⟩
    · have := hi.flag; rw [hj] at this; simpa using this
    · intro h'; simp at h'
  | dropJoinUnpark =>
    simp only [step] at h; split at h <;> cases h
    rename_i hj
    refine ⟨hi.why, ?_, ?_, hi.mark, hi.drained, hi.notClosed, hi.closedLast⟩
    · have := hi.flag; rw [hj] at this; simpa using this
    · intro h'; simp at h'
  | dropJoinBegin =>
    simp only [step] at h; split at h <;> cases h
    rename_i hj
    have hsd : s.shutdown = false := by
      have := hi.flag; rw [hj] at this; simpa using this
    refine ⟨fun _ => .inl rfl, by simp, by intro h'; simp at h', Nat.le_refl _, ?_, hi.notClosed, hi.closedLast⟩
    intro hd hh
    have := hi.drained hd hh
    simpa [promised, hsd] using this
  | dropJoinEnd =>
    simp only [step] at h; split at h <;> cases h
    rename_i hj
    have hsd : s.shutdown = true := hi.flag.mpr (.inr (.inl hj.1))
    refine ⟨hi.why, by simp [hsd], fun _ => hj.2, hi.mark, ?_, ?_, ?_⟩
    · intro hd hh e he
      have := hi.drained hd hh e (by simpa [promised] using he)
      rcases this with h1 | h1
      · left; simp [h1]
      · right; simp [h1]
    · intro hne; exact absurd hj.2 hne
    · intro _
      exact closedLast_append (hi.closedLast hj.2) (by simp [Obs.isStreamCall])
  | flushSend =>
    simp only [step] at h
    split at h <;> cases h
    · rename_i hex
      refine ⟨hi.why, hi.flag, hi.joined, hi.mark, ?_, ?_, ?_⟩
      · intro hd hh e he
        have := hi.drained hd hh e (by simpa [promised] using he)
        rcases this with h1 | h1
        · left; simp [h1]
        · right; simp [h1]
      · intro hne; exact absurd hex hne
      · intro _
        exact closedLast_append (hi.closedLast hex) (by simp [Obs.isStreamCall])
    · exact ⟨hi.why, hi.flag, hi.joined, hi.mark, hi.drained, hi.notClosed, hi.closedLast⟩
  | push p =>
    obtain ⟨hpc, hpo, hwpc, hcap, hhpos⟩ := push_core h
    obtain ⟨added, hl⟩ := log_grows h
    have hsame : s'.shutdown = s.shutdown ∧ s'.handles = s.handles ∧ s'.join = s.join ∧ s'.shutMark = s.shutMark ∧
        s'.shutHit = s.shutHit := by
      simp only [step] at h
      split at h
      · cases h
      · split at h <;> cases h <;> simp
    obtain ⟨hsd, hha, hj, hm, hh⟩ := hsame
    have hadd : ∀ o ∈ added, o.isStreamCall = false := by
      cases hpc with
      | room _ _ hlog _ => rw [hlog] at hl; have : added = [] := by simpa using hl.symm
                           rw [this]; simp
      | zero _ _ hlog _ => rw [hlog] at hl; have : added = [] := by simpa using hl.symm
                           rw [this]; simp
      | displace d t _ _ _ hlog _ =>
        rw [hlog] at hl
        have : added = [Obs.displaced d] := by simpa using hl.symm
        rw [this]; simp [Obs.isStreamCall]
    refine ⟨?_, ?_, ?_, ?_, ?_, ?_, ?_⟩
    · rw [hwpc, hsd, hha]; exact hi.why
    · rw [hsd, hj]; exact hi.flag
    · rw [hj, hwpc]; exact hi.joined
    · rw [hm, hpo]; have := hi.mark; simp; omega
    · rw [hwpc, hh]
      intro hd hhit e he
      have hsd1 : s.shutdown = true := by
        have hsp : shutPhase s.wpc = true := by
          revert hd; cases s.wpc <;> simp [drainDone, shutPhase]
        rcases hi.why hsp with h1 | h1
        · exact h1
        · omega
      have : e ∈ s.pushOrder.take (promised s) := by
        have hmk := hi.mark
        simp only [promised, hsd, hm, hsd1, if_true, hpo] at he ⊢
        rwa [List.take_append_of_le_length hmk] at he
      exact delivered_mono h (hi.drained hd hhit e this)
    · rw [hwpc, hl]; intro hne hm'
      rcases List.mem_append.mp hm' with h1 | h1
      · exact hi.notClosed hne h1
      · have := hadd _ h1; simp [Obs.isStreamCall] at this
    · rw [hwpc, hl]; intro hex
      exact closedLast_append (hi.closedLast hex) hadd
  | w c =>
    simp only [step] at h
    unfold wstep at h
    split at h
    · -- drain
      rename_i n hpc
      have hnc := hi.notClosed (by rw [hpc]; simp)
      have hnj : s.join = .joined → False := by intro hj; have := hi.joined hj; rw [hpc] at this; cases this
      split at h <;> cases h <;>
        exact ⟨by simp [shutPhase], hi.flag, fun hj => (hnj hj).elim,
          hi.mark, by simp [drainDone], fun _ => hnc, by simp⟩
    · -- holding
      rename_i e n hpc
      have hnc := hi.notClosed (by rw [hpc]; simp)
      have hnj : s.join = .joined → False := by intro hj; have := hi.joined hj; rw [hpc] at this; cases this
      cases h
      refine ⟨?_, hi.flag, fun hj => (hnj hj).elim, hi.mark, ?_, ?_, ?_⟩
      · dsimp only; split <;> simp [shutPhase]
      · dsimp only; split <;> simp [drainDone]
      · intro _ hm
        rcases List.mem_append.mp hm with h1 | h1
        · exact hnc h1
        · unfold consumeObs at h1; split at h1 <;> simp at h1
      · dsimp only; split <;> simp
    · -- afterDrain
      rename_i st n hpc
      have hnc := hi.notClosed (by rw [hpc]; simp)
      have hnj : s.join = .joined → False := by intro hj; have := hi.joined hj; rw [hpc] at this; cases this
      cases h
      refine ⟨by simp [shutPhase], hi.flag, fun hj => (hnj hj).elim,
        hi.mark, by simp [drainDone], ?_, by simp⟩
      intro _ hm
      simp only [List.mem_append] at hm
      rcases hm with (h1 | h1) | h1
      · exact hnc h1
      · split at h1 <;> simp at h1
      · simp at h1
    · -- postHww
      rename_i st hpc
      have hnc := hi.notClosed (by rw [hpc]; simp)
      have hnj : s.join = .joined → False := by intro hj; have := hi.joined hj; rw [hpc] at this; cases this
      split at h
      · cases h; exact ⟨by simp [shutPhase], hi.flag, fun hj => (hnj hj).elim, hi.mark, by simp [drainDone], fun _ => hnc, by simp⟩
      · split at h
        · cases h; exact ⟨by simp [shutPhase], hi.flag, fun hj => (hnj hj).elim, hi.mark, by simp [drainDone], fun _ => hnc, by simp⟩
        · split at h <;> cases h <;>
            exact ⟨by simp [shutPhase], hi.flag, fun hj => (hnj hj).elim, hi.mark, by simp [drainDone], fun _ => hnc, by simp⟩
    · -- parking
      rename_i hpc
      have hnc := hi.notClosed (by rw [hpc]; simp)
      have hnj : s.join = .joined → False := by intro hj; have := hi.joined hj; rw [hpc] at this; cases this
      split at h
      · cases h; exact ⟨by simp [shutPhase], hi.flag, fun hj => (hnj hj).elim, hi.mark, by simp [drainDone], fun _ => hnc, by simp⟩
      · split at h
        · cases h; exact ⟨by simp [shutPhase], hi.flag, fun hj => (hnj hj).elim, hi.mark, by simp [drainDone], fun _ => hnc, by simp⟩
        · cases h
    · -- checkTime
      rename_i hpc
      have hnc := hi.notClosed (by rw [hpc]; simp)
      have hnj : s.join = .joined → False := by intro hj; have := hi.joined hj; rw [hpc] at this; cases this
      split at h <;> cases h <;>
        exact ⟨by simp [shutPhase], hi.flag, fun hj => (hnj hj).elim, hi.mark, by simp [drainDone], fun _ => hnc, by simp⟩
    · -- outerFlush
      rename_i hpc
      have hnc := hi.notClosed (by rw [hpc]; simp)
      have hnj : s.join = .joined → False := by intro hj; have := hi.joined hj; rw [hpc] at this; cases this
      cases h
      exact ⟨by simp [shutPhase], hi.flag, fun hj => (hnj hj).elim, hi.mark, by simp [drainDone],
        fun _ hm => by simp at hm; exact hnc hm, by simp⟩
    · -- checkShutdown
      rename_i hpc
      have hnc := hi.notClosed (by rw [hpc]; simp)
      have hnj : s.join = .joined → False := by intro hj; have := hi.joined hj; rw [hpc] at this; cases this
      split at h
      · rename_i hsd
        cases h
        exact ⟨fun _ => .inl hsd, hi.flag, fun hj => (hnj hj).elim, hi.mark, by simp [drainDone], fun _ => hnc, by simp⟩
      · cases h
        exact ⟨by simp [shutPhase], hi.flag, fun hj => (hnj hj).elim, hi.mark, by simp [drainDone], fun _ => hnc, by simp⟩
    · -- checkHandles
      rename_i hpc
      have hnc := hi.notClosed (by rw [hpc]; simp)
      have hnj : s.join = .joined → False := by intro hj; have := hi.joined hj; rw [hpc] at this; cases this
      split at h
      · rename_i hh0
        cases h
        exact ⟨fun _ => .inr hh0, hi.flag, fun hj => (hnj hj).elim, hi.mark, by simp [drainDone], fun _ => hnc, by simp⟩
      · cases h
        exact ⟨by simp [shutPhase], hi.flag, fun hj => (hnj hj).elim, hi.mark, by simp [drainDone], fun _ => hnc, by simp⟩
    · -- shutDrain
      rename_i n hpc
      have hnc := hi.notClosed (by rw [hpc]; simp)
      have hnj : s.join = .joined → False := by intro hj; have := hi.joined hj; rw [hpc] at this; cases this
      have hwhy := hi.why (by rw [hpc]; rfl)
      split at h
      · rename_i hring
        cases h
        refine ⟨fun _ => hwhy, hi.flag, fun hj => (hnj hj).elim, hi.mark, ?_, fun _ => hnc, by simp⟩
        intro _ _ e he
        exact all_accounted hc (by rw [hpc]; rfl) hring e (List.mem_of_mem_take he)
      · cases h
        exact ⟨fun _ => hwhy, hi.flag, fun hj => (hnj hj).elim, hi.mark, by simp [drainDone], fun _ => hnc, by simp⟩
    · -- shutHolding
      rename_i e n hpc
      have hnc := hi.notClosed (by rw [hpc]; simp)
      have hnj : s.join = .joined → False := by intro hj; have := hi.joined hj; rw [hpc] at this; cases this
      have hwhy := hi.why (by rw [hpc]; rfl)
      cases h
      refine ⟨fun _ => hwhy, hi.flag, fun hj => (hnj hj).elim, hi.mark, ?_, ?_, ?_⟩
      · dsimp only
        split
        · rename_i hhit; intro _ hh; simp [hhit] at hh
        · simp [drainDone]
      · intro _ hm
        rcases List.mem_append.mp hm with h1 | h1
        · exact hnc h1
        · unfold consumeObs at h1; split at h1 <;> simp at h1
      · dsimp only; split <;> simp
    · -- shutFlush
      rename_i hpc
      have hnc := hi.notClosed (by rw [hpc]; simp)
      have hwhy := hi.why (by rw [hpc]; rfl)
      cases h
      refine ⟨fun _ => hwhy, hi.flag, fun _ => rfl, hi.mark, ?_, by simp, ?_⟩
      · intro _ hh e he
        have := hi.drained (by rw [hpc]; rfl) hh e (by simpa [promised] using he)
        rcases this with h1 | h1
        · left; simp [h1]
        · right; simp [h1]
      · intro _
        exact ⟨s.log, (s.waiting ++ s.sigs).map (Obs.completed · false), rfl,
          by intro o ho; obtain ⟨i, _, rfl⟩ := List.mem_map.mp ho; rfl, hnc⟩
    · cases h

theorem shutInv_reachable {s : QState} (hr : Reachable s) : ShutInv s := by
  have : Reachable s ∧ ShutInv s := by
    induction hr with
    | init cap res ns => exact ⟨Reachable.init _ _ _, shutInv_init _ _ _⟩
    | step hr' hst ih => exact ⟨Reachable.step ih.1 hst, shutInv_step ih.1 ih.2 hst⟩
  exact this.2

/-! ## Property theorems -/

/-- **Join path.** Whenever the writer thread has exited — in particular whenever
`drop(join_handle)` has returned (`join = joined` is only reachable then) — and the
`shutdown_timeout` deadline did not fire inside `shut_down`: every entry pushed before the
shutdown flag was stored (every pushed entry at all, if the thread stopped because no handle was
left) has been handed to the stream or was displaced by overflow; the history of stream calls ends
with `flush`, `closed`; the stream was closed exactly once; and nothing is handed to, flushed on or
done with the stream afterwards. -/
theorem c05_join_drains {s : QState} (hr : Reachable s) (hex : s.wpc = .exited) :
    (s.shutHit = false → ∀ e ∈ s.pushOrder.take (promised s), e ∈ delivered s.log ∨ e ∈ displaced s.log) ∧
    ∃ pre tail, s.log = pre ++ [Obs.flush, Obs.closed] ++ tail ∧ (∀ o ∈ tail, o.isStreamCall = false) ∧
      Obs.closed ∉ pre := by
  have hi := shutInv_reachable hr
  exact ⟨hi.drained (by rw [hex]; rfl), hi.closedLast hex⟩

/-- `drop(join_handle)` returns only after the thread has exited (so `c05_join_drains` applies),
and the drop stored the shutdown flag before. -/
theorem c05_join_returns_after_exit {s : QState} (hr : Reachable s) (hj : s.join = .joined) :
    s.wpc = .exited ∧ s.shutdown = true ∧ Obs.closed ∈ s.log := by
  have hi := shutInv_reachable hr
  have hex := hi.joined hj
  obtain ⟨pre, tail, hl, _, _⟩ := hi.closedLast hex
  exact ⟨hex, hi.flag.mpr (.inr (.inr hj)), by rw [hl]; simp⟩

/-- The stream is never closed while the thread is still running. -/
theorem c05_not_closed_while_running {s : QState} (hr : Reachable s) (hne : s.wpc ≠ .exited) :
    Obs.closed ∉ s.log :=
  (shutInv_reachable hr).notClosed hne

/-- **The stream is always flushed before it is closed — also when the shutdown timeout fires.**
No hypothesis about `shutdown_timeout`: in every reachable state in which the stream has been
dropped, the history is `pre ++ [flush, closed] ++ tail`: the call immediately before `closed` is a
`flush` (so it comes after the last entry that was handed to the stream, however many were left
behind by an expired timeout), the stream was closed once, and no stream call follows. -/
theorem c05_close_preceded_by_flush {s : QState} (hr : Reachable s) (hcl : Obs.closed ∈ s.log) :
    ∃ pre tail, s.log = pre ++ [Obs.flush, Obs.closed] ++ tail ∧ (∀ o ∈ tail, o.isStreamCall = false) ∧
      Obs.closed ∉ pre := by
  have hi := shutInv_reachable hr
  by_cases hex : s.wpc = .exited
  · exact hi.closedLast hex
  · exact absurd hcl (hi.notClosed hex)

/-- The same at the level of one step: whatever the final drain did (`Drained` or cut by the timeout),
the last step of `shut_down` flushes, then drops the stream, and only then are the pending flush
wakers released. -/
theorem c05_shutdown_step_flushes {s : QState} (c : Clock) (hpc : s.wpc = .shutFlush) :
    ∃ s', wstep s c = some s' ∧ s'.wpc = .exited ∧
      s'.log = s.log ++ [.flush, .closed] ++ (s.waiting ++ s.sigs).map (Obs.completed · false) := by
  unfold wstep; rw [hpc]; exact ⟨_, rfl, rfl, rfl⟩

/-- Both ends of the final drain lead to that step: an empty ring, or the timeout firing at a multiple
of 32 entries (and nothing else does: `shutHolding` otherwise goes on draining). -/
theorem c05_final_drain_always_reaches_flush {s s' : QState} {c : Clock} (h : wstep s c = some s') :
    (∀ n, s.wpc = .shutDrain n → s.ring = [] → s'.wpc = .shutFlush) ∧
    (∀ e n, s.wpc = .shutHolding e n → (s'.wpc = .shutFlush ∨ s'.wpc = .shutDrain (n + 1))) := by
  constructor
  · intro n hpc hr
    unfold wstep at h; rw [hpc] at h; simp [hr] at h; rw [← h]
  · intro e n hpc
    unfold wstep at h; rw [hpc] at h; simp at h; rw [← h]
    dsimp only; split <;> simp

theorem exited_step {s s' : QState} {ev : Ev} (hex : s.wpc = .exited) (h : step s ev = some s') :
    s'.wpc = .exited ∧ delivered s'.log = delivered s.log := by
  cases ev with
  | push p =>
    obtain ⟨hpc, _, hwpc, _, _⟩ := push_core h
    refine ⟨by rw [hwpc, hex], ?_⟩
    cases hpc with
    | room _ _ hlog _ => rw [hlog]
    | zero _ _ hlog _ => rw [hlog]
    | displace d t _ _ _ hlog _ => rw [hlog]; simp [delivered]
  | w c => simp only [step] at h; unfold wstep at h; rw [hex] at h; simp at h
  | unpark p => simp only [step] at h; split at h <;> cases h; exact ⟨hex, rfl⟩
  | flushSend => simp only [step] at h; split at h <;> cases h <;> exact ⟨hex, by simp [delivered]⟩
  | flushUnpark i => simp only [step] at h; split at h <;> cases h; exact ⟨hex, rfl⟩
  | clone => simp only [step] at h; split at h <;> cases h; exact ⟨hex, rfl⟩
  | dropHandle => simp only [step] at h; split at h <;> cases h; exact ⟨hex, rfl⟩
  | forget => simp only [step] at h; split at h <;> cases h; exact ⟨hex, rfl⟩
  | setSubscriber b => simp only [step] at h; cases h; exact ⟨hex, rfl⟩
  | dropJoinBegin => simp only [step] at h; split at h <;> cases h; exact ⟨hex, rfl⟩
  | dropJoinUnpark => simp only [step] at h; split at h <;> cases h; exact ⟨hex, rfl⟩
  | dropJoinEnd => simp only [step] at h; split at h <;> cases h; exact ⟨hex, by simp [delivered]⟩

/-- **Entries appended after shutdown are discarded.** Once the thread has exited, whatever happens
afterwards (more pushes through surviving handles, flushes, clones, drops): the thread stays
exited, the stream receives nothing more, and no entry pushed from then on is ever written. -/
theorem c05_after_shutdown_discarded {s s' : QState} (hr : Reachable s) (hex : s.wpc = .exited) (evs : List Ev)
    (h : run s evs = some s') :
    s'.wpc = .exited ∧ delivered s'.log = delivered s.log ∧
      ∀ e ∈ s'.pushOrder, e ∉ s.pushOrder → e ∉ delivered s'.log := by
  have key : s'.wpc = .exited ∧ delivered s'.log = delivered s.log := by
    clear hr
    induction evs generalizing s with
    | nil => simp only [run] at h; cases h; exact ⟨hex, rfl⟩
    | cons ev evs ih =>
      simp only [run] at h
      split at h
      · cases h
      · rename_i s1 hs1
        obtain ⟨h1, h2⟩ := exited_step hex hs1
        obtain ⟨h3, h4⟩ := ih h1 h
        exact ⟨h3, by rw [h4, h2]⟩
  refine ⟨key.1, key.2, ?_⟩
  intro e _ hnot hd
  rw [key.2] at hd
  exact hnot ((c09_order_with_overflow hr).2.1.subset hd)

/-- **Forget path** (the defect fixed by commit 23bc461 — `run` kept a second `Arc`, so this test
never succeeded): once no queue handle is left, the `Arc::get_mut` test of the next outer-loop
iteration sends the writer into `shut_down`, whatever the clock says; and no handle can come back. -/
theorem c05_forget_path {s : QState} (c : Clock) (hpc : s.wpc = .checkHandles) (hh : s.handles = 0) :
    wstep s c = some { s with wpc := .shutDrain 0 } ∧
    ∀ ev s', step s ev = some s' → s'.handles = 0 := by
  refine ⟨by unfold wstep; rw [hpc]; simp [hh], ?_⟩
  intro ev s' h
  cases ev with
  | push p => have := (push_core h).2.2.2.2; omega
  | w c' =>
    simp only [step] at h
    have hsame : ∀ {t : QState}, wstep s c' = some t → t.handles = s.handles := by
      intro t ht
      unfold wstep at ht
      rw [hpc] at ht
      simp [hh] at ht
      subst ht; simp [hh]
    rw [hsame h, hh]
  | unpark p => simp only [step] at h; split at h <;> cases h; exact hh
  | flushSend => simp only [step] at h; split at h <;> cases h <;> exact hh
  | flushUnpark i => simp only [step] at h; split at h <;> cases h; exact hh
  | clone => simp [step, hh] at h
  | dropHandle => simp [step, hh] at h
  | forget => simp only [step] at h; split at h <;> cases h; exact hh
  | setSubscriber b => simp only [step] at h; cases h; exact hh
  | dropJoinBegin => simp only [step] at h; split at h <;> cases h; exact hh
  | dropJoinUnpark => simp only [step] at h; split at h <;> cases h; exact hh
  | dropJoinEnd => simp only [step] at h; split at h <;> cases h; exact hh

/-! ### Termination -/

/-- a clock on which time passes: `park_deadline` returns and `next_flush` is reached -/
def Clock.passes (c : Clock) : Prop := c.parkWake = true ∧ c.pastNextFlush = true

def rank (s : QState) : Nat :=
  match s.wpc with
  | .exited => 0
  | .shutFlush => 1
  | .shutDrain _ => 2
  | .shutHolding _ _ => 3
  | .checkHandles => if s.handles = 0 then 4 else 13
  | .checkShutdown => 5
  | .outerFlush => 6
  | .checkTime => 7
  | .parking => 8
  | .postHww _ => 9
  | .afterDrain _ _ => 10
  | .drain _ => 11
  | .holding _ _ => 12

/-- termination measure: at most `2·|ring| + 13` writer steps remain -/
def measure (s : QState) : Nat := 2 * s.ring.length + rank s

theorem measure_decreases {s : QState} {c : Clock} (hc : c.passes) (hH : s.shutdown = true ∨ s.handles = 0)
    (hne : s.wpc ≠ .exited) :
    ∃ s', wstep s c = some s' ∧ measure s' < measure s ∧ s'.shutdown = s.shutdown ∧ s'.handles = s.handles := by
  obtain ⟨hpw, hpf⟩ := hc
  unfold wstep
  cases hpc : s.wpc with
  | exited => exact absurd hpc hne
  | drain n =>
    cases hr : s.ring with
    | nil => exact ⟨_, rfl, by simp [measure, rank, hpc, hr], rfl, rfl⟩
    | cons e t => exact ⟨_, rfl, by simp [measure, rank, hpc, hr]; omega, rfl, rfl⟩
  | holding e n =>
    refine ⟨_, rfl, ?_, rfl, rfl⟩
    by_cases hcond : (n + 1) % 32 = 0 ∧ c.deadlineHit = true <;> simp [measure, rank, hpc, hcond]
  | afterDrain st n => exact ⟨_, rfl, by simp [measure, rank, hpc], rfl, rfl⟩
  | postHww st =>
    dsimp only
    split
    · exact ⟨_, rfl, by simp [measure, rank, hpc], rfl, rfl⟩
    · split
      · exact ⟨_, rfl, by simp [measure, rank, hpc], rfl, rfl⟩
      · split <;> exact ⟨_, rfl, by simp [measure, rank, hpc], rfl, rfl⟩
  | parking =>
    by_cases ht : s.token = true
    · exact ⟨{ s with token := false, wpc := .checkTime }, by simp [ht], by simp [measure, rank, hpc], rfl, rfl⟩
    · exact ⟨{ s with wpc := .checkTime }, by simp [ht, hpw], by simp [measure, rank, hpc], rfl, rfl⟩
  | checkTime =>
    exact ⟨{ s with wpc := .outerFlush }, by simp [hpf], by simp [measure, rank, hpc], rfl, rfl⟩
  | outerFlush => exact ⟨_, rfl, by simp [measure, rank, hpc], rfl, rfl⟩
  | checkShutdown =>
    dsimp only
    split
    · exact ⟨_, rfl, by simp [measure, rank, hpc], rfl, rfl⟩
    · rename_i hsd
      have hh : s.handles = 0 := by rcases hH with h | h; exact absurd h hsd; exact h
      exact ⟨_, rfl, by simp [measure, rank, hpc, hh], rfl, rfl⟩
  | checkHandles =>
    dsimp only
    split
    · rename_i hh
      exact ⟨_, rfl, by simp [measure, rank, hpc, hh], rfl, rfl⟩
    · rename_i hh
      exact ⟨_, rfl, by simp [measure, rank, hpc, hh], rfl, rfl⟩
  | shutDrain n =>
    cases hr : s.ring with
    | nil => exact ⟨_, rfl, by simp [measure, rank, hpc, hr], rfl, rfl⟩
    | cons e t => exact ⟨_, rfl, by simp [measure, rank, hpc, hr]; omega, rfl, rfl⟩
  | shutHolding e n =>
    refine ⟨_, rfl, ?_, rfl, rfl⟩
    cases hcond : (decide ((n + 1) % 32 = 0) && c.deadlineHit) <;> simp [measure, rank, hpc]
  | shutFlush => exact ⟨_, rfl, by simp [measure, rank, hpc], rfl, rfl⟩

/-- run the writer alone on a list of clocks (stops where it is when it cannot step) -/
def wsteps (s : QState) : List Clock → QState
  | [] => s
  | c :: cs => match wstep s c with
    | some s' => wsteps s' cs
    | none => s

/-- **Termination.** From any state in which the shutdown flag is set or no handle is left, the
writer thread alone — no producer interferes, time passes (every `park_deadline` returns, every
`next_flush` is reached), arbitrary other clock bits — reaches `exited` within `2·|ring| + 13`
micro-steps: it drains, flushes, closes and exits rather than running forever. -/
theorem c05_terminates (s : QState) (cs : List Clock) (hH : s.shutdown = true ∨ s.handles = 0)
    (hcs : ∀ c ∈ cs, c.passes) (hlen : measure s ≤ cs.length) : (wsteps s cs).wpc = .exited := by
  induction cs generalizing s with
  | nil =>
    simp only [wsteps]
    simp only [List.length_nil, Nat.le_zero] at hlen
    unfold measure rank at hlen
    revert hlen
    cases s.wpc <;> simp
    split <;> omega
  | cons c cs ih =>
    by_cases hex : s.wpc = .exited
    · have : wstep s c = none := by unfold wstep; rw [hex]
      simp only [wsteps, this]; exact hex
    · obtain ⟨s', hs', hm, hsd, hh⟩ := measure_decreases (hcs c (by simp)) hH hex
      simp only [wsteps, hs']
      apply ih
      · rw [hsd, hh]; exact hH
      · intro c' hc'; exact hcs c' (by simp [hc'])
      · simp only [List.length_cons] at hlen; omega

/-! ### The shutdown wake-up is not lost -/

def ShutdownWakes (s : QState) : Prop :=
  s.shutdown = true → s.wpc = .parking → s.token = true ∨ s.join = .stored

theorem shutdownWakes_step {s s' : QState} {ev : Ev} (hi : ShutdownWakes s) (h : step s ev = some s') :
    ShutdownWakes s' := by
  unfold ShutdownWakes at *
  cases ev with
  | push p =>
    simp only [step] at h
    split at h
    · cases h
    · split at h <;> cases h <;> exact hi
  | unpark p => simp only [step] at h; split at h <;> cases h; simp
  | flushSend => simp only [step] at h; split at h <;> cases h <;> exact hi
  | flushUnpark i => simp only [step] at h; split at h <;> cases h; simp
  | clone => simp only [step] at h; split at h <;> cases h; exact hi
  | dropHandle => simp only [step] at h; split at h <;> cases h; exact hi
  | setSubscriber b => simp only [step] at h; cases h; exact hi
  | forget =>
    simp only [step] at h; split at h <;> cases h
    rename_i hj
    intro h1 h2
    rcases hi h1 h2 with h3 | h3
    · exact .inl h3
    · rw [hj] at h3; cases h3
  | dropJoinBegin => simp only [step] at h; split at h <;> cases h; simp
  | dropJoinUnpark => simp only [step] at h; split at h <;> cases h; simp
  | dropJoinEnd =>
    simp only [step] at h; split at h <;> cases h
    rename_i hj
    intro _ h2
    rw [hj.2] at h2; cases h2
  | w c =>
    simp only [step] at h
    unfold wstep at h
    split at h
    · split at h <;> cases h <;> simp
    · cases h; dsimp only; split <;> simp
    · cases h; simp
    · split at h
      · cases h; simp
      · split at h
        · cases h; simp
        · rename_i hsd
          split at h <;> cases h <;> simp_all
    · split at h
      · cases h; simp
      · split at h
        · cases h; simp
        · cases h
    · split at h <;> cases h <;> simp
    · cases h; simp
    · split at h <;> cases h <;> simp
    · split at h <;> cases h <;> simp
    · split at h <;> cases h <;> simp
    · cases h; dsimp only; split <;> simp
    · cases h; simp
    · cases h

/-- **The shutdown wake-up is not lost.** If the shutdown flag is set while the writer sits in
`park`, then the Parker token is set or the dropping thread is just about to `unpark`: the writer
wakes up without waiting for the flush interval. -/
theorem c05_shutdown_wakes {s : QState} (hr : Reachable s) (hsd : s.shutdown = true) (hp : s.wpc = .parking) :
    s.token = true ∨ s.join = .stored :=
  Reachable.inv (P := ShutdownWakes) (by intro cap res ns; simp [ShutdownWakes, init])
    (fun _ _ _ _ hi h => shutdownWakes_step hi h) hr hsd hp

/-! ## Non-vacuity -/

def lateC : Clock := ⟨false, true, true, false⟩
def quietC : Clock := ⟨false, false, false, false⟩

/-- join path: two entries queued behind a stalled writer, `drop(join)`, then the writer runs -/
def nvJoin : Option QState :=
  run (init 4 (fun _ => .ok) true)
    ([.push 0, .w quietC, .w quietC, .push 0, .push 0, .dropJoinBegin, .dropJoinUnpark] ++
      (List.replicate 11 (.w quietC)) ++ [.dropJoinEnd])

example : (nvJoin.map fun s => (decide (s.join = .joined), decide (s.wpc = .exited), delivered s.log)) =
    some (true, true, [(0, 0), (0, 1), (0, 2)]) := by decide
example : (nvJoin.map fun s => (s.shutHit, promised s,
    decide (s.log.drop (s.log.length - 3) = [.flush, .closed, .joinReturned]))) = some (false, 3, true) := by decide

/-- forget path: forget, push, drop the last handle; the writer times out of `park` and exits -/
def nvForget : Option QState :=
  run (init 4 (fun _ => .ok) true)
    ([.forget, .push 0, .dropHandle] ++ List.replicate 12 (.w lateC))

example : (nvForget.map fun s => (decide (s.join = .forgotten), decide (s.wpc = .exited), s.handles)) =
    some (true, true, 0) := by decide
example : (nvForget.map fun s => (delivered s.log, s.log.contains .closed)) = some ([(0, 0)], true) := by decide

end Queue

#print axioms Queue.c05_join_drains
#print axioms Queue.c05_join_returns_after_exit
#print axioms Queue.c05_close_preceded_by_flush
#print axioms Queue.c05_shutdown_step_flushes
#print axioms Queue.c05_final_drain_always_reaches_flush
#print axioms Queue.c05_not_closed_while_running
#print axioms Queue.c05_after_shutdown_discarded
#print axioms Queue.c05_forget_path
#print axioms Queue.c05_terminates
#print axioms Queue.c05_shutdown_wakes
