import Props.C10
/-!
# C10 — the trace predicate is sound for the model

`Spec.traceOk` (evaluated by the driver on the aggregates emitted by real timed / multi-producer
runs, whose flush boundaries are unknown) accepts every run of the model: for every operation
sequence that ends flushed, the totals over all emitted aggregates are the totals over all inputs.
-/
namespace Aggregation

section
variable {κ : Type} [DecidableEq κ]

def closeP (p : κ × Accum) : κ × Closed := (p.1, close p.2)

theorem filter_key_singleton {β : Type} (l : List (κ × β)) (k : κ) (a : β) (hnd : (l.map (·.1)).Nodup)
    (hm : (k, a) ∈ l) : l.filter (fun p => p.1 = k) = [(k, a)] := by
  induction l with
  | nil => cases hm
  | cons p rest ih =>
    obtain ⟨k', a'⟩ := p
    simp only [List.map_cons, List.nodup_cons] at hnd
    simp only [List.mem_cons] at hm
    rcases hm with h | h
    · cases h
      have : rest.filter (fun p => p.1 = k) = [] := by
        rw [List.filter_eq_nil_iff]
        intro q hq
        simp only [decide_eq_true_eq]
        intro hk
        exact hnd.1 (hk ▸ List.mem_map_of_mem (f := (·.1)) hq)
      simp [this]
    · have hne : k' ≠ k := fun x => hnd.1 (x ▸ List.mem_map_of_mem (f := (·.1)) h)
      simp [hne, ih hnd.2 h]

theorem filter_key_nil {β : Type} (l : List (κ × β)) (k : κ) (h : k ∉ l.map (·.1)) :
    l.filter (fun p => p.1 = k) = [] := by
  rw [List.filter_eq_nil_iff]
  intro q hq
  simp only [decide_eq_true_eq]
  intro hk
  exact h (hk ▸ List.mem_map_of_mem (f := (·.1)) hq)

/-- one epoch: the total of a field over the aggregates of key `k` is the field's total over the
epoch's inputs of key `k` -/
theorem sumOver_epoch (key : Input → κ) (E : List Input) (aggs : List (κ × Accum))
    (hx : Explains callStrat key E aggs) (k : κ) (f : Closed → Nat) (F : List Input → Nat)
    (hF : ∀ l, f (close (foldAll callStrat l)) = F l) (hF0 : F [] = 0) :
    Spec.sumOver k (aggs.map closeP) f = F (group key k E) := by
  unfold Spec.sumOver
  have hfm : (aggs.map closeP).filter (fun p => p.1 = k) = (aggs.filter (fun p => p.1 = k)).map closeP := by
    rw [List.filter_map]; rfl
  rw [hfm]
  by_cases hk : k ∈ aggs.map (·.1)
  · obtain ⟨p, hp, hpk⟩ := List.mem_map.mp hk
    obtain ⟨k', a⟩ := p
    simp only at hpk
    subst hpk
    rw [filter_key_singleton aggs k' a hx.nodup hp]
    simp [closeP, hx.value k' a hp, hF]
  · rw [filter_key_nil aggs k hk]
    have : group key k E = [] := by
      rw [group_eq_nil_iff]
      exact fun h => hk ((hx.keys k).mpr h)
    simp [this, hF0]

theorem group_append (key : Input → κ) (k : κ) (a b : List Input) :
    group key k (a ++ b) = group key k a ++ group key k b := by simp [group]

/-- all epochs -/
theorem sumOver_epochs (key : Input → κ) (k : κ) (f : Closed → Nat) (F : List Input → Nat)
    (hF : ∀ l, f (close (foldAll callStrat l)) = F l) (hF0 : F [] = 0)
    (hadd : ∀ a b, F (a ++ b) = F a + F b)
    (Es : List (List Input)) (As : List (List (κ × Accum))) (hl : As.length = Es.length)
    (hx : ∀ p ∈ List.zip Es As, Explains callStrat key p.1 p.2) :
    Spec.sumOver k (As.flatten.map closeP) f = F (group key k Es.flatten) := by
  induction Es generalizing As with
  | nil =>
    cases As with
    | nil => simp [Spec.sumOver, group, hF0]
    | cons a as => simp at hl
  | cons E Es ih =>
    cases As with
    | nil => simp at hl
    | cons A As =>
      simp only [List.length_cons, Nat.add_right_cancel_iff] at hl
      have h1 := sumOver_epoch key E A (hx (E, A) (by simp)) k f F hF hF0
      have h2 := ih As hl (fun p hp => hx p (by simp [hp]))
      simp only [List.flatten_cons, List.map_append, group_append, hadd]
      rw [← h1, ← h2]
      simp [Spec.sumOver, List.filter_append]

end

theorem sum_map_append {β : Type} (f : β → Nat) (a b : List β) :
    ((a ++ b).map f).sum = (a.map f).sum + (b.map f).sum := by simp

/-- **C10, trace predicate.** For every key function and every operation sequence on a keyed
aggregator of the harness struct that ends flushed (nothing held), `Spec.traceOk` accepts the
inputs together with *all* emitted aggregates, closed, in emission order. -/
theorem c10_trace_sound {κ : Type} [DecidableEq κ] (key : Input → κ) (ops : List (Op Input))
    (hflushed : (epochs {} ops).cur = []) :
    Spec.traceOk key (inputsOf ops)
      ((krun callStrat key {} ops).emitted.flatten.map fun p => (p.1, close p.2)) = true := by
  obtain ⟨c1, c2, _⟩ := c10_conservation callStrat key ops
  have hin : inputsOf ops = (epochs {} ops).done.flatten := by
    have := (c10_epochs_partition ops).1
    rw [hflushed] at this
    simpa using this.symm
  have key_total : ∀ (k : κ) (f : Closed → Nat) (F : List Input → Nat),
      (∀ l, f (close (foldAll callStrat l)) = F l) → F [] = 0 → (∀ a b, F (a ++ b) = F a + F b) →
      Spec.sumOver k ((krun callStrat key {} ops).emitted.flatten.map closeP) f = F (group key k (inputsOf ops)) := by
    intro k f F h1 h2 h3
    rw [hin]
    exact sumOver_epochs key k f F h1 h2 h3 _ _ c1 c2
  unfold Spec.traceOk
  rw [List.all_eq_true]
  intro k _
  unfold Spec.keyOk
  have hb := key_total k (·.bytes) (fun l => (l.map (·.bytes)).sum)
    (fun l => by have := (c10_fields l).1; simpa [close] using this) rfl (fun a b => by simp)
  have ho := key_total k (·.opt) (fun l => (l.filterMap (·.opt)).sum)
    (fun l => by have := (c10_fields l).2.2.2.1; simpa [close] using this) rfl (fun a b => by simp)
  have hi := key_total k (·.inner) (fun l => (l.map (·.inner)).sum)
    (fun l => by have := (c10_fields l).2.2.2.2; simpa [close] using this) rfl (fun a b => by simp)
  have hd : ∀ v, Spec.sumOver k ((krun callStrat key {} ops).emitted.flatten.map closeP) (fun c => occ v c.dist)
      = ((group key k (inputsOf ops)).flatMap fun e => expandObs e.obs).count v := by
    intro v
    exact key_total k (fun c => occ v c.dist) (fun l => (l.flatMap fun e => expandObs e.obs).count v)
      (fun l => by
        simp only [close, c10_distribution_counts]
        rw [(c10_fields l).2.2.1]) rfl (fun a b => by simp [List.flatMap_append, List.count_append])
  have hcp : (fun p : κ × Accum => (p.1, close p.2)) = closeP := rfl
  simp only [hcp, Spec.inputsOf, Bool.and_eq_true, beq_iff_eq, List.all_eq_true]
  refine ⟨⟨⟨hb, ho⟩, hi⟩, fun v _ => hd v⟩

/-- non-vacuity: the predicate accepts a conserving trace split over two flushes and rejects one
that lost an observation -/
example :
    (epochs {} [Op.merge exA, .flush, .merge exB, .flush]).cur = [] ∧
    Spec.traceOk (·.key) [exA, exB]
      [(⟨[97], 1⟩, { bytes := 3, last := some 4, dist := [(5, 3)], opt := 0, inner := 7 }),
       (⟨[97], 1⟩, { bytes := 2, last := some 9, dist := [], opt := 4, inner := 1 })] = true ∧
    Spec.traceOk (·.key) [exA, exB]
      [(⟨[97], 1⟩, { bytes := 5, last := some 9, dist := [(5, 2)], opt := 4, inner := 8 })] = false := by
  decide

end Aggregation

#print axioms Aggregation.c10_trace_sound
