import Props.C14
import Props.C02Json
/-!
# C02 — EMF output is always complete, newline-framed, valid JSON records

Model: `Model/Emf.lean` (operational transcription of `emf.rs`, byte for byte), recogniser and
escaping: `Model/Json.lean`, fragment calculus: `Props/C02Json.lean`.
-/
namespace Emf
open Json

theorem finishGlobal_not_validation (c : Consts) (s : State) (dims : List Bytes) (out : Out) :
    ∀ errs, (finishGlobal c s dims out).2.1 ≠ .validation errs := by
  intro errs
  unfold finishGlobal
  simp only
  split <;> simp

theorem finishWrite_not_validation (c : Consts) (s : State) (dims : List Bytes) (ts : Bytes) (out : Out) :
    ∀ errs, (finishWrite c s dims ts out).2.1 ≠ .validation errs := by
  intro errs
  unfold finishWrite
  simp only
  generalize finishDims c ts (s.stringFieldsBuf.pushRaw (bytes! "}\n")).buf s.dimMap out false = r
  obtain ⟨dm, o, any⟩ := r
  simp only
  split
  · simp
  · split
    · exact finishGlobal_not_validation c _ dims o errs
    · simp

/-- **C02: a validation error writes nothing.** Whatever the state, the entry, the multiplicity and
the writer: when the call reports a validation error, not a single byte was handed to the writer. -/
theorem c02_error_writes_nothing (c : Consts) (s : State) (call : Call) (errs : List ErrKind)
    (h : (format c s call).2.1 = .validation errs) : (format c s call).2.2.bytes = [] := by
  unfold format at h ⊢
  split
  · rfl
  · rename_i hb
    simp only [hb, Bool.false_eq_true, ↓reduceIte] at h
    unfold formatWithMultiplicity finish at h ⊢
    simp only at h ⊢
    split
    · rfl
    · rename_i hne
      simp only [hne, ↓reduceIte] at h
      exact absurd h (finishWrite_not_validation c _ _ _ _ errs)

/-- **C02: `rate <= 0` or NaN writes nothing** (and is reported as a validation error, and leaves the
formatter untouched). -/
theorem c02_rate_invalid_writes_nothing (c : Consts) (s : State) (call : Call) (h : call.badRate = true) :
    (format c s call).2.1 = .validation [.badRate] ∧ (format c s call).2.2.bytes = [] ∧
    (format c s call).1 = s := by
  simp [format, h]

/-- **C02 escape lemma.** For every byte string `s`, `json_string(s)` (= `serde_json::to_string`)
is one complete JSON string token — usable as a value and as an object key — and contains no raw
newline: inside it there is no unescaped quote, no raw control byte, and every backslash starts a
valid escape. -/
theorem c02_escape (s : Bytes) : IsVal (jstr s) ∧ IsKey (jstr s) ∧ 10 ∉ jstr s := by
  refine ⟨IsVal.jstr s, IsKey.jstr s, ?_⟩
  obtain ⟨m', hr, -⟩ := IsVal.jstr s [] .val (Or.inl rfl)
  exact run_compact_no_nl hr

end Emf

#print axioms Emf.c02_error_writes_nothing
#print axioms Emf.c02_rate_invalid_writes_nothing
#print axioms Emf.c02_escape
