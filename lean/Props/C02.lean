import Props.C14
import Props.C02e
/-!
# C02 — EMF output is always complete, newline-framed, valid JSON records

Model: `Model/Emf.lean` (operational transcription of `emf.rs`, byte for byte), recogniser and
escaping: `Model/Json.lean`, fragment calculus: `Props/C02Json.lean`.
-/
namespace Emf
open Json

theorem finishGlobal_not_validation (c : Consts) (s : State) (dims : List Bytes) (out : Out) :
    ∀ errs, (finishGlobal c s dims out).2.1 ≠ .validation errs := by
  intro errs
  unfold finishGlobal
  simp only
  split <;> simp

theorem finishWrite_not_validation (c : Consts) (s : State) (dims : List Bytes) (ts : Bytes) (out : Out) :
    ∀ errs, (finishWrite c s dims ts out).2.1 ≠ .validation errs := by
  intro errs
  unfold finishWrite
  simp only
  generalize finishDims c ts (s.stringFieldsBuf.pushRaw (bytes! "}\n")).buf s.dimMap out false = r
  obtain ⟨dm, o, any⟩ := r
  simp only
  split
  · simp
  · split
    · exact finishGlobal_not_validation c _ dims o errs
    · simp

/-- **C02: a validation error writes nothing.** Whatever the state, the entry, the multiplicity and
the writer: when the call reports a validation error, not a single byte was handed to the writer. -/
theorem c02_error_writes_nothing (c : Consts) (s : State) (call : Call) (errs : List ErrKind)
    (h : (format c s call).2.1 = .validation errs) : (format c s call).2.2.bytes = [] := by
  unfold format at h ⊢
  split
  · rfl
  · rename_i hb
    simp only [hb, Bool.false_eq_true, ↓reduceIte] at h
    unfold formatWithMultiplicity finish at h ⊢
    simp only at h ⊢
    split
    · rfl
    · rename_i hne
      simp only [hne] at h
      exact absurd h (finishWrite_not_validation c _ _ _ _ errs)

/-- **C02: `rate <= 0` or NaN writes nothing** (and is reported as a validation error, and leaves the
formatter untouched). -/
theorem c02_rate_invalid_writes_nothing (c : Consts) (s : State) (call : Call) (h : call.badRate = true) :
    (format c s call).2.1 = .validation [.badRate] ∧ (format c s call).2.2.bytes = [] ∧
    (format c s call).1 = s := by
  simp [format, h]

/-- **C02 escape lemma.** For every byte string `s`, `json_string(s)` (= `serde_json::to_string`)
is one complete JSON string token — usable as a value and as an object key — and contains no raw
newline: inside it there is no unescaped quote, no raw control byte, and every backslash starts a
valid escape. -/
theorem c02_escape (s : Bytes) : IsVal (jstr s) ∧ IsKey (jstr s) ∧ 10 ∉ jstr s := by
  refine ⟨IsVal.jstr s, IsKey.jstr s, ?_⟩
  obtain ⟨m', hr, -⟩ := IsVal.jstr s [] .val (Or.inl rfl)
  exact run_compact_no_nl hr

/-- what C02 says about one record line: it is a body followed by exactly one newline; the body has
the EMF shape (an object whose first member `_aws` is an object holding `CloudWatchMetrics`, an array
of directive objects each with `Namespace`, `Dimensions`, `Metrics`, and an integer `Timestamp`);
the body is compact JSON, the whole line is accepted by the strict recogniser, and the body
contains no raw newline. -/
def ValidRecordLine (l : Bytes) : Prop :=
  ∃ body, l = body ++ [10] ∧ AwsShape body ∧ acceptsCompact body = true ∧ accepts l = true ∧ 10 ∉ body

theorem validRecordLine_of_shape {l body : Bytes} (hl : l = body ++ [10]) (h : AwsShape body) :
    ValidRecordLine l := by
  have hc := h.isVal.acceptsCompact
  obtain ⟨ha, hn⟩ := acceptsCompact_line hc
  exact ⟨body, hl, h, hc, hl ▸ ha, hn⟩

theorem lines_valid_unlimited (cfg : Config) {s : State} (hs : Reachable cfg s) (call : Call)
    (hfmt : call.fmtOk = true) (hio : call.ioBudget = none)
    (hok : (format (Consts.ofConfig cfg) s call).2.1 = .ok) :
    ∃ lines, lines ≠ [] ∧ (format (Consts.ofConfig cfg) s call).2.2.bytes = lines.flatten ∧
      ∀ l ∈ lines, ValidRecordLine l := by
  rw [c14_history_independent cfg hs call] at hok ⊢
  unfold format at hok ⊢
  cases hb : call.badRate with
  | true => simp [hb] at hok
  | false =>
    simp only [hb, Bool.false_eq_true, ↓reduceIte] at hok ⊢
    unfold formatWithMultiplicity at hok ⊢
    have hitems : ∀ it ∈ call.items, it.fmtOk = true := by
      simpa [Call.fmtOk, List.all_eq_true] using hfmt
    have hinv := foldl_applyItem_inv call.mult call.items hitems (WInv.start cfg)
    rw [hio] at hok ⊢
    have herr := finish_ok_errors _ _ _ _ hok
    obtain ⟨lines, hne, heq, hl⟩ := finish_spec cfg hinv call.nowMs herr
    refine ⟨lines, hne, by rw [heq], ?_⟩
    intro l hlm
    obtain ⟨body, hb, hshape⟩ := hl l hlm
    exact validRecordLine_of_shape hb hshape

/-- **C02, main theorem.** For every configuration, every formatter state reachable by any history
of calls, every entry (any sequence of writer calls: any names and strings, any observation lists
with NaN / infinities / zero-occurrence / empty distributions in any position, any units,
dimensions, flags, entry configuration), every sampling multiplicity or none, every writer (with
any byte budget), provided every float text is a JSON number (`fmtOk`, the `dtoa` law, checked at
run time): if the call reports success then the bytes written are one or more complete lines, each
of which is a valid record line (`ValidRecordLine`). -/
theorem c02_lines_valid (cfg : Config) {s : State} (hs : Reachable cfg s) (call : Call)
    (hfmt : call.fmtOk = true) (hok : (format (Consts.ofConfig cfg) s call).2.1 = .ok) :
    ∃ lines, lines ≠ [] ∧ (format (Consts.ofConfig cfg) s call).2.2.bytes = lines.flatten ∧
      ∀ l ∈ lines, ValidRecordLine l := by
  obtain ⟨hok', hbytes⟩ := format_ok_unlimited _ s call hok
  rw [hbytes]
  exact lines_valid_unlimited cfg hs { call with ioBudget := none } hfmt rfl hok'

/-- **C02, JSON corollary** (the statement in the words of the property): on success every emitted
line is accepted by the strict JSON recogniser and ends with its only raw newline. -/
theorem c02_lines_parse (cfg : Config) {s : State} (hs : Reachable cfg s) (call : Call)
    (hfmt : call.fmtOk = true) (hok : (format (Consts.ofConfig cfg) s call).2.1 = .ok) :
    ∃ lines, lines ≠ [] ∧ (format (Consts.ofConfig cfg) s call).2.2.bytes = lines.flatten ∧
      ∀ l ∈ lines, accepts l = true ∧ ∃ body, l = body ++ [10] ∧ 10 ∉ body := by
  obtain ⟨lines, hne, heq, hl⟩ := c02_lines_valid cfg hs call hfmt hok
  refine ⟨lines, hne, heq, fun l hlm => ?_⟩
  obtain ⟨body, hb, -, -, ha, hn⟩ := hl l hlm
  exact ⟨ha, body, hb, hn⟩

/-- the `Timestamp` of a record is an integer: `itoa` prints digits only -/
theorem c02_timestamp_integer (ts : Nat) : ∀ x ∈ natDigits ts, isDigit x = true := natDigits_all_digits ts

/-! ### Non-vacuity: an entry with two strings (one needing escapes), a 4-observation distribution with
NaN first and last, one split metric, two namespaces, sampled with multiplicity 2: accepted, two
lines, and the Lean recogniser accepts both (evaluated by the kernel). The same distribution ending
in NaN is the regression witness of the repaired defect (`"Values":[1,]`). -/

example :
    exSplit.fmtOk = true ∧ exSplit.ioBudget = none ∧
    (format (Consts.ofConfig exCfg) (State.fresh exCfg) exSplit).2.1 = .ok := by
  decide +kernel

/-- a distribution whose last observation is NaN: `{"Values":[1],"Counts":[1]}`, no trailing comma -/
example :
    (format (Consts.ofConfig exCfg) (State.fresh exCfg)
      { items := [.timestamp 0, .value (bytes! "Op") (.str []),
          .value (bytes! "M") (.metric [.unsigned 1, .floating none] none [] .none)],
        mult := none, badRate := false, nowMs := 0, ioBudget := none }).2.2.bytes =
    bytes! "{\"_aws\":{\"CloudWatchMetrics\":[{\"Namespace\":\"Ns\",\"Dimensions\":[[\"Op\"]],\"Metrics\":[{\"Name\":\"M\"}]},{\"Namespace\":\"N2\",\"Dimensions\":[[\"Op\"]],\"Metrics\":[{\"Name\":\"M\"}]}],\"Timestamp\":0},\"M\":{\"Values\":[1],\"Counts\":[1]},\"Op\":\"\"}\n" := by
  decide +kernel

end Emf

#print axioms Emf.c02_error_writes_nothing
#print axioms Emf.c02_rate_invalid_writes_nothing
#print axioms Emf.c02_escape
#print axioms Emf.c02_lines_valid
#print axioms Emf.c02_lines_parse
#print axioms Emf.c02_timestamp_integer
