import Props.EmfRefineSplit
/-!
Stage 3 lemmas: `finish` on a writer whose dimension-set map is described abstractly — the bytes of every
split record, in map order, then the no-dimension record unless it is redundant.
-/
namespace EmfRefine
open JsonTree Json EmfSpec

variable {F : Type}

/-- the bytes of the split record of an abstract entry -/
def splitLine (txt : F → List Nat) (c : Emf.Consts) (ed : List (List Nat)) (ts : List Nat) (S : List Nat)
    (a : AEntry F) : List Nat :=
  let X := dimMetricsPrefix c ed a.key ++ printElems (a.decls.map declJson) ++ bytes! "]}"
  (X ++ (c.moreNs.map fun ns => Emf.nsOpen ++ ns ++ X.drop (Emf.awsOpen ++ c.ns0).length).flatten ++ c.logGroupTs ++ ts) ++
  (Emf.dimFieldsPrefix a.key ++ fieldBytes txt a.fields) ++ (S ++ bytes! "}\n")

theorem finishEntryMetrics_eq (txt : F → List Nat) (c : Emf.Consts) (ed : List (List Nat)) (ts : List Nat) (a : AEntry F) :
    (Emf.finishEntryMetrics c ts (conc txt c ed a)).buf =
      let X := dimMetricsPrefix c ed a.key ++ printElems (a.decls.map declJson) ++ bytes! "]}"
      X ++ (c.moreNs.map fun ns => Emf.nsOpen ++ ns ++ X.drop (Emf.awsOpen ++ c.ns0).length).flatten ++ c.logGroupTs ++ ts := by
  unfold Emf.finishEntryMetrics
  simp only [conc]
  have hX : (Emf.PBuf.mk (dimMetricsPrefix c ed a.key).length
        (dimMetricsPrefix c ed a.key ++ printElems (a.decls.map declJson))).pushRaw (bytes! "]}")
      = ⟨(dimMetricsPrefix c ed a.key).length,
          (dimMetricsPrefix c ed a.key ++ printElems (a.decls.map declJson) ++ bytes! "]}") ++ []⟩ := by
    simp [Emf.PBuf.pushRaw]
  have hlen : ((Emf.PBuf.mk (dimMetricsPrefix c ed a.key).length
        (dimMetricsPrefix c ed a.key ++ printElems (a.decls.map declJson))).pushRaw (bytes! "]}")).buf.length
      = (dimMetricsPrefix c ed a.key ++ printElems (a.decls.map declJson) ++ bytes! "]}").length := by
    simp [Emf.PBuf.pushRaw]
  rw [hlen, hX, Emf.replicateNsEntry_spec]
  · simp [Emf.PBuf.pushRaw, List.append_assoc]
  · simp [dimMetricsPrefix]

theorem fieldBytes_nil_iff (txt : F → List Nat) (l : List (Str × MVal F)) : fieldBytes txt l = [] ↔ l = [] := by
  cases l with
  | nil => simp [fieldBytes]
  | cons p rest => simp [fieldBytes]

theorem conc_isEmpty (txt : F → List Nat) (c : Emf.Consts) (ed : List (List Nat)) (a : AEntry F) :
    (conc txt c ed a).fieldsBuf.isEmpty = a.fields.isEmpty := by
  simp only [conc, Emf.PBuf.isEmpty, List.length_append]
  cases h : a.fields with
  | nil => simp [fieldBytes]
  | cons p rest =>
    have : fieldBytes txt (p :: rest) ≠ [] := fun e => by
      have := (fieldBytes_nil_iff txt (p :: rest)).mp e; simp at this
    have hl : 0 < (fieldBytes txt (p :: rest)).length := List.length_pos_iff.mpr this
    simp only [List.isEmpty_cons, beq_eq_false_iff_ne, ne_eq]
    omega

/-- the loop over the dimension-set map, with a writer that never fails -/
theorem finishDims_eq (txt : F → List Nat) (c : Emf.Consts) (ed : List (List Nat)) (ts S : List Nat)
    (ad : List (AEntry F)) (B : List Nat) (any : Bool) :
    (Emf.finishDims c ts (S ++ bytes! "}\n") (ad.map (conc txt c ed)) ⟨none, B, false⟩ any).2 =
      (⟨none, B ++ ((ad.filter fun a => !a.fields.isEmpty).map (splitLine txt c ed ts S)).flatten, false⟩,
       any || ad.any fun a => !a.fields.isEmpty) := by
  induction ad generalizing B any with
  | nil => simp [Emf.finishDims]
  | cons a rest ih =>
    simp only [List.map_cons, Emf.finishDims, conc_isEmpty]
    cases hf : a.fields.isEmpty with
    | true =>
      simp only [if_true, ih, List.filter_cons, hf, Bool.not_true, Bool.false_eq_true, if_false, List.any_cons,
        Bool.false_or]
    | false =>
      have hline : ([(Emf.finishEntryMetrics c ts (conc txt c ed a)).buf, (conc txt c ed a).fieldsBuf.buf,
          S ++ bytes! "}\n"] : List (List Nat)).flatten = splitLine txt c ed ts S a := by
        rw [finishEntryMetrics_eq]
        simp [splitLine, conc, List.append_assoc]
      simp only [Bool.false_eq_true, if_false, Emf.Out.writeAll, hline, ih, List.filter_cons, hf, Bool.not_false,
        if_true, List.map_cons, List.flatten_cons, List.any_cons, Bool.true_or, Bool.or_true, List.append_assoc]

theorem finishGlobal_bytes (ecfg : Emf.Config) (st : Emf.State) (dims : List (List Nat)) (B ts : List Nat)
    {S Fd : List Nat} {Ds : List Decl}
    (hm : st.metricsBuf = ⟨Emf.metricsPrefix.length, Emf.metricsPrefix ++ printElems (Ds.map declJson)⟩)
    (hf : st.fieldsBuf = ⟨1, 125 :: Fd⟩)
    (hsf : st.stringFieldsBuf.buf = S ++ bytes! "}\n")
    (hdecl : st.declBuf.buf = Emf.extraDirectivesStr ecfg.extraDirectives ++ (Emf.Consts.ofConfig ecfg).logGroupTs ++ ts)
    (hdb : st.dimensionsBuf = Emf.PBuf.new (Emf.dimensionsPrefix ecfg)) :
    (Emf.finishGlobal (Emf.Consts.ofConfig ecfg) st dims ⟨none, B, false⟩).2 =
      (.ok, ⟨none, B ++ globalLine ecfg dims (printElems (Ds.map declJson)) ts Fd S, false⟩) := by
  unfold Emf.finishGlobal
  simp only [hdb, new_clear, pushDimensions_eq, if_true, hm, hf, hsf, hdecl]
  have hX : (Emf.PBuf.mk Emf.metricsPrefix.length (Emf.metricsPrefix ++ printElems (Ds.map declJson))).pushRaw (bytes! "]}")
      = ⟨Emf.metricsPrefix.length, (Emf.metricsPrefix ++ printElems (Ds.map declJson) ++ bytes! "]}") ++ []⟩ := by
    simp [Emf.PBuf.pushRaw]
  have hlen : ((Emf.PBuf.mk Emf.metricsPrefix.length (Emf.metricsPrefix ++ printElems (Ds.map declJson))).pushRaw
      (bytes! "]}")).buf.length = (Emf.metricsPrefix ++ printElems (Ds.map declJson) ++ bytes! "]}").length := by
    simp [Emf.PBuf.pushRaw]
  rw [hlen, hX, Emf.replicateNsGlobal_spec, Emf.afterNsIndex_eq]
  have hdrop : ((Emf.PBuf.new (Emf.dimensionsPrefix ecfg)).buf ++ sepBy [44] dims).drop (Emf.awsOpen ++ jstr ecfg.ns0).length
      = Emf.dimensionsAfterNs ++ sepBy [44] dims := by
    have : (Emf.PBuf.new (Emf.dimensionsPrefix ecfg)).buf ++ sepBy [44] dims
        = (Emf.awsOpen ++ jstr ecfg.ns0) ++ (Emf.dimensionsAfterNs ++ sepBy [44] dims) := by
      simp [Emf.PBuf.new, Emf.dimensionsPrefix, List.append_assoc]
    rw [this, List.drop_left]
  simp only [hdrop]
  simp [Emf.Out.writeAll, globalLine, Emf.PBuf.new, List.append_assoc]

/-- `finish` with a writer that never fails: the split records in map order, then the no-dimension record
unless a split record was written and it has no metric member -/
theorem finish_split (txt : F → List Nat) (ecfg : Emf.Config) (w : Emf.Writer) (nowMs : Nat)
    {S Fd : List Nat} {Ds : List Decl} {ad : List (AEntry F)}
    (hS : Shape3 txt (Emf.Consts.ofConfig ecfg) w S Fd Ds ad)
    (hdecl : w.st.declBuf = Emf.PBuf.new (Emf.extraDirectivesStr ecfg.extraDirectives))
    (hdb : w.st.dimensionsBuf = Emf.PBuf.new (Emf.dimensionsPrefix ecfg))
    (herr : Emf.finishErrors (Emf.Consts.ofConfig ecfg) w = []) :
    (Emf.finish (Emf.Consts.ofConfig ecfg) w nowMs ⟨none, [], false⟩).2 =
      (.ok, ⟨none,
        ((ad.filter fun a => !a.fields.isEmpty).map
            (splitLine txt (Emf.Consts.ofConfig ecfg) (w.entryDims.getD (Emf.Consts.ofConfig ecfg).eachDims)
              (natDigits (Emf.timestampMillis w.timestamp nowMs)) S)).flatten ++
          (if (!(ad.any fun a => !a.fields.isEmpty) || !Fd.isEmpty) = true then
            globalLine ecfg (w.entryDims.getD (Emf.Consts.ofConfig ecfg).eachDims)
              (printElems (Ds.map declJson)) (natDigits (Emf.timestampMillis w.timestamp nowMs)) Fd S
           else []), false⟩) := by
  unfold Emf.finish
  simp only [herr, List.isEmpty_nil, Bool.not_true, Bool.false_eq_true, if_false]
  unfold Emf.finishWrite
  have hsf : (w.st.stringFieldsBuf.pushRaw (bytes! "}\n")).buf = S ++ bytes! "}\n" := by
    rw [hS.sf]; rfl
  simp only [hsf, hS.dm]
  have hfd := finishDims_eq txt (Emf.Consts.ofConfig ecfg) (w.entryDims.getD (Emf.Consts.ofConfig ecfg).eachDims)
    (natDigits (Emf.timestampMillis w.timestamp nowMs)) S ad [] false
  generalize Emf.finishDims (Emf.Consts.ofConfig ecfg) (natDigits (Emf.timestampMillis w.timestamp nowMs))
    (S ++ bytes! "}\n") (ad.map (conc txt (Emf.Consts.ofConfig ecfg) (w.entryDims.getD (Emf.Consts.ofConfig ecfg).eachDims)))
    ⟨none, [], false⟩ false = r at hfd
  obtain ⟨dm', out, any⟩ := r
  simp only [Prod.mk.injEq] at hfd
  obtain ⟨hout, hany⟩ := hfd
  subst hout hany
  simp only [Bool.false_eq_true, if_false, Bool.false_or, List.nil_append]
  have hfe : w.st.fieldsBuf.isEmpty = Fd.isEmpty := by
    rw [hS.f]; cases Fd <;> simp [Emf.PBuf.isEmpty]
  simp only [hfe]
  split
  · have := finishGlobal_bytes ecfg
      { w.st with declBuf := (w.st.declBuf.pushRaw (Emf.Consts.ofConfig ecfg).logGroupTs).pushRaw
                    (natDigits (Emf.timestampMillis w.timestamp nowMs)),
                  stringFieldsBuf := w.st.stringFieldsBuf.pushRaw (bytes! "}\n"), dimMap := dm' }
      (w.entryDims.getD (Emf.Consts.ofConfig ecfg).eachDims)
      (((ad.filter fun a => !a.fields.isEmpty).map
            (splitLine txt (Emf.Consts.ofConfig ecfg) (w.entryDims.getD (Emf.Consts.ofConfig ecfg).eachDims)
              (natDigits (Emf.timestampMillis w.timestamp nowMs)) S)).flatten)
      (natDigits (Emf.timestampMillis w.timestamp nowMs)) hS.m hS.f hsf
      (by simp only [hdecl]; simp [Emf.PBuf.new, Emf.PBuf.pushRaw]) hdb
    exact this
  · simp

end EmfRefine
