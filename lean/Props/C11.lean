import Props.C11Lemmas
import Generated.Histogram
/-!
# C11 — histograms conserve observation counts and stay within their stated error

Theorems about `Model/Histogram.lean` (model of `metrique-aggregation/src/histogram.rs` and of the
`histogram` crate's bucket layout), stated about the constants that T-gen regenerates from the Rust
sources (`Generated/Histogram.lean`): if a configuration or the scale constant changes, the first
theorem below stops checking and with it everything that is stated about `aggCfg` / `aggParams`.

Reading of the statements: a value `v ≥ 0` is the rational `num/den`; `record_many` scales it by
`2^scaleShift` and truncates (`n = ⌊2^scaleShift·num/den⌋`, exact for binary64 inputs by
`c11_scale_exact`); the closed histogram reports the bucket midpoint `mid` divided by `2^scaleShift`.
Inequalities between rationals are stated cross-multiplied, over `Nat`.
-/
namespace Histogram
open Generated.Histogram

/-- **T-gen obligation**: the regenerated constants against the hand-written specification
(grouping power 4 = 1/16 relative bucket width, the whole `u64` range, scale `2^10`; the metrics.rs
bridge histogram covers `u32`). -/
theorem c11_generated_constants :
    aggGroupingPower = 4 ∧ aggMaxValuePower = 64 ∧ scaleShift = 10 ∧
      metricsrsGroupingPower = 4 ∧ metricsrsMaxValuePower = 32 := by decide

/-- `default_histogram_config()` -/
def aggCfg : Config := ⟨aggGroupingPower, aggMaxValuePower⟩
/-- the exponential strategies' parameters -/
def aggParams : Params := ⟨aggCfg, scaleShift⟩
/-- `metrique_metricsrs::metrics_histogram::Histogram::default_configuration()` -/
def metricsrsCfg : Config := ⟨metricsrsGroupingPower, metricsrsMaxValuePower⟩

theorem aggCfg_eq : aggCfg = cfg4 64 := by decide
theorem aggParams_eq : aggParams = ⟨cfg4 64, 10⟩ := by decide
theorem metricsrsCfg_eq : metricsrsCfg = cfg4 32 := by decide

/-- **976 / 464 buckets**, as the repository's own tests expect. -/
theorem c11_bucket_counts : aggCfg.totalBuckets = 976 ∧ metricsrsCfg.totalBuckets = 464 := by
  rw [aggCfg_eq, metricsrsCfg_eq, totalBuckets_cfg4 64 (by omega), totalBuckets_cfg4 32 (by omega)]
  omega

/-- **Bucket bounds.** Every `n < 2^64` has a bucket; the bucket contains it
(`lower ≤ n ≤ upper`) and its width is `2^max(0, ⌊log₂ n⌋ − 4)` (`Nat` subtraction truncates at 0). -/
theorem c11_bucket_bounds (n : Nat) (hn : n < 2 ^ 64) :
    ∃ i, i < aggCfg.totalBuckets ∧ aggCfg.valueToIndex n = some i ∧
      aggCfg.lowerBound i ≤ n ∧ n ≤ aggCfg.upperBound i ∧
      aggCfg.upperBound i + 1 - aggCfg.lowerBound i = 2 ^ (n.log2 - 4) := by
  rw [aggCfg_eq]
  obtain ⟨i, h1, h2, h3, h4, h5, -⟩ := bucket_of 64 n (by omega) hn
  exact ⟨i, h1, h2, h3, h4, h5⟩

/-- the same for the `u32` layout of the metrics.rs bridge -/
theorem c11_bucket_bounds_metricsrs (n : Nat) (hn : n < 2 ^ 32) :
    ∃ i, i < metricsrsCfg.totalBuckets ∧ metricsrsCfg.valueToIndex n = some i ∧
      metricsrsCfg.lowerBound i ≤ n ∧ n ≤ metricsrsCfg.upperBound i ∧
      metricsrsCfg.upperBound i + 1 - metricsrsCfg.lowerBound i = 2 ^ (n.log2 - 4) := by
  rw [metricsrsCfg_eq]
  obtain ⟨i, h1, h2, h3, h4, h5, -⟩ := bucket_of 32 n (by omega) hn
  exact ⟨i, h1, h2, h3, h4, h5⟩

/-- **Buckets are disjoint**: a scaled value inside the range of bucket `i` is mapped to `i`. -/
theorem c11_bucket_unique (i m : Nat) (hi : i < aggCfg.totalBuckets)
    (hlo : aggCfg.lowerBound i ≤ m) (hhi : m ≤ aggCfg.upperBound i) : aggCfg.valueToIndex m = some i := by
  rw [aggCfg_eq] at *
  rw [totalBuckets_cfg4 64 (by omega)] at hi
  have := bucket_unique 64 (i / 16) (i % 16) m (by omega) (by omega) (by omega)
  rw [show 16 * (i / 16) + i % 16 = i by omega] at this
  exact this hlo hhi

/-- **Relative error ≤ 6.25 %.** For every value `v = num/den` whose scaled truncation
`n = ⌊2^scaleShift · v⌋` is at least 32 (i.e. `v ≥ 1/32`) and fits `u64`, the reported value
`mid / 2^scaleShift` satisfies `|mid/2^scaleShift − v| ≤ v/16`, i.e.
`16·mid·den ≤ 17·2^scaleShift·num` and `15·2^scaleShift·num ≤ 16·mid·den`. -/
theorem c11_rel_error (num den : Nat) (hden : 0 < den)
    (hfit : 2 ^ scaleShift * num / den < 2 ^ 64) (h32 : 32 ≤ 2 ^ scaleShift * num / den) :
    ∃ i, aggCfg.valueToIndex (2 ^ scaleShift * num / den) = some i ∧
      16 * (aggCfg.midpoint i * den) ≤ 17 * (2 ^ scaleShift * num) ∧
      15 * (2 ^ scaleShift * num) ≤ 16 * (aggCfg.midpoint i * den) := by
  rw [aggCfg_eq]
  exact rel_error 64 (2 ^ scaleShift * num) den (by omega) hden hfit h32

/-- **Absolute error < 1/1024 below 1/32.** If `n = ⌊2^scaleShift · v⌋ < 32` the value is reported
as `n / 2^scaleShift`: `n·den ≤ 2^scaleShift·num < n·den + den`, i.e. `0 ≤ v − n/2^scaleShift < 2^−scaleShift`
(and `scaleShift = 10` by `c11_generated_constants`). -/
theorem c11_abs_error_small (num den : Nat) (hden : 0 < den) (h32 : 2 ^ scaleShift * num / den < 32) :
    aggCfg.valueToIndex (2 ^ scaleShift * num / den) = some (2 ^ scaleShift * num / den) ∧
      aggCfg.midpoint (2 ^ scaleShift * num / den) = 2 ^ scaleShift * num / den ∧
      2 ^ scaleShift * num / den * den ≤ 2 ^ scaleShift * num ∧
      2 ^ scaleShift * num < 2 ^ scaleShift * num / den * den + den := by
  rw [aggCfg_eq]
  obtain ⟨h1, ⟨-, h2⟩, h3, h4⟩ := abs_error 64 (2 ^ scaleShift * num) den hden h32
  exact ⟨h1, h2 (by omega), h3, h4⟩

/-- **The scaling is exact on binary64.** For a non-NaN, non-negative bit pattern the integer handed
to the bucket layout is `min ⌊2^scaleShift · v⌋ (2^64 − 1)` where `v = f64Num/f64Den` is the exact value
of the bit pattern — so `c11_rel_error` / `c11_abs_error_small` apply to what `record_many` does with
`num = f64Num bits`, `den = f64Den bits`. -/
theorem c11_scale_exact (bits : Nat) (hnan : f64IsNaN bits = false) (hsign : f64Sign bits ≠ 1) :
    scaleFloorPow scaleShift bits = Nat.min (2 ^ scaleShift * f64Num bits / f64Den bits) u64Max ∧
      0 < f64Den bits :=
  ⟨scaleFloor_exact scaleShift bits hnan hsign, f64Den_pos bits⟩

/-- **Count conservation (sequential).** For any sequence of `record_many` calls — any bit patterns,
NaN and infinities included, any counts — whose counts total less than `2^64`, the closed histogram's
occurrences add up to the number of recorded observations, and every reported row has a positive
count. -/
theorem c11_count_conserved (recs : List (Nat × Nat)) (h : countSum recs < 2 ^ 64) :
    ((drainMid aggParams (recordAll aggParams (emptyBuckets aggCfg) recs)).map (·.2)).sum = countSum recs ∧
      ∀ r ∈ drainMid aggParams (recordAll aggParams (emptyBuckets aggCfg) recs), 0 < r.2 := by
  rw [aggParams_eq, aggCfg_eq]
  have hlen : (emptyBuckets (cfg4 64)).length = (cfg4 64).totalBuckets := by simp [emptyBuckets]
  have hsum : (emptyBuckets (cfg4 64)).sum = 0 := by simp [emptyBuckets]
  obtain ⟨h1, -⟩ := recordAll_sum64 10 recs (emptyBuckets (cfg4 64)) hlen (by omega)
  constructor
  · simp only [drainMid, nonEmpty, List.map_map]
    have : ((fun x : Nat × Nat => x.2) ∘ fun x : Nat × Nat => ((cfg4 64).midpoint x.1, x.2)) = (·.2) := rfl
    rw [this, nonEmptyFrom_sum, h1, hsum, Nat.zero_add]
  · intro r hr
    simp only [drainMid, nonEmpty, List.mem_map] at hr
    obtain ⟨e, he, rfl⟩ := hr
    exact nonEmptyFrom_pos _ _ e he

/-- **Count conservation under concurrency.** Start from the empty atomic histogram and let any
interleaving happen of `fetch_add`s (recorders), drains starting, and drains swapping their next
bucket. Then at every moment and for every bucket `i`: what is still in the shared bucket plus what
the drains have taken out of it is exactly what was added to it — every recorded unit is in exactly
one place (provided the bucket's total stays below `2^64`). -/
theorem c11_concurrent_conserved (evs : List Ev) (i : Nat) (hi : i < aggCfg.totalBuckets)
    (h : addsTo i evs < 2 ^ 64) :
    credit (AState.run ⟨emptyBuckets aggCfg, []⟩ evs) i = addsTo i evs := by
  have hc : credit ⟨emptyBuckets aggCfg, []⟩ i = 0 := by
    simp only [credit, emptyBuckets, List.map_nil, List.sum_nil, Nat.add_zero]
    rw [List.getD_eq_getElem?_getD]
    simp [hi]
  have := run_credit evs ⟨emptyBuckets aggCfg, []⟩ i (by simpa [emptyBuckets] using hi) (by omega)
  omega

/-- **Atomic ≡ non-atomic** holds by construction in the model (both use `recordAll`/`drainMid`); the
correspondence runs both variants of the implementation on every case. -/
theorem c11_atomic_same (p : Params) (recs : List (Nat × Nat)) :
    Exec.closeAfter p .atomic recs = Exec.closeAfter p .exp recs := rfl

/-- **Re-aggregation fixed point (one bucket)**: the midpoint of every bucket lies in that bucket. -/
theorem c11_midpoint_index (i : Nat) (hi : i < aggCfg.totalBuckets) :
    aggCfg.valueToIndex (aggCfg.midpoint i) = some i := by
  rw [aggCfg_eq] at *
  exact midpoint_index 64 i (by omega) hi

/-- **Re-aggregation fixed point (whole histogram)**: recording, for every non-empty bucket of a
histogram, `count` observations at the bucket's midpoint into an empty histogram reproduces the
histogram exactly — same buckets, same counts, hence the same drained `(midpoint, count)` rows.
(Integer level; the floating-point step `total / occurrences` returns the midpoint exactly while
`midpoint · count < 2^53`, see `notes/C11.md`.) -/
theorem c11_reaggregate_fixed (bs : List Nat) (hlen : bs.length = aggCfg.totalBuckets)
    (hb : ∀ b ∈ bs, b < 2 ^ 64) :
    readdAll aggCfg (emptyBuckets aggCfg) (nonEmpty bs) = bs ∧
      drainMid aggParams (readdAll aggCfg (emptyBuckets aggCfg) (nonEmpty bs)) = drainMid aggParams bs := by
  have key : readdAll aggCfg (emptyBuckets aggCfg) (nonEmpty bs) = bs := by
    rw [aggCfg_eq] at *
    have := readdAll_nonEmptyFrom 64 (by omega) bs [] (by simpa using hlen) hb
    simpa [emptyBuckets, nonEmpty, hlen] using this
  exact ⟨key, by rw [key]⟩

theorem samRecordAll_count (k : Option Int) (recs : List (Nat × Nat)) (vals : List Nat) :
    valsCount k (samRecordAll vals recs) =
      valsCount k vals + ((recs.filter fun r => samKey r.1 == k).map (·.2)).sum := by
  induction recs generalizing vals with
  | nil => simp [samRecordAll]
  | cons r recs ih =>
    obtain ⟨v, n⟩ := r
    simp only [samRecordAll, ih, samRecordMany, valsCount_append, valsCount_replicate, List.filter_cons]
    by_cases hk : samKey v = k
    · simp [hk]; omega
    · simp [hk]

/-- **Sort-and-merge is exact.** After any sequence of `record_many` calls the drained rows are
strictly ascending in `OrderedFloat`'s order (so pairwise distinct), contain no NaN, have positive
counts, and for every non-NaN value the occurrences reported for it are exactly the sum of the counts
it was recorded with — equal values merged, nothing else changed. (The reported `total` is the
binary64 product `value · count`, computed in the executable twin and compared with the code.) -/
theorem c11_sort_merge (recs : List (Nat × Nat)) :
    (samDrain (samRecordAll [] recs)).Pairwise (fun a b => samLt a.1 b.1) ∧
      (∀ r ∈ samDrain (samRecordAll [] recs), f64IsNaN r.1 = false ∧ 0 < r.2) ∧
      (∀ x : Int, rowsCount (some x) (samDrain (samRecordAll [] recs)) =
        ((recs.filter fun r => samKey r.1 == some x).map (·.2)).sum) := by
  obtain ⟨h1, h2, h3⟩ := sam_drain_spec (samRecordAll [] recs)
  refine ⟨h1, fun r hr => ⟨(h2 r hr).1, (h2 r hr).2.1⟩, fun x => ?_⟩
  rw [h3 x, samRecordAll_count]
  simp [valsCount]

/-- **Count conservation over `add_value` calls.** Any sequence of `add_value` calls, each of whose
values writes *any list* of observations in one `metric()` call — `Unsigned`, `Floating`, `Repeated`
in any mix and order, empty repeats (`occurrences = 0`) at any position, any bit patterns — whatever the
two float conversions return: the closed histogram's occurrences add up to the number of observations
the list stands for (`Repeated{_, n}` counts `n`), provided that number is below `2^64`. In particular
an empty repeat costs nothing and hides nothing that follows it. -/
theorem c11_add_value_conserved (ops : CaptureOps) (calls : List (List Obs))
    (h : (calls.flatten.map Obs.count).sum < 2 ^ 64) :
    ((drainMid aggParams (addValues ops aggParams (emptyBuckets aggCfg) calls)).map (·.2)).sum
      = (calls.flatten.map Obs.count).sum := by
  rw [addValues_eq, ← countSum_flatMap_captureAll ops calls]
  exact (c11_count_conserved _ (by rw [countSum_flatMap_captureAll]; exact h)).1

/-- **Sort-and-merge over `add_value` calls**: as `c11_sort_merge`, for observation lists: the rows are
strictly ascending, NaN-free, positive, and for every non-NaN value the reported occurrences are the
sum of the counts of all captured observations of that value, in every call and at every position. -/
theorem c11_add_value_sort_merge (ops : CaptureOps) (calls : List (List Obs)) :
    (samDrain (samAddValues ops [] calls)).Pairwise (fun a b => samLt a.1 b.1) ∧
      (∀ r ∈ samDrain (samAddValues ops [] calls), f64IsNaN r.1 = false ∧ 0 < r.2) ∧
      (∀ x : Int, rowsCount (some x) (samDrain (samAddValues ops [] calls)) =
        (((calls.flatMap (captureAll ops)).filter fun r => samKey r.1 == some x).map (·.2)).sum) := by
  rw [samAddValues_eq]
  exact c11_sort_merge _

/-- a single call: the capturer's loop records exactly the captured observations in order
(`addValue` is the fold of the one-observation step) -/
theorem c11_add_value_is_fold (ops : CaptureOps) (bs : List Nat) (obs : List Obs) :
    addValue ops aggParams bs obs = recordAll aggParams bs (captureAll ops obs) :=
  addValue_eq ops aggParams bs obs

/-! ## Non-vacuity: concrete inputs meeting the hypotheses -/

-- bucket of the scaled value 1000 (0.9765625): index 111, range 992..1023, midpoint 1007
example : aggCfg.valueToIndex 1000 = some 111 ∧ aggCfg.lowerBound 111 = 992 ∧ aggCfg.upperBound 111 = 1023 ∧
    aggCfg.midpoint 111 = 1007 := by decide +kernel

-- the last bucket ends at u64::MAX and contains its own midpoint
example : aggCfg.upperBound 975 = 2 ^ 64 - 1 ∧ aggCfg.valueToIndex (aggCfg.midpoint 975) = some 975 := by
  decide +kernel

-- 1.5 = 0x3ff8000000000000 scales to 1536; 5 observations of it and 2 of 0.001 (scaled 1) are conserved
example : scaleFloorPow scaleShift 0x3ff8000000000000 = 1536 ∧
    drainMid aggParams (recordAll aggParams (emptyBuckets aggCfg)
      [(0x3ff8000000000000, 5), (0x3f50624dd2f1a9fc, 2)]) = [(1, 2), (1567, 5)] := by decide +kernel

-- an interleaving: two recorders and a drain that overlaps them; bucket 3 received 7 units: 4 in the
-- drain's snapshot, 3 still in the shared array
example : credit (AState.run ⟨emptyBuckets aggCfg, []⟩
      [.add 3 4, .start, .swap 0, .swap 0, .swap 0, .swap 0, .add 3 3, .swap 0]) 3 = 7 ∧
    addsTo 3 [.add 3 4, .start, .swap 0, .swap 0, .swap 0, .swap 0, .add 3 3, .swap 0] = 7 := by
  decide +kernel

-- sort-and-merge: the order puts -0.0 = +0.0 < 1.0 < 2.0 < NaN, and the merge loop turns the sorted,
-- NaN-free list -0.0, +0.0, 1.0, 2.0, 2.0 into (-0.0, 2), (1.0, 1), (2.0, 2)
example : samLt 0 0x3ff0000000000000 ∧ samLt 0x3ff0000000000000 0x4000000000000000 ∧
    samLe 0x4000000000000000 0x7ff8000000000000 = true ∧ samKey 0x8000000000000000 = samKey 0 ∧
    groupRuns [0x8000000000000000, 0, 0x3ff0000000000000, 0x4000000000000000, 0x4000000000000000]
      = [(0x8000000000000000, 2), (0x3ff0000000000000, 1), (0x4000000000000000, 2)] := by
  refine ⟨⟨by decide +kernel, by decide +kernel⟩, ⟨by decide +kernel, by decide +kernel⟩, by decide +kernel,
    by decide +kernel, by decide +kernel⟩

-- one `add_value` call writing [Unsigned 5, Repeated{0, 0}, Unsigned 7, Repeated{_, 3}] (conversions
-- stubbed: `5 as f64` ↦ bits of 5.0 …): the real loop conserves all 5 observations; the early-return
-- variant (an empty repeat `return`s instead of being skipped) keeps only the first one
example :
    let ops : CaptureOps := ⟨fun v => if v = 5 then 0x4014000000000000 else 0x401c000000000000, fun _ _ => 0x3ff0000000000000⟩
    let call : List Obs := [.unsigned 5, .repeated 0 0, .unsigned 7, .repeated 0x4008000000000000 3]
    ((drainMid aggParams (addValue ops aggParams (emptyBuckets aggCfg) call)).map (·.2)).sum = 5 ∧
    (call.map Obs.count).sum = 5 ∧
    ((drainMid aggParams (addValueEarlyReturn ops aggParams (emptyBuckets aggCfg) call)).map (·.2)).sum = 1 := by
  decide +kernel

end Histogram

#print axioms Histogram.c11_generated_constants
#print axioms Histogram.c11_bucket_counts
#print axioms Histogram.c11_bucket_bounds
#print axioms Histogram.c11_bucket_bounds_metricsrs
#print axioms Histogram.c11_bucket_unique
#print axioms Histogram.c11_rel_error
#print axioms Histogram.c11_abs_error_small
#print axioms Histogram.c11_scale_exact
#print axioms Histogram.c11_count_conserved
#print axioms Histogram.c11_concurrent_conserved
#print axioms Histogram.c11_atomic_same
#print axioms Histogram.c11_midpoint_index
#print axioms Histogram.c11_reaggregate_fixed
#print axioms Histogram.c11_sort_merge
#print axioms Histogram.c11_add_value_conserved
#print axioms Histogram.c11_add_value_sort_merge
#print axioms Histogram.c11_add_value_is_fold
