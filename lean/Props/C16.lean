import Model.Vectored
/-!
# C16 — partial writes and I/O errors never tear, duplicate or omit bytes

Theorems about `Vectored.writeAllVectored` (model of `buf.rs::write_all_vectored` +
`advance_slices`), for every list of buffers and every writer script (unbounded).
The sink-level half of C16 (errors are local to one entry) is in `Props/C16Sink.lean`.
-/
namespace Vectored

theorem advance_some {sl : List Bytes} {n : Nat} {sl' : List Bytes} (h : advance sl n = some sl') :
    sl'.flatten = sl.flatten.drop n ∧ n ≤ sl.flatten.length := by
  induction sl generalizing n with
  | nil => cases n <;> simp_all [advance]
  | cons f r ih =>
    unfold advance at h
    split at h
    · rename_i hle
      have := ih h
      simp only [List.flatten_cons, List.length_append]
      refine ⟨?_, by omega⟩
      rw [this.1, List.drop_append]
      simp [List.drop_eq_nil_of_le hle]
    · rename_i hgt
      cases h
      simp only [List.flatten_cons, List.length_append]
      refine ⟨?_, by omega⟩
      rw [List.drop_append]
      have : n - f.length = 0 := by omega
      simp [this]

theorem advance_none {sl : List Bytes} {n : Nat} (h : advance sl n = none) :
    sl.flatten.length < n := by
  induction sl generalizing n with
  | nil => cases n <;> simp_all [advance]
  | cons f r ih =>
    unfold advance at h
    split at h
    · have := ih h; simp only [List.flatten_cons, List.length_append]; omega
    · cases h

/-- After `advance`, the first remaining slice is never empty: `write_vectored` is never offered a
leading empty slice, hence never a zero-length write. -/
theorem advance_head_nonempty {sl : List Bytes} {n : Nat} {f : Bytes} {r : List Bytes}
    (h : advance sl n = some (f :: r)) : f ≠ [] := by
  induction sl generalizing n with
  | nil => cases n <;> simp_all [advance]
  | cons g r' ih =>
    unfold advance at h
    split at h
    · exact ih h
    · rename_i hgt
      cases h
      intro hnil
      have := congrArg List.length hnil
      simp at this; omega

/-- Well-formed slice list: its head (if any) is non-empty. -/
def HeadNonempty : List Bytes → Prop
  | [] => True
  | f :: _ => f ≠ []

theorem advance_headNonempty {sl : List Bytes} {n : Nat} {sl' : List Bytes}
    (h : advance sl n = some sl') : HeadNonempty sl' := by
  cases sl' with
  | nil => trivial
  | cons f r => exact advance_head_nonempty h

theorem headNonempty_flatten_pos {sl : List Bytes} (h : HeadNonempty sl) (hne : sl ≠ []) :
    0 < sl.flatten.length := by
  cases sl with
  | nil => exact absurd rfl hne
  | cons f r =>
    simp only [List.flatten_cons, List.length_append]
    have : 0 < f.length := List.length_pos_iff.mpr h
    omega

/-- Main loop lemma: whatever the script, the accepted bytes are the initial accumulator followed
by a prefix of what remained; the outcome is `ok` exactly when that prefix is everything; a panic
happens only if the writer claims more than it was offered. -/
theorem loop_spec (script : List Resp) (sl : List Bytes) (acc : Bytes) (calls : Nat)
    (off : List (List Bytes)) (hw : HeadNonempty sl) :
    ∃ k, k ≤ sl.flatten.length ∧
      (loop script sl acc calls off).accepted = acc ++ sl.flatten.take k ∧
      ((loop script sl acc calls off).outcome = .ok → k = sl.flatten.length) ∧
      ((loop script sl acc calls off).outcome ≠ .ok → (loop script sl acc calls off).outcome ≠ .panic →
        k < sl.flatten.length) := by
  induction script generalizing sl acc calls off with
  | nil =>
    cases sl with
    | nil => exact ⟨0, by simp [loop]⟩
    | cons s ss =>
      have hpos := headNonempty_flatten_pos hw (by simp)
      exact ⟨0, by omega, by simp only [loop]; simp, by simp only [loop]; simp,
        by simp only [loop]; intros; exact hpos⟩
  | cons r script ih =>
    cases sl with
    | nil => exact ⟨0, by simp [loop]⟩
    | cons s ss =>
      have hpos := headNonempty_flatten_pos hw (by simp)
      cases r with
      | ok n =>
        cases n with
        | zero =>
          exact ⟨0, by omega, by simp only [loop]; simp, by simp only [loop]; simp,
            by simp only [loop]; intros; exact hpos⟩
        | succ n =>
          simp only [loop]
          split
          · exact ⟨(s :: ss).flatten.length, Nat.le_refl _, by rw [List.take_length],
              fun _ => rfl, fun _ h => absurd rfl h⟩
          · rename_i sl' hsome
            obtain ⟨hfl, hle⟩ := advance_some hsome
            obtain ⟨k, hk, hacc, hok, hnok⟩ := ih sl' (acc ++ (s :: ss).flatten.take (n + 1)) (calls + 1)
              (off ++ [s :: ss]) (advance_headNonempty hsome)
            refine ⟨n + 1 + k, ?_, ?_, ?_, ?_⟩
            · rw [hfl, List.length_drop] at hk; omega
            · rw [hacc, hfl, List.append_assoc, ← List.take_add]
            · intro h; have := hok h; rw [hfl, List.length_drop] at this; omega
            · intro h1 h2; have := hnok h1 h2; rw [hfl, List.length_drop] at this; omega
      | interrupted =>
        simp only [loop]
        exact ih (s :: ss) acc (calls + 1) (off ++ [s :: ss]) hw
      | err =>
        exact ⟨0, by omega, by simp only [loop]; simp, by simp only [loop]; simp,
          by simp only [loop]; intros; exact hpos⟩

theorem advance_zero (sl : List Bytes) : ∃ sl', advance sl 0 = some sl' := by
  cases h : advance sl 0 with
  | some sl' => exact ⟨sl', rfl⟩
  | none => have := advance_none h; omega

/-- **C16 (byte level), full strength.** For every list of buffers and every behaviour of the
underlying writer: the bytes the writer accepted are a prefix `take k` of the concatenation of the
buffers (nothing duplicated, omitted or reordered); the call returns `Ok` only if the writer
accepted everything; and if it returns an error (`WriteZero`, the writer's hard error — or the
script ended) then strictly less than everything was accepted, so an `Err` never hides a complete
record. `panic` can only arise from a writer that claims to have written more than it was given. -/
theorem c16_prefix (bufs : List Bytes) (script : List Resp) :
    ∃ k, k ≤ bufs.flatten.length ∧
      (writeAllVectored bufs script).accepted = bufs.flatten.take k ∧
      ((writeAllVectored bufs script).outcome = .ok → k = bufs.flatten.length) ∧
      ((writeAllVectored bufs script).outcome ≠ .ok →
        (writeAllVectored bufs script).outcome ≠ .panic → k < bufs.flatten.length) := by
  obtain ⟨sl', h⟩ := advance_zero bufs
  obtain ⟨hfl, -⟩ := advance_some h
  simp only [List.drop_zero] at hfl
  obtain ⟨k, hk, hacc, hok, hnok⟩ := loop_spec script sl' [] 0 [] (advance_headNonempty h)
  refine ⟨k, hfl ▸ hk, ?_, ?_, ?_⟩
  · simp only [writeAllVectored, h]; rw [hacc, hfl]; rfl
  · simp only [writeAllVectored, h]; rw [← hfl]; exact hok
  · simp only [writeAllVectored, h]; rw [← hfl]; exact hnok

/-- Corollary: success means exactly the record's bytes were accepted. -/
theorem c16_ok_all (bufs : List Bytes) (script : List Resp)
    (h : (writeAllVectored bufs script).outcome = .ok) :
    (writeAllVectored bufs script).accepted = bufs.flatten := by
  obtain ⟨k, _, hacc, hok, _⟩ := c16_prefix bufs script
  rw [hacc, hok h, List.take_length]

theorem loop_offered (script : List Resp) (sl : List Bytes) (acc : Bytes) (calls : Nat)
    (off : List (List Bytes)) (hw : HeadNonempty sl)
    (hoff : ∀ o ∈ off, o ≠ [] ∧ HeadNonempty o) :
    ∀ o ∈ (loop script sl acc calls off).offered, o ≠ [] ∧ HeadNonempty o := by
  induction script generalizing sl acc calls off with
  | nil => cases sl <;> simpa [loop] using hoff
  | cons r script ih =>
    cases sl with
    | nil => simpa [loop] using hoff
    | cons s ss =>
      have hoff' : ∀ o ∈ off ++ [s :: ss], o ≠ [] ∧ HeadNonempty o := by
        intro o ho
        rcases List.mem_append.mp ho with h | h
        · exact hoff o h
        · simp only [List.mem_singleton] at h; subst h; exact ⟨by simp, hw⟩
      cases r with
      | ok n =>
        cases n with
        | zero => simpa only [loop] using hoff'
        | succ n =>
          simp only [loop]
          split
          · exact hoff'
          · rename_i sl' hsome
            exact ih sl' _ _ _ (advance_headNonempty hsome) hoff'
      | interrupted => simp only [loop]; exact ih (s :: ss) _ _ _ hw hoff'
      | err => simpa only [loop] using hoff'

/-- **C16: no zero-length writes.** Every `write_vectored` call is offered a non-empty list of
slices whose first slice is non-empty (so `Ok(0)` from the writer really means "write zero"). -/
theorem c16_never_offers_empty (bufs : List Bytes) (script : List Resp) :
    ∀ o ∈ (writeAllVectored bufs script).offered, o ≠ [] ∧ HeadNonempty o := by
  obtain ⟨sl', h⟩ := advance_zero bufs
  simp only [writeAllVectored, h]
  exact loop_offered script sl' [] 0 [] (advance_headNonempty h) (by simp)

theorem loop_interrupted_irrelevant (script : List Resp) (sl : List Bytes) (acc : Bytes)
    (c1 c2 : Nat) (o1 o2 : List (List Bytes)) :
    (loop (script.filter (· ≠ .interrupted)) sl acc c1 o1).accepted = (loop script sl acc c2 o2).accepted ∧
    (loop (script.filter (· ≠ .interrupted)) sl acc c1 o1).outcome = (loop script sl acc c2 o2).outcome := by
  induction script generalizing sl acc c1 c2 o1 o2 with
  | nil => cases sl <;> simp [loop]
  | cons r script ih =>
    cases sl with
    | nil => cases r <;> simp [loop, List.filter_cons] <;> (try split) <;> simp [loop]
    | cons s ss =>
      cases r with
      | ok n =>
        cases n with
        | zero => simp [loop, List.filter_cons]
        | succ n =>
          simp only [List.filter_cons, ne_eq, reduceCtorEq, not_false_eq_true, decide_true, ite_true, loop]
          split
          · simp
          · exact ih _ _ _ _ _ _
      | interrupted =>
        simp only [List.filter_cons, ne_eq, not_true_eq_false, decide_false, loop]
        exact ih _ _ _ _ _ _
      | err => simp [loop, List.filter_cons]

/-- **C16: `Interrupted` is retried without effect.** Deleting every `Interrupted` response from the
writer's script changes neither the accepted bytes nor the result. -/
theorem c16_interrupted_transparent (bufs : List Bytes) (script : List Resp) :
    (writeAllVectored bufs (script.filter (· ≠ .interrupted))).accepted = (writeAllVectored bufs script).accepted ∧
    (writeAllVectored bufs (script.filter (· ≠ .interrupted))).outcome = (writeAllVectored bufs script).outcome := by
  obtain ⟨sl', h⟩ := advance_zero bufs
  simp only [writeAllVectored, h]
  exact loop_interrupted_irrelevant script sl' [] 0 0 [] []

/-- Non-vacuity: a 3-buffer record (one empty), a writer that accepts 2 bytes, is interrupted,
accepts 3, then fails: 5 of 8 bytes accepted, error surfaced, two non-trivial partial writes. -/
example : (writeAllVectored [[0, 1, 2], [], [3, 4, 5, 6, 7]] [.ok 2, .interrupted, .ok 3, .err]).accepted
      = [0, 1, 2, 3, 4] ∧
    (writeAllVectored [[0, 1, 2], [], [3, 4, 5, 6, 7]] [.ok 2, .interrupted, .ok 3, .err]).outcome = .ioErr := by
  decide

end Vectored

#print axioms Vectored.c16_prefix
#print axioms Vectored.c16_ok_all
#print axioms Vectored.c16_never_offers_empty
#print axioms Vectored.c16_interrupted_transparent
