import Model.EmfSpec
/-!
Helper lemmas for `Props/C08.lean`: monotonicity of the error list, the parts of the validation
state that do not depend on the switches, and the lock-step simulation between a validating and a
non-validating run.
-/
namespace EmfSpec

variable {F : Type}

/-- the parts of the state that are independent of the name map -/
structure Frame where
  tsSeen : Bool
  dimsSet : Bool
  split : Bool
  unroutable : Bool
  keys : List Key
  deriving DecidableEq

def VState.frame (st : VState) : Frame := ⟨st.tsSeen, st.dimsSet, st.split, st.unroutable, st.keys⟩

@[simp] theorem err_frame (st : VState) (x : Err) : (st.err x).frame = st.frame := rfl
@[simp] theorem err_errs (st : VState) (x : Err) : (st.err x).errs = st.errs ++ [x] := rfl
@[simp] theorem err_vmap (st : VState) (x : Err) : (st.err x).vmap = st.vmap := rfl
@[simp] theorem err_keys (st : VState) (x : Err) : (st.err x).keys = st.keys := rfl
@[simp] theorem err_split (st : VState) (x : Err) : (st.err x).split = st.split := rfl
@[simp] theorem err_tsSeen (st : VState) (x : Err) : (st.err x).tsSeen = st.tsSeen := rfl
@[simp] theorem err_dimsSet (st : VState) (x : Err) : (st.err x).dimsSet = st.dimsSet := rfl
@[simp] theorem err_unroutable (st : VState) (x : Err) : (st.err x).unroutable = st.unroutable := rfl

theorem dimsStep_frame (sw : Switches) (st : VState) (d : Str) :
    (dimsStep sw st d).frame = st.frame ∧ ∃ l, (dimsStep sw st d).errs = st.errs ++ l := by
  unfold dimsStep
  split
  · split
    · exact ⟨rfl, [], by simp⟩
    · exact ⟨rfl, _, rfl⟩
  · exact ⟨rfl, [], by simp⟩
  · exact ⟨rfl, [], by simp⟩

theorem foldl_dimsStep_frame (sw : Switches) (ds : List Str) (st : VState) :
    (ds.foldl (dimsStep sw) st).frame = st.frame ∧ ∃ l, (ds.foldl (dimsStep sw) st).errs = st.errs ++ l := by
  induction ds generalizing st with
  | nil => exact ⟨rfl, [], by simp⟩
  | cons d ds ih =>
    obtain ⟨h1, l1, h2⟩ := dimsStep_frame sw st d
    obtain ⟨h3, l2, h4⟩ := ih (dimsStep sw st d)
    simp only [List.foldl_cons]
    exact ⟨h3.trans h1, l1 ++ l2, by rw [h4, h2, List.append_assoc]⟩

theorem stepString_frame (sw : Switches) (st : VState) (n : Str) :
    (stepString sw st n).frame = st.frame ∧ ∃ l, (stepString sw st n).errs = st.errs ++ l := by
  unfold stepString
  split
  · exact ⟨rfl, [], by simp⟩
  · split
    · exact ⟨rfl, [], by simp⟩
    · exact ⟨rfl, _, rfl⟩
    · exact ⟨rfl, [], by simp⟩

/-- the routing part of `stepMetric`: the state after the per-metric-dimension check and the
insertion of the dimension set, and the index of the set -/
def routeStep (cfg : Config) (st : VState) (name : Str) (m : Metric F) : VState × Nat :=
  let isGlobal := cfg.allowIgnored || m.dims.isEmpty
  let st := if !isGlobal && !st.split then st.err (.perMetricDims name) else st
  let key := sortKey m.dims
  if isGlobal then (st, 0)
  else if key ∈ st.keys then (st, indexOfKey key st.keys + 1)
  else ({ st with keys := st.keys ++ [key] }, st.keys.length + 1)

/-- the name-map part of `stepMetric` -/
def mapStep (sw : Switches) (st : VState) (name : Str) (index : Nat) : VState :=
  if sw.skipUnique || st.unroutable then st else
  match st.vmap.get name with
  | none => { st with vmap := st.vmap.set name (.metric [index]) }
  | some .unfound => st.err (.metricInDimension name)
  | some (.metric idxs) =>
    if index ∈ idxs then st.err (.duplicate name)
    else { st with vmap := st.vmap.set name (.metric (index :: idxs)) }
  | some .string => st.err (.duplicate name)

theorem stepMetric_eq (cfg : Config) (sw : Switches) (st : VState) (name : Str) (m : Metric F) :
    stepMetric cfg sw st name m = mapStep sw (routeStep cfg st name m).1 name (routeStep cfg st name m).2 := by
  unfold stepMetric routeStep mapStep
  simp only
  split <;> rfl

theorem mapStep_frame (sw : Switches) (st : VState) (n : Str) (i : Nat) :
    (mapStep sw st n i).frame = st.frame ∧ ∃ l, (mapStep sw st n i).errs = st.errs ++ l := by
  unfold mapStep
  split
  · exact ⟨rfl, [], by simp⟩
  · split
    · exact ⟨rfl, [], by simp⟩
    · exact ⟨rfl, _, rfl⟩
    · split
      · exact ⟨rfl, _, rfl⟩
      · exact ⟨rfl, [], by simp⟩
    · exact ⟨rfl, _, rfl⟩

theorem routeStep_errs (cfg : Config) (st : VState) (n : Str) (m : Metric F) :
    ∃ l, (routeStep cfg st n m).1.errs = st.errs ++ l := by
  unfold routeStep
  simp only
  split
  · split <;> first | exact ⟨_, rfl⟩ | exact ⟨[], by simp⟩
  · split
    · split <;> first | exact ⟨_, rfl⟩ | exact ⟨[], by simp⟩
    · split <;> first | exact ⟨_, rfl⟩ | exact ⟨[], by simp⟩

/-- routing does not look at the name map, the errors or the switches -/
theorem routeStep_frame_congr (cfg : Config) (a b : VState) (n : Str) (m : Metric F) (h : a.frame = b.frame) :
    (routeStep cfg a n m).1.frame = (routeStep cfg b n m).1.frame
    ∧ (routeStep cfg a n m).2 = (routeStep cfg b n m).2
    ∧ ((routeStep cfg a n m).1.errs = a.errs ↔ (routeStep cfg b n m).1.errs = b.errs) := by
  have hs : a.split = b.split := congrArg Frame.split h
  have hk : a.keys = b.keys := congrArg Frame.keys h
  unfold routeStep
  simp only [hs, hk]
  cases hg : (cfg.allowIgnored || m.dims.isEmpty) <;> cases hsp : b.split <;>
    by_cases hmem : sortKey m.dims ∈ b.keys <;>
    simp_all [VState.frame, VState.err]

/-- every step only appends to the error list -/
theorem stepItem_errs (cfg : Config) (sw : Switches) (st : VState) (x : Item F) :
    ∃ l, (stepItem cfg sw st x).errs = st.errs ++ l := by
  cases x with
  | timestamp t => simp only [stepItem]; split <;> first | exact ⟨_, rfl⟩ | exact ⟨[], by simp⟩
  | allowSplit => exact ⟨[], by simp [stepItem]⟩
  | otherCfg => exact ⟨[], by simp [stepItem]⟩
  | allowUnroutable => exact ⟨[], by simp [stepItem]⟩
  | entryDims sets =>
    simp only [stepItem]
    split
    · exact ⟨_, rfl⟩
    · split
      · exact ⟨_, rfl⟩
      · split
        · exact ⟨_, rfl⟩
        · split
          · exact (foldl_dimsStep_frame sw sets.flatten st).2
          · exact ⟨[], by simp⟩
  | value name v =>
    simp only [stepItem]
    split
    · exact ⟨_, rfl⟩
    · split
      · exact ⟨_, rfl⟩
      · cases v with
        | str s => exact (stepString_frame sw st name).2
        | metric m =>
          simp only [stepMetric_eq]
          obtain ⟨l1, h1⟩ := routeStep_errs cfg st name m
          obtain ⟨_, l2, h2⟩ := mapStep_frame sw (routeStep cfg st name m).1 name (routeStep cfg st name m).2
          exact ⟨l1 ++ l2, by rw [h2, h1, List.append_assoc]⟩
        | error => exact ⟨_, rfl⟩
        | nothing => exact ⟨[], by simp⟩

theorem run_errs (cfg : Config) (sw : Switches) (st : VState) (e : Entry F) :
    ∃ l, (run cfg sw st e).errs = st.errs ++ l := by
  induction e generalizing st with
  | nil => exact ⟨[], by simp [run]⟩
  | cons x e ih =>
    obtain ⟨l1, h1⟩ := stepItem_errs cfg sw st x
    obtain ⟨l2, h2⟩ := ih (stepItem cfg sw st x)
    exact ⟨l1 ++ l2, by simp only [run, List.foldl_cons] at h2 ⊢; rw [h2, h1, List.append_assoc]⟩

theorem run_cons (cfg : Config) (sw : Switches) (st : VState) (x : Item F) (e : Entry F) :
    run cfg sw st (x :: e) = run cfg sw (stepItem cfg sw st x) e := rfl

theorem run_append (cfg : Config) (sw : Switches) (st : VState) (e e' : Entry F) :
    run cfg sw st (e ++ e') = run cfg sw (run cfg sw st e) e' := by
  simp [run, List.foldl_append]

theorem errs_nil_of_run (cfg : Config) (sw : Switches) (st : VState) (e : Entry F)
    (h : (run cfg sw st e).errs = []) : st.errs = [] := by
  obtain ⟨l, hl⟩ := run_errs cfg sw st e
  rw [hl] at h
  exact (List.append_eq_nil_iff.mp h).1

theorem errs_nil_of_step (cfg : Config) (sw : Switches) (st : VState) (x : Item F)
    (h : (stepItem cfg sw st x).errs = []) : st.errs = [] := by
  obtain ⟨l, hl⟩ := stepItem_errs cfg sw st x
  rw [hl] at h
  exact (List.append_eq_nil_iff.mp h).1

/-- One step in lock-step: if the validating run stays error-free, so does the non-validating run,
and the frames stay equal. -/
theorem step_sim (cfg : Config) (a b : VState) (x : Item F) (hf : a.frame = b.frame) (hb : b.errs = [])
    (ha : (stepItem cfg allOn a x).errs = []) :
    (stepItem cfg allOff b x).errs = [] ∧ (stepItem cfg allOn a x).frame = (stepItem cfg allOff b x).frame := by
  have ha0 := errs_nil_of_step cfg allOn a x ha
  have hts : a.tsSeen = b.tsSeen := congrArg Frame.tsSeen hf
  have hds : a.dimsSet = b.dimsSet := congrArg Frame.dimsSet hf
  have hsp : a.split = b.split := congrArg Frame.split hf
  have hun : a.unroutable = b.unroutable := congrArg Frame.unroutable hf
  have hk : a.keys = b.keys := congrArg Frame.keys hf
  cases x with
  | timestamp t =>
    simp only [stepItem, hts] at ha ⊢
    cases h : b.tsSeen <;> simp_all [VState.frame, VState.err]
  | allowSplit => simp_all [stepItem, VState.frame]
  | otherCfg => simp_all [stepItem]
  | allowUnroutable => simp_all [stepItem, VState.frame]
  | entryDims sets =>
    simp only [stepItem, hk, hds] at ha ⊢
    by_cases h1 : b.keys.isEmpty <;> cases h2 : b.dimsSet <;> cases h3 : sets.isEmpty <;>
      simp_all [VState.frame, VState.err, allOn, allOff]
    have := (foldl_dimsStep_frame ⟨false, false, false⟩ sets.flatten a).1
    simp only [VState.frame, Frame.mk.injEq] at this
    simp [this, hts, hsp, hun, hk]
  | value name v =>
    simp only [stepItem, allOn, allOff] at ha ⊢
    by_cases hn1 : name.isEmpty
    · simp [hn1, ha0] at ha
    · by_cases hn2 : name = awsName
      · have hne : ¬ (awsName = ([] : Str)) := by decide
        simp [hn2, hne, ha0] at ha
      · simp only [hn1, hn2, Bool.not_false, Bool.true_and, Bool.false_eq_true, ↓reduceIte, Bool.not_true,
          Bool.false_and, decide_false] at ha ⊢
        cases v with
        | str s =>
          simp only at ha ⊢
          refine ⟨by simp [stepString, hb], ?_⟩
          rw [(stepString_frame _ a name).1, (stepString_frame _ b name).1, hf]
        | metric m =>
          simp only [stepMetric_eq] at ha ⊢
          obtain ⟨hfr, hidx, herr⟩ := routeStep_frame_congr cfg a b name m hf
          obtain ⟨hfa, la, hla⟩ := mapStep_frame ⟨false, false, false⟩ (routeStep cfg a name m).1 name (routeStep cfg a name m).2
          obtain ⟨hfb, lb, hlb⟩ := mapStep_frame ⟨true, true, true⟩ (routeStep cfg b name m).1 name (routeStep cfg b name m).2
          have hra : (routeStep cfg a name m).1.errs = [] := by
            rw [hla] at ha; exact (List.append_eq_nil_iff.mp ha).1
          have hrb : (routeStep cfg b name m).1.errs = [] := by
            have := herr.mp (by rw [hra, ha0]); rw [this, hb]
          refine ⟨?_, by rw [hfa, hfb, hfr]⟩
          simp [mapStep, hrb]
        | error => simp [ha0] at ha
        | nothing => exact ⟨hb, hf⟩

theorem run_sim (cfg : Config) (e : Entry F) (a b : VState) (hf : a.frame = b.frame) (hb : b.errs = [])
    (ha : (run cfg allOn a e).errs = []) :
    (run cfg allOff b e).errs = [] ∧ (run cfg allOn a e).frame = (run cfg allOff b e).frame := by
  induction e generalizing a b with
  | nil => exact ⟨hb, hf⟩
  | cons x e ih =>
    rw [run_cons] at ha ⊢
    have hstep := errs_nil_of_run cfg allOn _ e ha
    obtain ⟨h1, h2⟩ := step_sim cfg a b x hf hb hstep
    exact ih _ _ h2 h1 ha

/-- An entry accepted with all validations on is accepted with all validations off. -/
theorem validate_off_of_on (cfg : Config) (e : Entry F) (h : validate cfg allOn e = []) :
    validate cfg allOff e = [] := by
  unfold validate at h ⊢
  simp only [List.append_eq_nil_iff] at h ⊢
  have := run_sim cfg e (initState cfg allOn) (initState cfg allOff) rfl rfl h.1
  exact ⟨this.1, by simp [sweep, allOff]⟩

/-- a value that reports an error makes the entry invalid whatever the switches -/
theorem validate_value_error (cfg : Config) (sw : Switches) (e : Entry F) (h : noValueError e = false) :
    validate cfg sw e ≠ [] := by
  have key : ∀ (e : Entry F) (st : VState), noValueError e = false → (run cfg sw st e).errs ≠ [] := by
    intro e
    induction e with
    | nil => intro st h; simp [noValueError] at h
    | cons x e ih =>
      intro st h
      rw [run_cons]
      by_cases hx : ∃ n, x = .value n .error
      · obtain ⟨n, rfl⟩ := hx
        intro hnil
        have := errs_nil_of_run cfg sw _ e hnil
        simp only [stepItem] at this
        split at this
        · simp at this
        · split at this <;> simp at this
      · apply ih
        cases x with
        | value n v =>
          cases v with
          | error => exact absurd ⟨n, rfl⟩ hx
          | _ => simpa [noValueError] using h
        | _ => simpa [noValueError] using h
  intro hv
  unfold validate at hv
  exact key e _ h (List.append_eq_nil_iff.mp hv).1

end EmfSpec
