import Model.EmfSpec
import Props.C08Lemmas
import Props.C08Inv
/-!
Lifting the entry-level facts of an accepted entry (`noConflict (slots cfg e)`, valid names) to the
records: the member names of every emitted record are pairwise distinct, provided the per-metric
dimension keys collide with nothing (`dimKeysDisjoint`). Used by `Props/C08.lean`
(`c08_no_dup_members_partial`).
-/
namespace EmfSpec

variable {F : Type}

/-! ### names of the entry's values -/

theorem strNames_sub_valueNames (e : Entry F) (n : Str) (h : n ∈ strNames e) : n ∈ valueNames e := by
  induction e with
  | nil => simp [strNames, strItems] at h
  | cons x e ih =>
    cases x with
    | value n' v =>
      cases v with
      | str s =>
        rw [strNames_cons_str, List.mem_cons] at h
        simp only [valueNames, List.mem_cons]
        exact h.imp id ih
      | _ => exact List.mem_cons_of_mem _ (ih h)
    | _ => exact ih h

theorem metricItems_sub_valueNames (e : Entry F) (p : Str × Metric F) (h : p ∈ metricItems e) :
    p.1 ∈ valueNames e := by
  induction e with
  | nil => simp [metricItems] at h
  | cons x e ih =>
    cases x with
    | value n' v =>
      cases v with
      | metric m =>
        simp only [metricItems, List.mem_cons] at h
        simp only [valueNames, List.mem_cons]
        rcases h with h | h
        · exact .inl (by rw [h])
        · exact .inr (ih h)
      | _ => exact List.mem_cons_of_mem _ (ih h)
    | _ => exact ih h

theorem mem_routedTo (cfg : Config) (r : Option Key) (ms : List (Str × Metric F)) (p : Str × Metric F) :
    p ∈ routedTo cfg r ms ↔ p ∈ ms ∧ routeOf cfg p.2 = r := by
  simp [routedTo, List.mem_filter]

/-- the string members of a record have pairwise distinct names -/
theorem strNames_nodup (cfg : Config) (e : Entry F) (hc : noConflict (slots cfg e) = true) :
    (strNames e).Nodup := by
  induction e with
  | nil => simp [strNames, strItems]
  | cons x e ih =>
    cases x with
    | value n v =>
      cases v with
      | str s =>
        rw [show slots cfg (.value n (.str s) :: e) = .str n :: slots cfg e from rfl, noConflict,
          Bool.and_eq_true] at hc
        rw [strNames_cons_str, List.nodup_cons]
        have : ((slots cfg e).all fun t => !conflict t (.str n)) = true := by
          rw [← hc.1]; congr 1; funext t; rw [conflict_comm]
        exact ⟨((slots_all_str cfg e n).mp this).1, ih hc.2⟩
      | metric m =>
        rw [show slots cfg (.value n (.metric m) :: e) = .met n (routeOf cfg m) :: slots cfg e from rfl,
          noConflict, Bool.and_eq_true] at hc
        exact ih hc.2
      | error => exact ih hc
      | nothing => exact ih hc
    | _ => exact ih hc

/-- the metrics routed to one record have pairwise distinct names -/
theorem routedTo_nodup (cfg : Config) (e : Entry F) (r : Option Key) (hc : noConflict (slots cfg e) = true) :
    ((routedTo cfg r (metricItems e)).map (·.1)).Nodup := by
  induction e with
  | nil => simp [routedTo, metricItems]
  | cons x e ih =>
    cases x with
    | value n v =>
      cases v with
      | str s =>
        rw [show slots cfg (.value n (.str s) :: e) = .str n :: slots cfg e from rfl, noConflict,
          Bool.and_eq_true] at hc
        exact ih hc.2
      | metric m =>
        rw [show slots cfg (.value n (.metric m) :: e) = .met n (routeOf cfg m) :: slots cfg e from rfl,
          noConflict, Bool.and_eq_true] at hc
        have hall : ((slots cfg e).all fun t => !conflict t (.met n (routeOf cfg m))) = true := by
          rw [← hc.1]; congr 1; funext t; rw [conflict_comm]
        have hne := ((slots_all_met cfg e n _).mp hall).2
        rw [show metricItems (.value n (.metric m) :: e) = (n, m) :: metricItems e from rfl]
        unfold routedTo
        rw [List.filter_cons]
        split
        · rename_i hr
          have hr : routeOf cfg m = r := by simpa using hr
          rw [List.map_cons, List.nodup_cons]
          refine ⟨?_, ih hc.2⟩
          intro hmem
          obtain ⟨p, hp, hpn⟩ := List.mem_map.mp hmem
          have hp' := (mem_routedTo cfg r (metricItems e) p).mp hp
          have hpn : p.1 = n := hpn
          have : p.2 ∈ metricsNamed n e := by
            rw [mem_metricsNamed, ← hpn]; exact hp'.1
          exact hne _ this (hp'.2.trans hr.symm)
        · exact ih hc.2
      | error => exact ih hc
      | nothing => exact ih hc
    | _ => exact ih hc

/-- the metric members of a record are among the metrics routed to it, in order -/
theorem fieldsOf_names_sublist (ops : FloatOps F) (mult : Option Nat) (ms : List (Str × Metric F)) :
    ((fieldsOf ops mult ms).map (·.1)).Sublist (ms.map (·.1)) := by
  induction ms with
  | nil => simp [fieldsOf]
  | cons p ms ih =>
    unfold fieldsOf at ih ⊢
    rw [List.filterMap_cons]
    cases h : fieldOf ops mult p.2 with
    | none => simpa [h] using List.Sublist.cons p.1 ih
    | some v => simpa [h] using List.Sublist.cons_cons p.1 ih

/-! ### the shape of `emit` -/

theorem mem_splitKeys (cfg : Config) (e : Entry F) (k : Key) :
    k ∈ splitKeys cfg e ↔ ∃ p ∈ metricItems e, routeOf cfg p.2 = some k := by
  simp [splitKeys, dedup_mem', List.mem_filterMap]

/-- every emitted record is the split record of a per-metric dimension set that some metric of the
entry carries, or the no-dimension record -/
theorem mem_emit_c08 (cfg : Config) (ops : FloatOps F) (mult : Option Nat) (e : Entry F) (r : Record F)
    (h : r ∈ emit cfg ops mult e) :
    (∃ k ∈ splitKeys cfg e,
        r = mkRecord cfg ops mult e (some k) (routedTo cfg (some k) (metricItems e)) [])
    ∨ r = mkRecord cfg ops mult e none (routedTo cfg none (metricItems e)) cfg.extra := by
  unfold emit at h
  simp only at h
  have hs : ∀ r, r ∈ (splitKeys cfg e).filterMap (fun k =>
        if (fieldsOf ops mult (routedTo cfg (some k) (metricItems e))).isEmpty then none
        else some (mkRecord cfg ops mult e (some k) (routedTo cfg (some k) (metricItems e)) [])) →
      ∃ k ∈ splitKeys cfg e,
        r = mkRecord cfg ops mult e (some k) (routedTo cfg (some k) (metricItems e)) [] := by
    intro r hr
    obtain ⟨k, hk, hkr⟩ := List.mem_filterMap.mp hr
    split at hkr
    · cases hkr
    · exact ⟨k, hk, (Option.some.inj hkr).symm⟩
  split at h
  · rcases List.mem_append.mp h with h | h
    · exact .inl (hs r h)
    · exact .inr (by simpa using h)
  · exact .inl (hs r h)

theorem mkRecord_memberNames (cfg : Config) (ops : FloatOps F) (mult : Option Nat) (e : Entry F)
    (route : Option Key) (ms : List (Str × Metric F)) (extra : List Directive) :
    (mkRecord cfg ops mult e route ms extra).memberNames
      = awsName :: (((route.getD []).map (·.1) ++ (fieldsOf ops mult ms).map (·.1)) ++ strNames e) := by
  simp [Record.memberNames, mkRecord, strNames, List.map_append, List.map_map, Function.comp_def]

/-! ### the list argument -/

theorem names_nodup (a : Str) (K Fs Ms S : List Str) (hsub : Fs.Sublist Ms)
    (hK : K.Nodup) (hM : Ms.Nodup) (hS : S.Nodup)
    (haK : a ∉ K) (haM : a ∉ Ms) (haS : a ∉ S)
    (hKM : ∀ x ∈ K, x ∉ Ms) (hKS : ∀ x ∈ K, x ∉ S) (hMS : ∀ x ∈ S, x ∉ Ms) :
    (a :: ((K ++ Fs) ++ S)).Nodup := by
  have hss := hsub.subset
  rw [List.nodup_cons, List.nodup_append, List.nodup_append]
  refine ⟨?_, ⟨hK, hsub.nodup hM, ?_⟩, hS, ?_⟩
  · simp only [List.mem_append, not_or]
    exact ⟨⟨haK, fun h => haM (hss h)⟩, haS⟩
  · intro x hx y hy hxy
    exact hKM x hx (hxy ▸ hss hy)
  · intro x hx y hy hxy
    rcases List.mem_append.mp hx with hx | hx
    · exact hKS x hx (hxy ▸ hy)
    · exact hMS y hy (hxy ▸ hss hx)

/-! ### what `dimKeysDisjoint` says about one split key -/

theorem allSplitKeys_spec (cfg : Config) (e : Entry F) (P : Key → Bool) (h : allSplitKeys cfg e P = true)
    (k : Key) (hk : k ∈ splitKeys cfg e) : P k = true := by
  obtain ⟨p, hp, hr⟩ := (mem_splitKeys cfg e k).mp hk
  unfold allSplitKeys at h
  have := List.all_eq_true.mp h p hp
  simpa [hr] using this

theorem dimKeysDisjoint_spec (cfg : Config) (e : Entry F) (h : dimKeysDisjoint cfg e = true)
    (k : Key) (hk : k ∈ splitKeys cfg e) :
    (k.map (·.1)).Nodup ∧ awsName ∉ k.map (·.1) ∧ (∀ d ∈ k.map (·.1), d ∉ strNames e)
    ∧ ∀ d ∈ k.map (·.1), d ∉ (routedTo cfg (some k) (metricItems e)).map (·.1) := by
  unfold dimKeysDisjoint at h
  simp only [Bool.and_eq_true] at h
  obtain ⟨⟨⟨h1, h2⟩, h3⟩, h4⟩ := h
  have a1 := allSplitKeys_spec cfg e _ h1 k hk
  have a2 := allSplitKeys_spec cfg e _ h2 k hk
  have a3 := allSplitKeys_spec cfg e _ h3 k hk
  have a4 := allSplitKeys_spec cfg e _ h4 k hk
  refine ⟨by simpa using a1, by simpa using a2, ?_, ?_⟩
  · intro d hd
    have := List.all_eq_true.mp a3 d hd
    simpa [strNames] using this
  · intro d hd
    have := List.all_eq_true.mp a4 d hd
    simpa using this

/-! ### the lift -/

/-- In an entry whose written slots are conflict-free and whose names are valid, every emitted record
has pairwise distinct member names, provided the per-metric dimension keys collide with nothing. -/
theorem emit_memberNames_nodup (cfg : Config) (ops : FloatOps F) (mult : Option Nat) (e : Entry F)
    (hc : noConflict (slots cfg e) = true) (hn : ∀ n ∈ valueNames e, n ≠ [] ∧ n ≠ awsName)
    (hd : dimKeysDisjoint cfg e = true) :
    ∀ r ∈ emit cfg ops mult e, r.memberNames.Nodup := by
  intro r hr
  have haS : awsName ∉ strNames e := fun h => (hn _ (strNames_sub_valueNames e _ h)).2 rfl
  have haM : ∀ rt, awsName ∉ (routedTo cfg rt (metricItems e)).map (·.1) := by
    intro rt h
    obtain ⟨p, hp, hpn⟩ := List.mem_map.mp h
    have := metricItems_sub_valueNames e p ((mem_routedTo cfg rt _ p).mp hp).1
    exact (hn _ this).2 hpn
  have hMS : ∀ rt, ∀ x ∈ strNames e, x ∉ (routedTo cfg rt (metricItems e)).map (·.1) := by
    intro rt x hx h
    obtain ⟨p, hp, hpn⟩ := List.mem_map.mp h
    have hp' := ((mem_routedTo cfg rt _ p).mp hp).1
    have hpn : p.1 = x := hpn
    have : p.2 ∈ metricsNamed x e := by rw [mem_metricsNamed, ← hpn]; exact hp'
    rw [str_no_metric cfg e x hc hx] at this
    cases this
  rcases mem_emit_c08 cfg ops mult e r hr with ⟨k, hk, rfl⟩ | rfl
  · obtain ⟨d1, d2, d3, d4⟩ := dimKeysDisjoint_spec cfg e hd k hk
    rw [mkRecord_memberNames]
    exact names_nodup _ _ _ _ _ (fieldsOf_names_sublist ops mult _) d1 (routedTo_nodup cfg e _ hc)
      (strNames_nodup cfg e hc) d2 (haM _) haS d4 d3 (hMS _)
  · rw [mkRecord_memberNames]
    exact names_nodup _ _ _ _ _ (fieldsOf_names_sublist ops mult _) List.nodup_nil (routedTo_nodup cfg e _ hc)
      (strNames_nodup cfg e hc) (by simp) (haM _) haS (by simp) (by simp) (hMS _)

end EmfSpec
