import Props.C06X
/-!
Slot invariants for the extended model: copies of `SlotOk` / `SInv` (`Props/C13Lemmas{,B}.lean`, left untouched
because the refinement proof depends on their exact shape) weakened for slots whose guard's drop panicked in `close()`
(`failed`): such a guard is gone without having sent, its receiver may have observed the hang-up, and the "wait mode
⇒ sent before the close" clause does not apply to it.  Preserved by every base event (from `Inv` alone, no reachability
needed) and by the new events of `Model/KeepAliveX.lean`.
-/
namespace KeepAlive
variable {cfg : List (Bool × Nat)} {s s' : St}



/-- consistency of one slot; `sentOk` = the guard's `tx.send` happened before this field was closed -/
structure SlotOkX (sl : Slot) : Prop where
  unopened : sl.opened = false → sl.g = .none
  nothing : sl.sentOk = false → sl.cell = none ∧ sl.data = none
  sentg : sl.sentOk = true → sl.g ≠ .live ∧ sl.opened = true
  /-- the receiver stays in place until the value arrives or the field is closed (a cancelled wait does not remove it) -/
  rxstays : sl.closedAs = none → sl.sentOk = false → sl.failed = false → sl.rx = true
  /-- a sent value is in the channel, or has been moved to `data` by a completed `wait_for_data` -/
  delivered : sl.closedAs = none → sl.sentOk = true →
    (sl.cell = some sl.gval ∧ sl.rx = true ∧ sl.data = none) ∨ (sl.data = some sl.gval ∧ sl.rx = false ∧ sl.cell = none)
  gone : sl.opened = true → sl.g ≠ .live → sl.sentOk = true ∨ sl.closedAs.isSome ∨ sl.failed = true
  /-- `Slot::close` returned the sent value iff the send came first -/
  closed : ∀ r, sl.closedAs = some r → r = if sl.sentOk then some sl.gval else none
  afterclose : sl.closedAs.isSome → sl.cell = none ∧ sl.data = none ∧ sl.rx = false
  /-- a guard whose drop panicked in `close()` is gone and has sent nothing -/
  failedg : sl.failed = true → sl.g ≠ .live ∧ sl.opened = true ∧ sl.sentOk = false

structure SInvX (s : St) : Prop where
  ok : ∀ sl ∈ s.slots, SlotOkX sl
  /-- fields are closed only inside the entry's destructor, i.e. after the conditions of C06 -/
  g0 : (∃ sl ∈ s.slots, sl.closedAs.isSome) → s.hS = 0 ∧ (s.fgLive = 0 ∨ s.dgBegun > 0)
  /-- a wait-mode slot that was closed before any force-flush guard began to drop had been sent first -/
  g1 : ∀ sl ∈ s.slots, sl.closedAs.isSome → sl.opened = true → sl.mode = .wait → s.dgBegun = 0 → sl.failed = false → sl.sentOk = true

theorem slotOkX_fresh (c : Bool × Nat) : SlotOkX (fresh c) := by
  constructor <;> simp [fresh]

theorem sinvX_init (cfg : List (Bool × Nat)) : SInvX (init (cfg.map fresh)) := by
  constructor
  · intro sl h; obtain ⟨c, _, rfl⟩ := List.mem_map.mp h; exact slotOkX_fresh _
  · rintro ⟨sl, h, hc⟩; obtain ⟨c, _, rfl⟩ := List.mem_map.mp h; simp [fresh] at hc
  · intro sl h hc; obtain ⟨c, _, rfl⟩ := List.mem_map.mp h; simp [fresh] at hc

theorem slotOkX_closeSlot1 {sl : Slot} (h : SlotOkX sl) (hn : sl.closedAs = none) : SlotOkX (closeSlot1 sl) := by
  obtain ⟨a1, a2, a3, a4, a5, a6, a7, a8, a9⟩ := h
  constructor <;> simp only [closeSlot1, closeVal] <;> grind

theorem slotOkX_poll {sl : Slot} (h : SlotOkX sl) : SlotOkX (poll sl).1 := by
  obtain ⟨a1, a2, a3, a4, a5, a6, a7, a8, a9⟩ := h
  cases hrx : sl.rx with
  | false => simp only [poll, hrx]; constructor <;> assumption
  | true =>
    cases hc : sl.cell with
    | some v => simp only [poll, hrx, hc]; constructor <;> grind
    | none =>
      cases hs : senderAlive sl with
      | true => simp only [poll, hrx, hc, hs]; constructor <;> assumption
      | false =>
        simp only [senderAlive] at hs
        simp only [poll, hrx, hc, senderAlive, hs]
        constructor <;> grind


theorem sinvX_same_slots (h : SInvX s) (hs : s'.slots = s.slots) (hh : s.hS = 0 → s'.hS = 0)
    (hf : s.hS = 0 → s'.fgLive ≤ s.fgLive) (hd : s.dgBegun ≤ s'.dgBegun) : SInvX s' := by
  obtain ⟨h1, h2, h3⟩ := h
  constructor
  · rw [hs]; exact h1
  · rw [hs]; intro hc
    obtain ⟨a, b⟩ := h2 hc
    have := hf a
    exact ⟨hh a, by omega⟩
  · rw [hs]; intro sl hsl hc ho hm hd0 hf0
    exact h3 sl hsl hc ho hm (by omega) hf0

theorem sinvX_setSlot {i : Nat} {sl : Slot} {f : Slot → Slot} (h : SInvX s) (hsl : s.slots[i]? = some sl)
    (hok : SlotOkX (f sl)) (hc : (f sl).closedAs = sl.closedAs)
    (hg1 : (f sl).closedAs.isSome → (f sl).opened = true → (f sl).mode = .wait → s.dgBegun = 0 → (f sl).failed = false → (f sl).sentOk = true) :
    SInvX (setSlot s i f) := by
  obtain ⟨h1, h2, h3⟩ := h
  have hmem := mem_of_getElem? hsl
  constructor
  · intro x hx
    rcases mem_modifyAt hx with hx | ⟨a, ha, rfl⟩
    · exact h1 x hx
    · rw [hsl] at ha; cases ha; exact hok
  · rintro ⟨x, hx, hxc⟩
    apply h2
    rcases mem_modifyAt hx with hx | ⟨a, ha, rfl⟩
    · exact ⟨x, hx, hxc⟩
    · rw [hsl] at ha; cases ha; exact ⟨sl, hmem, by rw [← hc]; exact hxc⟩
  · intro x hx
    rcases mem_modifyAt hx with hx | ⟨a, ha, rfl⟩
    · exact h3 x hx
    · rw [hsl] at ha; cases ha; exact hg1

theorem not_closed_of_usableX (h : SInvX s) (hu : ownerUsable s = true) {sl : Slot} (hm : sl ∈ s.slots) :
    sl.closedAs = none := by
  cases hc : sl.closedAs with
  | none => rfl
  | some r =>
    have := (h.g0 ⟨sl, hm, by simp [hc]⟩).1
    simp [ownerUsable] at hu; omega

theorem sinvX_open {i : Nat} {m : Mode} {v0 : Nat} (hs : SInvX s) (h : step s (.open i m v0) = some s') : SInvX s' := by
  have hmono := step_mono h
  simp only [step] at h
  split at h
  · cases h
  · rename_i sl hsl
    split at h
    · rename_i hu
      split at h
      · cases h
        split
        · refine sinvX_same_slots hs (by simp [dropFG]) ?_ ?_ ?_ <;> simp [dropFG] <;> omega
        · exact hs
      · rename_i hno
        cases h
        have hcl := not_closed_of_usableX hs hu.1 (mem_of_getElem? hsl)
        obtain ⟨a1, a2, a3, a4, a5, a6, a7, a8, a9⟩ := hs.ok sl (mem_of_getElem? hsl)
        refine sinvX_setSlot hs hsl ?_ rfl ?_
        · constructor <;> grind
        · simp [hcl]
    · cases h

theorem poll_failed (sl : Slot) : (poll sl).1.failed = sl.failed := by
  cases hrx : sl.rx with
  | false => simp [poll, hrx]
  | true =>
    cases hc : sl.cell with
    | some v => simp [poll, hrx, hc]
    | none => cases hs : senderAlive sl <;> simp [poll, hrx, hc, hs]

theorem sinvX_wait {i : Nat} {sl : Slot} {b : Option Nat} (hs : SInvX s) (hsl : s.slots[i]? = some sl) :
    SInvX { setSlot s i (fun _ => (poll sl).1) with borrowed := b } := by
  have h1 : SInvX (setSlot s i (fun _ => (poll sl).1)) := by
    obtain ⟨p1, p2, p3, p4, p5, p6⟩ := poll_same sl
    refine sinvX_setSlot hs hsl (slotOkX_poll (hs.ok sl (mem_of_getElem? hsl))) p1 ?_
    rw [p1, p2, p3, p4, poll_failed]
    exact hs.g1 sl (mem_of_getElem? hsl)
  exact sinvX_same_slots h1 rfl id (fun _ => Nat.le_refl _) (Nat.le_refl _)

theorem sinvX_slot_events {e : Ev} (hi : Inv s) (hs : SInvX s) (h : step s e = some s')
    (he : match e with
      | .waitBegin _ | .waitPoll | .delay _ | .gmut .. | .gSend _ | .gRelease _ => True
      | _ => False) : SInvX s' := by
  have hmono := step_mono h
  cases e <;> simp only at he
  case waitBegin i =>
    simp only [step] at h
    split at h
    · cases h
    · rename_i sl hsl
      split at h
      · cases h; exact sinvX_wait hs hsl
      · cases h
  case waitPoll =>
    simp only [step] at h
    split at h
    · cases h
    · split at h
      · cases h
      · rename_i sl hsl
        cases h; exact sinvX_wait hs hsl
  case delay i =>
    simp only [step] at h
    split at h
    · cases h
    · rename_i sl hsl
      split at h
      · rename_i hc
        split at h
        · cases h; refine sinvX_same_slots hs (by simp [dropFG]) ?_ ?_ ?_ <;> simp [dropFG] <;> omega
        · cases h
          obtain ⟨a1, a2, a3, a4, a5, a6, a7, a8, a9⟩ := hs.ok sl (mem_of_getElem? hsl)
          refine sinvX_setSlot hs hsl ?_ rfl ?_
          · constructor <;> assumption
          · intro hcl _ _ hd0
            have := (hs.g0 ⟨sl, mem_of_getElem? hsl, hcl⟩).2
            omega
      · cases h
  case gmut i v =>
    simp only [step] at h
    split at h
    · cases h
    · rename_i sl hsl
      split at h
      · rename_i hg
        cases h
        obtain ⟨a1, a2, a3, a4, a5, a6, a7, a8, a9⟩ := hs.ok sl (mem_of_getElem? hsl)
        have hns : sl.sentOk = false := by
          cases hso : sl.sentOk with
          | false => rfl
          | true => exact absurd hg (a3 hso).1
        refine sinvX_setSlot hs hsl ?_ rfl ?_
        · constructor <;> grind
        · exact hs.g1 sl (mem_of_getElem? hsl)
      · cases h
  case gSend i =>
    simp only [step] at h
    split at h
    · cases h
    · rename_i sl hsl
      split at h
      · rename_i hg
        cases h
        obtain ⟨a1, a2, a3, a4, a5, a6, a7, a8, a9⟩ := hs.ok sl (mem_of_getElem? hsl)
        have hns : sl.sentOk = false := by
          cases hso : sl.sentOk with
          | false => rfl
          | true => exact absurd hg (a3 hso).1
        refine sinvX_setSlot hs hsl ?_ rfl ?_
        · cases hcl : sl.closedAs with
          | none => constructor <;> simp only [hcl] <;> grind
          | some r => constructor <;> simp only [hcl] <;> grind
        · intro hcl _ hm hd0
          simp only at hcl hm
          have hf := (hs.g0 ⟨sl, mem_of_getElem? hsl, hcl⟩).2
          have h1 : heldBy sl = 1 := by simp [heldBy, hg, hm]
          have h2 := heldBy_le_held hsl
          have h3 := hi.heldle
          omega
      · cases h
  case gRelease i =>
    simp only [step] at h
    split at h
    · cases h
    · rename_i sl hsl
      split at h
      · rename_i hg
        cases h
        obtain ⟨a1, a2, a3, a4, a5, a6, a7, a8, a9⟩ := hs.ok sl (mem_of_getElem? hsl)
        have hbase : SInvX (setSlot s i fun sl => { sl with g := .none }) := by
          refine sinvX_setSlot hs hsl ?_ rfl ?_
          · constructor <;> grind
          · exact hs.g1 sl (mem_of_getElem? hsl)
        split
        · refine sinvX_same_slots hbase (by simp [dropFG]) ?_ ?_ ?_ <;> simp [dropFG, setSlot] <;> omega
        · exact hbase
      · cases h

theorem sinvX_closeSlot (hi : Inv s) (hs : SInvX s) (h : step s .closeSlot = some s') : SInvX s' := by
  simp only [step] at h
  split at h
  · rename_i ha
    obtain ⟨hh0, hcond⟩ := anyApp_cond_inv hi ha
    split at h
    · rename_i l hl
      cases h
      constructor
      · intro x hx
        rcases mem_closeFirst hl hx with hx | ⟨a, ha1, ha2, rfl⟩
        · exact hs.ok x hx
        · exact slotOkX_closeSlot1 (hs.ok a ha1) ha2
      · intro _; exact ⟨hh0, hcond⟩
      · intro x hx hc ho hm hd0
        rcases mem_closeFirst hl hx with hx | ⟨a, ha1, ha2, rfl⟩
        · exact hs.g1 x hx hc ho hm hd0
        · simp only [closeSlot1] at ho hm ⊢
          have hf : s.fgLive = 0 := by simp only at hd0; omega
          have hh : held s.slots = 0 := by have := hi.heldle; omega
          have hg := held_zero hh a ha1 hm
          have := (hs.ok a ha1).gone ho (by simp [hg])
          intro hf0
          simp only [ha2, Option.isSome_none, Bool.false_eq_true, false_or] at this
          rcases this with h | h
          · exact h
          · rw [hf0] at h; cases h
    · cases h
  · cases h

theorem sinvX_step {e : Ev} (hi : Inv s) (hs : SInvX s) (h : step s e = some s') : SInvX s' := by
  have hmono := step_mono h
  cases e
  case «open» i m v0 => exact sinvX_open hs h
  case waitBegin i => exact sinvX_slot_events hi hs h trivial
  case waitPoll => exact sinvX_slot_events hi hs h trivial
  case delay i => exact sinvX_slot_events hi hs h trivial
  case gmut i v => exact sinvX_slot_events hi hs h trivial
  case gSend i => exact sinvX_slot_events hi hs h trivial
  case gRelease i => exact sinvX_slot_events hi hs h trivial
  case closeSlot => exact sinvX_closeSlot hi hs h
  all_goals
    refine sinvX_same_slots hs ?_ hmono.1 hmono.2.1 hmono.2.2
    simp only [step, dropFG, finishInner] at h
    (repeat' split at h) <;> (try cases h) <;> (try simp) <;> rfl


end KeepAlive
