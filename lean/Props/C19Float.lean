import Props.C19
import Mathlib.Algebra.Order.Field.Rat
import Mathlib.Tactic.Linarith
import Mathlib.Tactic.Positivity
import Mathlib.Tactic.FieldSimp
import Mathlib.Tactic.Ring
/-!
# C19, the binary64 side, as inequalities between rationals

* `c19_rne_rel_err`: `rne` (the model's round-to-nearest-even, `Model/Units.lean`) is within `2⁻⁵³`
  relative of the fraction — derived from the cross-multiplied `Nat` form `c19_rneAt_nat_form`.
* `c19_f64_ratio` / `c19_f64_ratio_generated`: every `RATIO` constant, of the model and of the
  regenerated tables (`c19_generated_ratios_are_model`: they are the same 435 fractions).
* `Near`, `eps`: the standard model of floating-point rounding over ℚ; `c19_f64_convert_error`,
  `c19_f64_compose`, `c19_f64_inverse`, `c19_f64_roundtrip`, `c19_f64_nested`: explicit error bounds
  for the binary64 twin of one conversion, of A→B→C against A→C, of inverse pairs, of the round
  trip and of any tower of wrappers. Their hypotheses (`Near u z (x * r̂)`: the product is correctly
  rounded) are IEEE-754's; `c19_bound_check_sound` says what the driver's exact evaluation of the
  conclusion on real outputs (`bound` requests) establishes without that assumption.

This file imports single Mathlib modules; the model files stay import-free.
-/
namespace Units

/-- the rational a positive binary64 `(m, e)` stands for -/
def f64Val (m : Nat) (e : Int) : ℚ := (m : ℚ) * (2 : ℚ) ^ e

theorem scaleBy_pos (n d : Nat) (k : Int) (hd : 0 < d) : 0 < (scaleBy n d k).2 := by
  unfold scaleBy
  split
  · exact hd
  · exact Nat.mul_pos hd (Nat.two_pow_pos _)

theorem scaleBy_val (n d : Nat) (k : Int) (hd : 0 < d) :
    ((scaleBy n d k).1 : ℚ) / ((scaleBy n d k).2 : ℚ) = (n : ℚ) / d * (2 : ℚ) ^ k := by
  have hd' : (d : ℚ) ≠ 0 := by exact_mod_cast hd.ne'
  unfold scaleBy
  split
  · rename_i hk
    have : (2 : ℚ) ^ k = (2 : ℚ) ^ k.toNat := by
      rw [← zpow_natCast, Int.toNat_of_nonneg hk]
    simp only [Nat.cast_mul, Nat.cast_pow, Nat.cast_ofNat, this]
    field_simp
  · rename_i hk
    have hk' : 0 ≤ -k := by omega
    have : (2 : ℚ) ^ k = ((2 : ℚ) ^ (-k).toNat)⁻¹ := by
      rw [← zpow_natCast, Int.toNat_of_nonneg hk', zpow_neg, inv_inv]
    simp only [Nat.cast_mul, Nat.cast_pow, Nat.cast_ofNat, this]
    field_simp

/-- the cross-multiplied `Nat` bounds as one inequality over ℚ -/
theorem abs_le_of_nat_bounds (m' N D : Nat) (hD : 0 < D)
    (h1 : 2 ^ 53 * (m' * D - N) ≤ N) (h2 : 2 ^ 53 * (N - m' * D) ≤ N) :
    |(m' : ℚ) - (N : ℚ) / D| ≤ (N : ℚ) / D / 2 ^ 53 := by
  have hDq : (0 : ℚ) < D := by exact_mod_cast hD
  have key : |(m' : ℚ) * D - N| * 2 ^ 53 ≤ N := by
    rcases Nat.le_total N (m' * D) with hle | hle
    · have e : ((m' * D - N : Nat) : ℚ) = (m' : ℚ) * D - N := by
        rw [Nat.cast_sub hle]; push_cast; ring
      have : (0 : ℚ) ≤ (m' : ℚ) * D - N := by rw [← e]; positivity
      rw [abs_of_nonneg this, ← e]
      have : ((2 ^ 53 * (m' * D - N) : Nat) : ℚ) ≤ N := by exact_mod_cast h1
      push_cast at this ⊢
      linarith
    · have e : ((N - m' * D : Nat) : ℚ) = (N : ℚ) - m' * D := by
        rw [Nat.cast_sub hle]; push_cast; ring
      have : (m' : ℚ) * D - N ≤ 0 := by
        have : (0 : ℚ) ≤ (N : ℚ) - m' * D := by rw [← e]; positivity
        linarith
      rw [abs_of_nonpos this]
      have h : ((2 ^ 53 * (N - m' * D) : Nat) : ℚ) ≤ N := by exact_mod_cast h2
      rw [Nat.cast_mul, e] at h
      push_cast at h
      linarith
  have : (m' : ℚ) - (N : ℚ) / D = ((m' : ℚ) * D - N) / D := by field_simp
  rw [this, abs_div, abs_of_pos hDq, div_le_iff₀ hDq]
  have : (N : ℚ) / D / 2 ^ 53 * D = N / 2 ^ 53 := by field_simp
  rw [this, le_div_iff₀ (by positivity)]
  exact key

/-- `rneAt` over ℚ: the value returned is within `2⁻⁵³` (relative) of the fraction. -/
theorem rneAt_rel_err (n d : Nat) (k : Int) (m : Nat) (e : Int) (_hn : 0 < n) (hd : 0 < d)
    (h : rneAt n d k = some (m, e)) :
    |f64Val m e - (n : ℚ) / d| ≤ (n : ℚ) / d / 2 ^ 53 := by
  obtain ⟨m', hm, _, _, _, _, h1, h2⟩ := c19_rneAt_nat_form n d k m e h
  have hD := scaleBy_pos n d k hd
  have hb := abs_le_of_nat_bounds m' _ _ hD h1 h2
  rw [scaleBy_val n d k hd] at hb
  have hval : f64Val m e = (m' : ℚ) * (2 : ℚ) ^ (-k) := by
    rcases hm with ⟨rfl, rfl⟩ | ⟨rfl, rfl, rfl⟩
    · rfl
    · unfold f64Val
      rw [zpow_add₀ (by norm_num : (2 : ℚ) ≠ 0)]
      push_cast
      ring
  have h2k : (0 : ℚ) < (2 : ℚ) ^ k := zpow_pos (by norm_num) k
  have hinv : (2 : ℚ) ^ (-k) = ((2 : ℚ) ^ k)⁻¹ := zpow_neg _ _
  rw [hval, hinv]
  have : (m' : ℚ) * ((2 : ℚ) ^ k)⁻¹ - (n : ℚ) / d = ((m' : ℚ) - (n : ℚ) / d * 2 ^ k) / 2 ^ k := by
    field_simp
  rw [this, abs_div, abs_of_pos h2k, div_le_iff₀ h2k]
  calc |(m' : ℚ) - (n : ℚ) / d * 2 ^ k| ≤ (n : ℚ) / d * 2 ^ k / 2 ^ 53 := hb
    _ = (n : ℚ) / d / 2 ^ 53 * 2 ^ k := by ring

/-- **Correct rounding: relative error ≤ 2⁻⁵³.** Whenever `rne n d` returns `(m, e)`, the binary64
value `m · 2^e` satisfies `|m·2^e − n/d| / (n/d) ≤ 2⁻⁵³`, and it is a normal number
(`2^52 ≤ m < 2^53`, exponent in range). -/
theorem c19_rne_rel_err (n d m : Nat) (e : Int) (hn : 0 < n) (hd : 0 < d) (h : rne n d = some (m, e)) :
    |f64Val m e - (n : ℚ) / d| / ((n : ℚ) / d) ≤ 1 / 2 ^ 53 ∧
    2 ^ 52 ≤ m ∧ m < 2 ^ 53 ∧ -1022 ≤ e + 52 ∧ e + 52 ≤ 1023 := by
  obtain ⟨k, hk, hr1, hr2⟩ := c19_rne_is_rneAt n d m e h
  obtain ⟨_, _, hm1, hm2, _⟩ := c19_rneAt_nat_form n d k m e hk
  refine ⟨?_, hm1, hm2, hr1, hr2⟩
  have hq : (0 : ℚ) < (n : ℚ) / d := by positivity
  rw [div_le_iff₀ hq]
  have := rneAt_rel_err n d k m e hn hd hk
  calc |f64Val m e - (n : ℚ) / d| ≤ (n : ℚ) / d / 2 ^ 53 := this
    _ = 1 / 2 ^ 53 * ((n : ℚ) / d) := by ring

-- ------------------------------------------------------------------------------------------------
-- bit patterns

/-- the rational a positive normal binary64 bit pattern stands for:
significand `bits mod 2^52 + 2^52`, exponent `bits div 2^52 − 1075` -/
def f64OfBits (bits : Nat) : ℚ := f64Val (bits % 2 ^ 52 + 2 ^ 52) (((bits / 2 ^ 52 : Nat) : Int) - 1075)

theorem f64OfBits_f64Bits (m : Nat) (e : Int) (h1 : 2 ^ 52 ≤ m) (h2 : m < 2 ^ 53) (h3 : -1022 ≤ e + 52) :
    f64OfBits (f64Bits m e) = f64Val m e := by
  have hE : ((e + 52 + 1023).toNat : Int) = e + 1075 := by omega
  generalize hg : (e + 52 + 1023).toNat = E at hE
  have hm : f64Bits m e % 2 ^ 52 + 2 ^ 52 = m := by
    unfold f64Bits; rw [hg]; omega
  have hd : f64Bits m e / 2 ^ 52 = E := by
    unfold f64Bits; rw [hg]; omega
  unfold f64OfBits
  rw [hm, hd, hE]
  congr 1
  omega

/-- **Every `RATIO` constant is the exact ratio up to 2⁻⁵³ (relative).** For every convertible pair
of tags the `f64` constant — the bit pattern `ratioBits a b` that the driver compares with the real
`Convert::RATIO` on every run — is a positive normal binary64 number `r̂` with
`|r̂ − ratio a b| / ratio a b ≤ 2⁻⁵³`. -/
theorem c19_f64_ratio (a b : Tag) (h : convertible a b = true) :
    ∃ bits, ratioBits a b = some bits ∧ 0 < ratioQ a b ∧
      |f64OfBits bits - ratioQ a b| / ratioQ a b ≤ 1 / 2 ^ 53 := by
  obtain ⟨n, d, m, e, hnd, hn, hd, hr, hbits, _, _⟩ := c19_f64_ratio_representable a b h
  obtain ⟨herr, hm1, hm2, he1, _⟩ := c19_rne_rel_err n d m e hn hd hr
  have hq : ratioQ a b = (n : ℚ) / d := by simp [ratioQ, hnd]
  refine ⟨_, hbits, ?_, ?_⟩
  · rw [hq]; positivity
  · rw [f64OfBits_f64Bits m e hm1 hm2 he1, hq]; exact herr

-- ------------------------------------------------------------------------------------------------
-- the same, stated directly about the generated tables

section generated
open Generated.Units

/-- `FROM_SECONDS` of every generated time tag: (struct, `scale.reduction_factor()`) -/
def genFromSeconds : List (List Char × Nat) :=
  timeTags.filterMap fun (s, _, sc) => (reductionFactor.lookup sc).map fun f => (s, f)

/-- `FROM_BITS` of every generated data tag: (struct, `bits * scale.expansion_factor()`) -/
def genFromBits : List (List Char × Nat) :=
  bitTags.filterMap fun (s, _, _, bits, sc) => (expansionFactor.lookup sc).map fun f => (s, bits * f)

def genNames : List (List Char) := plainTags.map (·.1) ++ timeTags.map (·.1) ++ bitTags.map (·.1)

/-- every `RATIO` the code declares, `(from, to, numerator, denominator)`, computed from the generated
tables and formula flags only -/
def genRatios : List (List Char × List Char × Nat × Nat) :=
  (if noneRatioIsOne then genNames.map fun b => (chars! "None", b, 1, 1) else []) ++
  (genFromSeconds.flatMap fun (a, fa) => genFromSeconds.map fun (b, fb) =>
    if timeRatioIsTargetOverSelf then (a, b, fb, fa) else (a, b, fa, fb)) ++
  (genFromBits.flatMap fun (a, fa) => genFromBits.map fun (b, fb) =>
    if bitRatioIsSelfOverTarget then (a, b, fa, fb) else (a, b, fb, fa))

/-- the same as a function of two struct names, by lookups in the generated tables -/
def genRatioFn (a b : List Char) : Option (Nat × Nat) :=
  if a == chars! "None" then
    if noneRatioIsOne && genNames.contains b then some (1, 1) else none
  else match genFromSeconds.lookup a, genFromSeconds.lookup b with
    | some fa, some fb => if timeRatioIsTargetOverSelf then some (fb, fa) else some (fa, fb)
    | _, _ => match genFromBits.lookup a, genFromBits.lookup b with
      | some fa, some fb => if bitRatioIsSelfOverTarget then some (fa, fb) else some (fb, fa)
      | _, _ => none

/-- one row of `genRatios` is a ratio of the model -/
def rowInModel (p : List Char × List Char × Nat × Nat) : Bool :=
  match Tag.ofRustName p.1, Tag.ofRustName p.2.1 with
  | some a, some b => a.rustName == p.1 && b.rustName == p.2.1 && ratioND a b == some (p.2.2.1, p.2.2.2)
  | _, _ => false

/-- **The ratios computed from the regenerated tables are the model's** (independently of the order
of the rows in `unit.rs`): the generated list has 435 rows, each of which is the model's ratio of
the two tags it names, and for *every* ordered pair of tags — convertible or not — the lookup in the
generated tables gives exactly `ratioND` (so no ratio of the model is missing from the code's tables
and no pair is convertible in one but not in the other). -/
theorem c19_generated_ratios_are_model :
    genRatios.length = 435 ∧
    (∀ p ∈ genRatios, ∃ a b : Tag, a.rustName = p.1 ∧ b.rustName = p.2.1 ∧
      ratioND a b = some (p.2.2.1, p.2.2.2)) ∧
    (∀ a b : Tag, genRatioFn a.rustName b.rustName = ratioND a b) := by
  refine ⟨by decide +kernel, ?_, ?_⟩
  · have hall : genRatios.all rowInModel = true := by decide +kernel
    intro p hp
    have := List.all_eq_true.mp hall p hp
    unfold rowInModel at this
    split at this
    · rename_i a b _ _
      simp only [Bool.and_eq_true, beq_iff_eq] at this
      exact ⟨a, b, this.1.1, this.1.2, this.2⟩
    · cases this
  · have hall : (Tag.all.all fun a => Tag.all.all fun b =>
        genRatioFn a.rustName b.rustName == ratioND a b) = true := by decide +kernel
    intro a b
    have := List.all_eq_true.mp (List.all_eq_true.mp hall a (Tag.mem_all a)) b (Tag.mem_all b)
    simpa using this

/-- **For every pair of the generated table** the exact ratio `n/d` rounds to a normal binary64
number within relative error `2⁻⁵³`; re-checked (by kernel evaluation of `rne` on the regenerated
table) whenever `unit.rs` changes. -/
theorem c19_f64_ratio_generated (p : List Char × List Char × Nat × Nat) (hp : p ∈ genRatios) :
    0 < p.2.2.1 ∧ 0 < p.2.2.2 ∧ ∃ m e, rne p.2.2.1 p.2.2.2 = some (m, e) ∧
      |f64Val m e - (p.2.2.1 : ℚ) / p.2.2.2| / ((p.2.2.1 : ℚ) / p.2.2.2) ≤ 1 / 2 ^ 53 ∧
      2 ^ 52 ≤ m ∧ m < 2 ^ 53 ∧ -1022 ≤ e + 52 ∧ e + 52 ≤ 1023 := by
  have hall : (genRatios.all fun p =>
      decide (0 < p.2.2.1) && decide (0 < p.2.2.2) && (rne p.2.2.1 p.2.2.2).isSome) = true := by
    decide +kernel
  have := List.all_eq_true.mp hall p hp
  simp only [Bool.and_eq_true, decide_eq_true_eq] at this
  obtain ⟨⟨hn, hd⟩, hs⟩ := this
  obtain ⟨⟨m, e⟩, hme⟩ := Option.isSome_iff_exists.mp hs
  exact ⟨hn, hd, m, e, hme, c19_rne_rel_err _ _ m e hn hd hme⟩

end generated

-- ------------------------------------------------------------------------------------------------
-- error bounds for the binary64 twin (standard model of rounding, over ℚ)

/-- unit roundoff of binary64 -/
def u : ℚ := 1 / 2 ^ 53

/-- `x` approximates `y` with relative error at most `ε` -/
def Near (ε x y : ℚ) : Prop := |x - y| ≤ ε * |y|

/-- the relative error accumulated by `k` roundings: `(1+u)^k − 1` -/
def eps (k : Nat) : ℚ := (1 + u) ^ k - 1

theorem u_pos : 0 < u := by unfold u; positivity

theorem eps_nonneg (k : Nat) : 0 ≤ eps k := by
  unfold eps
  have : (1 : ℚ) ≤ (1 + u) ^ k := one_le_pow₀ (by have := u_pos; linarith)
  linarith

theorem eps_one : eps 1 = u := by simp [eps]

theorem eps_add (i j : Nat) : eps i + eps j + eps i * eps j = eps (i + j) := by
  unfold eps; rw [pow_add]; ring

theorem near_of_eq {x y : ℚ} (ε : ℚ) (hε : 0 ≤ ε) (h : x = y) : Near ε x y := by
  unfold Near; rw [h, sub_self, abs_zero]; positivity

theorem near_mono {ε ε' x y : ℚ} (h : Near ε x y) (hle : ε ≤ ε') : Near ε' x y := by
  unfold Near at *
  exact h.trans (mul_le_mul_of_nonneg_right hle (abs_nonneg _))

theorem near_mul {ε₁ ε₂ a a₀ b b₀ : ℚ} (h₁ : Near ε₁ a a₀) (h₂ : Near ε₂ b b₀) :
    Near (ε₁ + ε₂ + ε₁ * ε₂) (a * b) (a₀ * b₀) := by
  unfold Near at *
  have e : a * b - a₀ * b₀ = (a - a₀) * b₀ + a₀ * (b - b₀) + (a - a₀) * (b - b₀) := by ring
  have hA := abs_nonneg (a - a₀)
  have hB := abs_nonneg (b - b₀)
  have ha0 := abs_nonneg a₀
  have hb0 := abs_nonneg b₀
  have hε₁ : 0 ≤ ε₁ * |a₀| := hA.trans h₁
  calc |a * b - a₀ * b₀|
      = |(a - a₀) * b₀ + a₀ * (b - b₀) + (a - a₀) * (b - b₀)| := by rw [e]
    _ ≤ |(a - a₀) * b₀| + |a₀ * (b - b₀)| + |(a - a₀) * (b - b₀)| := abs_add_three _ _ _
    _ = |a - a₀| * |b₀| + |a₀| * |b - b₀| + |a - a₀| * |b - b₀| := by simp only [abs_mul]
    _ ≤ ε₁ * |a₀| * |b₀| + |a₀| * (ε₂ * |b₀|) + ε₁ * |a₀| * (ε₂ * |b₀|) := by
        have t1 : |a - a₀| * |b₀| ≤ ε₁ * |a₀| * |b₀| := mul_le_mul_of_nonneg_right h₁ hb0
        have t2 : |a₀| * |b - b₀| ≤ |a₀| * (ε₂ * |b₀|) := mul_le_mul_of_nonneg_left h₂ ha0
        have t3 : |a - a₀| * |b - b₀| ≤ ε₁ * |a₀| * (ε₂ * |b₀|) := mul_le_mul h₁ h₂ hB hε₁
        linarith
    _ = (ε₁ + ε₂ + ε₁ * ε₂) * |a₀ * b₀| := by rw [abs_mul]; ring

theorem near_trans {ε₁ ε₂ x y z : ℚ} (hε₁ : 0 ≤ ε₁) (h₁ : Near ε₁ x y) (h₂ : Near ε₂ y z) :
    Near (ε₁ + ε₂ + ε₁ * ε₂) x z := by
  unfold Near at *
  have hy : |y| ≤ |z| + ε₂ * |z| := by
    have : |y| ≤ |z| + |y - z| := by
      have := abs_add_le z (y - z)
      simpa using this
    linarith
  have hx : |x - z| ≤ |x - y| + |y - z| := by
    have := abs_add_le (x - y) (y - z)
    simpa using this
  have : ε₁ * |y| ≤ ε₁ * (|z| + ε₂ * |z|) := mul_le_mul_of_nonneg_left hy hε₁
  nlinarith [abs_nonneg z]

theorem near_mul_const {ε x y : ℚ} (h : Near ε x y) (c : ℚ) : Near ε (x * c) (y * c) := by
  unfold Near at *
  rw [← sub_mul, abs_mul, abs_mul, ← mul_assoc]
  exact mul_le_mul_of_nonneg_right h (abs_nonneg c)

/-- one conversion step of the binary64 twin: `y` approximates the exact `w` after `i` roundings,
`r̂` is a rounded ratio, `z` the rounded product `y · r̂`; then `z` approximates `w · r` after `i + 2`. -/
theorem near_step {i : Nat} {y w rh r z : ℚ} (hy : Near (eps i) y w) (hr : Near u rh r)
    (hz : Near u z (y * rh)) : Near (eps (i + 2)) z (w * r) := by
  have h1 := near_mul hy (eps_one ▸ hr : Near (eps 1) rh r)
  rw [eps_add] at h1
  have h2 := near_trans (eps_nonneg 1) (eps_one ▸ hz : Near (eps 1) z (y * rh)) h1
  rw [eps_add] at h2
  have : 1 + (i + 1) = i + 2 := by omega
  rwa [this] at h2

theorem ratio_near (a b : Tag) (h : convertible a b = true) (bits : Nat) (hb : ratioBits a b = some bits) :
    Near u (f64OfBits bits) (ratioQ a b) := by
  obtain ⟨bits', hb', hpos, herr⟩ := c19_f64_ratio a b h
  rw [hb] at hb'
  cases hb'
  unfold Near u
  rw [div_le_iff₀ hpos] at herr
  rwa [abs_of_pos hpos]

/-- **The binary64 twin keeps the quantity up to three roundings.** `v` is the exact input, `x` its
`f64` (`u64 as f64`, or `v` itself), `r̂` the real `RATIO` constant of the pair, `z` the correctly
rounded product `x · r̂` that `Convert::convert` emits. Then the emitted number read in the target
unit is the input read in the source unit up to relative error `(1+2⁻⁵³)³ − 1 ≤ 4·2⁻⁵³`. -/
theorem c19_f64_convert_error (a b : Tag) (h : convertible a b = true) (ha : a ≠ .none) (bits : Nat)
    (hb : ratioBits a b = some bits) (v x z : ℚ) (hx : Near u x v) (hz : Near u z (x * f64OfBits bits)) :
    Near (eps 3) (z * Spec.scale b) (v * Spec.scale a) ∧ eps 3 ≤ 4 * u := by
  have hstep := near_step (eps_one ▸ hx : Near (eps 1) x v) (ratio_near a b h bits hb) hz
  have := near_mul_const hstep (Spec.scale b)
  rw [c19_quantity_preserved a b h ha v] at this
  exact ⟨this, by norm_num [eps, u]⟩

/-- **Composition A→B→C against A→C.** Going through an intermediate unit with two rounded ratios and
two rounded products stays within `(1+2⁻⁵³)⁵ − 1 ≤ 6·2⁻⁵³` of the exact quantity, the direct
conversion within `(1+2⁻⁵³)³ − 1`; hence the two routes differ by at most `10·2⁻⁵³` relative to the
exact value `v · ratio a c`. -/
theorem c19_f64_compose (a b c : Tag) (hab : convertible a b = true) (hbc : convertible b c = true)
    (ha : a ≠ .none) (bab bbc bac : Nat) (h1 : ratioBits a b = some bab) (h2 : ratioBits b c = some bbc)
    (h3 : ratioBits a c = some bac) (v x z₁ z₂ zd : ℚ) (hx : Near u x v)
    (hz₁ : Near u z₁ (x * f64OfBits bab)) (hz₂ : Near u z₂ (z₁ * f64OfBits bbc))
    (hzd : Near u zd (x * f64OfBits bac)) :
    Near (eps 5) (z₂ * Spec.scale c) (v * Spec.scale a) ∧
    Near (eps 3) (zd * Spec.scale c) (v * Spec.scale a) ∧
    |z₂ - zd| ≤ 10 * u * |v * ratioQ a c| := by
  obtain ⟨hac, hcomp⟩ := c19_ratio_compose a b c hab hbc ha
  have s1 := near_step (eps_one ▸ hx : Near (eps 1) x v) (ratio_near a b hab bab h1) hz₁
  have s2 := near_step s1 (ratio_near b c hbc bbc h2) hz₂
  rw [mul_assoc, hcomp] at s2
  have sd := near_step (eps_one ▸ hx : Near (eps 1) x v) (ratio_near a c hac bac h3) hzd
  refine ⟨?_, ?_, ?_⟩
  · have := near_mul_const s2 (Spec.scale c)
    rwa [c19_quantity_preserved a c hac ha v] at this
  · have := near_mul_const sd (Spec.scale c)
    rwa [c19_quantity_preserved a c hac ha v] at this
  · unfold Near at s2 sd
    have : |z₂ - zd| ≤ |z₂ - v * ratioQ a c| + |zd - v * ratioQ a c| := by
      have := abs_sub_le z₂ (v * ratioQ a c) zd
      rwa [abs_sub_comm (v * ratioQ a c) zd] at this
    have e5 : eps (1 + 2 + 2) ≤ 6 * u := by norm_num [eps, u]
    have e3 : eps (1 + 2) ≤ 4 * u := by norm_num [eps, u]
    have hn := abs_nonneg (v * ratioQ a c)
    nlinarith

/-- **Inverse pairs of `f64` constants**: `RATIO(a,b) · RATIO(b,a)` is 1 up to `(1+2⁻⁵³)² − 1 ≤ 3·2⁻⁵³`. -/
theorem c19_f64_inverse (a b : Tag) (hab : convertible a b = true) (hba : convertible b a = true)
    (bab bba : Nat) (h1 : ratioBits a b = some bab) (h2 : ratioBits b a = some bba) :
    Near (eps 2) (f64OfBits bab * f64OfBits bba) 1 ∧ eps 2 ≤ 3 * u := by
  have := near_mul (eps_one ▸ ratio_near a b hab bab h1 : Near (eps 1) _ _)
    (eps_one ▸ ratio_near b a hba bba h2 : Near (eps 1) _ _)
  rw [eps_add, c19_inverse a b hab hba] at this
  exact ⟨this, by norm_num [eps, u]⟩

/-- **Round trip of the binary64 twin**: converting there and back returns the input up to
`(1+2⁻⁵³)⁵ − 1 ≤ 6·2⁻⁵³`. -/
theorem c19_f64_roundtrip (a b : Tag) (hab : convertible a b = true) (hba : convertible b a = true)
    (bab bba : Nat) (h1 : ratioBits a b = some bab) (h2 : ratioBits b a = some bba)
    (v x z₁ z₂ : ℚ) (hx : Near u x v) (hz₁ : Near u z₁ (x * f64OfBits bab))
    (hz₂ : Near u z₂ (z₁ * f64OfBits bba)) :
    Near (eps 5) z₂ v ∧ eps 5 ≤ 6 * u := by
  have s1 := near_step (eps_one ▸ hx : Near (eps 1) x v) (ratio_near a b hab bab h1) hz₁
  have s2 := near_step s1 (ratio_near b a hba bba h2) hz₂
  rw [mul_assoc, c19_inverse a b hab hba, mul_one] at s2
  exact ⟨s2, by norm_num [eps, u]⟩

/-- the binary64 twin of a tower of unit wrappers: `z` results from `x` by multiplying, step by
step, with the real `RATIO` constant of the step and rounding (a step whose ratio is 1 returns its
input, which is such a rounding) -/
inductive FlChain : Tag → List Tag → ℚ → ℚ → Prop
  | nil (src : Tag) (x : ℚ) : FlChain src [] x x
  | cons (src t : Tag) (ts : List Tag) (x z₁ z : ℚ) (bits : Nat) (hb : ratioBits src t = some bits)
      (h₁ : Near u z₁ (x * f64OfBits bits)) (h : FlChain t ts z₁ z) : FlChain src (t :: ts) x z

/-- **Any tower of unit wrappers, binary64 twin.** For every well-typed tower `src → t₁ → … → tₙ`
(`src ≠ None`), if `x` approximates the exact input `w` after `i` roundings, the emitted number read
in `tₙ` is `w` read in `src` up to `(1+2⁻⁵³)^(i+2n) − 1`: two roundings per wrapper (the constant
and the product), nothing else. -/
theorem c19_f64_nested (src : Tag) (chain : List Tag) (hsrc : src ≠ .none)
    (hc : chainConvertible src chain = true) (i : Nat) (w x z : ℚ) (hx : Near (eps i) x w)
    (h : FlChain src chain x z) :
    Near (eps (i + 2 * chain.length)) (z * Spec.scale (chainLast src chain)) (w * Spec.scale src) := by
  induction h generalizing i w with
  | nil src x => simpa [chainLast] using near_mul_const hx (Spec.scale src)
  | cons src t ts x z₁ z bits hb h₁ _ ih =>
    simp only [chainConvertible, Bool.and_eq_true] at hc
    have ht : t ≠ .none := fun h => hsrc (convertible_to_none (h ▸ hc.1))
    have s := near_step hx (ratio_near src t hc.1 bits hb) h₁
    have := ih ht hc.2 (i + 2) (w * ratioQ src t) s
    rw [c19_quantity_preserved src t hc.1 hsrc w] at this
    have e : i + 2 + 2 * ts.length = i + 2 * (t :: ts).length := by simp only [List.length_cons]; omega
    rw [e] at this
    simpa [chainLast] using this

-- ------------------------------------------------------------------------------------------------
-- the bound as evaluated by the driver on observed conversions (`bound` requests)

theorem absQ_eq (x : ℚ) : absQ x = |x| := by
  unfold absQ
  split
  · rename_i h; rw [abs_of_neg h]
  · rename_i h; rw [abs_of_nonneg (not_lt.mp h)]

theorem nearB_iff (ε x y : ℚ) : nearB ε x y = true ↔ Near ε x y := by
  unfold nearB Near
  rw [decide_eq_true_iff, absQ_eq, absQ_eq]

theorem roundoff_eq : roundoff = u := by
  unfold roundoff u; norm_num

theorem epsQ_eq (k : Nat) : epsQ k = eps k := by
  unfold epsQ eps; rw [roundoff_eq]

theorem pow2_eq (e : Int) : pow2 e = (2 : ℚ) ^ e := by
  unfold pow2
  split
  · rename_i h
    have : (2 : ℚ) ^ e = (2 : ℚ) ^ e.toNat := by
      rw [← zpow_natCast, Int.toNat_of_nonneg h]
    rw [this]; norm_num
  · rename_i h
    have h' : 0 ≤ -e := by omega
    have : (2 : ℚ) ^ e = ((2 : ℚ) ^ (-e).toNat)⁻¹ := by
      rw [← zpow_natCast, Int.toNat_of_nonneg h', zpow_neg, inv_inv]
    rw [this]; norm_num

/-- on positive normal bit patterns the driver's exact reading is `f64OfBits` -/
theorem f64ToRat_normal (bits : Nat) (hpos : bits < 2 ^ 63) (hn : f64IsNormal bits = true) :
    f64ToRat bits = some (f64OfBits bits) := by
  unfold f64IsNormal at hn
  simp only [decide_eq_true_eq] at hn
  have hE : bits / 2 ^ 52 % 2 ^ 11 = bits / 2 ^ 52 := by omega
  have hs : ¬ (bits / 2 ^ 63 % 2 = 1) := by omega
  unfold f64ToRat f64OfBits f64Val
  simp only [hE] at hn ⊢
  have h1 : ¬ (bits / 2 ^ 52 = 2047) := by omega
  have h2 : ¬ (bits / 2 ^ 52 = 0) := by omega
  simp only [h1, h2, hs, decide_false, ↓reduceIte, Bool.false_eq_true, pow2_eq]

/-- **What an `ok` answer of the driver means.** When `convertBoundOk a b v zbits` evaluates to
`true` for an observed conversion (exact input `v`, emitted bit pattern `zbits`), the emitted value
`z`, read in the target unit, is the input read in the source unit up to `(1+2⁻⁵³)³ − 1` — the
conclusion of `c19_f64_convert_error`, checked on the real output instead of assumed from IEEE-754. -/
theorem c19_bound_check_sound (a b : Tag) (h : convertible a b = true) (ha : a ≠ .none) (v : ℚ)
    (zbits : Nat) (hok : convertBoundOk a b v zbits = some true) :
    ∃ z, f64ToRat zbits = some z ∧ Near (eps 3) (z * Spec.scale b) (v * Spec.scale a) := by
  unfold convertBoundOk at hok
  split at hok
  · rename_i n d z hnd hz
    simp only [Option.some.injEq] at hok
    have hq : ratioQ a b = (n : ℚ) / d := by simp [ratioQ, hnd]
    rw [nearB_iff, epsQ_eq, ← hq] at hok
    refine ⟨z, hz, ?_⟩
    have := near_mul_const hok (Spec.scale b)
    rwa [c19_quantity_preserved a b h ha v] at this
  · cases hok

-- non-vacuity: the constant 0.001 (Millisecond → Second) and a one-step tower
example : |f64OfBits 0x3f50624dd2f1a9fc - 1 / 1000| / (1 / 1000) ≤ 1 / 2 ^ 53 := by
  norm_num [f64OfBits, f64Val, abs_le]
example : FlChain (.second .milli) [.second .one] 1500 (1500 * f64OfBits 0x3f50624dd2f1a9fc) :=
  .cons _ _ _ _ _ _ 0x3f50624dd2f1a9fc (by decide +kernel) (near_of_eq u u_pos.le rfl) (.nil _ _)

end Units

#print axioms Units.c19_rne_rel_err
#print axioms Units.c19_f64_ratio
#print axioms Units.c19_generated_ratios_are_model
#print axioms Units.c19_f64_ratio_generated
#print axioms Units.c19_f64_convert_error
#print axioms Units.c19_f64_compose
#print axioms Units.c19_f64_inverse
#print axioms Units.c19_f64_roundtrip
#print axioms Units.c19_f64_nested
#print axioms Units.c19_bound_check_sound
