import Props.C06RefineA
/-! Simulation steps that touch slots, the entry's destructor (`closeSlot`, `emit`) and the end of the `iPc` thread. -/
namespace KeepAlive
open Spec

variable {cfg : List (Bool × Nat)} {s s' : St} {w w' : Option Nat} {t t' : SSt}

theorem modifyAt_id {α : Type} (l : List α) (i : Nat) : modifyAt (fun x => x) l i = l := by
  induction l generalizing i with
  | nil => rfl
  | cons a r ih => cases i <;> simp [modifyAt, ih]

theorem getElem?_of_len {i : Nat} {sl : Slot} (hsim : Sim s w t) (hsl : s.slots[i]? = some sl) :
    ∃ tl, t.slots[i]? = some tl := by
  have h1 : i < s.slots.length := by
    rcases Nat.lt_or_ge i s.slots.length with h | h
    · exact h
    · rw [List.getElem?_eq_none h] at hsl; cases hsl
  have h2 : i < t.slots.length := by rw [hsim.len]; exact h1
  exact ⟨t.slots[i], List.getElem?_eq_getElem h2⟩

/-- slot part of `Sim` when slot `i` changes on both sides -/
theorem sim_slots_mod {f : Slot → Slot} {g : SSlot → SSlot} {i : Nat} {sl : Slot} {tl : SSlot}
    (hsim : Sim s w t) (hsl : s.slots[i]? = some sl) (htl : t.slots[i]? = some tl)
    (hs : s'.slots = modifyAt f s.slots i) (ht : t'.slots = modifyAt g t.slots i)
    (hp : ∀ j, j ≠ i → PendAt s' w' j → PendAt s w j)
    (hi : SlotSim (PendAt s' w' i) (f sl) (g tl)) :
    t'.slots.length = s'.slots.length ∧
    (∀ j sl tl, s'.slots[j]? = some sl → t'.slots[j]? = some tl → SlotSim (PendAt s' w' j) sl tl) ∧
    (∀ j, PendAt s' w' j → j < s'.slots.length) := by
  rw [hs, ht]
  refine ⟨by simp [modifyAt_length, hsim.len], ?_, ?_⟩
  · intro j sl' tl' h1 h2
    rw [getElem?_modifyAt] at h1 h2
    by_cases hij : i = j
    · subst hij
      simp only [if_true, hsl, htl, Option.map_some, Option.some.injEq] at h1 h2
      subst h1; subst h2; exact hi
    · simp only [hij, if_false] at h1 h2
      exact (hsim.slots j sl' tl' h1 h2).mono (hp j (fun e => hij e.symm))
  · intro j hj
    rw [modifyAt_length]
    by_cases hij : i = j
    · subst hij
      rcases Nat.lt_or_ge i s.slots.length with h | h
      · exact h
      · rw [List.getElem?_eq_none h] at hsl; cases hsl
    · exact hsim.wlen j (hp j (fun e => hij e.symm) hj)

/-- `Sim` for a step that changes slot `i` (on either side; use `modifyAt_id` for the other) -/
theorem sim_mod_slots {f : Slot → Slot} {g : SSlot → SSlot} {i : Nat} {sl : Slot} {tl : SSlot}
    (hsim : Sim s w t) (hsl : s.slots[i]? = some sl) (htl : t.slots[i]? = some tl)
    (hs : s'.slots = modifyAt f s.slots i) (ht : t'.slots = modifyAt g t.slots i)
    (hp : ∀ j, j ≠ i → PendAt s' w' j → PendAt s w j)
    (hi : SlotSim (PendAt s' w' i) (f sl) (g tl))
    (hscal : t'.refsOut = s'.hS ∧ t'.fgOut + sumBy sentWBy s'.slots = s'.fgLive ∧ t'.dgOut = s'.dgLive ∧
      t'.dgBegun = s'.dgBegun ∧ t'.dgEnded = s'.dgDone ∧
      t'.inflight = pF s'.pPc + iF s'.iPc + s'.nUp + lF s'.lPc + s'.nDec + sumBy sentBy s'.slots ∧
      t'.plain = s'.plain ∧ t'.hits = s'.hits ∧ t'.apps = s'.appended.length) : Sim s' w' t' := by
  obtain ⟨a1, a2, a3, a4, a5, a6, a7, a8, a9⟩ := hscal
  obtain ⟨b0, b1, b2⟩ := sim_slots_mod (s' := s') (w' := w') (t' := t') hsim hsl htl hs ht hp hi
  exact ⟨a1, a2, a3, a4, a5, a6, a7, a8, a9, b0, b1, b2⟩

theorem feed_eG {i : Nat} {tl : SSlot} (htl : t.slots[i]? = some tl) (h1 : tl.gone = true) (h2 : tl.ended = false)
    (h3 : t.inflight > 0) : feed t (.eG i) =
      some { t with slots := modifyAt (fun sl => { sl with ended := true, sure := !cond t }) t.slots i,
                    inflight := t.inflight - 1 } := by
  simp [feed, htl, h1, h2, h3]

/-- the thread at `iPc` finishes: its end-of-drop observation is accepted -/
theorem sim_finishInner (hsim : Sim s w t) (hact : s.iPc = .pending ∨ s.iPc = .app) (hok : ∀ sl ∈ s.slots, SlotOk sl)
    (hg0 : (∃ sl ∈ s.slots, sl.closedAs.isSome) → s.hS = 0 ∧ (s.fgLive = 0 ∨ s.dgBegun > 0)) :
    ∃ t', feed t (innerEnd s w) = some t' ∧ Sim (finishInner s) w t' := by
  obtain ⟨r1, r2, r3, r4, r5, r6, r7, r8, r9, r10, -, -⟩ := id hsim
  have hif : iF s.iPc = 1 := by rcases hact with h | h <;> simp [h, iF]
  have h0 : t.inflight > 0 := by omega
  have hdone : ∀ (w' : Option Nat) (i : Nat), ¬ PendAt (finishInner s) w' i := by
    intro w' i h; simp [PendAt, finishInner] at h
  cases hby : s.iBy with
  | parent =>
    refine ⟨{ t with inflight := t.inflight - 1 }, by simp only [innerEnd, hby]; exact feed_eR h0, sim_same_slots hsim rfl rfl (fun i h => absurd h (hdone _ i)) ?_⟩
    simp only [finishInner, hby]; sim_scalars
  | dg =>
    refine ⟨{ t with inflight := t.inflight - 1, dgEnded := t.dgEnded + 1 }, by simp only [innerEnd, hby]; exact feed_eD h0, sim_same_slots hsim rfl rfl (fun i h => absurd h (hdone _ i)) ?_⟩
    simp only [finishInner, hby]; sim_scalars
  | fg =>
    cases hw : w with
    | none =>
      refine ⟨{ t with inflight := t.inflight - 1 }, by simp only [innerEnd, hby, endFg]; exact feed_eF h0, sim_same_slots hsim rfl rfl (fun i h => absurd h (hdone _ i)) ?_⟩
      simp only [finishInner, hby]; sim_scalars
    | some i =>
      have hp : PendAt s w i := ⟨hact, hby, hw⟩
      have hlt := hsim.wlen i hp
      have hsl : s.slots[i]? = some s.slots[i] := List.getElem?_eq_getElem hlt
      obtain ⟨tl, htl⟩ := getElem?_of_len hsim hsl
      have hss := hsim.slots i _ tl hsl htl
      obtain ⟨hop, hgn⟩ := hss.pend hp
      have hgone : tl.gone = true := hss.gone.mpr ⟨hop, by simp [hgn]⟩
      have hend : tl.ended = false := by
        cases he : tl.ended with
        | false => rfl
        | true => exact absurd hp (hss.ended he).2.2
      subst hw
      refine ⟨_, by simp only [innerEnd, hby, endFg]; exact feed_eG htl hgone hend h0, ?_⟩
      refine sim_mod_slots (f := fun x => x) hsim hsl htl (by simp [finishInner, modifyAt_id]) rfl
        (fun j _ h => absurd h (hdone _ j)) ?_ ?_
      · refine ⟨hss.opened, hss.mode, hss.gval, hss.gone, fun _ => ⟨hop, hgn, hdone _ i⟩, ?_, fun h => absurd h (hdone _ i)⟩
        intro hsure
        simp [Spec.cond] at hsure
        rcases (hok _ (List.getElem_mem hlt)).gone hop (by simp [hgn]) with h | h
        · exact h
        · exfalso
          have := hg0 ⟨_, List.getElem_mem hlt, h⟩
          omega
      · simp only [finishInner, hby]; sim_scalars
theorem sim_innerDrop (hr : Reachable cfg s) (hsim : Sim s w t) (h : step s .innerDrop = some s') :
    StepSim s w t .innerDrop s' := by
  have hr' := Reachable.step _ hr h
  have hsinv := sinv_reachable hr
  obtain ⟨h1,h2,h3,h4,h5,h6,h7,h8,h9,h10,h11,h11b,h12,h13,h14⟩ := inv_reachable hr
  obtain ⟨r1, r2, r3, r4, r5, r6, r7, r8, r9, r10, -, -⟩ := id hsim
  simp only [step, Option.ite_none_right_eq_some] at h
  obtain ⟨hc, h⟩ := h
  cases hcl : s.closure with
  | false =>
    simp only [hcl, Bool.false_eq_true, if_false, Option.some.injEq] at h
    subst h
    obtain ⟨t', hf, hs'⟩ := sim_finishInner hsim (Or.inl hc) hsinv.ok hsinv.g0
    exact stepSim_one hr' (by simp [obsOf, hcl]) hf hs'
  | true =>
    by_cases hv : s.vS - 1 = 0
    · simp only [hcl, hv, if_true, Option.some.injEq] at h
      subst h
      exact stepSim_zero (w' := w) (by simp [obsOf, hcl, hv])
        (sim_same_slots hsim rfl rfl (by sim_pend) (by sim_scalars))
    · simp only [hcl, hv, if_true, if_false, Option.some.injEq] at h
      subst h
      have hsim1 : Sim { s with closure := false, vS := s.vS - 1 } w t :=
        sim_same_slots hsim rfl rfl (by sim_pend) (by sim_scalars)
      obtain ⟨t', hf, hs'⟩ := sim_finishInner hsim1 (Or.inl hc) hsinv.ok hsinv.g0
      exact stepSim_one (w' := w) hr' (by simp [obsOf, hcl, hv, innerEnd]) hf hs'

theorem slotSim_close {p : Prop} {sl : Slot} {tl : SSlot} (h : SlotSim p sl tl) : SlotSim p (closeSlot1 sl) tl :=
  ⟨h.opened, h.mode, h.gval, h.gone, h.ended, h.sure, h.pend⟩

theorem sim_closeSlot (_hr : Reachable cfg s) (hsim : Sim s w t) (h : step s .closeSlot = some s') :
    StepSim s w t .closeSlot s' := by
  obtain ⟨r1, r2, r3, r4, r5, r6, r7, r8, r9, r10, r11, r12⟩ := id hsim
  simp only [step, Option.ite_none_right_eq_some] at h
  obtain ⟨hc, h⟩ := h
  split at h
  · rename_i l hl
    cases h
    have e1 := sumBy_closeFirst (f := sentBy) (fun _ => rfl) hl
    have e2 := sumBy_closeFirst (f := sentWBy) (fun _ => rfl) hl
    have e3 := closeFirst_length hl
    refine stepSim_zero rfl ⟨r1, ?_, r3, r4, r5, ?_, r7, r8, r9, ?_, ?_, ?_⟩
    · simp only [e2]; exact r2
    · simp only [e1]; exact r6
    · simp only [e3]; exact r10
    · intro i sl' tl hs1 hs2
      obtain ⟨sl, hsl, hor⟩ := closeFirst_get hl i hs1
      rcases hor with rfl | rfl
      · exact r11 i _ tl hsl hs2
      · exact slotSim_close (r11 i _ tl hsl hs2)
    · intro i hp; simp only [e3]; exact r12 i hp
  · cases h

/-! ## the append -/

theorem slotsOk_of (forced : Bool) : ∀ (ts : List SSlot) (ss : List Slot), ts.length = ss.length →
    (∀ (i : Nat) (tl : SSlot) (sl : Slot), ts[i]? = some tl → ss[i]? = some sl →
      slotOk forced tl (sl.closedAs.getD none) = true) →
    slotsOk forced ts (closedVals ss) = true
  | [], [], _, _ => rfl
  | tl :: ts, sl :: ss, hl, h => by
    simp only [closedVals, List.map_cons, slotsOk, Bool.and_eq_true]
    exact ⟨h 0 tl sl rfl rfl, slotsOk_of forced ts ss (by simpa using hl)
      (fun i a b h1 h2 => h (i + 1) a b (by simpa using h1) (by simpa using h2))⟩
  | [], _ :: _, hl, _ => by simp at hl
  | _ :: _, [], hl, _ => by simp at hl

/-- C13 clauses of the specification for one closed field -/
theorem slotOk_of_sim {p : Prop} {forced : Bool} {sl : Slot} {tl : SSlot} (hss : SlotSim p sl tl) (hok : SlotOk sl)
    {r : Option Nat} (hc : sl.closedAs = some r)
    (hg1 : sl.opened = true → sl.mode = .wait → forced = false → sl.sentOk = true) : slotOk forced tl r = true := by
  have hr := hok.closed r hc
  obtain ⟨o1, o2, o3, o4, o5, o6, o7⟩ := hss
  cases hso : sl.sentOk with
  | true =>
    obtain ⟨a, b⟩ := hok.sentg hso
    have hgone : tl.gone = true := o4.mpr ⟨b, a⟩
    simp [hso] at hr
    subst hr
    simp [slotOk, o1, b, hgone, o3]
  | false =>
    simp [hso] at hr
    subst hr
    cases hto : tl.opened <;> cases htg : tl.gone <;> simp [slotOk, hto, htg]
    have hop : sl.opened = true := by rw [← o1]; exact hto
    constructor
    · by_cases hm : tl.mode = .wait
      · right
        cases hf : forced with
        | true => rfl
        | false =>
          have := hg1 hop (by rw [← o2]; exact hm) hf
          rw [hso] at this; cases this
      · exact Or.inl hm
    · cases hsu : tl.sure with
      | false => rfl
      | true => have := o6 hsu; rw [hso] at this; cases this

theorem feed_app {p h : Nat} {vs : List (Option Nat)} (h1 : t.apps = 0) (h2 : Spec.cond t = true) (h3 : p = t.plain)
    (h4 : h = t.hits) (h5 : slotsOk (t.dgBegun > 0) t.slots vs = true) :
    feed t (.app p h vs) = some { t with apps := 1 } := by
  simp [feed, h1, h2, h3, h4, h5]

theorem allClosed_get {l : List Slot} (h : allClosed l = true) {i : Nat} {sl : Slot} (hsl : l[i]? = some sl) :
    ∃ r, sl.closedAs = some r := by
  simp only [allClosed, List.all_eq_true] at h
  have := h sl (List.mem_of_getElem? hsl)
  cases hc : sl.closedAs with
  | none => simp [hc] at this
  | some r => exact ⟨r, rfl⟩

theorem stepSim_emit_fin {s1 : St} {t1 : SSt} (hr' : Reachable cfg (finishInner s1)) (hi : s.iPc = .app)
    (hfeed : feed t (.app s.plain s.hits (closedVals s.slots)) = some t1) (h1 : t1.apps ≠ 0)
    (hsim1 : Sim s1 w t1) (hact : s1.iPc = .app) (hby : s1.iBy = s.iBy)
    (hok : ∀ sl ∈ s1.slots, SlotOk sl)
    (hg0 : (∃ sl ∈ s1.slots, sl.closedAs.isSome) → s1.hS = 0 ∧ (s1.fgLive = 0 ∨ s1.dgBegun > 0)) :
    StepSim s w t .emit (finishInner s1) := by
  obtain ⟨t', hf, hs'⟩ := sim_finishInner hsim1 (Or.inr hact) hok hg0
  have he : innerEnd s1 w = innerEnd s w := by simp [innerEnd, hby]
  rw [he] at hf
  exact stepSim_two (w' := w) hr' (by simp [obsOf, hi]) hfeed (Or.inr h1) hf hs'

theorem sim_emit (hr : Reachable cfg s) (hsim : Sim s w t) (h : step s .emit = some s') : StepSim s w t .emit s' := by
  have hr' := Reachable.step _ hr h
  have hsinv := sinv_reachable hr
  obtain ⟨h1,h2,h3,h4,h5,h6,h7,h8,h9,h10,h11,h11b,h12,h13,h14⟩ := inv_reachable hr
  obtain ⟨r1, r2, r3, r4, r5, r6, r7, r8, r9, r10, r11, -⟩ := id hsim
  simp only [step, Option.ite_none_right_eq_some, Option.some.injEq] at h
  obtain ⟨⟨ha, hall⟩, h⟩ := h
  obtain ⟨hh0, hcond⟩ := anyApp_cond hr ha
  have happ0 : s.appended.length = 0 := by
    simp only [anyApp, Bool.or_eq_true, decide_eq_true_eq] at ha
    dsimp only [nApp] at *
    grind [pV, pG, pA, iA, lA, lV, b2n]
  have hfeed : feed t (.app s.plain s.hits (closedVals s.slots)) = some { t with apps := 1 } := by
    refine feed_app (by omega) ?_ r7.symm r8.symm ?_
    · simp only [Spec.cond, Bool.and_eq_true, Bool.or_eq_true, decide_eq_true_eq]
      omega
    · refine slotsOk_of _ _ _ r10 ?_
      intro i tl sl htl hsl
      obtain ⟨r, hc⟩ := allClosed_get hall hsl
      have hmem := List.mem_of_getElem? hsl
      rw [hc]
      refine slotOk_of_sim (r11 i sl tl hsl htl) (hsinv.ok sl hmem) hc ?_
      intro ho hm hf
      refine hsinv.g1 sl hmem (by simp [hc]) ho hm ?_
      simp at hf; omega
  by_cases hp : s.pPc = .app <;> by_cases hl : s.lPc = .app <;> by_cases hi : s.iPc = .app <;>
    simp only [hp, hl, hi, if_true, if_false] at h <;> subst h
  all_goals first
    | exact stepSim_emit_fin hr' hi hfeed (by simp)
        (sim_same_slots hsim rfl rfl (by sim_pend) (by sim_scalars)) (by simp) rfl hsinv.ok hsinv.g0
    | exact stepSim_one (w' := w) hr' (by simp [obsOf, hi]) hfeed
        (sim_same_slots hsim rfl rfl (by sim_pend) (by sim_scalars))

end KeepAlive
