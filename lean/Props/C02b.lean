import Props.C02a
/-!
Lemmas for C02, part b: encoded dimension arrays, `extend_with_strings`, dimension-set entries.
-/
namespace Emf
open Json

/-! ### Encoded dimension arrays, `extend_with_strings`, `MetricsForDimensionSet::new` -/

/-- a JSON array with its framing visible: `[` items `]` -/
def IsArrLit (d : Bytes) : Prop := ∃ items, d = 91 :: (items ++ [93]) ∧ IsItems items

theorem IsArrLit.isVal {d : Bytes} (h : IsArrLit d) : IsVal d := by
  obtain ⟨items, rfl, hi⟩ := h; exact IsVal.arr hi

theorem IsArrLit.jarrStrings (xs : List Bytes) : IsArrLit (jarrStrings xs) :=
  ⟨_, rfl, IsItems.sepBy (by
    intro v hv
    obtain ⟨s, _, rfl⟩ := List.mem_map.mp hv
    exact IsVal.jstr s)⟩

theorem extendLoop_spec (names : List Bytes) (items : Bytes) (first : Bool) (hi : IsItems items)
    (hf : first = true ↔ items = []) :
    ∃ items', extendLoop (91 :: items) first names = 91 :: items' ∧ IsItems items' := by
  induction names generalizing items first with
  | nil => exact ⟨items, rfl, hi⟩
  | cons n rest ih =>
    unfold extendLoop
    cases first with
    | true =>
      have : items = [] := hf.mp rfl
      subst this
      simp only [↓reduceIte, List.cons_append, List.nil_append]
      exact ih (jstr n) false (IsItems.one (IsVal.jstr n)) (by simp [(IsVal.jstr n).ne_nil])
    | false =>
      have hne : items ≠ [] := fun h => by simpa using hf.mpr h
      simp only [Bool.false_eq_true, ↓reduceIte, List.cons_append, List.append_assoc]
      exact ih (items ++ 44 :: jstr n) false (hi.push hne (IsVal.jstr n)) (by simp)

theorem IsArrLit.extendWithStrings {d : Bytes} (h : IsArrLit d) (names : List Bytes) :
    IsArrLit (extendWithStrings d names) := by
  obtain ⟨items, rfl, hi⟩ := h
  unfold Emf.extendWithStrings
  have hlen : (91 :: (items ++ [93])).length - 1 = (91 :: items).length := by simp
  have htake : (91 :: (items ++ [93])).take ((91 :: (items ++ [93])).length - 1) = 91 :: items := by
    rw [hlen]
    have : 91 :: (items ++ [93]) = (91 :: items) ++ [93] := by simp
    rw [this, List.take_left]
  simp only [htake]
  obtain ⟨items', e, hi'⟩ := extendLoop_spec names items ((91 :: (items ++ [93])).length == 2) hi (by
    simp only [List.length_cons, List.length_append, List.length_nil, beq_iff_eq]
    constructor
    · intro h; exact List.length_eq_zero_iff.mp (by omega)
    · intro h; subst h; rfl)
  rw [e]
  exact ⟨items', by simp, hi'⟩

theorem IsMembers.dimPairs (key : DimKey) :
    IsMembers (key.map fun kv => 44 :: (jstr kv.1 ++ 58 :: jstr kv.2)).flatten := by
  induction key with
  | nil => exact IsMembers.nil
  | cons kv rest ih =>
    simp only [List.map_cons, List.flatten_cons]
    exact (IsMembers.one (IsKey.jstr _) (IsVal.jstr _)).append ih

/-- the head of every record: `{"_aws":{"CloudWatchMetrics":[{"Namespace":"ns0","Dimensions":[` -/
def recHead (cfg : Config) : Bytes := awsOpen ++ jstr cfg.ns0 ++ dimensionsAfterNs

/-- invariant of a dimension-set entry -/
def DimInv (cfg : Config) (e : DimEntry) : Prop :=
  ∃ P F D M, e.fieldsBuf = ⟨(125 :: P).length, 125 :: P ++ F⟩ ∧ IsMembers P ∧ IsMembers F ∧
    e.metricsBuf = ⟨(recHead cfg ++ D ++ metricsPrefix).length, recHead cfg ++ D ++ metricsPrefix ++ M⟩ ∧
    IsItems D ∧ IsItems M ∧ e.afterNsIndex = (awsOpen ++ jstr cfg.ns0).length

theorem DimInv.new (cfg : Config) (eachDims : List Bytes) (he : ∀ d ∈ eachDims, IsArrLit d) (key : DimKey)
    (index : Nat) : DimInv cfg (DimEntry.new (jstr cfg.ns0) eachDims key index) := by
  refine ⟨(key.map fun kv => 44 :: (jstr kv.1 ++ 58 :: jstr kv.2)).flatten, [],
    sepBy [44] (eachDims.map fun d => extendWithStrings d (key.map (·.1))), [], ?_, IsMembers.dimPairs key,
    IsMembers.nil, ?_, ?_, IsItems.nil, rfl⟩
  · simp [DimEntry.new, PBuf.new, dimFieldsPrefix]
  · simp [DimEntry.new, PBuf.new, recHead, List.append_assoc]
  · apply IsItems.sepBy
    intro v hv
    obtain ⟨d, hd, rfl⟩ := List.mem_map.mp hv
    exact ((he d hd).extendWithStrings _).isVal

theorem dimFind?_mem {m : List DimEntry} {key : DimKey} {e : DimEntry} (h : dimFind? m key = some e) : e ∈ m := by
  induction m with
  | nil => simp [dimFind?] at h
  | cons e' rest ih =>
    unfold dimFind? at h
    split at h
    · cases h; simp
    · simp [ih h]

theorem dimSet_forall {P : DimEntry → Prop} {m : List DimEntry} {e : DimEntry} (hm : ∀ x ∈ m, P x) (he : P e) :
    ∀ x ∈ dimSet m e, P x := by
  induction m with
  | nil => simpa [dimSet] using he
  | cons e' rest ih =>
    unfold dimSet
    split
    · intro x hx
      rcases List.mem_cons.mp hx with rfl | h
      · exact he
      · exact hm x (by simp [h])
    · intro x hx
      rcases List.mem_cons.mp hx with rfl | h
      · exact hm x (by simp)
      · exact ih (fun y hy => hm y (by simp [hy])) x h
end Emf
