import Model.EmfSpec
import Props.C08Lemmas
/-!
The invariant of the validation state machine (`run … allOn`) over an error-free prefix, and the
characterisation "no error recorded ⇔ the prefix is `Good`" used by `Props/C08.lean`.
-/
namespace EmfSpec

variable {F : Type}

/-! ### lists -/

theorem dedup_mem' {α : Type} [DecidableEq α] (l : List α) (a : α) : a ∈ dedup l ↔ a ∈ l := by
  induction l with
  | nil => simp [dedup]
  | cons x xs ih =>
    simp only [dedup, List.mem_cons, List.mem_filter, ih]
    by_cases h : a = x <;> simp [h]

theorem snoc_induction {α : Type} {P : List α → Prop} (h0 : P []) (hs : ∀ l x, P l → P (l ++ [x])) :
    ∀ l, P l := by
  have : ∀ l : List α, P l.reverse := by
    intro l
    induction l with
    | nil => exact h0
    | cons x l ih => rw [List.reverse_cons]; exact hs _ _ ih
  intro l
  have := this l.reverse
  rwa [List.reverse_reverse] at this

theorem metricItems_append (e e' : Entry F) : metricItems (e ++ e') = metricItems e ++ metricItems e' := by
  induction e with
  | nil => rfl
  | cons x e ih =>
    cases x with
    | value n v => cases v <;> simp [metricItems, ih]
    | _ => simp [metricItems, ih]

theorem strItems_append (e e' : Entry F) : strItems (e ++ e') = strItems e ++ strItems e' := by
  induction e with
  | nil => rfl
  | cons x e ih =>
    cases x with
    | value n v => cases v <;> simp [strItems, ih]
    | _ => simp [strItems, ih]

theorem timestamps_append (e e' : Entry F) : timestamps (e ++ e') = timestamps e ++ timestamps e' := by
  induction e with
  | nil => rfl
  | cons x e ih => cases x <;> simp [timestamps, ih]

theorem entryDimsItems_append (e e' : Entry F) :
    entryDimsItems (e ++ e') = entryDimsItems e ++ entryDimsItems e' := by
  induction e with
  | nil => rfl
  | cons x e ih => cases x <;> simp [entryDimsItems, ih]

theorem valueNames_append (e e' : Entry F) : valueNames (e ++ e') = valueNames e ++ valueNames e' := by
  induction e with
  | nil => rfl
  | cons x e ih => cases x <;> simp [valueNames, ih]

theorem slots_append (cfg : Config) (e e' : Entry F) : slots cfg (e ++ e') = slots cfg e ++ slots cfg e' := by
  induction e with
  | nil => rfl
  | cons x e ih =>
    cases x with
    | value n v => cases v <;> simp [slots, ih]
    | _ => simp [slots, ih]

def hasSplit : Entry F → Bool
  | [] => false
  | .allowSplit :: _ => true
  | _ :: e => hasSplit e

theorem hasSplit_append (e e' : Entry F) : hasSplit (e ++ e') = (hasSplit e || hasSplit e') := by
  induction e with
  | nil => rfl
  | cons x e ih => cases x <;> simp [hasSplit, ih]

/-- some metric of the entry goes to a split record -/
def routedAny (cfg : Config) (e : Entry F) : Bool := (metricItems e).any fun p => (routeOf cfg p.2).isSome

theorem dimsWithoutSplit_true (cfg : Config) (e : Entry F) (h : hasSplit e = false) (b : Bool) :
    dimsWithoutSplit cfg b e = (!b && routedAny cfg e) := by
  induction e generalizing b with
  | nil => simp [dimsWithoutSplit, routedAny, metricItems]
  | cons x e ih =>
    cases x with
    | allowSplit => simp [hasSplit] at h
    | value n v =>
      cases v with
      | metric m =>
        simp only [hasSplit] at h
        simp only [dimsWithoutSplit, ih h, routedAny, metricItems, List.any_cons]
        cases b <;> simp
      | _ => simp only [hasSplit] at h; simpa [dimsWithoutSplit, routedAny, metricItems] using ih h b
    | _ => simp only [hasSplit] at h; simpa [dimsWithoutSplit, routedAny, metricItems] using ih h b

theorem dimsWithoutSplit_split (cfg : Config) (e : Entry F) : dimsWithoutSplit cfg true e = false := by
  induction e with
  | nil => rfl
  | cons x e ih =>
    cases x with
    | value n v => cases v <;> simp [dimsWithoutSplit, ih]
    | _ => simp [dimsWithoutSplit, ih]

theorem dimsWithoutSplit_snoc (cfg : Config) (e : Entry F) (x : Item F) (b : Bool) :
    dimsWithoutSplit cfg b (e ++ [x]) =
      (dimsWithoutSplit cfg b e ||
        match x with
        | .value _ (.metric m) => !(b || hasSplit e) && (routeOf cfg m).isSome
        | _ => false) := by
  induction e generalizing b with
  | nil =>
    cases x with
    | value n v => cases v <;> simp [dimsWithoutSplit, hasSplit]
    | _ => simp [dimsWithoutSplit]
  | cons y e ih =>
    cases y with
    | allowSplit =>
      simp only [List.cons_append, dimsWithoutSplit, ih, hasSplit]
      cases x with
      | value n v => cases v <;> simp
      | _ => simp
    | value n v =>
      cases v with
      | metric m => simp only [List.cons_append, dimsWithoutSplit, ih, hasSplit, Bool.or_assoc]
      | _ => simp only [List.cons_append, dimsWithoutSplit, ih, hasSplit]
    | _ => simp only [List.cons_append, dimsWithoutSplit, ih, hasSplit]

theorem lateDims_snoc (cfg : Config) (e : Entry F) (x : Item F) (b : Bool) :
    lateDims cfg b (e ++ [x]) =
      (lateDims cfg b e ||
        match x with
        | .entryDims _ => b || routedAny cfg e
        | _ => false) := by
  induction e generalizing b with
  | nil =>
    cases x with
    | value n v => cases v <;> simp [lateDims, routedAny, metricItems]
    | _ => simp [lateDims, routedAny, metricItems]
  | cons y e ih =>
    cases y with
    | entryDims s =>
      simp only [List.cons_append, lateDims, ih, routedAny, metricItems]
      cases x <;> simp [Bool.or_assoc, Bool.or_comm, Bool.or_left_comm]
    | value n v =>
      cases v with
      | metric m =>
        simp only [List.cons_append, lateDims, ih, routedAny, metricItems, List.any_cons]
        cases x <;> simp [Bool.or_assoc]
      | _ => simp only [List.cons_append, lateDims, ih, routedAny, metricItems]
    | _ => simp only [List.cons_append, lateDims, ih, routedAny, metricItems]

theorem conflict_comm (a b : Slot) : conflict a b = conflict b a := by
  cases a with
  | str n =>
    cases b with
    | str n' => simp only [conflict, Slot.name]; exact BEq.comm
    | met n' r' => simp only [conflict, Slot.name]; exact BEq.comm
  | met n r =>
    cases b with
    | str n' => simp only [conflict, Slot.name]; exact BEq.comm
    | met n' r' => simp only [conflict]; rw [BEq.comm (a := n), BEq.comm (a := r)]

theorem noConflict_snoc (l : List Slot) (s : Slot) :
    noConflict (l ++ [s]) = (noConflict l && l.all fun t => !conflict t s) := by
  induction l with
  | nil => simp [noConflict]
  | cons a l ih =>
    simp only [List.cons_append, noConflict, ih, List.all_append, List.all_cons, List.all_nil, Bool.and_true]
    cases noConflict l <;> cases (l.all fun t => !conflict a t) <;> cases (l.all fun t => !conflict t s) <;>
      cases conflict a s <;> simp

/-! ### the name map -/

theorem get_set (m : VMap) (k n : Str) (v : Kind) :
    (m.set k v).get n = if k = n then some v else m.get n := by
  unfold VMap.get VMap.set
  by_cases h : k = n <;> simp [List.find?_cons, h]

theorem get_insertUnfound (m : VMap) (d n : Str) :
    (insertUnfound m d).get n = if m.get n = none ∧ d = n then some .unfound else m.get n := by
  unfold insertUnfound
  by_cases hdn : d = n
  · subst hdn
    cases h : m.get d <;> simp [h, get_set]
  · cases h : m.get d <;> simp [h, get_set, hdn]

theorem get_foldl_insertUnfound (ds : List Str) (m : VMap) (n : Str) :
    (ds.foldl insertUnfound m).get n = if m.get n = none ∧ n ∈ ds then some .unfound else m.get n := by
  induction ds generalizing m with
  | nil => simp
  | cons d ds ih =>
    rw [List.foldl_cons, ih, get_insertUnfound]
    by_cases h2 : d = n
    · subst h2
      by_cases h1 : m.get d = none <;> simp [h1]
    · have h2' : ¬ n = d := fun e => h2 e.symm
      simp [h2, h2']

theorem mem_keys_of_get (m : VMap) (n : Str) (k : Kind) (h : m.get n = some k) : n ∈ m.map (·.1) := by
  unfold VMap.get at h
  simp only [Option.map_eq_some_iff] at h
  obtain ⟨p, hp, _⟩ := h
  have h1 := List.mem_of_find?_eq_some hp
  have h2 := List.find?_some hp
  simp only [beq_iff_eq] at h2
  exact List.mem_map.mpr ⟨p, h1, h2⟩

/-! ### dimension-set indexes -/

theorem indexOfKey_append_mem (k : Key) (ks ks' : List Key) (h : k ∈ ks) :
    indexOfKey k (ks ++ ks') = indexOfKey k ks := by
  induction ks with
  | nil => cases h
  | cons x xs ih =>
    simp only [List.cons_append, indexOfKey]
    by_cases hx : x = k
    · simp [hx]
    · simp only [hx, ↓reduceIte]
      rcases List.mem_cons.mp h with h | h
      · exact absurd h.symm hx
      · rw [ih h]

theorem indexOfKey_append_new (k : Key) (ks : List Key) (h : k ∉ ks) :
    indexOfKey k (ks ++ [k]) = ks.length := by
  induction ks with
  | nil => simp [indexOfKey]
  | cons x xs ih =>
    simp only [List.mem_cons, not_or] at h
    simp only [List.cons_append, indexOfKey, List.length_cons]
    have : x ≠ k := fun e => h.1 e.symm
    simp [this, ih h.2]

theorem indexOfKey_lt (k : Key) (ks : List Key) (h : k ∈ ks) : indexOfKey k ks < ks.length := by
  induction ks with
  | nil => cases h
  | cons x xs ih =>
    simp only [indexOfKey, List.length_cons]
    by_cases hx : x = k
    · simp [hx]
    · simp only [hx, ↓reduceIte]
      rcases List.mem_cons.mp h with h | h
      · exact absurd h.symm hx
      · have := ih h; omega

theorem indexOfKey_inj (k k' : Key) (ks : List Key) (h : k ∈ ks) (h' : k' ∈ ks)
    (he : indexOfKey k ks = indexOfKey k' ks) : k = k' := by
  induction ks with
  | nil => cases h
  | cons x xs ih =>
    simp only [indexOfKey] at he
    by_cases hx : x = k <;> by_cases hx' : x = k'
    · exact hx.symm.trans hx'
    · simp [hx, hx'] at he; exact he
    · simp [hx, hx'] at he; exact he.symm
    · simp only [hx, hx', ↓reduceIte, Nat.add_right_cancel_iff] at he
      have h1 : k ∈ xs := by
        rcases List.mem_cons.mp h with h | h
        · exact absurd h.symm hx
        · exact h
      have h2 : k' ∈ xs := by
        rcases List.mem_cons.mp h' with h | h
        · exact absurd h.symm hx'
        · exact h
      exact ih h1 h2 he

/-- the index of the record a metric goes to (0 = no dimensions) -/
def idxOf (cfg : Config) (keys : List Key) (m : Metric F) : Nat :=
  match routeOf cfg m with
  | none => 0
  | some k => indexOfKey k keys + 1

theorem idxOf_inj (cfg : Config) (keys : List Key) (m m' : Metric F)
    (h : ∀ k, routeOf cfg m = some k → k ∈ keys) (h' : ∀ k, routeOf cfg m' = some k → k ∈ keys)
    (he : idxOf cfg keys m = idxOf cfg keys m') : routeOf cfg m = routeOf cfg m' := by
  unfold idxOf at he
  cases hr : routeOf cfg m <;> cases hr' : routeOf cfg m' <;> simp [hr, hr'] at he ⊢
  exact indexOfKey_inj _ _ keys (h _ hr) (h' _ hr') he

theorem routeOf_some (cfg : Config) (m : Metric F) (k : Key) (h : routeOf cfg m = some k) :
    (cfg.allowIgnored || m.dims.isEmpty) = false ∧ k = sortKey m.dims := by
  unfold routeOf at h
  split at h
  · cases h
  · rename_i hg
    simp only [Option.some.injEq] at h
    exact ⟨by simpa using hg, h.symm⟩

theorem routeOf_none (cfg : Config) (m : Metric F) (h : routeOf cfg m = none) :
    (cfg.allowIgnored || m.dims.isEmpty) = true := by
  unfold routeOf at h
  split at h
  · assumption
  · cases h

/-! ### `Good`: the prefix has none of the defects that are detected while the entry is written -/

def strNames (e : Entry F) : List Str := (strItems e).map (·.1)

def metricsNamed (n : Str) (e : Entry F) : List (Metric F) :=
  (metricItems e).filterMap fun p => if p.1 = n then some p.2 else none

theorem metricsNamed_append (n : Str) (e e' : Entry F) :
    metricsNamed n (e ++ e') = metricsNamed n e ++ metricsNamed n e' := by
  simp [metricsNamed, metricItems_append]

theorem strNames_append (e e' : Entry F) : strNames (e ++ e') = strNames e ++ strNames e' := by
  simp [strNames, strItems_append]

theorem mem_metricsNamed (n : Str) (e : Entry F) (m : Metric F) :
    m ∈ metricsNamed n e ↔ (n, m) ∈ metricItems e := by
  simp only [metricsNamed, List.mem_filterMap]
  constructor
  · rintro ⟨p, hp, h⟩
    split at h
    · rename_i hn; cases h; cases p; simp_all
    · cases h
  · intro h; exact ⟨(n, m), h, by simp⟩

structure Good (cfg : Config) (e : Entry F) : Prop where
  ts : (timestamps e).length ≤ 1
  names : ∀ n ∈ valueNames e, n ≠ [] ∧ n ≠ awsName
  conf : noConflict (slots cfg e) = true
  under : ∀ p ∈ metricItems e, p.1 ∉ declaredDims cfg e
  split : dimsWithoutSplit cfg false e = false
  dempty : ∀ s ∈ entryDimsItems e, s ≠ []
  dtwice : (entryDimsItems e).length ≤ 1
  late : lateDims cfg false e = false

theorem conflict_str_str (a b : Str) : conflict (.str a) (.str b) = (a == b) := rfl
theorem conflict_met_str (a b : Str) (r : Option Key) : conflict (.met a r) (.str b) = (a == b) := rfl
theorem conflict_str_met (a b : Str) (r : Option Key) : conflict (.str a) (.met b r) = (a == b) := rfl
theorem conflict_met_met (a b : Str) (r r' : Option Key) :
    conflict (.met a r) (.met b r') = (a == b && r == r') := rfl

theorem strNames_cons_str (n s : Str) (e : Entry F) : strNames (.value n (.str s) :: e) = n :: strNames e := rfl
theorem strNames_cons_metric (n : Str) (m : Metric F) (e : Entry F) :
    strNames (.value n (.metric m) :: e) = strNames e := rfl
theorem metricsNamed_cons_str (k n s : Str) (e : Entry F) :
    metricsNamed k (.value n (.str s) :: e) = metricsNamed k e := rfl
theorem metricsNamed_cons_metric (k n : Str) (m : Metric F) (e : Entry F) :
    metricsNamed k (.value n (.metric m) :: e) = if n = k then m :: metricsNamed k e else metricsNamed k e := by
  simp only [metricsNamed, metricItems, List.filterMap_cons]
  split <;> simp_all

theorem slots_all_str (cfg : Config) (e : Entry F) (n : Str) :
    ((slots cfg e).all fun t => !conflict t (.str n)) = true ↔ n ∉ strNames e ∧ metricsNamed n e = [] := by
  induction e with
  | nil => simp [slots, strNames, strItems, metricsNamed, metricItems]
  | cons x e ih =>
    cases x with
    | value n' v =>
      cases v with
      | str s =>
        rw [show slots cfg (.value n' (.str s) :: e) = .str n' :: slots cfg e from rfl, List.all_cons,
          Bool.and_eq_true, ih, conflict_str_str, strNames_cons_str, metricsNamed_cons_str]
        simp only [Bool.not_eq_eq_eq_not, Bool.not_true, beq_eq_false_iff_ne, ne_eq, List.mem_cons, not_or]
        constructor
        · rintro ⟨h1, h2, h3⟩; exact ⟨⟨fun h => h1 h.symm, h2⟩, h3⟩
        · rintro ⟨⟨h1, h2⟩, h3⟩; exact ⟨fun h => h1 h.symm, h2, h3⟩
      | metric m =>
        rw [show slots cfg (.value n' (.metric m) :: e) = .met n' (routeOf cfg m) :: slots cfg e from rfl,
          List.all_cons, Bool.and_eq_true, ih, conflict_met_str, strNames_cons_metric, metricsNamed_cons_metric]
        by_cases h : n' = n
        · simp [h]
        · simp [h]
      | error => exact ih
      | nothing => exact ih
    | _ => exact ih

theorem slots_all_met (cfg : Config) (e : Entry F) (n : Str) (r : Option Key) :
    ((slots cfg e).all fun t => !conflict t (.met n r)) = true
      ↔ n ∉ strNames e ∧ ∀ m' ∈ metricsNamed n e, routeOf cfg m' ≠ r := by
  induction e with
  | nil => simp [slots, strNames, strItems, metricsNamed, metricItems]
  | cons x e ih =>
    cases x with
    | value n' v =>
      cases v with
      | str s =>
        rw [show slots cfg (.value n' (.str s) :: e) = .str n' :: slots cfg e from rfl, List.all_cons,
          Bool.and_eq_true, ih, conflict_str_met, strNames_cons_str, metricsNamed_cons_str]
        simp only [Bool.not_eq_eq_eq_not, Bool.not_true, beq_eq_false_iff_ne, ne_eq, List.mem_cons, not_or]
        constructor
        · rintro ⟨h1, h2, h3⟩; exact ⟨⟨fun h => h1 h.symm, h2⟩, h3⟩
        · rintro ⟨⟨h1, h2⟩, h3⟩; exact ⟨fun h => h1 h.symm, h2, h3⟩
      | metric m =>
        rw [show slots cfg (.value n' (.metric m) :: e) = .met n' (routeOf cfg m) :: slots cfg e from rfl,
          List.all_cons, Bool.and_eq_true, ih, conflict_met_met, strNames_cons_metric, metricsNamed_cons_metric]
        by_cases h : n' = n
        · subst h
          simp only [beq_self_eq_true, Bool.true_and, Bool.not_eq_eq_eq_not, Bool.not_true,
            beq_eq_false_iff_ne, ne_eq, ↓reduceIte, List.mem_cons, forall_eq_or_imp]
          constructor
          · rintro ⟨h1, h2, h3⟩; exact ⟨h2, h1, h3⟩
          · rintro ⟨h2, h1, h3⟩; exact ⟨h1, h2, h3⟩
        · simp [h]
      | error => exact ih
      | nothing => exact ih
    | _ => exact ih

theorem routedAny_append (cfg : Config) (e e' : Entry F) :
    routedAny cfg (e ++ e') = (routedAny cfg e || routedAny cfg e') := by
  simp [routedAny, metricItems_append]

theorem mem_declared_snoc (cfg : Config) (e : Entry F) (x : Item F) (n : Str) :
    n ∈ declaredDims cfg (e ++ [x]) ↔
      n ∈ declaredDims cfg e ∨ (match x with | .entryDims sets => n ∈ sets.flatten | _ => False) := by
  simp only [declaredDims, entryDimsItems_append, List.flatten_append, List.mem_append, or_assoc]
  cases x <;> simp [entryDimsItems]

/-- what a new item must satisfy for the prefix to stay `Good` -/
def NewOk (cfg : Config) (e : Entry F) : Item F → Prop
  | .timestamp _ => timestamps e = []
  | .entryDims sets =>
    sets ≠ [] ∧ entryDimsItems e = [] ∧ routedAny cfg e = false ∧ ∀ p ∈ metricItems e, p.1 ∉ sets.flatten
  | .value n v =>
    n ≠ [] ∧ n ≠ awsName ∧
    match v with
    | .str _ => n ∉ strNames e ∧ metricsNamed n e = []
    | .metric m =>
      n ∉ strNames e ∧ (∀ m' ∈ metricsNamed n e, routeOf cfg m' ≠ routeOf cfg m) ∧ n ∉ declaredDims cfg e
        ∧ ((routeOf cfg m).isSome = true → hasSplit e = true)
    | _ => True
  | _ => True

theorem good_snoc (cfg : Config) (e : Entry F) (x : Item F) :
    Good cfg (e ++ [x]) ↔ Good cfg e ∧ NewOk cfg e x := by
  have hsplit0 : ∀ e : Entry F, dimsWithoutSplit cfg false e = false →
      (hasSplit e = false → routedAny cfg e = false) := by
    intro e h hs
    rw [dimsWithoutSplit_true cfg e hs] at h
    simpa using h
  constructor
  · intro g
    have ge : Good cfg e := by
      refine ⟨?_, ?_, ?_, ?_, ?_, ?_, ?_, ?_⟩
      · have := g.ts; rw [timestamps_append, List.length_append] at this; omega
      · intro n hn; exact g.names n (by rw [valueNames_append]; exact List.mem_append_left _ hn)
      · have := g.conf
        rw [slots_append] at this
        cases hs : slots cfg [x] with
        | nil => rw [hs] at this; simpa using this
        | cons s l =>
          have hl : l = [] := by
            cases x with
            | value n v => cases v <;> simp_all [slots]
            | _ => simp [slots] at hs
          subst hl
          rw [hs, noConflict_snoc] at this
          exact (Bool.and_eq_true_iff.mp this).1
      · intro p hp hd
        exact g.under p (by rw [metricItems_append]; exact List.mem_append_left _ hp)
          ((mem_declared_snoc cfg e x p.1).mpr (Or.inl hd))
      · have := g.split
        rw [dimsWithoutSplit_snoc] at this
        exact (Bool.or_eq_false_iff.mp this).1
      · intro s hs; exact g.dempty s (by rw [entryDimsItems_append]; exact List.mem_append_left _ hs)
      · have := g.dtwice; rw [entryDimsItems_append, List.length_append] at this; omega
      · have := g.late
        rw [lateDims_snoc] at this
        exact (Bool.or_eq_false_iff.mp this).1
    refine ⟨ge, ?_⟩
    cases x with
    | timestamp t =>
      have := g.ts
      simp only [timestamps_append, timestamps, List.length_append, List.length_cons, List.length_nil] at this
      exact List.eq_nil_of_length_eq_zero (by omega)
    | allowSplit => trivial
    | otherCfg => trivial
    | allowUnroutable => trivial
    | entryDims sets =>
      refine ⟨?_, ?_, ?_, ?_⟩
      · exact g.dempty sets (by simp [entryDimsItems_append, entryDimsItems])
      · have := g.dtwice
        simp only [entryDimsItems_append, entryDimsItems, List.length_append, List.length_cons,
          List.length_nil] at this
        exact List.eq_nil_of_length_eq_zero (by omega)
      · have := g.late
        rw [lateDims_snoc] at this
        simpa using (Bool.or_eq_false_iff.mp this).2
      · intro p hp hd
        exact g.under p (by rw [metricItems_append]; exact List.mem_append_left _ hp)
          ((mem_declared_snoc cfg e _ p.1).mpr (Or.inr hd))
    | value n v =>
      have hn := g.names n (by simp [valueNames_append, valueNames])
      refine ⟨hn.1, hn.2, ?_⟩
      cases v with
      | str s =>
        have := g.conf
        simp only [slots_append, slots, noConflict_snoc, Bool.and_eq_true] at this
        exact (slots_all_str cfg e n).mp this.2
      | metric m =>
        have hc := g.conf
        simp only [slots_append, slots, noConflict_snoc, Bool.and_eq_true] at hc
        have hc := (slots_all_met cfg e n _).mp hc.2
        refine ⟨hc.1, hc.2, ?_, ?_⟩
        · intro hd
          exact g.under (n, m) (by simp [metricItems_append, metricItems])
            ((mem_declared_snoc cfg e _ n).mpr (Or.inl hd))
        · intro hr
          have := g.split
          rw [dimsWithoutSplit_snoc] at this
          have := (Bool.or_eq_false_iff.mp this).2
          simp only [Bool.false_or, Bool.and_eq_false_imp, Bool.not_eq_eq_eq_not, Bool.not_true] at this
          cases hs : hasSplit e
          · have := this hs; rw [hr] at this; cases this
          · rfl
      | error => trivial
      | nothing => trivial
  · rintro ⟨g, hx⟩
    have hbase : ∀ (hts : timestamps [x] = []) (hed : entryDimsItems [x] = []) (hsl : slots cfg [x] = [])
        (hmi : metricItems [x] = []) (hvn : ∀ n ∈ valueNames [x], n ≠ [] ∧ n ≠ awsName)
        (hnotsplit : ∀ n m, x ≠ .value n (.metric m)), Good cfg (e ++ [x]) := by
      intro hts hed hsl hmi hvn hnm
      refine ⟨?_, ?_, ?_, ?_, ?_, ?_, ?_, ?_⟩
      · rw [timestamps_append, hts]; simpa using g.ts
      · intro n hn
        rw [valueNames_append] at hn
        rcases List.mem_append.mp hn with h | h
        · exact g.names n h
        · exact hvn n h
      · rw [slots_append, hsl]; simpa using g.conf
      · intro p hp hd
        rw [metricItems_append, hmi, List.append_nil] at hp
        rcases (mem_declared_snoc cfg e x p.1).mp hd with h | h
        · exact g.under p hp h
        · cases x <;> simp_all [entryDimsItems]
      · rw [dimsWithoutSplit_snoc, g.split]
        cases x with
        | value n v => cases v <;> simp_all
        | _ => rfl
      · intro s hs
        rw [entryDimsItems_append, hed, List.append_nil] at hs
        exact g.dempty s hs
      · rw [entryDimsItems_append, hed]; simpa using g.dtwice
      · rw [lateDims_snoc, g.late]
        cases x <;> simp_all [entryDimsItems]
    cases x with
    | timestamp t =>
      simp only [NewOk] at hx
      refine ⟨?_, ?_, ?_, ?_, ?_, ?_, ?_, ?_⟩
      · simp [timestamps_append, timestamps, hx]
      · intro n hn; exact g.names n (by simpa [valueNames_append, valueNames] using hn)
      · simpa [slots_append, slots] using g.conf
      · intro p hp hd
        exact g.under p (by simpa [metricItems_append, metricItems] using hp)
          (by simpa using (mem_declared_snoc cfg e _ p.1).mp hd)
      · simp [dimsWithoutSplit_snoc, g.split]
      · intro s hs; exact g.dempty s (by simpa [entryDimsItems_append, entryDimsItems] using hs)
      · simpa [entryDimsItems_append, entryDimsItems] using g.dtwice
      · simp [lateDims_snoc, g.late]
    | allowSplit =>
      exact hbase rfl rfl rfl rfl (by simp [valueNames]) (by intro n m h; cases h)
    | otherCfg =>
      exact hbase rfl rfl rfl rfl (by simp [valueNames]) (by intro n m h; cases h)
    | allowUnroutable =>
      exact hbase rfl rfl rfl rfl (by simp [valueNames]) (by intro n m h; cases h)
    | entryDims sets =>
      obtain ⟨h1, h2, h3, h4⟩ := hx
      refine ⟨?_, ?_, ?_, ?_, ?_, ?_, ?_, ?_⟩
      · simpa [timestamps_append, timestamps] using g.ts
      · intro n hn; exact g.names n (by simpa [valueNames_append, valueNames] using hn)
      · simpa [slots_append, slots] using g.conf
      · intro p hp hd
        have hp' : p ∈ metricItems e := by simpa [metricItems_append, metricItems] using hp
        rcases (mem_declared_snoc cfg e _ p.1).mp hd with h | h
        · exact g.under p hp' h
        · exact h4 p hp' h
      · simp [dimsWithoutSplit_snoc, g.split]
      · intro s hs
        simp only [entryDimsItems_append, entryDimsItems, h2, List.nil_append, List.mem_singleton] at hs
        subst hs; exact h1
      · simp [entryDimsItems_append, entryDimsItems, h2]
      · simp [lateDims_snoc, g.late, h3]
    | value n v =>
      obtain ⟨hn1, hn2, hv⟩ := hx
      cases v with
      | str s =>
        refine ⟨?_, ?_, ?_, ?_, ?_, ?_, ?_, ?_⟩
        · simpa [timestamps_append, timestamps] using g.ts
        · intro n' hn'
          simp only [valueNames_append, valueNames, List.mem_append, List.mem_singleton] at hn'
          rcases hn' with h | h
          · exact g.names n' h
          · subst h; exact ⟨hn1, hn2⟩
        · simp only [slots_append, slots, noConflict_snoc, Bool.and_eq_true]
          exact ⟨g.conf, (slots_all_str cfg e n).mpr hv⟩
        · intro p hp hd
          exact g.under p (by simpa [metricItems_append, metricItems] using hp)
            (by simpa using (mem_declared_snoc cfg e _ p.1).mp hd)
        · simp [dimsWithoutSplit_snoc, g.split]
        · intro s hs; exact g.dempty s (by simpa [entryDimsItems_append, entryDimsItems] using hs)
        · simpa [entryDimsItems_append, entryDimsItems] using g.dtwice
        · simp [lateDims_snoc, g.late]
      | metric m =>
        obtain ⟨h1, h2, h3, h4⟩ := hv
        refine ⟨?_, ?_, ?_, ?_, ?_, ?_, ?_, ?_⟩
        · simpa [timestamps_append, timestamps] using g.ts
        · intro n' hn'
          simp only [valueNames_append, valueNames, List.mem_append, List.mem_singleton] at hn'
          rcases hn' with h | h
          · exact g.names n' h
          · subst h; exact ⟨hn1, hn2⟩
        · simp only [slots_append, slots, noConflict_snoc, Bool.and_eq_true]
          exact ⟨g.conf, (slots_all_met cfg e n _).mpr ⟨h1, h2⟩⟩
        · intro p hp hd
          have hd' : p.1 ∈ declaredDims cfg e := by simpa using (mem_declared_snoc cfg e _ p.1).mp hd
          simp only [metricItems_append, metricItems, List.mem_append, List.mem_singleton] at hp
          rcases hp with h | h
          · exact g.under p h hd'
          · subst h; exact h3 hd'
        · rw [dimsWithoutSplit_snoc, g.split]
          simp only [Bool.false_or]
          cases hr : (routeOf cfg m).isSome
          · simp
          · simp [h4 hr]
        · intro s hs; exact g.dempty s (by simpa [entryDimsItems_append, entryDimsItems] using hs)
        · simpa [entryDimsItems_append, entryDimsItems] using g.dtwice
        · simp [lateDims_snoc, g.late]
      | error =>
        exact hbase rfl rfl rfl rfl (by simp [valueNames]; exact ⟨hn1, hn2⟩) (by intro n m h; cases h)
      | nothing =>
        exact hbase rfl rfl rfl rfl (by simp [valueNames]; exact ⟨hn1, hn2⟩) (by intro n m h; cases h)

/-! ### the invariant -/

/-- what the name map holds for `n` after an error-free prefix `e` -/
def specKind (cfg : Config) (keys : List Key) (e : Entry F) (n : Str) : Option Kind :=
  if n ∈ strNames e then some .string
  else if (metricsNamed n e).isEmpty then (if n ∈ declaredDims cfg e then some .unfound else none)
  else some (.metric ((metricsNamed n e).reverse.map (idxOf cfg keys)))

structure Inv (cfg : Config) (e : Entry F) (st : VState) : Prop where
  ts : st.tsSeen = !(timestamps e).isEmpty
  ds : st.dimsSet = !(entryDimsItems e).isEmpty
  sp : st.split = hasSplit e
  un : st.unroutable = false
  kn : st.keys.Nodup
  km : ∀ k, k ∈ st.keys ↔ ∃ p ∈ metricItems e, routeOf cfg p.2 = some k
  vm : ∀ n, st.vmap.get n = specKind cfg st.keys e n

theorem spec_irrelevant (cfg : Config) (keys : List Key) (e : Entry F) (x : Item F) (n : Str)
    (h1 : strItems [x] = []) (h2 : metricItems [x] = []) (h3 : entryDimsItems [x] = []) :
    specKind cfg keys (e ++ [x]) n = specKind cfg keys e n := by
  have a : strNames (e ++ [x]) = strNames e := by simp [strNames, strItems_append, h1]
  have b : metricsNamed n (e ++ [x]) = metricsNamed n e := by simp [metricsNamed, metricItems_append, h2]
  have c : declaredDims cfg (e ++ [x]) = declaredDims cfg e := by simp [declaredDims, entryDimsItems_append, h3]
  unfold specKind
  rw [a, b, c]

theorem str_no_metric (cfg : Config) (e : Entry F) (n : Str) (hc : noConflict (slots cfg e) = true)
    (hn : n ∈ strNames e) : metricsNamed n e = [] := by
  induction e with
  | nil => simp [strNames, strItems] at hn
  | cons x e ih =>
    cases x with
    | value n' v =>
      cases v with
      | str s =>
        rw [show slots cfg (.value n' (.str s) :: e) = .str n' :: slots cfg e from rfl, noConflict,
          Bool.and_eq_true] at hc
        rw [metricsNamed_cons_str]
        rw [strNames_cons_str, List.mem_cons] at hn
        rcases hn with h | h
        · subst h
          have : ((slots cfg e).all fun t => !conflict t (.str n)) = true := by
            rw [← hc.1]; congr 1; funext t; rw [conflict_comm]
          exact ((slots_all_str cfg e n).mp this).2
        · exact ih hc.2 h
      | metric m =>
        rw [show slots cfg (.value n' (.metric m) :: e) = .met n' (routeOf cfg m) :: slots cfg e from rfl,
          noConflict, Bool.and_eq_true] at hc
        rw [strNames_cons_metric] at hn
        rw [metricsNamed_cons_metric]
        by_cases h : n' = n
        · subst h
          have : ((slots cfg e).all fun t => !conflict t (.met n' (routeOf cfg m))) = true := by
            rw [← hc.1]; congr 1; funext t; rw [conflict_comm]
          exact absurd hn ((slots_all_met cfg e n' _).mp this).1
        · simp only [h, ↓reduceIte]; exact ih hc.2 hn
      | error => exact ih hc hn
      | nothing => exact ih hc hn
    | _ => exact ih hc hn

def Kind.isMetric : Kind → Bool
  | .metric _ => true
  | _ => false

def isMetricOpt : Option Kind → Bool
  | some k => k.isMetric
  | none => false

theorem foldl_dimsStep_spec (ds : List Str) (st : VState) :
    ((ds.foldl (dimsStep allOn) st).errs = [] ↔ st.errs = [] ∧ ∀ d ∈ ds, isMetricOpt (st.vmap.get d) = false)
    ∧ ∀ n, (ds.foldl (dimsStep allOn) st).vmap.get n
        = if st.vmap.get n = none ∧ n ∈ ds then some .unfound else st.vmap.get n := by
  induction ds generalizing st with
  | nil => simp
  | cons d ds ih =>
    rw [List.foldl_cons]
    obtain ⟨ih1, ih2⟩ := ih (dimsStep allOn st d)
    cases hd : st.vmap.get d with
    | none =>
      have hs : dimsStep allOn st d = { st with vmap := st.vmap.set d .unfound } := by
        simp [dimsStep, hd]
      rw [hs] at ih1 ih2 ⊢
      constructor
      · rw [ih1]
        simp only [List.mem_cons, forall_eq_or_imp, hd, isMetricOpt, true_and]
        constructor
        · rintro ⟨h1, h2⟩
          refine ⟨h1, fun d' hd' => ?_⟩
          have := h2 d' hd'
          rw [get_set] at this
          by_cases hdd : d = d'
          · subst hdd; simp [hd, isMetricOpt]
          · simpa [hdd] using this
        · rintro ⟨h1, h2⟩
          refine ⟨h1, fun d' hd' => ?_⟩
          rw [get_set]
          by_cases hdd : d = d'
          · simp [hdd, isMetricOpt, Kind.isMetric]
          · simpa [hdd] using h2 d' hd'
      · intro n
        rw [ih2, get_set]
        by_cases hdn : d = n
        · subst hdn; simp [hd]
        · have hnd : ¬ n = d := fun e => hdn e.symm
          simp [hdn, hnd]
    | some k =>
      cases k with
      | metric idxs =>
        have hs : dimsStep allOn st d = st.err (.duplicate d) := by simp [dimsStep, hd, allOn]
        constructor
        · constructor
          · intro h
            have := (foldl_dimsStep_frame allOn ds (dimsStep allOn st d)).2
            obtain ⟨l, hl⟩ := this
            rw [hl, hs] at h
            simp at h
          · rintro ⟨_, h2⟩
            have := h2 d (List.mem_cons_self ..)
            simp [hd, isMetricOpt, Kind.isMetric] at this
        · intro n
          rw [ih2, hs]
          simp only [err_vmap, List.mem_cons]
          by_cases hn : st.vmap.get n = none
          · have hnd : ¬ n = d := by intro e; subst e; rw [hd] at hn; cases hn
            simp [hn, hnd]
          · simp [hn]
      | string =>
        have hs : dimsStep allOn st d = st := by simp [dimsStep, hd]
        rw [hs] at ih1 ih2 ⊢
        constructor
        · rw [ih1]; simp [hd, isMetricOpt, Kind.isMetric]
        · intro n
          rw [ih2]
          by_cases hn : st.vmap.get n = none
          · have hnd : ¬ n = d := by intro e; subst e; rw [hd] at hn; cases hn
            simp [hn, hnd]
          · simp [hn]
      | unfound =>
        have hs : dimsStep allOn st d = st := by simp [dimsStep, hd]
        rw [hs] at ih1 ih2 ⊢
        constructor
        · rw [ih1]; simp [hd, isMetricOpt, Kind.isMetric]
        · intro n
          rw [ih2]
          by_cases hn : st.vmap.get n = none
          · have hnd : ¬ n = d := by intro e; subst e; rw [hd] at hn; cases hn
            simp [hn, hnd]
          · simp [hn]

theorem isMetric_spec (cfg : Config) (keys : List Key) (e : Entry F) (n : Str) :
    isMetricOpt (specKind cfg keys e n) = (!decide (n ∈ strNames e) && !(metricsNamed n e).isEmpty) := by
  unfold specKind
  by_cases h1 : n ∈ strNames e
  · simp [h1, isMetricOpt, Kind.isMetric]
  · cases h2 : (metricsNamed n e).isEmpty
    · simp [h1, h2, isMetricOpt, Kind.isMetric]
    · by_cases h3 : n ∈ declaredDims cfg e <;> simp [h1, h2, h3, isMetricOpt, Kind.isMetric]

theorem routedAny_false_iff (cfg : Config) (e : Entry F) :
    routedAny cfg e = false ↔ ∀ p ∈ metricItems e, routeOf cfg p.2 = none := by
  simp [routedAny, Option.isSome_eq_false_iff, Option.isNone_iff_eq_none]

/-! ### one step of the machine over an error-free `Good` prefix -/

theorem inv_irrelevant (cfg : Config) (e : Entry F) (x : Item F) (st st' : VState) (hi : Inv cfg e st)
    (h1 : strItems [x] = []) (h2 : metricItems [x] = []) (h3 : entryDimsItems [x] = [])
    (hv : st'.vmap = st.vmap) (hk : st'.keys = st.keys) (hu : st'.unroutable = st.unroutable)
    (hts : st'.tsSeen = !(timestamps (e ++ [x])).isEmpty) (hds : st'.dimsSet = st.dimsSet)
    (hsp : st'.split = hasSplit (e ++ [x])) : Inv cfg (e ++ [x]) st' := by
  refine ⟨hts, ?_, hsp, by rw [hu, hi.un], by rw [hk]; exact hi.kn, ?_, ?_⟩
  · rw [hds, hi.ds, entryDimsItems_append, h3, List.append_nil]
  · intro k; rw [hk, hi.km k, metricItems_append, h2, List.append_nil]
  · intro n; rw [hv, hk, hi.vm n, spec_irrelevant cfg _ e x n h1 h2 h3]

def StepOk (cfg : Config) (e : Entry F) (st : VState) (x : Item F) : Prop :=
  ((stepItem cfg allOn st x).errs = [] ↔ NewOk cfg e x) ∧
  ((stepItem cfg allOn st x).errs = [] → Inv cfg (e ++ [x]) (stepItem cfg allOn st x))

theorem step_timestamp (cfg : Config) (e : Entry F) (st : VState) (t : Int)
    (hi : Inv cfg e st) (he : st.errs = []) : StepOk cfg e st (.timestamp t) := by
  unfold StepOk
  simp only [stepItem, NewOk]
  cases hts : st.tsSeen
  · have hnil : timestamps e = [] := by
      have := hi.ts; rw [hts] at this
      cases h : timestamps e with
      | nil => rfl
      | cons a l => rw [h] at this; simp at this
    simp only [Bool.false_eq_true, ↓reduceIte]
    exact ⟨⟨fun _ => hnil, fun _ => he⟩, fun _ =>
      inv_irrelevant cfg e (Item.timestamp t) st { st with tsSeen := true } hi rfl rfl rfl rfl rfl rfl
        (by simp [timestamps_append, timestamps]) rfl (by simp [hasSplit_append, hasSplit, hi.sp])⟩
  · have hne : timestamps e ≠ [] := by
      intro h; have := hi.ts; rw [hts, h] at this; simp at this
    simp [he, hne]

theorem step_simple (cfg : Config) (e : Entry F) (st : VState) (x : Item F)
    (hx : x = .allowSplit ∨ x = .otherCfg) (hi : Inv cfg e st) (he : st.errs = []) : StepOk cfg e st x := by
  unfold StepOk
  rcases hx with rfl | rfl
  · simp only [stepItem, NewOk]
    exact ⟨⟨fun _ => trivial, fun _ => he⟩, fun _ =>
      inv_irrelevant cfg e Item.allowSplit st { st with split := true } hi rfl rfl rfl rfl rfl rfl
        (by simp [timestamps_append, timestamps, hi.ts]) rfl (by simp [hasSplit_append, hasSplit])⟩
  · simp only [stepItem, NewOk]
    exact ⟨⟨fun _ => trivial, fun _ => he⟩, fun _ =>
      inv_irrelevant cfg e Item.otherCfg st st hi rfl rfl rfl rfl rfl rfl
        (by simp [timestamps_append, timestamps, hi.ts]) rfl (by simp [hasSplit_append, hasSplit, hi.sp])⟩

theorem keys_nil_iff (cfg : Config) (e : Entry F) (st : VState) (hi : Inv cfg e st) :
    st.keys = [] ↔ routedAny cfg e = false := by
  rw [routedAny_false_iff]
  constructor
  · intro h p hp
    cases hr : routeOf cfg p.2 with
    | none => rfl
    | some k =>
      have := (hi.km k).mpr ⟨p, hp, hr⟩
      rw [h] at this; cases this
  · intro h
    cases hk : st.keys with
    | nil => rfl
    | cons k ks =>
      obtain ⟨p, hp, hr⟩ := (hi.km k).mp (by rw [hk]; exact List.mem_cons_self ..)
      rw [h p hp] at hr; cases hr

theorem step_entryDims (cfg : Config) (e : Entry F) (st : VState) (sets : List (List Str))
    (hg : Good cfg e) (hi : Inv cfg e st) (he : st.errs = []) : StepOk cfg e st (.entryDims sets) := by
  unfold StepOk
  simp only [stepItem, NewOk]
  by_cases hk : st.keys = []
  · have hra := (keys_nil_iff cfg e st hi).mp hk
    cases hds : st.dimsSet
    · have hed : entryDimsItems e = [] := by
        have := hi.ds; rw [hds] at this
        cases h : entryDimsItems e with
        | nil => rfl
        | cons a l => rw [h] at this; simp at this
      by_cases hs : sets = []
      · simp [hk, hds, hs, he]
      · have hse : sets.isEmpty = false := by cases sets <;> simp_all
        obtain ⟨f1, f2⟩ := foldl_dimsStep_spec sets.flatten st
        obtain ⟨fr, _⟩ := foldl_dimsStep_frame allOn sets.flatten st
        simp only [VState.frame, Frame.mk.injEq] at fr
        simp only [hk, List.isEmpty_nil, Bool.not_true, Bool.false_eq_true, ↓reduceIte, hds, hse, allOn,
          Bool.not_false, Bool.or_self] at f1 f2 fr ⊢
        have hmet : (∀ d ∈ sets.flatten, isMetricOpt (st.vmap.get d) = false) ↔
            ∀ p ∈ metricItems e, p.1 ∉ sets.flatten := by
          constructor
          · intro h p hp hd
            have := h p.1 hd
            rw [hi.vm, isMetric_spec] at this
            have hm : p.2 ∈ metricsNamed p.1 e := (mem_metricsNamed p.1 e p.2).mpr hp
            by_cases hsn : p.1 ∈ strNames e
            · rw [str_no_metric cfg e p.1 hg.conf hsn] at hm; cases hm
            · cases hmn : metricsNamed p.1 e with
              | nil => rw [hmn] at hm; cases hm
              | cons a l => simp [hsn, hmn] at this
          · intro h d hd
            rw [hi.vm, isMetric_spec]
            cases hmn : metricsNamed d e with
            | nil => simp
            | cons a l =>
              have : a ∈ metricsNamed d e := by rw [hmn]; exact List.mem_cons_self ..
              exact absurd hd (h (d, a) ((mem_metricsNamed d e a).mp this))
        constructor
        · rw [f1, hmet]
          simp [he, hs, hed, hra]
        · intro hok
          have hno := (f1.mp hok).2
          refine ⟨?_, ?_, ?_, ?_, ?_, ?_, ?_⟩
          · simp [fr.1, hi.ts, timestamps_append, timestamps]
          · simp [entryDimsItems_append, entryDimsItems]
          · simp [fr.2.2.1, hi.sp, hasSplit_append, hasSplit]
          · simp [fr.2.2.2.1, hi.un]
          · rw [fr.2.2.2.2]; exact List.nodup_nil
          · intro k
            rw [fr.2.2.2.2]
            constructor
            · intro h; cases h
            · rintro ⟨p, hp, hr⟩
              have hp' : p ∈ metricItems e := by simpa [metricItems_append, metricItems] using hp
              rw [(routedAny_false_iff cfg e).mp hra p hp'] at hr; cases hr
          · intro n
            have hv := hi.vm n
            rw [hk] at hv
            rw [f2 n, fr.2.2.2.2, hv]
            have a : strNames (e ++ [Item.entryDims sets]) = strNames e := by simp [strNames, strItems_append, strItems]
            have b : metricsNamed n (e ++ [Item.entryDims sets]) = metricsNamed n e := by
              simp [metricsNamed, metricItems_append, metricItems]
            have c : n ∈ declaredDims cfg (e ++ [Item.entryDims sets]) ↔ n ∈ declaredDims cfg e ∨ n ∈ sets.flatten := by
              simpa using mem_declared_snoc cfg e (Item.entryDims sets) n
            unfold specKind
            rw [a, b]
            by_cases h1 : n ∈ strNames e
            · simp [h1]
            · cases h2 : (metricsNamed n e).isEmpty
              · simp [h1, h2]
              · by_cases h3 : n ∈ declaredDims cfg e
                · simp [h1, h2, h3, c]
                · by_cases h4 : n ∈ sets.flatten <;> simp [h1, h2, h3, h4, c]
    · have hne : entryDimsItems e ≠ [] := by
        intro h; have := hi.ds; rw [hds, h] at this; simp at this
      simp [hk, hds, he, hne]
  · have hra : routedAny cfg e ≠ false := fun h => hk ((keys_nil_iff cfg e st hi).mpr h)
    have hke : st.keys.isEmpty = false := by cases h : st.keys <;> simp_all
    simp [hke, he, hra]

theorem routeOf_eq (cfg : Config) (m : Metric F) :
    routeOf cfg m = if (cfg.allowIgnored || m.dims.isEmpty) = true then none else some (sortKey m.dims) := rfl

theorem routeStep_spec (cfg : Config) (e : Entry F) (st : VState) (n : Str) (m : Metric F)
    (hi : Inv cfg e st) (he : st.errs = []) :
    ((routeStep cfg st n m).1.errs = [] ↔ ((routeOf cfg m).isSome = true → hasSplit e = true))
    ∧ (routeStep cfg st n m).1.vmap = st.vmap
    ∧ (routeStep cfg st n m).1.tsSeen = st.tsSeen ∧ (routeStep cfg st n m).1.dimsSet = st.dimsSet
    ∧ (routeStep cfg st n m).1.split = st.split ∧ (routeStep cfg st n m).1.unroutable = st.unroutable
    ∧ (routeStep cfg st n m).1.keys.Nodup
    ∧ (∀ k, k ∈ (routeStep cfg st n m).1.keys ↔ ∃ p ∈ metricItems e ++ [(n, m)], routeOf cfg p.2 = some k)
    ∧ (routeStep cfg st n m).2 = idxOf cfg (routeStep cfg st n m).1.keys m
    ∧ (∀ p ∈ metricItems e, idxOf cfg (routeStep cfg st n m).1.keys p.2 = idxOf cfg st.keys p.2) := by
  have hro := routeOf_eq cfg m
  cases hg : (cfg.allowIgnored || m.dims.isEmpty)
  · -- routed to a split record
    rw [hg] at hro
    simp only [Bool.false_eq_true, ↓reduceIte] at hro
    have hkm : ∀ (ks : List Key), (∀ k, k ∈ st.keys ↔ ∃ p ∈ metricItems e, routeOf cfg p.2 = some k) →
        ∀ k, (k ∈ st.keys ∨ k = sortKey m.dims) ↔ ∃ p ∈ metricItems e ++ [(n, m)], routeOf cfg p.2 = some k := by
      intro _ h k
      simp only [List.mem_append, List.mem_singleton]
      constructor
      · rintro (h1 | h1)
        · obtain ⟨p, hp, hr⟩ := (h k).mp h1; exact ⟨p, Or.inl hp, hr⟩
        · exact ⟨(n, m), Or.inr rfl, by rw [hro, h1]⟩
      · rintro ⟨p, hp | hp, hr⟩
        · exact Or.inl ((h k).mpr ⟨p, hp, hr⟩)
        · subst hp; rw [hro] at hr; exact Or.inr (Option.some.inj hr).symm
    have hstab : ∀ (extra : List Key), ∀ p ∈ metricItems e,
        idxOf cfg (st.keys ++ extra) p.2 = idxOf cfg st.keys p.2 := by
      intro extra p hp
      unfold idxOf
      cases hr : routeOf cfg p.2 with
      | none => rfl
      | some k => simp only; rw [indexOfKey_append_mem k st.keys extra ((hi.km k).mpr ⟨p, hp, hr⟩)]
    by_cases hmem : sortKey m.dims ∈ st.keys
    · have hkm1 : ∀ k, k ∈ st.keys ↔ ∃ p ∈ metricItems e ++ [(n, m)], routeOf cfg p.2 = some k := by
        intro k
        rw [← hkm st.keys hi.km k]
        constructor
        · exact Or.inl
        · rintro (h | h)
          · exact h
          · exact h ▸ hmem
      have hidx1 : indexOfKey (sortKey m.dims) st.keys + 1 = idxOf cfg st.keys m := by simp [idxOf, hro]
      cases hsp : st.split
      · have hs : hasSplit e = false := by rw [← hi.sp, hsp]
        have hrs : routeStep cfg st n m
            = (st.err (.perMetricDims n), indexOfKey (sortKey m.dims) st.keys + 1) := by
          unfold routeStep; simp [hg, hsp, hmem]
        rw [hrs]
        refine ⟨by simp [hro, hs], rfl, rfl, rfl, hsp, rfl, hi.kn, hkm1, hidx1, fun p _ => rfl⟩
      · have hs : hasSplit e = true := by rw [← hi.sp, hsp]
        have hrs : routeStep cfg st n m = (st, indexOfKey (sortKey m.dims) st.keys + 1) := by
          unfold routeStep; simp [hg, hsp, hmem]
        rw [hrs]
        refine ⟨by simp [he, hs], rfl, rfl, rfl, hsp, rfl, hi.kn, hkm1, hidx1, fun p _ => rfl⟩
    · have hnd : (st.keys ++ [sortKey m.dims]).Nodup := by
        rw [List.nodup_append]
        refine ⟨hi.kn, by simp, ?_⟩
        intro a ha b hb
        simp only [List.mem_singleton] at hb
        subst hb
        intro hab; subst hab; exact hmem ha
      have hidx : st.keys.length + 1 = idxOf cfg (st.keys ++ [sortKey m.dims]) m := by
        simp [idxOf, hro, indexOfKey_append_new _ _ hmem]
      have hkm' : ∀ k, k ∈ st.keys ++ [sortKey m.dims] ↔ ∃ p ∈ metricItems e ++ [(n, m)], routeOf cfg p.2 = some k := by
        intro k
        rw [← hkm st.keys hi.km k]; simp
      cases hsp : st.split
      · have hs : hasSplit e = false := by rw [← hi.sp, hsp]
        have hrs : routeStep cfg st n m
            = ({ st.err (.perMetricDims n) with keys := st.keys ++ [sortKey m.dims] }, st.keys.length + 1) := by
          unfold routeStep; simp [hg, hsp, hmem]
        rw [hrs]
        refine ⟨by simp [hro, hs], rfl, rfl, rfl, hsp, rfl, hnd, hkm', hidx, hstab _⟩
      · have hs : hasSplit e = true := by rw [← hi.sp, hsp]
        have hrs : routeStep cfg st n m
            = ({ st with keys := st.keys ++ [sortKey m.dims] }, st.keys.length + 1) := by
          unfold routeStep; simp [hg, hsp, hmem]
        rw [hrs]
        refine ⟨by simp [he, hs], rfl, rfl, rfl, hsp, rfl, hnd, hkm', hidx, hstab _⟩
  · rw [hg] at hro
    simp only [↓reduceIte] at hro
    have hrs : routeStep cfg st n m = (st, 0) := by unfold routeStep; simp [hg]
    rw [hrs]
    refine ⟨by simp [he, hro], rfl, rfl, rfl, rfl, rfl, hi.kn, ?_, by simp [idxOf, hro], fun p _ => rfl⟩
    intro k
    rw [hi.km k]
    simp only [List.mem_append, List.mem_singleton]
    constructor
    · rintro ⟨p, hp, hr⟩; exact ⟨p, Or.inl hp, hr⟩
    · rintro ⟨p, hp | hp, hr⟩
      · exact ⟨p, hp, hr⟩
      · subst hp; rw [hro] at hr; cases hr

theorem spec_keys_congr (cfg : Config) (keys keys' : List Key) (e : Entry F) (k : Str)
    (h : ∀ p ∈ metricItems e, idxOf cfg keys' p.2 = idxOf cfg keys p.2) :
    specKind cfg keys' e k = specKind cfg keys e k := by
  unfold specKind
  have : (metricsNamed k e).reverse.map (idxOf cfg keys') = (metricsNamed k e).reverse.map (idxOf cfg keys) := by
    apply List.map_congr_left
    intro m hm
    exact h (k, m) ((mem_metricsNamed k e m).mp (List.mem_reverse.mp hm))
  rw [this]

theorem inv_str (cfg : Config) (e : Entry F) (st : VState) (n s : Str) (hi : Inv cfg e st)
    (h1 : n ∉ strNames e) (hnil : metricsNamed n e = []) :
    Inv cfg (e ++ [.value n (.str s)]) { st with vmap := st.vmap.set n .string } := by
  refine ⟨?_, ?_, ?_, hi.un, hi.kn, ?_, ?_⟩
  · simp [timestamps_append, timestamps, hi.ts]
  · simp [entryDimsItems_append, entryDimsItems, hi.ds]
  · simp [hasSplit_append, hasSplit, hi.sp]
  · intro k; simp only; rw [hi.km k, metricItems_append]; simp [metricItems]
  · intro k
    simp only
    rw [get_set]
    have a : strNames (e ++ [Item.value n (Val.str s)]) = strNames e ++ [n] := by
      simp [strNames, strItems_append, strItems]
    have b : metricsNamed k (e ++ [Item.value n (Val.str s)]) = metricsNamed k e := by
      simp [metricsNamed, metricItems_append, metricItems]
    have c : declaredDims cfg (e ++ [Item.value n (Val.str s)]) = declaredDims cfg e := by
      simp [declaredDims, entryDimsItems_append, entryDimsItems]
    unfold specKind
    rw [a, b, c]
    by_cases hk : n = k
    · subst hk; simp
    · have hk' : ¬ k = n := fun h => hk h.symm
      have := hi.vm k
      unfold specKind at this
      simp only [hk, ↓reduceIte, this, List.mem_append, List.mem_singleton, hk', or_false]

theorem inv_metric (cfg : Config) (e : Entry F) (st st' : VState) (n : Str) (m : Metric F) (hi : Inv cfg e st)
    (h1 : n ∉ strNames e)
    (hts : st'.tsSeen = st.tsSeen) (hds : st'.dimsSet = st.dimsSet) (hsp : st'.split = st.split)
    (hun : st'.unroutable = st.unroutable) (hkn : st'.keys.Nodup)
    (hkm : ∀ k, k ∈ st'.keys ↔ ∃ p ∈ metricItems e ++ [(n, m)], routeOf cfg p.2 = some k)
    (hstab : ∀ p ∈ metricItems e, idxOf cfg st'.keys p.2 = idxOf cfg st.keys p.2)
    (hvm : st'.vmap = st.vmap.set n
      (.metric (idxOf cfg st'.keys m :: (metricsNamed n e).reverse.map (idxOf cfg st.keys)))) :
    Inv cfg (e ++ [.value n (.metric m)]) st' := by
  refine ⟨?_, ?_, ?_, by rw [hun, hi.un], hkn, ?_, ?_⟩
  · simp [hts, timestamps_append, timestamps, hi.ts]
  · simp [hds, entryDimsItems_append, entryDimsItems, hi.ds]
  · simp [hsp, hasSplit_append, hasSplit, hi.sp]
  · intro k; rw [hkm k, metricItems_append]; simp [metricItems]
  · intro k
    rw [hvm, get_set]
    have a : strNames (e ++ [Item.value n (Val.metric m)]) = strNames e := by
      simp [strNames, strItems_append, strItems]
    have c : declaredDims cfg (e ++ [Item.value n (Val.metric m)]) = declaredDims cfg e := by
      simp [declaredDims, entryDimsItems_append, entryDimsItems]
    by_cases hk : n = k
    · subst hk
      have b : metricsNamed n (e ++ [Item.value n (Val.metric m)]) = metricsNamed n e ++ [m] := by
        simp [metricsNamed, metricItems_append, metricItems]
      unfold specKind
      rw [a, b]
      have hmap : (metricsNamed n e).reverse.map (idxOf cfg st'.keys)
          = (metricsNamed n e).reverse.map (idxOf cfg st.keys) := by
        apply List.map_congr_left
        intro m' hm'
        exact hstab (n, m') ((mem_metricsNamed n e m').mp (List.mem_reverse.mp hm'))
      simp [h1, hmap]
    · have b : metricsNamed k (e ++ [Item.value n (Val.metric m)]) = metricsNamed k e := by
        simp [metricsNamed, metricItems_append, metricItems, hk]
      simp only [hk, ↓reduceIte]
      rw [hi.vm k, ← spec_keys_congr cfg st.keys st'.keys e k hstab]
      unfold specKind
      rw [a, b, c]

theorem step_value (cfg : Config) (e : Entry F) (st : VState) (n : Str) (v : Val F) (hv : v ≠ .error)
    (hg : Good cfg e) (hi : Inv cfg e st) (he : st.errs = []) : StepOk cfg e st (.value n v) := by
  unfold StepOk
  simp only [stepItem, NewOk, allOn, Bool.not_false, Bool.true_and]
  by_cases hn1 : n = []
  · subst hn1; simp [he]
  · have hie : n.isEmpty = false := by cases n <;> simp_all
    by_cases hn2 : n = awsName
    · subst hn2
      have hne : ¬ (awsName = ([] : Str)) := by decide
      simp [hne, he]
    · simp only [hie, Bool.false_eq_true, ↓reduceIte, hn2, decide_false, ne_eq, hn1, not_false_eq_true, true_and]
      have hvm := hi.vm n
      unfold specKind at hvm
      cases v with
      | error => exact absurd rfl hv
      | nothing =>
        exact ⟨⟨fun _ => trivial, fun _ => he⟩, fun _ =>
          inv_irrelevant cfg e (Item.value n Val.nothing) st st hi rfl rfl rfl rfl rfl rfl
            (by simp [timestamps_append, timestamps, hi.ts]) rfl (by simp [hasSplit_append, hasSplit, hi.sp])⟩
      | str s =>
        simp only
        by_cases h1 : n ∈ strNames e
        · simp only [h1, ↓reduceIte] at hvm
          simp [stepString, hvm, he, h1]
        · cases h2 : (metricsNamed n e).isEmpty
          · simp only [h1, ↓reduceIte, h2, Bool.false_eq_true] at hvm
            have hne : metricsNamed n e ≠ [] := by intro h; rw [h] at h2; simp at h2
            simp [stepString, hvm, he, hne]
          · have hnil : metricsNamed n e = [] := List.isEmpty_iff.mp h2
            have hstep : stepString ⟨false, false, false⟩ st n = { st with vmap := st.vmap.set n .string } := by
              by_cases h3 : n ∈ declaredDims cfg e
              · simp only [h1, ↓reduceIte, h2, h3] at hvm
                simp [stepString, hvm]
              · simp only [h1, ↓reduceIte, h2, h3] at hvm
                simp [stepString, hvm]
            rw [hstep]
            exact ⟨⟨fun _ => ⟨h1, hnil⟩, fun _ => he⟩, fun _ => inv_str cfg e st n s hi h1 hnil⟩
      | metric m =>
        simp only [stepMetric_eq]
        obtain ⟨r1, r2, r3, r4, r5, r6, r7, r8, r9, r10⟩ := routeStep_spec cfg e st n m hi he
        generalize hrs : routeStep cfg st n m = rs at r1 r2 r3 r4 r5 r6 r7 r8 r9 r10 ⊢
        obtain ⟨st2, idx⟩ := rs
        simp only at r1 r2 r3 r4 r5 r6 r7 r8 r9 r10 ⊢
        have hun2 : st2.unroutable = false := by rw [r6, hi.un]
        have hget : st2.vmap.get n = st.vmap.get n := by rw [r2]
        by_cases h1 : n ∈ strNames e
        · simp only [h1, ↓reduceIte] at hvm
          simp [mapStep, hun2, hget, hvm, h1]
        · cases h2 : (metricsNamed n e).isEmpty
          · -- earlier metrics under this name
            simp only [h1, ↓reduceIte, h2, Bool.false_eq_true] at hvm
            have hmem_idx : idx ∈ (metricsNamed n e).reverse.map (idxOf cfg st.keys)
                ↔ ∃ m' ∈ metricsNamed n e, routeOf cfg m' = routeOf cfg m := by
              simp only [List.mem_map, List.mem_reverse]
              constructor
              · rintro ⟨m', hm', heq⟩
                refine ⟨m', hm', ?_⟩
                have hp : (n, m') ∈ metricItems e := (mem_metricsNamed n e m').mp hm'
                have h10 := r10 (n, m') hp
                simp only at h10
                apply idxOf_inj cfg st2.keys m' m
                · intro k hk; exact (r8 k).mpr ⟨(n, m'), List.mem_append_left _ hp, hk⟩
                · intro k hk; exact (r8 k).mpr ⟨(n, m), List.mem_append_right _ (List.mem_singleton.mpr rfl), hk⟩
                · rw [h10, heq, r9]
              · rintro ⟨m', hm', heq⟩
                refine ⟨m', hm', ?_⟩
                have hp : (n, m') ∈ metricItems e := (mem_metricsNamed n e m').mp hm'
                have h10 := r10 (n, m') hp
                simp only at h10
                rw [← h10, r9]
                unfold idxOf; rw [heq]
            have hund : n ∉ declaredDims cfg e := by
              cases hms : metricsNamed n e with
              | nil => rw [hms] at h2; simp at h2
              | cons a l =>
                have : a ∈ metricsNamed n e := by rw [hms]; exact List.mem_cons_self ..
                exact hg.under (n, a) ((mem_metricsNamed n e a).mp this)
            by_cases hin : idx ∈ (metricsNamed n e).reverse.map (idxOf cfg st.keys)
            · have hex := hmem_idx.mp hin
              have hnot : ¬ ∀ m' ∈ metricsNamed n e, routeOf cfg m' ≠ routeOf cfg m := by
                intro h; obtain ⟨m', hm', heq⟩ := hex; exact h m' hm' heq
              have hin' : ∃ a, a ∈ metricsNamed n e ∧ idxOf cfg st.keys a = idx := by simpa using hin
              simp [mapStep, hun2, hget, hvm, hin', hnot]
            · have hall : ∀ m' ∈ metricsNamed n e, routeOf cfg m' ≠ routeOf cfg m := by
                intro m' hm' heq; exact hin (hmem_idx.mpr ⟨m', hm', heq⟩)
              have hin' : ¬ ∃ a, a ∈ metricsNamed n e ∧ idxOf cfg st.keys a = idx := by simpa using hin
              have hstep : mapStep ⟨false, false, false⟩ st2 n idx = { st2 with
                  vmap := (st2.vmap.set n (.metric (idx :: (metricsNamed n e).reverse.map (idxOf cfg st.keys)))) } := by
                simp [mapStep, hun2, hget, hvm, hin']
              rw [hstep]
              simp only
              refine ⟨⟨fun h => ⟨h1, hall, hund, r1.mp h⟩, fun h => r1.mpr h.2.2.2⟩, fun _ => ?_⟩
              exact inv_metric cfg e st _ n m hi h1 r3 r4 r5 r6 r7 r8 r10 (by simp only; rw [r2, r9])
          · have hnil : metricsNamed n e = [] := List.isEmpty_iff.mp h2
            by_cases h3 : n ∈ declaredDims cfg e
            · simp only [h1, ↓reduceIte, h2, h3] at hvm
              simp [mapStep, hun2, hget, hvm, h3]
            · simp only [h1, ↓reduceIte, h2, h3] at hvm
              have hstep : mapStep ⟨false, false, false⟩ st2 n idx
                  = { st2 with vmap := st2.vmap.set n (.metric [idx]) } := by
                simp [mapStep, hun2, hget, hvm]
              rw [hstep]
              simp only
              refine ⟨⟨fun h => ⟨h1, by simp [hnil], h3, r1.mp h⟩, fun h => r1.mpr h.2.2.2⟩, fun _ => ?_⟩
              exact inv_metric cfg e st _ n m hi h1 r3 r4 r5 r6 r7 r8 r10 (by simp only; rw [r2, r9, hnil]; rfl)

/-! ### the whole run -/

theorem noUnroutable_snoc (l : Entry F) (x : Item F) :
    noUnroutable (l ++ [x]) = true ↔ noUnroutable l = true ∧ x ≠ .allowUnroutable := by
  induction l with
  | nil => cases x <;> simp [noUnroutable]
  | cons y l ih => cases y <;> simp [noUnroutable, ih]

theorem noValueError_snoc (l : Entry F) (x : Item F) :
    noValueError (l ++ [x]) = true ↔ noValueError l = true ∧ ∀ n, x ≠ .value n .error := by
  induction l with
  | nil =>
    cases x with
    | value n v => cases v <;> simp [noValueError]
    | _ => simp [noValueError]
  | cons y l ih =>
    cases y with
    | value n v => cases v <;> simp [noValueError, ih]
    | _ => simp [noValueError, ih]

theorem good_nil (cfg : Config) : Good cfg ([] : Entry F) :=
  ⟨by simp [timestamps], by simp [valueNames], by simp [slots, noConflict], by simp [metricItems],
    by simp [dimsWithoutSplit], by simp [entryDimsItems], by simp [entryDimsItems], by simp [lateDims]⟩

theorem inv_nil (cfg : Config) : Inv cfg ([] : Entry F) (initState cfg allOn) := by
  refine ⟨rfl, rfl, rfl, rfl, List.nodup_nil, ?_, ?_⟩
  · intro k; simp [initState, metricItems]
  · intro n
    simp only [initState, initMap, allOn, Bool.false_eq_true, ↓reduceIte]
    rw [get_foldl_insertUnfound]
    simp [specKind, strNames, strItems, metricsNamed, metricItems, declaredDims, entryDimsItems, VMap.get]

theorem run_spec (cfg : Config) (e : Entry F) :
    noUnroutable e = true → noValueError e = true →
    ((run cfg allOn (initState cfg allOn) e).errs = [] ↔ Good cfg e) ∧
    ((run cfg allOn (initState cfg allOn) e).errs = [] → Inv cfg e (run cfg allOn (initState cfg allOn) e)) := by
  induction e using snoc_induction with
  | h0 => intro _ _; exact ⟨⟨fun _ => good_nil cfg, fun _ => rfl⟩, fun _ => inv_nil cfg⟩
  | hs l x ih =>
    intro hu hv
    rw [noUnroutable_snoc] at hu
    rw [noValueError_snoc] at hv
    obtain ⟨ih1, ih2⟩ := ih hu.1 hv.1
    have hx1 : x ≠ .allowUnroutable := hu.2
    have hx2 : ∀ n, x ≠ .value n .error := hv.2
    rw [run_append]
    show ((stepItem cfg allOn (run cfg allOn (initState cfg allOn) l) x).errs = [] ↔ _) ∧ _
    by_cases he : (run cfg allOn (initState cfg allOn) l).errs = []
    · have hg := ih1.mp he
      have hi := ih2 he
      have hstep : StepOk cfg l (run cfg allOn (initState cfg allOn) l) x := by
        cases x with
        | timestamp t => exact step_timestamp cfg l _ t hi he
        | allowSplit => exact step_simple cfg l _ _ (Or.inl rfl) hi he
        | otherCfg => exact step_simple cfg l _ _ (Or.inr rfl) hi he
        | allowUnroutable => exact absurd rfl hx1
        | entryDims sets => exact step_entryDims cfg l _ sets hg hi he
        | value n v => exact step_value cfg l _ n v (fun h => hx2 n (by rw [h])) hg hi he
      refine ⟨?_, hstep.2⟩
      rw [hstep.1, good_snoc]
      exact ⟨fun h => ⟨hg, h⟩, fun h => h.2⟩
    · have hne : (stepItem cfg allOn (run cfg allOn (initState cfg allOn) l) x).errs ≠ [] :=
        fun h => he (errs_nil_of_step cfg allOn _ x h)
      refine ⟨⟨fun h => absurd h hne, fun h => ?_⟩, fun h => absurd h hne⟩
      exact absurd (ih1.mpr ((good_snoc cfg l x).mp h).1) he

/-- the sweep reports nothing iff every declared dimension has a string value -/
theorem sweep_spec (cfg : Config) (e : Entry F) (st : VState) (hg : Good cfg e) (hi : Inv cfg e st) :
    sweep allOn st = [] ↔ ∀ d ∈ declaredDims cfg e, d ∈ strNames e := by
  have hget : ∀ d, st.vmap.get d = some .unfound ↔ (d ∉ strNames e ∧ d ∈ declaredDims cfg e) := by
    intro d
    rw [hi.vm d]
    unfold specKind
    by_cases h1 : d ∈ strNames e
    · simp [h1]
    · cases h2 : (metricsNamed d e).isEmpty
      · have : d ∉ declaredDims cfg e := by
          cases hms : metricsNamed d e with
          | nil => rw [hms] at h2; simp at h2
          | cons a l =>
            have : a ∈ metricsNamed d e := by rw [hms]; exact List.mem_cons_self ..
            exact hg.under (d, a) ((mem_metricsNamed d e a).mp this)
        simp [h1, h2, this]
      · by_cases h3 : d ∈ declaredDims cfg e <;> simp [h1, h2, h3]
  simp only [sweep, allOn, hi.un, Bool.or_self, Bool.false_eq_true, ↓reduceIte, List.map_eq_nil_iff,
    List.filter_eq_nil_iff, beq_iff_eq]
  constructor
  · intro h d hd
    by_cases hs : d ∈ strNames e
    · exact hs
    · have hu := (hget d).mpr ⟨hs, hd⟩
      have hk := mem_keys_of_get st.vmap d _ hu
      exact absurd hu (h d ((dedup_mem' _ d).mpr hk))
  · intro h d _ hu
    have := (hget d).mp hu
    exact this.1 (h d this.2)

end EmfSpec
