import Model.EmfRefine
/-!
Printer lemmas for the refinement: what `JsonTree.print` produces on the trees of `recordJson`, in the
"leading comma" form the operational model writes.
-/
namespace EmfRefine
open JsonTree Json EmfSpec

/-- `"key":value` -/
def pm (m : List Nat × JVal) : List Nat := jstr m.1 ++ 58 :: print m.2

theorem printElems_cons (x : JVal) (xs : List JVal) :
    printElems (x :: xs) = print x ++ (xs.map fun y => 44 :: print y).flatten := by
  induction xs generalizing x with
  | nil => simp [printElems]
  | cons y ys ih => simp [printElems, ih y]

theorem printMembers_cons (m : List Nat × JVal) (ms : List (List Nat × JVal)) :
    printMembers (m :: ms) = pm m ++ (ms.map fun y => 44 :: pm y).flatten := by
  induction ms generalizing m with
  | nil => obtain ⟨k, x⟩ := m; simp [printMembers, pm]
  | cons y ys ih =>
    obtain ⟨k, x⟩ := m
    simp only [printMembers, ih y, pm, List.map_cons, List.flatten_cons]
    simp

theorem printElems_snoc (l : List JVal) (x : JVal) :
    printElems (l ++ [x]) = if l.isEmpty then print x else printElems l ++ 44 :: print x := by
  cases l with
  | nil => simp [printElems]
  | cons y ys => simp [printElems_cons]

theorem printElems_append_cons (l : List JVal) (x : JVal) (r : List JVal) :
    printElems (l ++ x :: r) =
      (if l.isEmpty then print x else printElems l ++ 44 :: print x) ++ (r.map fun y => 44 :: print y).flatten := by
  cases l with
  | nil => simp [printElems_cons]
  | cons y ys => simp [printElems_cons]

/-- `serde_json::to_string(&[String])` is the printed array of strings -/
theorem printElems_strs (xs : List (List Nat)) : printElems (xs.map JVal.str) = sepBy [44] (xs.map jstr) := by
  induction xs with
  | nil => rfl
  | cons x rest ih =>
    cases rest with
    | nil => simp [printElems, sepBy, print]
    | cons y ys =>
      simp only [List.map_cons, printElems, sepBy, print] at ih ⊢
      rw [ih]; simp

theorem jarrStrings_eq_print (xs : List (List Nat)) : jarrStrings xs = print (.arr (xs.map .str)) := by
  simp [jarrStrings, print, printElems_strs]

theorem jstr_ne_nil (s : List Nat) : jstr s ≠ [] := by simp [jstr]

theorem sepBy_jstr_nil_iff (xs : List (List Nat)) : sepBy [44] (xs.map jstr) = [] ↔ xs = [] := by
  cases xs with
  | nil => simp [sepBy]
  | cons x rest =>
    cases rest with
    | nil => simp [sepBy, jstr]
    | cons y ys => simp [sepBy, jstr]

theorem sepBy_snoc (xs : List (List Nat)) (x : List Nat) :
    sepBy [44] (xs ++ [x]) = if xs.isEmpty then x else sepBy [44] xs ++ 44 :: x := by
  induction xs with
  | nil => simp [sepBy]
  | cons y ys ih =>
    cases ys with
    | nil => simp [sepBy]
    | cons z zs =>
      simp only [List.cons_append, sepBy] at ih ⊢
      rw [ih]; simp

/-- `extend_with_strings` on an encoded array appends the names to the array -/
theorem extendLoop_eq (names : List (List Nat)) (pre : List (List Nat)) :
    Emf.extendLoop (91 :: sepBy [44] (pre.map jstr)) pre.isEmpty names
      = 91 :: sepBy [44] ((pre ++ names).map jstr) := by
  induction names generalizing pre with
  | nil => simp [Emf.extendLoop]
  | cons n rest ih =>
    unfold Emf.extendLoop
    have := ih (pre ++ [n])
    have he : (pre ++ [n]).isEmpty = false := by cases pre <;> rfl
    rw [he] at this
    have e1 : pre ++ n :: rest = pre ++ [n] ++ rest := by simp
    rw [e1, ← this]
    congr 1
    have h2 := sepBy_snoc (pre.map jstr) (jstr n)
    simp only [List.isEmpty_map] at h2
    rw [List.map_append, List.map_cons, List.map_nil, h2]
    cases pre with
    | nil => simp [sepBy]
    | cons p ps => simp

theorem extendWithStrings_jarr (d s : List (List Nat)) :
    Emf.extendWithStrings (jarrStrings d) s = jarrStrings (d ++ s) := by
  unfold Emf.extendWithStrings
  have htake : (jarrStrings d).take ((jarrStrings d).length - 1) = 91 :: sepBy [44] (d.map jstr) := by
    have : jarrStrings d = (91 :: sepBy [44] (d.map jstr)) ++ [93] := by simp [jarrStrings]
    rw [this, List.length_append]
    simp
  have hfirst : ((jarrStrings d).length == 2) = d.isEmpty := by
    cases d with
    | nil => rfl
    | cons x rest =>
      have : sepBy [44] ((x :: rest).map jstr) ≠ [] := fun h => by
        have := (sepBy_jstr_nil_iff (x :: rest)).mp h; simp at this
      have hl : 0 < (sepBy [44] ((x :: rest).map jstr)).length := List.length_pos_iff.mpr this
      simp only [jarrStrings, List.length_cons, List.length_append, List.length_nil, List.isEmpty_cons,
        beq_eq_false_iff_ne, ne_eq]
      omega
  simp only [htake, hfirst, extendLoop_eq]
  simp [jarrStrings]

/-! ### literal keys -/

theorem jstr_Name : jstr (bytes! "Name") = bytes! "\"Name\"" := by decide
theorem jstr_Unit : jstr (bytes! "Unit") = bytes! "\"Unit\"" := by decide
theorem jstr_SR : jstr (bytes! "StorageResolution") = bytes! "\"StorageResolution\"" := by decide
theorem jstr_Values : jstr (bytes! "Values") = bytes! "\"Values\"" := by decide
theorem jstr_Counts : jstr (bytes! "Counts") = bytes! "\"Counts\"" := by decide
theorem jstr_Namespace : jstr (bytes! "Namespace") = bytes! "\"Namespace\"" := by decide
theorem jstr_Dimensions : jstr (bytes! "Dimensions") = bytes! "\"Dimensions\"" := by decide
theorem jstr_Metrics : jstr (bytes! "Metrics") = bytes! "\"Metrics\"" := by decide
theorem jstr_aws : jstr (bytes! "_aws") = bytes! "\"_aws\"" := by decide
theorem jstr_CWM : jstr (bytes! "CloudWatchMetrics") = bytes! "\"CloudWatchMetrics\"" := by decide
theorem jstr_LGN : jstr (bytes! "LogGroupName") = bytes! "\"LogGroupName\"" := by decide
theorem jstr_Timestamp : jstr (bytes! "Timestamp") = bytes! "\"Timestamp\"" := by decide

/-- the declaration `write_metric` pushes is the printed `declJson` -/
theorem metricDecl_eq_print (name : Str) (unit : Option Str) (flag : Flag) (hf : flag ≠ .noMetric) :
    Emf.metricDecl name unit (toEmfFlags flag) = print (declJson ⟨name, unit, decide (flag = .hires)⟩) := by
  cases unit <;> cases flag <;>
    first
    | exact absurd rfl hf
    | simp [Emf.metricDecl, toEmfFlags, declJson, print, printMembers, jstr_Name, jstr_Unit, jstr_SR]

/-- serde's `MetricDefinition` is the printed `extraDeclJson` -/
theorem extraMetric_eq_print (d : Decl) :
    Emf.extraMetricJson { name := d.name, unit := d.unit.getD (bytes! "None"), storage := if d.hires then some 1 else none }
      = print (extraDeclJson d) := by
  obtain ⟨n, un, hi⟩ := d
  cases hi <;>
    simp [Emf.extraMetricJson, extraDeclJson, print, printMembers, jstr_Name, jstr_Unit, jstr_SR, natDigits, digitsAux]

theorem printElems_map (f : JVal → List Nat) (g : JVal → List Nat) (l : List JVal) (h : ∀ x ∈ l, f x = g x) :
    sepBy [44] (l.map f) = sepBy [44] (l.map g) := by
  have : l.map f = l.map g := List.map_congr_left h
  rw [this]

theorem printElems_eq_sepBy (l : List JVal) : printElems l = sepBy [44] (l.map print) := by
  induction l with
  | nil => rfl
  | cons x rest ih =>
    cases rest with
    | nil => simp [printElems, sepBy]
    | cons y ys =>
      simp only [List.map_cons, printElems, sepBy] at ih ⊢
      rw [ih]; simp

theorem dimsJson_print (dims : List (List Str)) :
    printElems (dims.map fun s => JVal.arr (s.map .str)) = sepBy [44] (dims.map jarrStrings) := by
  rw [printElems_eq_sepBy, List.map_map]
  congr 1
  apply List.map_congr_left
  intro s _
  simp [jarrStrings_eq_print]

/-- serde's `MetricDirective` is the printed `extraDirectiveJson` -/
theorem extraDirective_eq_print (d : Directive) :
    Emf.extraDirectiveJson (toEmfExtra d) = print (extraDirectiveJson d) := by
  have hm : sepBy [44] ((toEmfExtra d).metrics.map Emf.extraMetricJson) = printElems (d.metrics.map extraDeclJson) := by
    rw [printElems_eq_sepBy, List.map_map]
    simp only [toEmfExtra, List.map_map]
    congr 1
    apply List.map_congr_left
    intro m _
    exact extraMetric_eq_print m
  simp only [Emf.extraDirectiveJson, hm]
  simp [extraDirectiveJson, toEmfExtra, print, printMembers, dimsJson, dimsJson_print, jstr_Dimensions, jstr_Metrics,
    jstr_Namespace]

end EmfRefine
