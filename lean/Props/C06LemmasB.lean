import Props.C06LemmasA
/-! `Inv` is preserved by the slot events, by closing and by emitting; hence by every step. -/
namespace KeepAlive

theorem heldBy_le_one (sl : Slot) : heldBy sl ≤ 1 := by unfold heldBy; split <;> omega

theorem inv_closeSlot {s s' : St} (hi : Inv s) (h : step s .closeSlot = some s') : Inv s' := by
  obtain ⟨h1,h2,h3,h4,h5,h6,h7,h8,h9,h10,h11,h11b,h12,h13,h14⟩ := hi
  simp only [step] at h
  split at h
  · split at h
    · rename_i l hl
      have := held_closeFirst hl
      cases h
      inv_close
    · cases h
  · cases h

theorem inv_emit {s s' : St} (hi : Inv s) (h : step s .emit = some s') : Inv s' := by
  obtain ⟨h1,h2,h3,h4,h5,h6,h7,h8,h9,h10,h11,h11b,h12,h13,h14⟩ := hi
  simp only [step, anyApp, finishInner] at h
  split at h
  · cases h
    constructor <;> dsimp only [nApp] at * <;> grind [pV, pG, pA, iA, lA, lV, b2n]
  · cases h

theorem inv_open {s s' : St} (i : Nat) (m : Mode) (v0 : Nat) (hi : Inv s) (h : step s (.open i m v0) = some s') : Inv s' := by
  obtain ⟨h1,h2,h3,h4,h5,h6,h7,h8,h9,h10,h11,h11b,h12,h13,h14⟩ := hi
  simp only [step] at h
  split at h
  · cases h
  · rename_i sl hsl
    have hm := held_modify (fun sl => { sl with opened := true, g := .live, mode := m,
                                                 gval := if sl.lazy then v0 else sl.init }) hsl
    have hnew : heldBy { sl with opened := true, g := .live, mode := m,
                                 gval := if sl.lazy then v0 else sl.init } = if m = .wait then 1 else 0 := by
      simp [heldBy]
    rw [hnew] at hm
    simp only [relG, dropFG, ownerUsable, setSlot] at h
    (repeat' split at h) <;> (try cases h) <;> inv_close

theorem inv_slotOnly {s : St} {l : List Slot} (hi : Inv s) (hl : held l ≤ held s.slots) : Inv { s with slots := l } := by
  obtain ⟨h1,h2,h3,h4,h5,h6,h7,h8,h9,h10,h11,h11b,h12,h13,h14⟩ := hi
  inv_close

theorem inv_slotB {s : St} {l : List Slot} {b : Option Nat} (hi : Inv s) (hl : held l ≤ held s.slots) :
    Inv { s with slots := l, borrowed := b } := by
  obtain ⟨h1,h2,h3,h4,h5,h6,h7,h8,h9,h10,h11,h11b,h12,h13,h14⟩ := hi
  inv_close

theorem heldBy_poll (sl : Slot) : heldBy (poll sl).1 = heldBy sl := by
  unfold poll; split
  · split
    · rfl
    · split <;> rfl
  · rfl

theorem inv_waitBegin {s s' : St} (i : Nat) (hi : Inv s) (h : step s (.waitBegin i) = some s') : Inv s' := by
  simp only [step] at h
  split at h
  · cases h
  · rename_i sl hsl
    have hm := held_modify (fun _ => (poll sl).1) hsl
    rw [heldBy_poll] at hm
    split at h
    · cases h; simp only [setSlot]; exact inv_slotB hi (by omega)
    · cases h

theorem inv_waitPoll {s s' : St} (hi : Inv s) (h : step s .waitPoll = some s') : Inv s' := by
  simp only [step] at h
  split at h
  · cases h
  · split at h
    · cases h
    · rename_i sl hsl
      have hm := held_modify (fun _ => (poll sl).1) hsl
      rw [heldBy_poll] at hm
      cases h; simp only [setSlot]; exact inv_slotB hi (by omega)

theorem inv_gmut {s s' : St} (i v : Nat) (hi : Inv s) (h : step s (.gmut i v) = some s') : Inv s' := by
  simp only [step] at h
  split at h
  · cases h
  · rename_i sl hsl
    have hm := held_modify (fun sl => { sl with gval := v }) hsl
    have : heldBy { sl with gval := v } = heldBy sl := rfl
    split at h
    · cases h; exact inv_slotOnly hi (by omega)
    · cases h

theorem inv_gSend {s s' : St} (i : Nat) (hi : Inv s) (h : step s (.gSend i) = some s') : Inv s' := by
  simp only [step] at h
  split at h
  · cases h
  · rename_i sl hsl
    have hm := held_modify (fun sl => { sl with g := .sent, cell := (if sl.rx then some sl.gval else none), sentOk := sl.closedAs.isNone }) hsl
    split at h
    · rename_i hg
      have : heldBy { sl with g := .sent, cell := (if sl.rx then some sl.gval else none), sentOk := sl.closedAs.isNone } = heldBy sl := by
        simp [heldBy, hg]
      cases h; exact inv_slotOnly hi (by omega)
    · cases h

theorem inv_delay {s s' : St} (i : Nat) (hi : Inv s) (h : step s (.delay i) = some s') : Inv s' := by
  simp only [step] at h
  split at h
  · cases h
  · rename_i sl hsl
    have hm := held_modify (fun sl => { sl with mode := .wait }) hsl
    have := heldBy_le_one { sl with mode := .wait }
    obtain ⟨h1,h2,h3,h4,h5,h6,h7,h8,h9,h10,h11,h11b,h12,h13,h14⟩ := hi
    simp only [relG, dropFG, setSlot] at h
    (repeat' split at h) <;> (try cases h) <;> inv_close

theorem inv_gRelease {s s' : St} (i : Nat) (hi : Inv s) (h : step s (.gRelease i) = some s') : Inv s' := by
  simp only [step] at h
  split at h
  · cases h
  · rename_i sl hsl
    have hm := held_modify (fun sl => { sl with g := .none }) hsl
    have hnew : heldBy { sl with g := .none } = 0 := by simp [heldBy]
    rw [hnew] at hm
    obtain ⟨h1,h2,h3,h4,h5,h6,h7,h8,h9,h10,h11,h11b,h12,h13,h14⟩ := hi
    split at h
    · rename_i hg
      have hold : sl.mode = .wait → heldBy sl = 1 := by intro hw; simp [heldBy, hg, hw]
      simp only [relG, dropFG, setSlot] at h
      (repeat' split at h) <;> (try cases h) <;> inv_close
    · cases h

theorem inv_step {s s' : St} {e : Ev} (hi : Inv s) (h : step s e = some s') : Inv s' := by
  cases e with
  | newFG => exact inv_newFG hi h
  | newDG => exact inv_newDG hi h
  | mutate v => exact inv_mutate v hi h
  | hit v => exact inv_hit v hi h
  | toHandle => exact inv_toHandle hi h
  | cloneHandle => exact inv_cloneHandle hi h
  | refDrop => exact inv_refDrop hi h
  | «open» i m v0 => exact inv_open i m v0 hi h
  | waitBegin i => exact inv_waitBegin i hi h
  | waitPoll => exact inv_waitPoll hi h
  | waitCancel => exact inv_waitCancel hi h
  | fgDrop => exact inv_fgDrop hi h
  | delay i => exact inv_delay i hi h
  | gmut i v => exact inv_gmut i v hi h
  | gSend i => exact inv_gSend i hi h
  | gRelease i => exact inv_gRelease i hi h
  | dgBegin => exact inv_dgBegin hi h
  | pDecV => exact inv_pDecV hi h
  | pDecG => exact inv_pDecG hi h
  | innerDrop => exact inv_innerDrop hi h
  | dgLock => exact inv_dgLock hi h
  | lRun => exact inv_lRun hi h
  | lUnlock => exact inv_lUnlock hi h
  | dgDec => exact inv_dgDec hi h
  | closeSlot => exact inv_closeSlot hi h
  | emit => exact inv_emit hi h

theorem inv_reachable {cfg : List (Bool × Nat)} {s : St} (hr : Reachable cfg s) : Inv s := by
  induction hr with
  | init => exact inv_init cfg
  | step e _ h ih => exact inv_step ih h

end KeepAlive
