import Props.C16
/-!
C16 at entry and stream level: an entry is several lines, each one `write_all_vectored`; a stream is
several entries over one writer whose behaviour (script) is arbitrary.
-/
namespace Vectored

/-- the loop consumes exactly one response per call -/
theorem loop_calls (script : List Resp) (sl : List Bytes) (acc : Bytes) (c : Nat) (off : List (List Bytes)) :
    c ≤ (loop script sl acc c off).calls ∧ (loop script sl acc c off).calls ≤ c + script.length ∧
    (loop script sl acc c off).offered.length = off.length + ((loop script sl acc c off).calls - c) := by
  induction script generalizing sl acc c off with
  | nil => cases sl <;> simp [loop]
  | cons r script ih =>
    cases sl with
    | nil => simp [loop]
    | cons s ss =>
      cases r with
      | ok n =>
        cases n with
        | zero => simp [loop]
        | succ n =>
          simp only [loop]
          split
          · simp
          · have := ih ‹_› (acc ++ (s :: ss).flatten.take (n + 1)) (c + 1) (off ++ [s :: ss])
            simp only [List.length_append, List.length_cons, List.length_nil] at this ⊢
            omega
      | interrupted =>
        simp only [loop]
        have := ih (s :: ss) acc (c + 1) (off ++ [s :: ss])
        simp only [List.length_append, List.length_cons, List.length_nil] at this ⊢
        omega
      | err => simp [loop]

/-- responses after the ones consumed are never looked at: unless the script ran out, appending
anything to it changes nothing -/
theorem loop_append (script extra : List Resp) (sl : List Bytes) (acc : Bytes) (c : Nat) (off : List (List Bytes))
    (h : (loop script sl acc c off).outcome ≠ .exhausted) :
    loop (script ++ extra) sl acc c off = loop script sl acc c off := by
  induction script generalizing sl acc c off with
  | nil => cases sl <;> simp_all [loop]
  | cons r script ih =>
    cases sl with
    | nil => simp [loop]
    | cons s ss =>
      cases r with
      | ok n =>
        cases n with
        | zero => simp [loop]
        | succ n =>
          simp only [List.cons_append, loop] at h ⊢
          split
          · rfl
          · rename_i sl' hs
            simp only [hs] at h
            exact ih _ _ _ _ h
      | interrupted =>
        simp only [List.cons_append, loop] at h ⊢
        exact ih _ _ _ _ h
      | err => simp [loop]

theorem take_length_add {α : Type} (a b : List α) (i : Nat) :
    (a ++ b).take (a.length + i) = a ++ b.take i := by
  induction a with
  | nil => simp
  | cons x a ih => simp only [List.cons_append, List.length_cons]; rw [Nat.add_right_comm]; simp [ih]

theorem writeAllVectored_calls (bufs : List Bytes) (script : List Resp) :
    (writeAllVectored bufs script).calls ≤ script.length ∧
    (writeAllVectored bufs script).offered.length = (writeAllVectored bufs script).calls := by
  obtain ⟨sl', h⟩ := advance_zero bufs
  simp only [writeAllVectored, h]
  have := loop_calls script sl' [] 0 []
  simp only [List.length_nil] at this
  omega

/-- **C16 (entry level).** Whatever the writer does, the bytes it accepted for one entry are a
prefix of the entry's lines in emission order (whole lines, then part of one line: nothing torn out
of the middle, duplicated or reordered); `Ok` means every byte of every line; an error means
strictly less — a failed entry is never completely on the wire, and no line after the failing one
was attempted (`calls`/`linesDone` say where it stopped). -/
theorem c16_entry_prefix (e : Entry) (script : List Resp) :
    ∃ k, k ≤ e.bytes.length ∧
      (writeLines e script).accepted = e.bytes.take k ∧
      ((writeLines e script).outcome = .ok → k = e.bytes.length) ∧
      ((writeLines e script).outcome ≠ .ok → (writeLines e script).outcome ≠ .panic → k < e.bytes.length) := by
  induction e generalizing script with
  | nil => exact ⟨0, by simp [writeLines, Entry.bytes]⟩
  | cons l ls ih =>
    obtain ⟨k, hk, hacc, hok, hnok⟩ := c16_prefix l script
    have hb : Entry.bytes (l :: ls) = l.flatten ++ Entry.bytes ls := by simp [Entry.bytes]
    by_cases h : (writeAllVectored l script).outcome = .ok
    · obtain ⟨k', hk', hacc', hok', hnok'⟩ := ih (script.drop (writeAllVectored l script).calls)
      have hkk := hok h
      refine ⟨l.flatten.length + k', ?_, ?_, ?_, ?_⟩
      · rw [hb, List.length_append]; omega
      · simp only [writeLines, h]
        rw [hacc', c16_ok_all l script h, hb, take_length_add]
      · intro ho; simp only [writeLines, h] at ho; have := hok' ho; rw [hb, List.length_append]; omega
      · intro h1 h2; simp only [writeLines, h] at h1 h2; have := hnok' h1 h2
        rw [hb, List.length_append]; omega
    · have hw : writeLines (l :: ls) script =
          ⟨(writeAllVectored l script).outcome, (writeAllVectored l script).accepted,
            (writeAllVectored l script).calls, (writeAllVectored l script).offered, 0⟩ := by
        simp only [writeLines]
        all_goals (split <;> first | (rename_i heq; exact absurd heq h) | rfl)
      refine ⟨k, ?_, ?_, ?_, ?_⟩
      · rw [hb, List.length_append]; omega
      · rw [hw, hb]; simp only; rw [hacc, List.take_append_of_le_length hk]
      · intro ho; rw [hw] at ho; exact absurd ho h
      · intro h1 h2; rw [hw] at h1 h2; have := hnok h1 h2; rw [hb, List.length_append]; omega

theorem c16_entry_ok_all (e : Entry) (script : List Resp) (h : (writeLines e script).outcome = .ok) :
    (writeLines e script).accepted = e.bytes := by
  obtain ⟨k, _, hacc, hok, _⟩ := c16_entry_prefix e script
  rw [hacc, hok h, List.take_length]

/-- an entry makes as many calls as it consumes responses, and offers one slice list per call -/
theorem writeLines_calls (e : Entry) (script : List Resp) :
    (writeLines e script).calls ≤ script.length ∧
    (writeLines e script).offered.length = (writeLines e script).calls := by
  induction e generalizing script with
  | nil => simp [writeLines]
  | cons l ls ih =>
    have h1 := writeAllVectored_calls l script
    simp only [writeLines]
    split
    · have h2 := ih (script.drop (writeAllVectored l script).calls)
      simp only [List.length_drop, List.length_append] at h2 ⊢
      omega
    · exact h1

/-- **C16 (entry level): no zero-length offers**, on any line of the entry. -/
theorem c16_entry_never_offers_empty (e : Entry) (script : List Resp) :
    ∀ o ∈ (writeLines e script).offered, o ≠ [] ∧ HeadNonempty o := by
  induction e generalizing script with
  | nil => simp [writeLines]
  | cons l ls ih =>
    simp only [writeLines]
    split
    · intro o ho
      simp only [List.mem_append] at ho
      rcases ho with ho | ho
      · exact c16_never_offers_empty l script o ho
      · exact ih _ o ho
    · exact c16_never_offers_empty l script

/-- One stream position: what the writer holds after the entries is, entry by entry, a prefix of that
entry's bytes — complete iff the entry's result was `Ok`. -/
def EntryOk (e : Entry) (r : EntryResult) : Prop :=
  ∃ k, k ≤ e.bytes.length ∧ r.accepted = e.bytes.take k ∧
    (r.outcome = .ok → k = e.bytes.length) ∧
    (r.outcome ≠ .ok → r.outcome ≠ .panic → k < e.bytes.length)

/-- **C16 (stream level), full strength.** For every list of entries and every writer behaviour:
every entry is attempted (one result per entry, in order — an error never stops the stream), and
each result satisfies the entry-level statement with respect to *its own* entry: the bytes on the
wire are `e₁`'s prefix, then `e₂`'s prefix, … — a failed entry leaves a proper prefix of itself and
the next entry starts with its own first byte (no resend of the failed tail, no skipped head). -/
theorem c16_stream (es : List Entry) (script : List Resp) :
    (writeEntries es script).length = es.length ∧
    ∀ i (h : i < es.length) (h' : i < (writeEntries es script).length),
      EntryOk es[i] (writeEntries es script)[i] := by
  induction es generalizing script with
  | nil => simp [writeEntries]
  | cons e es ih =>
    obtain ⟨hl, hi⟩ := ih (script.drop (writeLines e script).calls)
    refine ⟨by simp [writeEntries, hl], ?_⟩
    intro i h h'
    cases i with
    | zero => simpa [writeEntries, EntryOk] using c16_entry_prefix e script
    | succ i =>
      simp only [writeEntries, List.getElem_cons_succ]
      exact hi i (by simpa using h) (by simpa [writeEntries] using h')

/-- the wire content of a stream whose entries all succeeded is exactly the entries' bytes -/
theorem c16_stream_all_ok (es : List Entry) (script : List Resp)
    (h : ∀ r ∈ writeEntries es script, r.outcome = .ok) :
    streamBytes (writeEntries es script) = (es.map Entry.bytes).flatten := by
  induction es generalizing script with
  | nil => simp [writeEntries, streamBytes]
  | cons e es ih =>
    have h0 := h (writeLines e script) (by simp [writeEntries])
    have := ih (script.drop (writeLines e script).calls) (fun r hr => h r (by simp [writeEntries, hr]))
    simp only [streamBytes, writeEntries, List.map_cons, List.flatten_cons] at this ⊢
    rw [this, c16_entry_ok_all e script h0]

/-- **Errors are local.** The entries after a position see the writer exactly as the calls so far
left it: replacing the earlier entries by any others that consume the same number of responses
(succeeding or failing) gives the later entries the same results. -/
theorem c16_stream_suffix (es1 es2 : List Entry) (script : List Resp) :
    writeEntries (es1 ++ es2) script =
      writeEntries es1 script ++
        writeEntries es2 (script.drop ((writeEntries es1 script).map (·.calls)).sum) := by
  induction es1 generalizing script with
  | nil => simp [writeEntries]
  | cons e es ih =>
    simp only [List.cons_append, writeEntries, List.map_cons, List.sum_cons]
    rw [ih, List.drop_drop]

/-- Non-vacuity: three entries (2 lines, 1 line, 1 line) over a writer that tears the first line,
fails hard inside the second line of entry 1, and then works: entry 1 leaves 7 of its 9 bytes and an
I/O error, entries 2 and 3 are complete. -/
example :
    let es : List Entry := [[[[0, 1], [2, 3, 4]], [[5, 6, 7, 8]]], [[[10, 11, 12]]], [[[20], [21]]]]
    let rs := writeEntries es [.ok 3, .interrupted, .ok 2, .ok 2, .err, .ok 3, .ok 1, .ok 1]
    rs.map (·.outcome) = [.ioErr, .ok, .ok] ∧
    streamBytes rs = [0, 1, 2, 3, 4, 5, 6] ++ [10, 11, 12] ++ [20, 21] ∧
    rs.map (·.linesDone) = [1, 1, 1] := by
  decide

end Vectored

#print axioms Vectored.c16_entry_prefix
#print axioms Vectored.c16_entry_ok_all
#print axioms Vectored.c16_entry_never_offers_empty
#print axioms Vectored.c16_stream
#print axioms Vectored.c16_stream_all_ok
#print axioms Vectored.c16_stream_suffix
#print axioms Vectored.loop_append
