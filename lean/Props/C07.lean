import Model.Naming
import Generated.Naming
/-!
# C07 — `#[metrics]` emits the documented names, values and units for every type shape
-/
namespace Naming

/-! ## `concat.rs`: the static path and the heap path denote the same string -/

theorem blen_append (a b : Str) : blen (a ++ b) = blen a + blen b := by
  simp [blen, List.map_append, List.sum_append]

theorem CStr.len_eq (t : CStr) : t.len = blen t.denote := by
  induction t with
  | leaf s => rfl
  | cat a b iha ihb => simp [CStr.len, CStr.denote, blen_append, iha, ihb]

theorem CStr.maybeVal_of_haveVal {hl ml : Nat} (h : hl ≤ ml) (t : CStr) (hv : t.haveVal hl = true) :
    t.maybeVal ml = t.denote := by
  induction t with
  | leaf s => rfl
  | cat a b iha ihb =>
    simp only [CStr.haveVal, Bool.and_eq_true, decide_eq_true_eq] at hv
    obtain ⟨⟨ha, hb⟩, hle⟩ := hv
    simp only [CStr.maybeVal, iha ha, ihb hb, CStr.denote]
    rw [CStr.len_eq, CStr.len_eq] at hle
    rw [if_pos (by omega)]

/-- `const_str_value::<S>()` is the concatenation `S` denotes, for every tree of `Concatenated`s
and every pair of limits with `HAVE_VAL`'s bound not above the last arm of the `MAYBE_VAL` match:
the borrowed (static) and the owned (heap, beyond the limit) path agree. -/
theorem c07_const_str_value (l : Limits) (h : l.have_ ≤ l.match_) (t : CStr) :
    constStrValue l t = t.denote := by
  unfold constStrValue
  split
  · exact CStr.maybeVal_of_haveVal h t ‹_›
  · rfl

/-! ## The type-level machinery resolves to the documented function -/

theorem select_makeInflectBase (f : Style → Str) (s : Style) : (makeInflectBase f).select s = f s := by
  cases s <;> rfl

theorem makeNs_style (ra : Style) (ns : NS) : (makeNs ra ns).style = effStyle ns.style ra := by
  cases ra <;> rfl

theorem makeNs_pfx (ra : Style) (ns : NS) : (makeNs ra ns).pfx = ns.pfx := by
  cases ra <;> rfl

theorem metricName_eq (infl : Infl) (a : Attrs) (st : Style) (ident : Str) (ov : Option Str) (chain : Str) :
    chain ++ metricName infl a st ident ov = specName infl st chain a ident ov := by
  unfold metricName specName
  cases ov with
  | some n => rfl
  | none =>
    cases h : a.pfx with
    | none => rfl
    | some p => cases p <;> rfl

theorem fieldNameX_eq (c : Cfg) (hl : c.limits.have_ ≤ c.limits.match_) (a : Attrs) (ns : NS)
    (ident : Str) (ov : Option Str) :
    fieldNameX c a ns ident ov
      = specName c.infl (effStyle ns.style a.renameAll) ns.pfx.denote a ident ov := by
  unfold fieldNameX
  rw [c07_const_str_value _ hl]
  simp only [NS.inflect, CStr.denote, select_makeInflectBase, makeNs_style, makeNs_pfx, metricName_eq]

theorem tagNameX_eq (c : Cfg) (hl : c.limits.have_ ≤ c.limits.match_) (a : Attrs) (ns : NS) (t : Tag) :
    tagNameX c a ns t = specTagName c.infl (effStyle ns.style a.renameAll) ns.pfx.denote a t := by
  unfold tagNameX
  rw [c07_const_str_value _ hl]
  simp only [NS.inflect, CStr.denote, select_makeInflectBase, makeNs_style, makeNs_pfx]
  cases t with
  | infl name sg =>
    simp only [Tag.fieldName, specTagName, specName]
    cases h : a.pfx with
    | none => rfl
    | some p => cases p <;> rfl
  | exact name sg => rfl

theorem flattenNs_style (c : Cfg) (a : Attrs) (ns : NS) (p : Option Pfx) :
    (flattenNs c a ns p).style = effStyle ns.style a.renameAll := by
  unfold flattenNs
  cases p with
  | none => exact makeNs_style _ _
  | some p => cases p <;> simp [Pfx.appendTo, NS.appendPrefix, makeNs_style]

theorem flattenNs_pfx (c : Cfg) (a : Attrs) (ns : NS) (p : Option Pfx) :
    (flattenNs c a ns p).pfx.denote
      = specChain c.infl (effStyle ns.style a.renameAll) ns.pfx.denote p := by
  unfold flattenNs
  cases p with
  | none => simp [makeNs_pfx, specChain]
  | some p =>
    cases p <;>
      simp [Pfx.appendTo, NS.appendPrefix, NS.inflectAffix, CStr.denote, select_makeInflectBase,
        makeNs_pfx, makeNs_style, specChain]

theorem tagWriteX_eq (c : Cfg) (hl : c.limits.have_ ≤ c.limits.match_) (a : Attrs) (ns : NS)
    (tag : Option Tag) (vi : Str) (vn : Option Str) :
    tagWriteX c a ns tag vi vn =
      (match tag with
        | none => []
        | some t => [(specTagName c.infl (effStyle ns.style a.renameAll) ns.pfx.denote a t,
                      (⟨.string, variantString c.infl a.renameAll vi vn, []⟩ : Obs))]) := by
  cases tag with
  | none => rfl
  | some t => simp [tagWriteX, tagNameX_eq c hl]

section
set_option linter.unusedSectionVars false
variable (c : Cfg) (hl : c.limits.have_ ≤ c.limits.match_) (hf : c.forwards)
include hl hf

mutual
theorem expandDef_eq (ns : NS) : (d : Def) → wfDef d = true →
    expandDef c ns d = specDef c.infl ns.style ns.pfx.denote d
  | .wrap w d, h => by
    simp only [wfDef] at h
    simp only [expandDef, specDef, hf.1 w ns]
    exact expandDef_eq ns d h
  | .struct a fs, h => by
    simp only [wfDef] at h
    simp only [expandDef, specDef]
    exact expandFields_eq a ns fs h
  | .enum a tag vi vn tuple fs, h => by
    simp only [wfDef] at h
    simp only [expandDef, specDef, tagWriteX_eq c hl]
    congr 1
    cases tuple with
    | false => simpa using expandFields_eq a ns fs h
    | true => simpa using expandTupleFields_eq a ns fs h
theorem expandFields_eq (a : Attrs) (ns : NS) : (fs : Fields) → wfFields false fs = true →
    expandFields c a ns fs = specFields c.infl (effStyle ns.style a.renameAll) ns.pfx.denote a fs
  | .nil, _ => by simp [expandFields, specFields]
  | .cons f fs, h => by
    simp only [wfFields, Bool.and_eq_true] at h
    simp only [expandFields, specFields, expandField_eq a ns f h.1, expandFields_eq a ns fs h.2]
theorem expandField_eq (a : Attrs) (ns : NS) : (f : Field) → wfField false f = true →
    expandField c a ns f = specField c.infl (effStyle ns.style a.renameAll) ns.pfx.denote a f
  | .plain ident ov unit sg v, _ => by
    simp only [expandField, specField, fieldNameX_eq c hl]
  | .ignore, _ => by simp [expandField, specField]
  | .timestamp, _ => by simp [expandField, specField]
  | .flatten p present child, h => by
    simp only [wfField] at h
    simp only [expandField, specField]
    cases present with
    | false => rfl
    | true =>
      simp only [if_true]
      rw [expandDef_eq (flattenNs c a ns p) child h, flattenNs_style, flattenNs_pfx]
  | .flattenEntry items sg, _ => by simp [expandField, specField]
theorem expandTupleFields_eq (a : Attrs) (ns : NS) : (fs : Fields) → wfFields true fs = true →
    expandTupleFields c a ns fs = specFields c.infl (effStyle ns.style a.renameAll) ns.pfx.denote a fs
  | .nil, _ => by simp [expandTupleFields, specFields]
  | .cons f fs, h => by
    simp only [wfFields, Bool.and_eq_true] at h
    simp only [expandTupleFields, specFields, expandTupleField_eq a ns f h.1,
      expandTupleFields_eq a ns fs h.2]
theorem expandTupleField_eq (a : Attrs) (ns : NS) : (f : Field) → wfField true f = true →
    expandTupleField c a ns f = specField c.infl (effStyle ns.style a.renameAll) ns.pfx.denote a f
  | .plain ident ov unit sg v, h => by simp [wfField, Field.tupleOk] at h
  | .ignore, _ => by simp [expandTupleField, specField]
  | .timestamp, h => by simp [wfField, Field.tupleOk] at h
  | .flatten p present child, h => by
    simp only [wfField] at h
    simp only [expandTupleField, specField]
    cases present with
    | false => rfl
    | true =>
      simp only [if_true]
      rw [expandDef_eq (flattenNs c a ns p) child h, flattenNs_style, flattenNs_pfx]
  | .flattenEntry items sg, _ => by simp [expandTupleField, specField]
end

end

/-! ## Sample groups -/

theorem tagSgX_eq (c : Cfg) (hl : c.limits.have_ ≤ c.limits.match_) (a : Attrs) (ns : NS)
    (tag : Option Tag) (vi : Str) (vn : Option Str) :
    tagSgX c a ns tag vi vn =
      (match tag with
        | none => []
        | some t =>
          if t.sampleGroup then
            [(specTagName c.infl (effStyle ns.style a.renameAll) ns.pfx.denote a t,
              variantString c.infl a.renameAll vi vn)]
          else []) := by
  cases tag with
  | none => rfl
  | some t => simp [tagSgX, tagNameX_eq c hl]

section
set_option linter.unusedSectionVars false
variable (c : Cfg) (hl : c.limits.have_ ≤ c.limits.match_) (hf : c.forwards)
include hl hf

mutual
theorem sgDef_eq (ns : NS) : (d : Def) → wfDef d = true →
    sgDef c ns d = specSgDef c.infl ns.style ns.pfx.denote (eraseDef d)
  | .wrap w d, h => by
    simp only [wfDef] at h
    simp only [sgDef, eraseDef, hf.1 w ns, hf.2 w, if_true, specSgDef]
    exact sgDef_eq ns d h
  | .struct a fs, h => by
    simp only [wfDef] at h
    simp only [sgDef, eraseDef, specSgDef]
    exact sgFields_eq a ns fs h
  | .enum a tag vi vn tuple fs, h => by
    simp only [wfDef] at h
    simp only [sgDef, eraseDef, specSgDef, tagSgX_eq c hl]
    congr 1
    cases tuple with
    | false => simpa using sgFields_eq a ns fs h
    | true => simpa using sgTupleFields_eq a ns fs h
theorem sgFields_eq (a : Attrs) (ns : NS) : (fs : Fields) → wfFields false fs = true →
    sgFields c a ns fs
      = specSgFields c.infl (effStyle ns.style a.renameAll) ns.pfx.denote a (eraseFields fs)
  | .nil, _ => by simp [sgFields, eraseFields, specSgFields]
  | .cons f fs, h => by
    simp only [wfFields, Bool.and_eq_true] at h
    simp only [sgFields, eraseFields, specSgFields, sgField_eq a ns f h.1, sgFields_eq a ns fs h.2]
theorem sgField_eq (a : Attrs) (ns : NS) : (f : Field) → wfField false f = true →
    sgField c a ns f
      = specSgField c.infl (effStyle ns.style a.renameAll) ns.pfx.denote a (eraseField f)
  | .plain ident ov unit sg v, _ => by
    simp only [sgField, eraseField, specSgField, fieldNameX_eq c hl]
  | .ignore, _ => by simp [sgField, eraseField, specSgField]
  | .timestamp, _ => by simp [sgField, eraseField, specSgField]
  | .flatten p present child, h => by
    simp only [wfField] at h
    simp only [sgField, eraseField, specSgField]
    cases present with
    | false => rfl
    | true =>
      simp only [if_true]
      rw [sgDef_eq (makeNs a.renameAll ns) child h, makeNs_style, makeNs_pfx]
      rfl
  | .flattenEntry items sg, _ => by simp [sgField, eraseField, specSgField]
theorem sgTupleFields_eq (a : Attrs) (ns : NS) : (fs : Fields) → wfFields true fs = true →
    sgTupleFields c a ns fs
      = specSgFields c.infl (effStyle ns.style a.renameAll) ns.pfx.denote a (eraseFields fs)
  | .nil, _ => by simp [sgTupleFields, eraseFields, specSgFields]
  | .cons f fs, h => by
    simp only [wfFields, Bool.and_eq_true] at h
    simp only [sgTupleFields, eraseFields, specSgFields, sgTupleField_eq a ns f h.1,
      sgTupleFields_eq a ns fs h.2]
theorem sgTupleField_eq (a : Attrs) (ns : NS) : (f : Field) → wfField true f = true →
    sgTupleField c a ns f
      = specSgField c.infl (effStyle ns.style a.renameAll) ns.pfx.denote a (eraseField f)
  | .plain ident ov unit sg v, h => by simp [wfField, Field.tupleOk] at h
  | .ignore, _ => by simp [sgTupleField, eraseField, specSgField]
  | .timestamp, h => by simp [wfField, Field.tupleOk] at h
  | .flatten p present child, h => by
    simp only [wfField] at h
    simp only [sgTupleField, eraseField, specSgField]
    cases present with
    | false => rfl
    | true =>
      simp only [if_true]
      rw [sgDef_eq (makeNs a.renameAll ns) child h, makeNs_style, makeNs_pfx]
      rfl
  | .flattenEntry items sg, _ => by simp [sgTupleField, eraseField, specSgField]
end

end

/- A definition that reports no sample-group pair of its own reports the same pairs (those of its
`flatten_entry` fields) under every prefix chain. -/
mutual
theorem specSgDef_chain_irrel (infl : Infl) (st : Style) (ch ch' : Str) : (d : Def) → hasSgDef d = false →
    specSgDef infl st ch d = specSgDef infl st ch' d
  | .wrap w d, h => by
    simp only [hasSgDef] at h
    simp only [specSgDef]
    exact specSgDef_chain_irrel infl st ch ch' d h
  | .struct a fs, h => by
    simp only [hasSgDef] at h
    simp only [specSgDef]
    exact specSgFields_chain_irrel infl _ ch ch' a fs h
  | .enum a tag vi vn tuple fs, h => by
    simp only [hasSgDef, Bool.or_eq_false_iff] at h
    simp only [specSgDef]
    rw [specSgFields_chain_irrel infl _ ch ch' a fs h.2]
    congr 1
    cases tag with
    | none => rfl
    | some t => simp [h.1]
theorem specSgFields_chain_irrel (infl : Infl) (st : Style) (ch ch' : Str) (a : Attrs) :
    (fs : Fields) → hasSgFields fs = false →
    specSgFields infl st ch a fs = specSgFields infl st ch' a fs
  | .nil, _ => rfl
  | .cons f fs, h => by
    simp only [hasSgFields, Bool.or_eq_false_iff] at h
    simp only [specSgFields, specSgField_chain_irrel infl st ch ch' a f h.1,
      specSgFields_chain_irrel infl st ch ch' a fs h.2]
theorem specSgField_chain_irrel (infl : Infl) (st : Style) (ch ch' : Str) (a : Attrs) :
    (f : Field) → hasSgField f = false →
    specSgField infl st ch a f = specSgField infl st ch' a f
  | .plain ident ov unit sg v, h => by
    simp only [hasSgField] at h
    simp [specSgField, h]
  | .ignore, _ => rfl
  | .timestamp, _ => rfl
  | .flatten p present child, h => by
    simp only [hasSgField, Bool.and_eq_false_iff] at h
    simp only [specSgField]
    cases present with
    | false => rfl
    | true =>
      simp only [if_true]
      have hc : hasSgDef child = false := by simpa using h
      exact specSgDef_chain_irrel infl st _ _ child hc
  | .flattenEntry items sg, _ => rfl
end

mutual
theorem specSgDef_erase (infl : Infl) (st : Style) (ch : Str) : (d : Def) → sgPrefixFree d = true →
    specSgDef infl st ch (eraseDef d) = specSgDef infl st ch d
  | .wrap w d, h => by
    simp only [sgPrefixFree] at h
    simp only [eraseDef, specSgDef]
    exact specSgDef_erase infl st ch d h
  | .struct a fs, h => by
    simp only [sgPrefixFree] at h
    simp only [eraseDef, specSgDef]
    exact specSgFields_erase infl _ ch a fs h
  | .enum a tag vi vn tuple fs, h => by
    simp only [sgPrefixFree] at h
    simp only [eraseDef, specSgDef, specSgFields_erase infl _ ch a fs h]
theorem specSgFields_erase (infl : Infl) (st : Style) (ch : Str) (a : Attrs) :
    (fs : Fields) → sgPrefixFreeFields fs = true →
    specSgFields infl st ch a (eraseFields fs) = specSgFields infl st ch a fs
  | .nil, _ => rfl
  | .cons f fs, h => by
    simp only [sgPrefixFreeFields, Bool.and_eq_true] at h
    simp only [eraseFields, specSgFields, specSgField_erase infl st ch a f h.1,
      specSgFields_erase infl st ch a fs h.2]
theorem specSgField_erase (infl : Infl) (st : Style) (ch : Str) (a : Attrs) :
    (f : Field) → sgPrefixFreeField f = true →
    specSgField infl st ch a (eraseField f) = specSgField infl st ch a f
  | .plain .., _ => rfl
  | .ignore, _ => rfl
  | .timestamp, _ => rfl
  | .flattenEntry .., _ => rfl
  | .flatten p present child, h => by
    simp only [eraseField, specSgField]
    cases present with
    | false => rfl
    | true =>
      simp only [sgPrefixFreeField, Bool.not_true, Bool.false_or, Bool.and_eq_true,
        Bool.or_eq_true, Bool.not_eq_true'] at h
      simp only [if_true, specChain]
      rw [specSgDef_erase infl st ch child h.2]
      cases h.1 with
      | inl hp =>
        cases p with
        | none => rfl
        | some q => simp at hp
      | inr hs => exact specSgDef_chain_irrel infl st _ _ child hs
end

/-! ## Property theorems -/

/-- **C07 (items).** For every well-formed definition tree of any depth, every inherited name style
and every prefix chain (any tree of `Concatenated`s, in particular longer than the const-string
limit), what the generated `InflectableEntry::<NS>::write` emits — names resolved through the four
pre-inflected strings, `NameStyle`'s associated types and `const_str_value` — is exactly what the
documented naming function prescribes: same items, same order, same names, values, units, kinds. -/
theorem c07_expansion_eq_spec (c : Cfg) (hl : c.limits.have_ ≤ c.limits.match_) (hf : c.forwards)
    (ns : NS) (d : Def) (hwf : wfDef d = true) :
    expandDef c ns d = specDef c.infl ns.style ns.pfx.denote d :=
  expandDef_eq c hl hf ns d hwf

/-- The constants extracted from `concat.rs` on this run satisfy the side condition. -/
theorem c07_limits_consistent : Generated.Naming.haveValLimit ≤ Generated.Naming.matchLimit := by
  decide

/-- the configuration of the real code: the limits of `concat.rs`, any inflector -/
def realCfg (infl : Infl) : Cfg :=
  { infl := infl, limits := ⟨Generated.Naming.haveValLimit, Generated.Naming.matchLimit⟩ }

theorem realCfg_forwards (infl : Infl) : (realCfg infl).forwards := ⟨fun _ _ => rfl, fun _ => rfl⟩

/-- **C07 at the root**: a `RootEntry` (written with `Identity<EmptyConstStr>`) of any well-formed
definition emits the documented items, with the limits `concat.rs` has now. -/
theorem c07_root_entry_eq_spec (infl : Infl) (d : Def) (hwf : wfDef d = true) :
    expandDef (realCfg infl) NS.root d = specDef infl .preserve [] d :=
  expandDef_eq (realCfg infl) c07_limits_consistent (realCfg_forwards infl) NS.root d hwf

/-- **C07 (sample groups), what the code does, full strength**: the generated `sample_group()` of
every well-formed tree reports the documented pairs *of the tree with every flatten prefix erased*
(`collect_field_sample_group` never appends the flatten prefix). -/
theorem c07_sample_group_erases_flatten_prefix (c : Cfg) (hl : c.limits.have_ ≤ c.limits.match_)
    (hf : c.forwards) (ns : NS) (d : Def) (hwf : wfDef d = true) :
    sgDef c ns d = specSgDef c.infl ns.style ns.pfx.denote (eraseDef d) :=
  sgDef_eq c hl hf ns d hwf

/- The full statement `sgDef c ns d = specSgDef c.infl ns.style ns.pfx.denote d` for every
well-formed `d` is FALSE for the code as it is (known finding
`naming:sample-group-misses-flatten-prefix`, witness below). Proved under the hypothesis "no flatten
prefix above a sample-group field or tag": -/
/-- **C07 (sample groups), partial**: sample-group pairs use the same names as the written items
whenever no prefixed flatten has a child that reports a sample-group pair of its own. Missing: the
case of a `#[metrics(flatten, prefix/exact_prefix)]` over a sample-group field/tag, where the code
omits the flatten prefix from the pair's name. -/
theorem c07_sample_group_eq_spec_partial (c : Cfg) (hl : c.limits.have_ ≤ c.limits.match_)
    (hf : c.forwards) (ns : NS) (d : Def) (hwf : wfDef d = true) (hfree : sgPrefixFree d = true) :
    sgDef c ns d = specSgDef c.infl ns.style ns.pfx.denote d := by
  rw [sgDef_eq c hl hf ns d hwf, specSgDef_erase c.infl ns.style ns.pfx.denote d hfree]

/-- **Forwarding impls are covered and forward.** The list of `impl InflectableEntry<NS> for
<container>` that T-gen finds in metrique-core now is exactly the list of `Wrapper`s the model (and
the generated crate) goes through; each bounds `T: InflectableEntry<NS>` and calls `T`'s `write`
and overrides `sample_group` (so `Cfg.forwards` is what the code says). A new or altered forwarding
impl re-opens this obligation. -/
theorem c07_forwarding_impls_covered :
    Generated.Naming.forwardingImpls
      = Wrapper.all.map fun w => (w.rustType, true, true) := by
  decide

/-! ## Exactly one item per present, non-ignored field -/

theorem observe_isSome (infl : Infl) (v : FVal) : (observe infl v).isSome = v.isPresent := by
  induction v with
  | absent => rfl
  | num => rfl
  | str => rfl
  | variant => rfl
  | newtype inner u ih => simp [observe, FVal.isPresent, ih]
  | some inner ih => simp [observe, FVal.isPresent, ih]

theorem fieldObs_isSome (infl : Infl) (u : Option Str) (v : FVal) :
    (fieldObs infl u v).isSome = v.isPresent := by
  simp [fieldObs, observe_isSome]

mutual
theorem specDef_length (infl : Infl) (st : Style) (ch : Str) : (d : Def) →
    (specDef infl st ch d).length = countDef d
  | .wrap w d => by
    simp only [specDef, countDef]
    exact specDef_length infl st ch d
  | .struct a fs => by
    simp only [specDef, countDef]
    exact specFields_length infl _ ch a fs
  | .enum a tag vi vn tuple fs => by
    simp only [specDef, countDef, List.length_append, specFields_length infl _ ch a fs]
    cases tag <;> rfl
theorem specFields_length (infl : Infl) (st : Style) (ch : Str) (a : Attrs) : (fs : Fields) →
    (specFields infl st ch a fs).length = countFields fs
  | .nil => rfl
  | .cons f fs => by
    simp only [specFields, countFields, List.length_append, specField_length infl st ch a f,
      specFields_length infl st ch a fs]
theorem specField_length (infl : Infl) (st : Style) (ch : Str) (a : Attrs) : (f : Field) →
    (specField infl st ch a f).length = countField f
  | .plain ident ov unit sg v => by
    simp only [specField, countField]
    have h := fieldObs_isSome infl unit v
    cases hv : fieldObs infl unit v with
    | none => rw [hv] at h; simp [← h]
    | some o => rw [hv] at h; simp [← h]
  | .ignore => rfl
  | .timestamp => rfl
  | .flatten p present child => by
    simp only [specField, countField]
    cases present with
    | false => rfl
    | true => simpa using specDef_length infl st _ child
  | .flattenEntry items sg => rfl
end

/-- **C07 (count).** The emitted entry has exactly one item per tag and per present, non-ignored
plain field, transitively through present flattened children (plus the items of `flatten_entry`
fields verbatim); ignored fields, timestamps and absent `Option`s contribute nothing. -/
theorem c07_one_item_per_field (c : Cfg) (hl : c.limits.have_ ≤ c.limits.match_) (hf : c.forwards)
    (ns : NS) (d : Def) (hwf : wfDef d = true) : (expandDef c ns d).length = countDef d := by
  rw [c07_expansion_eq_spec c hl hf ns d hwf, specDef_length]

/-! ## Non-vacuity and the witness of the known finding -/

/-- a toy inflector that marks which style was applied -/
def toyInfl : Infl := fun st s =>
  match st with
  | .pascal => 'P' :: s
  | .snake => 's' :: s
  | .kebab => 'k' :: s
  | .preserve => s

def toyCfg : Cfg := { infl := toyInfl, limits := ⟨4, 4⟩ }

/-- grandchild: `rename_all = snake_case`, a `name` override, a sample-group string -/
def exGrand : Def :=
  .struct ⟨.snake, none⟩
    (.cons (.plain ['g'] none (some ['C', 'n', 't']) false (.num ['7'] ['N'])) <|
     .cons (.plain ['h'] (some ['H', '!']) none true (.str ['v'])) .nil)

/-- child: no `rename_all` (inherits), container `exact_prefix`, an absent `Option`, an ignored field -/
def exChild : Def :=
  .struct ⟨.preserve, some (.exact ['X', '.'])⟩
    (.cons (.plain ['c'] none none false (.some (.num ['1'] ['N']))) <|
     .cons (.plain ['o'] none none false .absent) <|
     .cons .ignore <|
     .cons (.flatten (some (.infl ['q', '_'])) true exGrand) .nil)

/-- root: entry enum, `rename_all = PascalCase`, container `prefix`, tag in the sample group -/
def exRoot : Def :=
  .enum ⟨.pascal, some (.infl ['r', '_'])⟩ (some (.infl ['o', 'p'] true)) ['V', 'a'] none false
    (.cons (.plain ['a'] none none false (.num ['2'] ['N'])) <|
     .cons (.flatten (some (.exact ['E', ':'])) true exChild) .nil)

/-- the tree meets the hypotheses of the item theorem, not of the partial sample-group theorem -/
example : wfDef exRoot = true ∧ sgPrefixFree exRoot = false ∧ sgPrefixFree exGrand = true
    ∧ countDef exRoot = 5 := by decide

/-- the emission is non-trivial: 5 items over three levels, names up to 9 bytes with limit 4 (so the
heap path of `const_str_value` is taken), inherited Pascal in the child, snake in the grandchild -/
example : expandDef toyCfg NS.root exRoot =
    [ (['P', 'r', '_', 'o', 'p'], ⟨.string, ['P', 'V', 'a'], []⟩),
      (['P', 'r', '_', 'a'], ⟨.metric, ['2'], ['N']⟩),
      (['E', ':', 'X', '.', 'P', 'c'], ⟨.metric, ['1'], ['N']⟩),
      (['E', ':', 'P', 'q', '_', 's', 'g'], ⟨.metric, ['7'], ['C', 'n', 't']⟩),
      (['E', ':', 'P', 'q', '_', 'H', '!'], ⟨.string, ['v'], []⟩) ] := by decide

/-- **Witness of the known finding** (`decide`d on the model that mirrors the code): the written
item is named `E:Pq_H!` but the sample-group pair is named `H!`; the documented pair is `E:Pq_H!`. -/
example : sgDef toyCfg NS.root exRoot = [ (['P', 'r', '_', 'o', 'p'], ['P', 'V', 'a']), (['H', '!'], ['v']) ]
    ∧ specSgDef toyInfl .preserve [] exRoot
        = [ (['P', 'r', '_', 'o', 'p'], ['P', 'V', 'a']), (['E', ':', 'P', 'q', '_', 'H', '!'], ['v']) ] := by
  decide

/-- a forwarding impl that loses the `NS` for `Arc` (what `T: InflectableEntry` — default
`Identity`, empty prefix — instead of `T: InflectableEntry<NS>` would mean) -/
def arcResetCfg : Cfg :=
  { toyCfg with wrapNs := fun w ns => match w with | .arc => NS.root | _ => ns }

/-- the grandchild behind an `Arc`, below a Pascal parent with a flatten prefix -/
def exArc : Def :=
  .struct ⟨.pascal, none⟩ (.cons (.flatten (some (.infl ['q', '_'])) true (.wrap .arc exGrand)) .nil)

/-- **Witness that `Cfg.forwards` is needed**: with forwarding impls that are the identity the
wrapped child is named like the bare child (`Pq_sg`, `Pq_H!`); a wrapper that resets the style and
the prefix chain emits `sg`, `H!` instead — C07 is violated for items and sample group. -/
example : expandDef toyCfg NS.root exArc = specDef toyInfl .preserve [] exArc
    ∧ (expandDef toyCfg NS.root exArc).map (·.1) = [['P', 'q', '_', 's', 'g'], ['P', 'q', '_', 'H', '!']]
    ∧ (expandDef arcResetCfg NS.root exArc).map (·.1) = [['s', 'g'], ['H', '!']]
    ∧ expandDef arcResetCfg NS.root exArc ≠ specDef toyInfl .preserve [] exArc
    ∧ wfDef exArc = true := by decide

/-- a `ForceFlag` impl without a `sample_group` override (the code before fix 1af396b) -/
def forceFlagSilentCfg : Cfg :=
  { toyCfg with wrapSg := fun w => match w with | .forceFlag => false | _ => true }

/-- **Witness that forwarding `sample_group` is needed**: through forwarding impls the wrapped
child reports its documented pair; a wrapper that keeps the trait's default reports nothing — C07
("sample-group pairs use the same names") is violated although the written items are right. -/
example : sgDef toyCfg NS.root (.wrap .forceFlag exGrand) = [(['H', '!'], ['v'])]
    ∧ specSgDef toyInfl .preserve [] (.wrap .forceFlag exGrand) = [(['H', '!'], ['v'])]
    ∧ sgDef forceFlagSilentCfg NS.root (.wrap .forceFlag exGrand) = []
    ∧ expandDef forceFlagSilentCfg NS.root (.wrap .forceFlag exGrand)
        = specDef toyInfl .preserve [] (.wrap .forceFlag exGrand)
    ∧ sgPrefixFree (.wrap .forceFlag exGrand) = true := by decide

/-- a concatenation beyond the limit: static value unavailable, heap path taken, same string -/
example : (CStr.cat (.cat (.leaf []) (.leaf ['a', 'b', 'c'])) (.leaf ['d', 'e'])).haveVal 4 = false
    ∧ constStrValue ⟨4, 4⟩ (CStr.cat (.cat (.leaf []) (.leaf ['a', 'b', 'c'])) (.leaf ['d', 'e']))
        = ['a', 'b', 'c', 'd', 'e'] := by decide

end Naming

#print axioms Naming.c07_const_str_value
#print axioms Naming.c07_expansion_eq_spec
#print axioms Naming.c07_limits_consistent
#print axioms Naming.c07_root_entry_eq_spec
#print axioms Naming.c07_forwarding_impls_covered
#print axioms Naming.c07_one_item_per_field
#print axioms Naming.c07_sample_group_erases_flatten_prefix
#print axioms Naming.c07_sample_group_eq_spec_partial
