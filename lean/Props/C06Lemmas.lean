import Model.KeepAlive
/-!
Reachability and the inductive invariant of the keep-alive transition system (shared by C06 and C13).
-/
namespace KeepAlive

/-- a slot field as constructed by `Slot::new(init)` / `LazySlot::default()` -/
def fresh (c : Bool × Nat) : Slot := { lazy := c.1, init := c.2 }

/-- states reachable by any schedule from the initial state of an entry whose slot fields are `cfg`
(`(lazy?, initial value)` per field, in declaration order) -/
inductive Reachable (cfg : List (Bool × Nat)) : St → Prop where
  | init : Reachable cfg (init (cfg.map fresh))
  | step {s s' : St} (e : Ev) : Reachable cfg s → step s e = some s' → Reachable cfg s'

theorem reachable_run {cfg : List (Bool × Nat)} {s s' : St} (es : List Ev) (hr : Reachable cfg s)
    (h : run s es = some s') : Reachable cfg s' := by
  induction es generalizing s with
  | nil => simp [run] at h; exact h ▸ hr
  | cons e es ih =>
    simp only [run] at h
    split at h
    · cases h
    · rename_i s1 hs; exact ih (Reachable.step e hr hs) h

/-- references on the value cell held by the `Parent` fields of the dropping thread -/
def pV : PPc → Nat
  | .idle | .decV => 1
  | _ => 0

/-- reference on the guard cell held by `Parent.guard` -/
def pG : PPc → Nat
  | .done => 0
  | _ => 1

def pA : PPc → Nat
  | .app => 1
  | _ => 0

def iA : IPc → Nat
  | .app => 1
  | _ => 0

def lA : LPc → Nat
  | .app => 1
  | _ => 0

/-- the taken closure (holding `guard_value`) is alive inside `DropAll::drop` -/
def lV : LPc → Nat
  | .run => 1
  | _ => 0

def b2n (b : Bool) : Nat := if b then 1 else 0

@[simp] theorem b2n_true : b2n true = 1 := rfl
@[simp] theorem b2n_false : b2n false = 0 := rfl

/-- number of threads inside `Drop for AppendAndCloseOnDropInner` -/
def nApp (s : St) : Nat := pA s.pPc + iA s.iPc + lA s.lPc

def wellSlot (sl : Slot) : Prop :=
  (sl.g = .live → sl.opened = true) ∧ (sl.g = .sent → sl.opened = true)

structure Inv (s : St) : Prop where
  /-- strong count of the value cell = its holders -/
  vcount : s.vS = pV s.pPc + b2n s.closure + lV s.lPc
  /-- strong count of the guard cell = its holders -/
  gcount : s.gS = pG s.pPc + s.fgLive + s.nUp + b2n s.lock + s.nDec
  /-- the entry has been appended, or is being appended by exactly one thread, iff the value count is 0 -/
  apps0 : s.vS = 0 → s.appended.length + nApp s = 1
  apps1 : s.vS > 0 → s.appended.length + nApp s = 0
  lockpc : s.lock = true ↔ s.lPc ≠ .free
  hpc : s.hS > 0 ↔ s.pPc = .idle
  izero : s.iPc ≠ .idle ↔ s.gS = 0
  iclos : s.iPc = .app ∨ s.iPc = .done → s.closure = false
  lclos : s.lPc ≠ .free ∨ s.nDec > 0 → s.closure = false
  /-- the closure disappears only through a force-flush guard or with the last guard-cell reference -/
  forced : s.closure = false → s.dgBegun > 0 ∨ s.gS = 0
  dgdone : s.dgDone > 0 → s.closure = false ∨ s.gS = 0
  /-- only force-flush guards are between `upgrade` and the end of `DropAll::drop` -/
  upbegun : s.nUp > 0 ∨ s.lPc ≠ .free ∨ s.nDec > 0 → s.dgBegun > 0
  heldle : held s.slots ≤ s.fgLive
  atdrop : s.hS = 0 → s.atDrop = some (s.plain, s.hits)
  appval : ∀ a ∈ s.appended, s.atDrop = some (a.plain, a.hits)

theorem held_modify {l : List Slot} {i : Nat} {sl : Slot} (f : Slot → Slot) (h : l[i]? = some sl) :
    held (modifyAt f l i) + heldBy sl = held l + heldBy (f sl) := by
  induction l generalizing i with
  | nil => simp at h
  | cons a r ih =>
    cases i with
    | zero =>
      simp at h; subst h
      simp [modifyAt, held]; omega
    | succ i =>
      simp at h
      have := ih h
      simp [modifyAt, held]; omega

theorem heldBy_le_held {l : List Slot} {i : Nat} {sl : Slot} (h : l[i]? = some sl) : heldBy sl ≤ held l := by
  induction l generalizing i with
  | nil => simp at h
  | cons a r ih =>
    cases i with
    | zero => simp at h; subst h; simp [held]
    | succ i => simp at h; have := ih h; simp [held]; omega

theorem held_closeFirst {l l' : List Slot} (h : closeFirst l = some l') : held l' = held l := by
  induction l generalizing l' with
  | nil => simp [closeFirst] at h
  | cons a r ih =>
    simp only [closeFirst] at h
    split at h
    · cases h; simp [held, heldBy, closeSlot1]; rfl
    · cases hr : closeFirst r with
      | none => simp [hr] at h
      | some r' => simp [hr] at h; subst h; simp [held, ih hr]

theorem held_fresh (cfg : List (Bool × Nat)) : held (cfg.map fresh) = 0 := by
  induction cfg with
  | nil => rfl
  | cons c r ih => simp [held, heldBy, fresh, ih]

theorem inv_init (cfg : List (Bool × Nat)) : Inv (init (cfg.map fresh)) := by
  constructor <;> simp [init, pV, pG, lV, nApp, pA, iA, lA, held_fresh]

/-- closes `Inv s'` for an explicit successor state from the destructured invariant of `s` -/
macro "inv_close" : tactic =>
  `(tactic| (constructor <;> dsimp only [nApp] at * <;> grind [pV, pG, pA, iA, lA, lV, b2n]))

macro "inv_ev" h:ident : tactic =>
  `(tactic| (simp only [step, relG, dropFG, finishInner, ownerUsable, anyApp, setSlot] at $h:ident <;> (repeat' split at $h:ident) <;> (try cases $h:ident) <;> inv_close))

end KeepAlive
