import Model.Global
/-!
# C17 — global sinks route each entry to exactly one destination, by fixed precedence

Theorems about `Global.step` / `Global.run` (model of the statics and API that `global_entry_sink!`
generates, `metrique-writer-core/src/global.rs`), for every state, every context (thread, current
runtime), every operation and every script — no bound on the number of threads, runtimes, sinks or
on the script length — and about `Global.raceRun` (appends racing the detach) for every schedule.
-/
namespace Global

/-! ## precedence -/

/-- **C17 precedence.** The destination is the calling thread's test sink if one is installed,
otherwise the current runtime's test sink, otherwise the attached sink. -/
theorem c17_precedence (st : State) (c : Ctx) :
    (∀ s, st.tl c.thread = some s → route st c = some s) ∧
    (∀ r s, st.tl c.thread = none → c.runtime = some r → st.rt r = some s → route st c = some s) ∧
    (st.tl c.thread = none → (∀ r, c.runtime = some r → st.rt r = none) → route st c = st.attached) := by
  refine ⟨?_, ?_, ?_⟩
  · intro s h; simp [route, testSink, h]
  · intro r s h1 h2 h3; simp [route, testSink, h1, h2, h3]
  · intro h1 h2
    cases hr : c.runtime with
    | none => simp [route, testSink, h1, hr]
    | some r => simp [route, testSink, h1, hr, h2 r hr]

/-- The routed operations deliver to `route` and nowhere else; they fail (panic / hand back /
`None`) exactly when there is no destination at all. -/
theorem c17_routed (st : State) (c : Ctx) (e : Nat) :
    (step st c (.append e)).2 = (match route st c with | some d => .dest d | none => .panic) ∧
    (step st c (.tryAppend e)).2 = (match route st c with | some d => .dest d | none => .returned e) ∧
    (step st c (.sink e)).2 = (match route st c with | some d => .dest d | none => .panic) ∧
    (step st c (.trySink e)).2 = (match route st c with | some d => .dest d | none => .none) ∧
    (step st c .isAttached).2 = .bool (route st c).isSome := by
  cases h : route st c <;> simp [step, h]

/-! ## exactly one destination -/

theorem received_deliver (st : State) (d e d' : Nat) :
    received (deliver st d e) d' = if d' = d then received st d' ++ [e] else received st d' := by
  unfold received deliver
  by_cases h : d' = d
  · subst h; simp [List.filter_append]
  · have : (d == d') = false := by simp; exact fun h' => h h'.symm
    simp [List.filter_append, h, this]

/-- What a step does to the delivery log: an operation that carries an entry `e` and answers
`dest d` appends exactly `(d, e)`; every other outcome and every other operation leaves it alone. -/
theorem step_log (st : State) (c : Ctx) (op : Op) :
    (step st c op).1.log =
      match op.entry, (step st c op).2 with
      | some e, .dest d => st.log ++ [(d, e)]
      | _, _ => st.log := by
  cases op <;> simp only [step, Op.entry, setRuntime] <;> (try split) <;> (try split) <;> simp_all [deliver]

/-- **C17 exactly one destination.** An operation carrying entry `e` either answers `dest d` and
then sink `d` — and no other sink — has received `e` once more, at the end; or it answers something
else (`panic`, `returned`, `none`, `noop`) and no sink has received anything. -/
theorem c17_exactly_one (st : State) (c : Ctx) (op : Op) (e : Nat) (h : op.entry = some e) :
    (∃ d, (step st c op).2 = .dest d ∧
      ∀ d', received (step st c op).1 d' = if d' = d then received st d' ++ [e] else received st d') ∨
    ((∀ d, (step st c op).2 ≠ .dest d) ∧ ∀ d', received (step st c op).1 d' = received st d') := by
  have hl := step_log st c op
  rw [h] at hl
  cases hr : (step st c op).2 with
  | dest d =>
    left
    refine ⟨d, rfl, fun d' => ?_⟩
    rw [hr] at hl
    have := received_deliver st d e d'
    simp only [received, deliver] at this ⊢
    rw [hl]; exact this
  | _ =>
    right
    rw [hr] at hl
    refine ⟨by intro d; simp, fun d' => ?_⟩
    simp only [received]; rw [hl]

/-- Operations that carry no entry never deliver anything. -/
theorem c17_no_entry_no_delivery (st : State) (c : Ctx) (op : Op) (h : op.entry = none) (d' : Nat) :
    received (step st c op).1 d' = received st d' := by
  have hl := step_log st c op
  rw [h] at hl
  simp only [received]; rw [hl]

/-- **C17 hand-back.** `try_append` hands back exactly the entry it was given, and only when there
is no destination; the global is then untouched. -/
theorem c17_try_append_returns_unchanged (st : State) (c : Ctx) (e e' : Nat)
    (h : (step st c (.tryAppend e)).2 = .returned e') :
    e' = e ∧ route st c = none ∧ (step st c (.tryAppend e)).1 = st := by
  cases hr : route st c with
  | none => simp [step, hr] at h ⊢; exact h.symm
  | some d => simp [step, hr] at h

/-- The deliveries a script makes, read off its results. -/
def deliveries : List (Ctx × Op) → List Res → List (Nat × Nat)
  | (_, op) :: rest, r :: rs =>
    (match op.entry, r with
      | some e, .dest d => [(d, e)]
      | _, _ => []) ++ deliveries rest rs
  | _, _ => []

/-- **C17 exactly one destination, whole histories.** After any script the log is the initial log
followed by one record per operation that answered `dest d` (to that `d`, of that operation's
entry), in order: nothing is ever delivered twice, to a second sink, later, or removed. -/
theorem c17_log_is_results (st : State) (script : List (Ctx × Op)) :
    (run st script).1.log = st.log ++ deliveries script (run st script).2 := by
  induction script generalizing st with
  | nil => simp [run, deliveries]
  | cons x rest ih =>
    obtain ⟨c, op⟩ := x
    simp only [run, deliveries]
    rw [ih, step_log]
    cases op.entry <;> cases (step st c op).2 <;> simp

theorem run_length (st : State) (script : List (Ctx × Op)) : (run st script).2.length = script.length := by
  induction script generalizing st with
  | nil => simp [run]
  | cons x rest ih => obtain ⟨c, op⟩ := x; simp [run, ih]

/-! ## panics -/

/-- **C17 panics preserve the global.** An operation that panics leaves the state exactly as it was. -/
theorem c17_panics_preserve (st : State) (c : Ctx) (op : Op) (h : (step st c op).2 = .panic) :
    (step st c op).1 = st := by
  cases op <;> simp only [step, setRuntime] at h ⊢ <;> (try split at h) <;> (try split at h) <;> simp_all

/-- … hence every later operation behaves as if the panicking one had not been issued. -/
theorem c17_panics_transparent (st : State) (c : Ctx) (op : Op) (rest : List (Ctx × Op))
    (h : (step st c op).2 = .panic) :
    run st ((c, op) :: rest) = ((run st rest).1, .panic :: (run st rest).2) := by
  have h1 := c17_panics_preserve st c op h
  simp only [run]
  rw [h1, h]

/-- Exactly the stated operations panic: attaching while attached, installing a second test sink of
the same kind, asking for the current runtime outside one, and `append` / `sink()` without any
destination. Nothing else does. -/
theorem c17_panic_iff (st : State) (c : Ctx) (op : Op) :
    (step st c op).2 = .panic ↔
      match op with
      | .attach _ => st.attached.isSome
      | .setTL _ => (st.tl c.thread).isSome
      | .setRT r _ => (st.rt r).isSome
      | .setRTCur _ => (match c.runtime with | none => true | some r => (st.rt r).isSome)
      | .append _ | .sink _ | .hold _ => (route st c).isNone
      | _ => false := by
  cases op <;> simp only [step, setRuntime] <;> (try split) <;> (try split) <;> simp_all

/-! ## the attach handle owns the attached sink -/

/-- A live attach handle was issued for the sink that is attached now. -/
def HandleOwns (st : State) : Prop := ∀ s, st.handle = some s → st.attached = some s

theorem handleOwns_init (a : Option Nat) : HandleOwns (State.init a) := by
  intro s h; simp [State.init] at h

theorem handleOwns_step (st : State) (c : Ctx) (op : Op) (h : HandleOwns st) : HandleOwns (step st c op).1 := by
  unfold HandleOwns at *
  cases op <;> simp only [step, setRuntime] <;> (try split) <;> (try split) <;> simp_all [deliver]

/-- **C17 a handle detaches its own sink.** In every state reachable from an initial state the live
`AttachHandle` (there is at most one) belongs to the currently attached sink, so dropping it
(`SINK.write().take()`) detaches that sink and never a later one. -/
theorem c17_handle_owns (a : Option Nat) (script : List (Ctx × Op)) :
    HandleOwns (run (State.init a) script).1 := by
  suffices ∀ st, HandleOwns st → HandleOwns (run st script).1 from this _ (handleOwns_init a)
  induction script with
  | nil => intro st h; simpa [run] using h
  | cons x rest ih =>
    intro st h
    obtain ⟨c, op⟩ := x
    simp only [run]
    exact ih _ (handleOwns_step st c op h)

/-! ## dropping a guard or handle restores the routing -/

/-- The part of the state that decides routing (held clones and the log do not). -/
structure Core where
  attached : Option Nat
  handle : Option Nat
  tl : Nat → Option Nat
  rt : Nat → Option Nat

def State.core (st : State) : Core := ⟨st.attached, st.handle, st.tl, st.rt⟩

theorem route_core (a b : State) (h : a.core = b.core) (c : Ctx) : route a c = route b c := by
  simp only [State.core, Core.mk.injEq] at h
  obtain ⟨h1, _, h3, h4⟩ := h
  simp [route, testSink, h1, h3, h4]

theorem upd_comm (f : Nat → Option Nat) (a b : Nat) (v w : Option Nat) (h : a ≠ b) :
    upd (upd f a v) b w = upd (upd f b w) a v := by
  funext x; simp only [upd]; by_cases h1 : x = a <;> by_cases h2 : x = b <;> simp_all

theorem upd_same (f : Nat → Option Nat) (a : Nat) (v w : Option Nat) : upd (upd f a v) a w = upd f a w := by
  funext x; simp only [upd]; by_cases h1 : x = a <;> simp_all

theorem upd_self (f : Nat → Option Nat) (a : Nat) (h : f a = none) : upd f a none = f := by
  funext x; simp only [upd]; by_cases h1 : x = a <;> simp_all

theorem dropTL_some (a : State) (c : Ctx) (s : Nat) (h : a.tl c.thread = some s) :
    step a c .dropTL = ({ a with tl := upd a.tl c.thread none }, .ok) := by simp [step, h]

theorem dropRT_some (a : State) (c : Ctx) (k s : Nat) (h : a.rt k = some s) :
    step a c (.dropRT k) = ({ a with rt := upd a.rt k none }, .ok) := by simp [step, h]

theorem dropAttach_some (a : State) (c : Ctx) (s : Nat) (h : a.handle = some s) :
    step a c .dropAttach = ({ a with attached := none, handle := none }, .ok) := by simp [step, h]

/-- `a` is `b` with a thread-local test sink `s` additionally installed on thread `t`. -/
def RelTL (t s : Nat) (a b : State) : Prop :=
  a.attached = b.attached ∧ a.handle = b.handle ∧ a.rt = b.rt ∧ a.tl = upd b.tl t (some s) ∧ b.tl t = none

/-- Operations that do not touch the thread-local slot of thread `t`. -/
def avoidsTL (t : Nat) (x : Ctx × Op) : Bool :=
  match x.2 with
  | .setTL _ | .dropTL => x.1.thread != t
  | _ => true

theorem relTL_step (t s : Nat) (a b : State) (c : Ctx) (op : Op) (h : RelTL t s a b)
    (hav : avoidsTL t (c, op) = true) : RelTL t s (step a c op).1 (step b c op).1 := by
  obtain ⟨h1, h2, h3, h4, h5⟩ := h
  have key : ∀ x, x ≠ t → a.tl x = b.tl x := by intro x hx; rw [h4]; simp [upd, hx]
  cases op with
  | setTL s' =>
    have hc : c.thread ≠ t := by simpa [avoidsTL] using hav
    simp only [step, key _ hc]
    split
    · exact ⟨h1, h2, h3, h4, h5⟩
    · refine ⟨h1, h2, h3, ?_, ?_⟩
      · simp only [h4]; exact upd_comm _ _ _ _ _ (Ne.symm hc)
      · simp [upd, Ne.symm hc, h5]
  | dropTL =>
    have hc : c.thread ≠ t := by simpa [avoidsTL] using hav
    simp only [step, key _ hc]
    split
    · refine ⟨h1, h2, h3, ?_, ?_⟩
      · simp only [h4]; exact upd_comm _ _ _ _ _ (Ne.symm hc)
      · simp [upd, Ne.symm hc, h5]
    · exact ⟨h1, h2, h3, h4, h5⟩
  | attach _ => simp only [step, h1]; split <;> exact ⟨by simp_all, by simp_all, h3, h4, h5⟩
  | dropAttach => simp only [step, h2]; split <;> exact ⟨by simp_all, by simp_all, h3, h4, h5⟩
  | forgetAttach => simp only [step, h2]; split <;> exact ⟨by simp_all, by simp_all, h3, h4, h5⟩
  | setRT r _ => simp only [step, setRuntime, h3]; split <;> exact ⟨h1, h2, by simp_all, h4, h5⟩
  | setRTCur _ =>
    simp only [step, setRuntime, h3]
    split
    · exact ⟨h1, h2, h3, h4, h5⟩
    · split <;> exact ⟨h1, h2, by simp_all, h4, h5⟩
  | dropRT r => simp only [step, h3]; split <;> exact ⟨h1, h2, by simp_all, h4, h5⟩
  | append _ => simp only [step]; split <;> split <;> exact ⟨h1, h2, h3, h4, h5⟩
  | tryAppend _ => simp only [step]; split <;> split <;> exact ⟨h1, h2, h3, h4, h5⟩
  | sink _ => simp only [step]; split <;> split <;> exact ⟨h1, h2, h3, h4, h5⟩
  | trySink _ => simp only [step]; split <;> split <;> exact ⟨h1, h2, h3, h4, h5⟩
  | isAttached => exact ⟨h1, h2, h3, h4, h5⟩
  | hold _ => simp only [step]; split <;> split <;> exact ⟨h1, h2, h3, h4, h5⟩
  | useHeld _ _ => simp only [step]; split <;> split <;> exact ⟨h1, h2, h3, h4, h5⟩

theorem relTL_run (t s : Nat) (a b : State) (mid : List (Ctx × Op)) (h : RelTL t s a b)
    (hav : mid.all (avoidsTL t) = true) : RelTL t s (run a mid).1 (run b mid).1 := by
  induction mid generalizing a b with
  | nil => simpa [run] using h
  | cons x rest ih =>
    obtain ⟨c, op⟩ := x
    simp only [List.all_cons, Bool.and_eq_true] at hav
    simp only [run]
    exact ih _ _ (relTL_step t s a b c op h hav.1) hav.2

/-- **C17 restore (thread-local guard).** Install a thread-local test sink on thread `t`, run any
script that does not itself install or drop a thread-local sink *on that thread*, drop the guard:
the routing state (attached sink, handle, every thread's and every runtime's test sink) is exactly
what the same script produces without the guard — for every context, routing is as if the guard
had never existed. -/
theorem c17_restore_tl (st : State) (c c' : Ctx) (s : Nat) (mid : List (Ctx × Op))
    (hfree : st.tl c.thread = none) (hc : c'.thread = c.thread)
    (hav : mid.all (avoidsTL c.thread) = true) :
    (step st c (.setTL s)).2 = .ok ∧
    (step (run (step st c (.setTL s)).1 mid).1 c' .dropTL).2 = .ok ∧
    (step (run (step st c (.setTL s)).1 mid).1 c' .dropTL).1.core = (run st mid).1.core := by
  have h0 : RelTL c.thread s (step st c (.setTL s)).1 st := by
    simp only [step, hfree]; exact ⟨rfl, rfl, rfl, rfl, hfree⟩
  obtain ⟨h1, h2, h3, h4, h5⟩ := relTL_run _ _ _ _ mid h0 hav
  have hA : (run (step st c (.setTL s)).1 mid).1.tl c'.thread = some s := by rw [h4, hc]; simp [upd]
  rw [dropTL_some _ c' s hA]
  refine ⟨by simp [step, hfree], rfl, ?_⟩
  simp only [State.core, Core.mk.injEq]
  refine ⟨h1, h2, ?_, h3⟩
  rw [h4, hc, upd_same]; exact upd_self _ _ h5

/-- `a` is `b` with a runtime test sink `s` additionally installed for runtime `k`. -/
def RelRT (k s : Nat) (a b : State) : Prop :=
  a.attached = b.attached ∧ a.handle = b.handle ∧ a.tl = b.tl ∧ a.rt = upd b.rt k (some s) ∧ b.rt k = none

/-- Operations that do not touch the slot of runtime `k`. -/
def avoidsRT (k : Nat) (x : Ctx × Op) : Bool :=
  match x.2 with
  | .setRT r _ | .dropRT r => r != k
  | .setRTCur _ => x.1.runtime != some k
  | _ => true

theorem relRT_step (k s : Nat) (a b : State) (c : Ctx) (op : Op) (h : RelRT k s a b)
    (hav : avoidsRT k (c, op) = true) : RelRT k s (step a c op).1 (step b c op).1 := by
  obtain ⟨h1, h2, h3, h4, h5⟩ := h
  have key : ∀ x, x ≠ k → a.rt x = b.rt x := by intro x hx; rw [h4]; simp [upd, hx]
  have setrt : ∀ r s', r ≠ k → RelRT k s (setRuntime a r s').1 (setRuntime b r s').1 := by
    intro r s' hr
    simp only [setRuntime, key _ hr]
    split
    · exact ⟨h1, h2, h3, h4, h5⟩
    · refine ⟨h1, h2, h3, ?_, ?_⟩
      · simp only [h4]; exact upd_comm _ _ _ _ _ (Ne.symm hr)
      · simp [upd, Ne.symm hr, h5]
  cases op with
  | setRT r s' =>
    have hr : r ≠ k := by simpa [avoidsRT] using hav
    exact setrt r s' hr
  | setRTCur s' =>
    simp only [step]
    cases hrun : c.runtime with
    | none => exact ⟨h1, h2, h3, h4, h5⟩
    | some r =>
      have hr : r ≠ k := by
        have : c.runtime ≠ some k := by simpa [avoidsRT] using hav
        intro e; exact this (by rw [hrun, e])
      exact setrt r s' hr
  | dropRT r =>
    have hr : r ≠ k := by simpa [avoidsRT] using hav
    simp only [step, key _ hr]
    split
    · refine ⟨h1, h2, h3, ?_, ?_⟩
      · simp only [h4]; exact upd_comm _ _ _ _ _ (Ne.symm hr)
      · simp [upd, Ne.symm hr, h5]
    · exact ⟨h1, h2, h3, h4, h5⟩
  | attach _ => simp only [step, h1]; split <;> exact ⟨by simp_all, by simp_all, h3, h4, h5⟩
  | dropAttach => simp only [step, h2]; split <;> exact ⟨by simp_all, by simp_all, h3, h4, h5⟩
  | forgetAttach => simp only [step, h2]; split <;> exact ⟨by simp_all, by simp_all, h3, h4, h5⟩
  | setTL _ => simp only [step, h3]; split <;> exact ⟨h1, h2, by simp_all, h4, h5⟩
  | dropTL => simp only [step, h3]; split <;> exact ⟨h1, h2, by simp_all, h4, h5⟩
  | append _ => simp only [step]; split <;> split <;> exact ⟨h1, h2, h3, h4, h5⟩
  | tryAppend _ => simp only [step]; split <;> split <;> exact ⟨h1, h2, h3, h4, h5⟩
  | sink _ => simp only [step]; split <;> split <;> exact ⟨h1, h2, h3, h4, h5⟩
  | trySink _ => simp only [step]; split <;> split <;> exact ⟨h1, h2, h3, h4, h5⟩
  | isAttached => exact ⟨h1, h2, h3, h4, h5⟩
  | hold _ => simp only [step]; split <;> split <;> exact ⟨h1, h2, h3, h4, h5⟩
  | useHeld _ _ => simp only [step]; split <;> split <;> exact ⟨h1, h2, h3, h4, h5⟩

theorem relRT_run (k s : Nat) (a b : State) (mid : List (Ctx × Op)) (h : RelRT k s a b)
    (hav : mid.all (avoidsRT k) = true) : RelRT k s (run a mid).1 (run b mid).1 := by
  induction mid generalizing a b with
  | nil => simpa [run] using h
  | cons x rest ih =>
    obtain ⟨c, op⟩ := x
    simp only [List.all_cons, Bool.and_eq_true] at hav
    simp only [run]
    exact ih _ _ (relRT_step k s a b c op h hav.1) hav.2

/-- **C17 restore (runtime guard).** Same for the test sink of runtime `k`, installed from any
thread and dropped from any thread. -/
theorem c17_restore_rt (st : State) (c c' : Ctx) (k s : Nat) (mid : List (Ctx × Op))
    (hfree : st.rt k = none) (hav : mid.all (avoidsRT k) = true) :
    (step st c (.setRT k s)).2 = .ok ∧
    (step (run (step st c (.setRT k s)).1 mid).1 c' (.dropRT k)).2 = .ok ∧
    (step (run (step st c (.setRT k s)).1 mid).1 c' (.dropRT k)).1.core = (run st mid).1.core := by
  have h0 : RelRT k s (step st c (.setRT k s)).1 st := by
    simp only [step, setRuntime, hfree]; exact ⟨rfl, rfl, rfl, rfl, hfree⟩
  obtain ⟨h1, h2, h3, h4, h5⟩ := relRT_run _ _ _ _ mid h0 hav
  have hA : (run (step st c (.setRT k s)).1 mid).1.rt k = some s := by rw [h4]; simp [upd]
  rw [dropRT_some _ c' k s hA]
  refine ⟨by simp [step, setRuntime, hfree], rfl, ?_⟩
  simp only [State.core, Core.mk.injEq]
  refine ⟨h1, h2, h3, ?_⟩
  rw [h4, upd_same]; exact upd_self _ _ h5

/-- `a` is `b` (detached, no handle) with sink `s` additionally attached and its handle live. -/
def RelAtt (s : Nat) (a b : State) : Prop :=
  a.attached = some s ∧ a.handle = some s ∧ b.attached = none ∧ b.handle = none ∧ a.tl = b.tl ∧ a.rt = b.rt

def avoidsAttach (x : Ctx × Op) : Bool :=
  match x.2 with
  | .attach _ | .dropAttach | .forgetAttach => false
  | _ => true

theorem relAtt_step (s : Nat) (a b : State) (c : Ctx) (op : Op) (h : RelAtt s a b)
    (hav : avoidsAttach (c, op) = true) : RelAtt s (step a c op).1 (step b c op).1 := by
  obtain ⟨h1, h2, h3, h4, h5, h6⟩ := h
  cases op with
  | attach _ => simp [avoidsAttach] at hav
  | dropAttach => simp [avoidsAttach] at hav
  | forgetAttach => simp [avoidsAttach] at hav
  | setTL _ => simp only [step, h5]; split <;> exact ⟨h1, h2, h3, h4, by simp_all, h6⟩
  | dropTL => simp only [step, h5]; split <;> exact ⟨h1, h2, h3, h4, by simp_all, h6⟩
  | setRT r _ => simp only [step, setRuntime, h6]; split <;> exact ⟨h1, h2, h3, h4, h5, by simp_all⟩
  | setRTCur _ =>
    simp only [step, setRuntime, h6]
    split
    · exact ⟨h1, h2, h3, h4, h5, h6⟩
    · split <;> exact ⟨h1, h2, h3, h4, h5, by simp_all⟩
  | dropRT r => simp only [step, h6]; split <;> exact ⟨h1, h2, h3, h4, h5, by simp_all⟩
  | append _ => simp only [step]; split <;> split <;> exact ⟨h1, h2, h3, h4, h5, h6⟩
  | tryAppend _ => simp only [step]; split <;> split <;> exact ⟨h1, h2, h3, h4, h5, h6⟩
  | sink _ => simp only [step]; split <;> split <;> exact ⟨h1, h2, h3, h4, h5, h6⟩
  | trySink _ => simp only [step]; split <;> split <;> exact ⟨h1, h2, h3, h4, h5, h6⟩
  | isAttached => exact ⟨h1, h2, h3, h4, h5, h6⟩
  | hold _ => simp only [step]; split <;> split <;> exact ⟨h1, h2, h3, h4, h5, h6⟩
  | useHeld _ _ => simp only [step]; split <;> split <;> exact ⟨h1, h2, h3, h4, h5, h6⟩

theorem relAtt_run (s : Nat) (a b : State) (mid : List (Ctx × Op)) (h : RelAtt s a b)
    (hav : mid.all avoidsAttach = true) : RelAtt s (run a mid).1 (run b mid).1 := by
  induction mid generalizing a b with
  | nil => simpa [run] using h
  | cons x rest ih =>
    obtain ⟨c, op⟩ := x
    simp only [List.all_cons, Bool.and_eq_true] at hav
    simp only [run]
    exact ih _ _ (relAtt_step s a b c op h hav.1) hav.2

/-- **C17 restore (attach handle).** Attach a sink to a detached global, run any script without
attach-handle operations, drop the handle: the routing state is what the script produces on the
global that was never attached. -/
theorem c17_restore_attach (st : State) (c c' : Ctx) (s : Nat) (mid : List (Ctx × Op))
    (hfree : st.attached = none) (hown : HandleOwns st) (hav : mid.all avoidsAttach = true) :
    (step st c (.attach s)).2 = .ok ∧
    (step (run (step st c (.attach s)).1 mid).1 c' .dropAttach).2 = .ok ∧
    (step (run (step st c (.attach s)).1 mid).1 c' .dropAttach).1.core = (run st mid).1.core := by
  have hh : st.handle = none := by
    cases h : st.handle with
    | none => rfl
    | some x => have := hown x h; simp [hfree] at this
  have h0 : RelAtt s (step st c (.attach s)).1 st := by
    simp only [step, hfree]; exact ⟨rfl, rfl, hfree, hh, rfl, rfl⟩
  obtain ⟨h1, h2, h3, h4, h5, h6⟩ := relAtt_run _ _ _ mid h0 hav
  rw [dropAttach_some _ c' s h2]
  refine ⟨by simp [step, hfree], rfl, ?_⟩
  simp only [State.core, Core.mk.injEq]
  exact ⟨h3.symm, h4.symm, h5, h6⟩

/-- After a guard or handle is dropped the next destination in the order takes over (what each drop
does to the routing state). -/
theorem c17_drop_next (st : State) (c : Ctx) :
    (∀ s, st.tl c.thread = some s →
      (step st c .dropTL).1.core = { st.core with tl := upd st.tl c.thread none }) ∧
    (∀ k s, st.rt k = some s →
      (step st c (.dropRT k)).1.core = { st.core with rt := upd st.rt k none }) ∧
    (∀ s, st.handle = some s →
      (step st c .dropAttach).1.core = { st.core with attached := none, handle := none }) ∧
    (∀ s, st.handle = some s →
      (step st c .forgetAttach).1.core = { st.core with handle := none }) := by
  refine ⟨?_, ?_, ?_, ?_⟩
  · intro s h; simp [step, h, State.core]
  · intro k s h; simp [step, h, State.core]
  · intro s h; simp [step, h, State.core]
  · intro s h; simp [step, h, State.core]

/-! ## appends racing the detach -/

def okAll (trace : List (Nat × Nat × Bool)) : List (Nat × Nat) :=
  (trace.filter (fun x => x.2.2)).map (fun x => (x.1, x.2.1))

structure RaceInv (st : RaceState) : Prop where
  conserve : st.written ++ st.queue = okAll st.trace
  att : st.attached = true → st.written = [] ∧ st.closed = false
  det : st.attached = false → st.queue = [] ∧ st.closed = true

theorem raceInv_init : RaceInv RaceState.init :=
  ⟨by simp [RaceState.init, okAll], by simp [RaceState.init], by simp [RaceState.init]⟩

theorem raceInv_step (st : RaceState) (ev : RaceEv) (h : RaceInv st) : RaceInv (raceStep st ev) := by
  obtain ⟨h1, h2, h3⟩ := h
  cases ev with
  | tryAppend t k =>
    simp only [raceStep]
    cases ha : st.attached with
    | true =>
      refine ⟨?_, ?_, ?_⟩
      · simp [okAll, List.filter_append] at h1 ⊢; rw [← List.append_assoc, h1]
      · intro _; simpa using h2 ha
      · intro hf; simp at hf
    | false =>
      refine ⟨?_, ?_, ?_⟩
      · simp [okAll, List.filter_append] at h1 ⊢; exact h1
      · intro hf; simp at hf
      · intro _; simpa using h3 ha
  | detach =>
    simp only [raceStep]
    cases ha : st.attached with
    | true =>
      refine ⟨?_, ?_, ?_⟩
      · simpa using h1
      · intro hf; simp at hf
      · intro _; simp
    | false => simpa [ha] using (⟨h1, h2, h3⟩ : RaceInv st)

theorem raceInv_run (st : RaceState) (evs : List RaceEv) (h : RaceInv st) : RaceInv (raceRun st evs) := by
  induction evs generalizing st with
  | nil => simpa [raceRun] using h
  | cons ev rest ih => simp only [raceRun, List.foldl_cons]; exact ih _ (raceInv_step st ev h)

theorem detached_step (st : RaceState) (ev : RaceEv) (h : st.attached = false) : (raceStep st ev).attached = false := by
  cases ev <;> simp [raceStep, h]

theorem detached_run (st : RaceState) (evs : List RaceEv) (h : st.attached = false) : (raceRun st evs).attached = false := by
  induction evs generalizing st with
  | nil => simpa [raceRun] using h
  | cons ev rest ih => simp only [raceRun, List.foldl_cons]; exact ih _ (detached_step st ev h)

theorem detach_mem_detached (st : RaceState) (evs : List RaceEv) (h : RaceEv.detach ∈ evs) :
    (raceRun st evs).attached = false := by
  induction evs generalizing st with
  | nil => simp at h
  | cons ev rest ih =>
    simp only [raceRun, List.foldl_cons]
    rcases List.mem_cons.mp h with h | h
    · subst h
      apply detached_run
      cases ha : st.attached <;> simp [raceStep, ha]
    · exact ih _ h

theorem okOf_eq (trace : List (Nat × Nat × Bool)) (t : Nat) :
    okOf trace t = (okAll trace).filter (fun x => x.1 == t) := by
  induction trace with
  | nil => simp [okOf, okAll]
  | cons x rest ih =>
    obtain ⟨a, b, ok⟩ := x
    simp only [okOf, okAll] at ih ⊢
    cases ok <;> by_cases h : a = t <;> simp_all

/-- **C17 racing detach: exactly one place.** For every interleaving of `try_append`s (any threads,
any entries) with the drop of the attach handle: once the drop has happened the stream is closed,
nothing is left in the queue, and — thread by thread — what was written is exactly the sequence of
entries whose `try_append` returned `Ok`, in that thread's order. Entries handed back are never
written; entries accepted are never lost or duplicated. -/
theorem c17_race_exactly_one (evs : List RaceEv) (h : RaceEv.detach ∈ evs) (t : Nat) :
    let st := raceRun RaceState.init evs
    st.closed = true ∧ st.queue = [] ∧ st.written.filter (fun x => x.1 == t) = okOf st.trace t := by
  have hd := detach_mem_detached RaceState.init evs h
  obtain ⟨h1, _, h3⟩ := raceInv_run _ evs raceInv_init
  obtain ⟨hq, hc⟩ := h3 hd
  refine ⟨hc, hq, ?_⟩
  rw [okOf_eq, ← h1, hq]; simp

/-- While still attached nothing has been lost either: written ++ queued = accepted, in order. -/
theorem c17_race_conserves (evs : List RaceEv) :
    let st := raceRun RaceState.init evs
    st.written ++ st.queue = okAll st.trace :=
  (raceInv_run _ evs raceInv_init).conserve

/-- **The run-time predicate accepts every model history**: `raceAccept` (evaluated by the driver
on the histories recorded from the real threads) holds of every schedule of the model. -/
theorem c17_race_accept (evs : List RaceEv) (h : RaceEv.detach ∈ evs) :
    let st := raceRun RaceState.init evs
    raceAccept st.trace st.written st.closed = true := by
  intro st
  have hall := c17_race_exactly_one evs h
  simp only [raceAccept, Bool.and_eq_true, List.all_eq_true]
  refine ⟨(hall 0).1, fun t _ => ?_⟩
  have := (hall t).2.2
  simp only [beq_iff_eq]
  exact this

/-! ## attach during a slow detach: linearizability -/

theorem microStep_take (m : MState) (c : Ctx) :
    (microStep m (.take c)).1.st = (step m.st c .dropAttach).1 ∧
    (microStep m (.take c)).2 = some (step m.st c .dropAttach).2 := by
  cases h : m.st.handle <;> simp [microStep, step, h]

/-- **C17 attach/detach linearizable.** Split the drop of the attach handle into "take the pair out
of the slot" and "drop (flush) the pair", and let any operations of any threads take effect between
the two halves — and between the halves of several detaches. For every such interleaving, from every
state, there is a sequential order of the operations (`linearize`: every operation where it took
effect, each detach at its `take`; it is the interleaving with the `dropPair` events erased, so
program order and real-time order are kept) that produces the same routing state and the same
result for every operation. In particular an `attach` issued while the old pair is still being
flushed is an attach to an empty global: it succeeds and its sink is the one routed to afterwards. -/
theorem c17_detach_attach_linearizable (m : MState) (evs : List Micro) :
    ∃ seq : List (Ctx × Op), seq = linearize evs ∧
      (microRun m evs).1.st = (run m.st seq).1 ∧ (microRun m evs).2 = (run m.st seq).2 := by
  refine ⟨_, rfl, ?_⟩
  induction evs generalizing m with
  | nil => simp [microRun, linearize, run]
  | cons ev rest ih =>
    cases ev with
    | op c o =>
      have := ih { m with st := (step m.st c o).1 }
      simp only [microRun, microStep, linearize, run]
      exact ⟨this.1, by rw [this.2]⟩
    | take c =>
      obtain ⟨h1, h2⟩ := microStep_take m c
      have := ih (microStep m (.take c)).1
      simp only [microRun, linearize, run]
      rw [h2]
      rw [h1] at this
      exact ⟨this.1, by rw [this.2]⟩
    | dropPair c =>
      have := ih { m with dropping := m.dropping.drop 1 }
      simp only [microRun, microStep, linearize]
      exact this

/-- How long the flush takes, and what happens meanwhile, is irrelevant: erasing the `dropPair`
events (an instantaneous drop) changes neither state nor results. -/
theorem c17_slow_drop_irrelevant (m : MState) (evs : List Micro) :
    (microRun m (evs.filter fun ev => match ev with | .dropPair _ => false | _ => true)).1.st = (microRun m evs).1.st ∧
    (microRun m (evs.filter fun ev => match ev with | .dropPair _ => false | _ => true)).2 = (microRun m evs).2 := by
  have lin : ∀ evs : List Micro,
      linearize (evs.filter fun ev => match ev with | .dropPair _ => false | _ => true) = linearize evs := by
    intro evs
    induction evs with
    | nil => rfl
    | cons ev rest ih => cases ev <;> simp [linearize, ih]
  obtain ⟨_, h1, h2, h3⟩ := c17_detach_attach_linearizable m evs
  obtain ⟨_, g1, g2, g3⟩ := c17_detach_attach_linearizable m
    (evs.filter fun ev => match ev with | .dropPair _ => false | _ => true)
  subst h1 g1
  rw [lin] at g2 g3
  exact ⟨g2.trans h2.symm, g3.trans h3.symm⟩

/-- No state of the sequential model, whatever its history, hands an entry back (from a context
without test sink) and then refuses an `attach` as "already installed": handing back means nothing
is attached. -/
theorem c17_returned_then_attach_ok (st : State) (c c' : Ctx) (e e' s : Nat) (hts : testSink st c = none)
    (h : (step st c (.tryAppend e)).2 = .returned e') :
    (step (step st c (.tryAppend e)).1 c' (.attach s)).2 = .ok := by
  obtain ⟨_, hr, hst⟩ := c17_try_append_returns_unchanged st c e e' h
  rw [hst]
  have : st.attached = none := by simpa [route, hts] using hr
  simp [step, this]

/-- **Witness: clearing a cached "attached" flag after the slow drop is not linearizable.** In the
flag variant the schedule attach 1 · take · attach 2 (another thread) · dropPair · try_append · attach 3
lets the second attach succeed, then hands the entry back *and* refuses the third attach — a pair
of answers that by `c17_returned_then_attach_ok` no sequential order of any operations can produce
(with hence no linearization), while the micro-step model of the code routes the entry to sink 2. -/
example :
    (flagRun ⟨none, none, false⟩ [.attach 1, .take, .attach 2, .dropPair, .tryAppend 7, .attach 3]).2
      = [.ok, .ok, .ok, .returned 7, .panic] ∧
    (microRun ⟨State.init none, []⟩
      [.op ⟨0, none⟩ (.attach 1), .take ⟨0, none⟩, .op ⟨1, none⟩ (.attach 2), .dropPair ⟨0, none⟩,
       .op ⟨2, none⟩ (.tryAppend 7), .op ⟨2, none⟩ (.attach 3)]).2
      = [.ok, .ok, .ok, .dest 2, .panic] := by
  decide

/-! ## guard drops are atomic w.r.t. the registry: concurrent readers do not matter -/

/-- Operations that only read the routing state (and deliver): what other threads hammer the global with. -/
def Op.isReader : Op → Bool
  | .append _ | .tryAppend _ | .sink _ | .trySink _ | .isAttached | .useHeld _ _ => true
  | _ => false

def eraseLog (st : State) : State := { st with log := [] }

theorem step_eraseLog (st : State) (c : Ctx) (op : Op) :
    eraseLog (step (eraseLog st) c op).1 = eraseLog (step st c op).1 ∧
    (step (eraseLog st) c op).2 = (step st c op).2 := by
  cases op <;> simp only [step, setRuntime, eraseLog, route, testSink, deliver] <;>
    (try split) <;> (try split) <;> (try split) <;> simp_all

theorem reader_neutral (st : State) (c : Ctx) (op : Op) (h : op.isReader = true) :
    eraseLog (step st c op).1 = eraseLog st := by
  cases op <;> simp [Op.isReader] at h <;> simp only [step, eraseLog, deliver] <;> (try split) <;> simp_all

/-- The results of the operations of a script that are not readers, in order. -/
def writerResults : List (Ctx × Op) → List Res → List Res
  | (_, op) :: rest, r :: rs => if op.isReader then writerResults rest rs else r :: writerResults rest rs
  | _, _ => []

theorem run_eraseLog (st : State) (script : List (Ctx × Op)) :
    eraseLog (run (eraseLog st) script).1 = eraseLog (run st script).1 ∧
    (run (eraseLog st) script).2 = (run st script).2 := by
  induction script generalizing st with
  | nil => simp [run, eraseLog]
  | cons x rest ih =>
    obtain ⟨c, op⟩ := x
    obtain ⟨h1, h2⟩ := step_eraseLog st c op
    have a := ih (step (eraseLog st) c op).1
    have b := ih (step st c op).1
    simp only [run]
    rw [h1] at a
    refine ⟨a.1.symm.trans (by rw [b.1]) |>.symm ▸ ?_, ?_⟩
    · exact a.1.symm.trans b.1 |>.symm ▸ rfl
    · rw [h2, ← a.2, b.2]

theorem run_cons (st : State) (c : Ctx) (op : Op) (rest : List (Ctx × Op)) :
    run st ((c, op) :: rest) =
      ((run (step st c op).1 rest).1, (step st c op).2 :: (run (step st c op).1 rest).2) := rfl

/-- **C17 readers are neutral (guard drops are atomic w.r.t. the registry).** Interleave any number
of routed reads / appends of any threads anywhere into a script: every install, drop, attach, detach
of the script answers exactly what it answers without them, and the final routing state (everything
but the delivery log) is the same. In particular a guard drop removes its sink no matter what other
threads are doing with the global at that instant: the model has no "busy" outcome. -/
theorem c17_readers_neutral (st : State) (script : List (Ctx × Op)) :
    eraseLog (run st script).1 = eraseLog (run st (script.filter fun x => !x.2.isReader)).1 ∧
    writerResults script (run st script).2 = (run st (script.filter fun x => !x.2.isReader)).2 := by
  induction script generalizing st with
  | nil => simp [run, writerResults]
  | cons x rest ih =>
    obtain ⟨c, op⟩ := x
    cases hr : op.isReader with
    | true =>
      simp only [List.filter_cons, hr, Bool.not_true, run, writerResults]
      have hn := reader_neutral st c op hr
      have e1 := run_eraseLog (step st c op).1 rest
      have e2 := run_eraseLog st rest
      have i1 := ih (step st c op).1
      have i2 := ih st
      rw [hn] at e1
      constructor
      · rw [← e1.1, e2.1]; exact i2.1
      · simp only [Bool.false_eq_true, ↓reduceIte]
        rw [← e1.2, e2.2]; exact i2.2
    | false =>
      simp only [List.filter_cons, hr, Bool.not_false, run, writerResults]
      have i1 := ih (step st c op).1
      simp only [if_true, Bool.false_eq_true, if_false, run_cons]
      exact ⟨i1.1, by rw [i1.2]⟩

/-- **C17 a guard drop is effective.** Dropping the guard of runtime `k` (it answers `ok`) always
clears the entry: a re-install for `k` succeeds and routing of a context inside `k` without
thread-local sink falls through to the attached sink. -/
theorem c17_drop_rt_effective (st : State) (c c' c'' : Ctx) (k s s' : Nat) (h : st.rt k = some s) :
    (step st c (.dropRT k)).2 = .ok ∧
    (step (step st c (.dropRT k)).1 c' (.setRT k s')).2 = .ok ∧
    (c''.runtime = some k → st.tl c''.thread = none →
      route (step st c (.dropRT k)).1 c'' = st.attached) := by
  refine ⟨by simp [step, h], by simp [step, h, setRuntime, upd], ?_⟩
  intro hr ht
  simp [step, h, route, testSink, ht, hr, upd]

/-- A variant that is *not* the code: the guard drop skips the removal when the registry is busy
(`try_lock`), yet the guard is gone. -/
def stepSkip (st : State) (c : Ctx) (op : Op) (busy : Bool) : State × Res :=
  match op, busy with
  | .dropRT k, true => (st, if (st.rt k).isSome then .ok else .noop)
  | _, _ => step st c op

def runSkip (st : State) : List (Ctx × Op × Bool) → State × List Res
  | [] => (st, [])
  | (c, op, busy) :: rest =>
    let (st1, r) := stepSkip st c op busy
    let (st2, rs) := runSkip st1 rest
    (st2, r :: rs)

/-- **Witness: skip-on-contention violates C17.** With the registry busy at the drop, the dropped
test sink keeps receiving the runtime's entries and the re-install panics — against
`c17_drop_rt_effective` (and `c17_drop_next`); without contention the variant is the model. -/
example :
    (runSkip (State.init none)
      [(⟨0, none⟩, .setRT 0 5, false), (⟨0, none⟩, .dropRT 0, true),
       (⟨1, some 0⟩, .tryAppend 7, false), (⟨0, none⟩, .setRT 0 6, false)]).2
      = [.ok, .ok, .dest 5, .panic] ∧
    (run (State.init none)
      [(⟨0, none⟩, .setRT 0 5), (⟨0, none⟩, .dropRT 0), (⟨1, some 0⟩, .tryAppend 7), (⟨0, none⟩, .setRT 0 6)]).2
      = [.ok, .ok, .returned 7, .ok] := by
  decide

/-! ## the detach flushes before anyone can see the global detached -/

theorem flushOrdered_locked (evs : List Micro) :
    ∀ m : MState, m.dropping = [] → locked evs = true → flushOrdered m evs = true := by
  induction evs using locked.induct with
  | case1 => intro m _ _; rfl
  | case2 c o rest ih =>
    intro m hd hl
    simp only [locked] at hl
    simp only [flushOrdered, hd, List.isEmpty_nil, Bool.or_true, Bool.true_and]
    exact ih _ (by simpa [microStep] using hd) hl
  | case3 c c' rest ih =>
    intro m hd hl
    simp only [locked] at hl
    simp only [flushOrdered, Bool.true_and]
    apply ih _ _ hl
    cases h : m.st.handle <;> simp [microStep, h, hd]
  | case4 c rest hne =>
    intro m _ hl
    cases rest with
    | nil => simp [locked] at hl
    | cons ev rest' =>
      cases ev with
      | dropPair c' => exact absurd rfl (hne c' rest')
      | op _ _ => simp [locked] at hl
      | take _ => simp [locked] at hl
  | case5 c rest ih =>
    intro m hd hl
    simp only [locked] at hl
    simp only [flushOrdered, Bool.true_and]
    exact ih _ (by simp [microStep, hd]) hl

/-- **C17 routing is restored only after the flush.** In the micro-step model *with readers* (any
operations of any threads, `append` / `try_append` / `sink()` / `try_sink()` / `is_attached` /
`attach` / test-sink installs, interleaved anywhere the locks allow): if the taken pair is dropped
while the write lock of the `take` is still held — the code's detach, `locked` schedules: nothing
takes effect between `take` and `dropPair` — then every operation that observes the detached state
(entry handed back, `None`, `is_attached() = false`, the not-attached panic, a successful
re-attach) takes effect after the detached sink's flush has completed. Together with
`c17_detach_attach_linearizable` (`linearize` of a locked schedule is the schedule with each
`take · dropPair` read as one atomic `dropAttach`): the detach is atomic, flush included. -/
theorem c17_detach_flushes_before_detached_is_observed (st : State) (evs : List Micro)
    (h : locked evs = true) : flushOrdered ⟨st, []⟩ evs = true :=
  flushOrdered_locked evs ⟨st, []⟩ rfl h

/-- **Witness: take under the lock, drop the pair after releasing it.** The reader's `try_append`
takes effect between `take` and `dropPair`: it is handed its entry back while the detached sink is
still flushing (`flushOrdered = false`), although results and final state are those of a
sequential order (`c17_detach_attach_linearizable`: nothing is lost or misrouted — the violation is
one of ordering only). The locked schedule of the same operations is flush-ordered. -/
example :
    flushOrdered ⟨State.init none, []⟩
      [.op ⟨0, none⟩ (.attach 1), .take ⟨0, none⟩, .op ⟨1, none⟩ (.tryAppend 7), .dropPair ⟨0, none⟩] = false ∧
    flushOrdered ⟨State.init none, []⟩
      [.op ⟨0, none⟩ (.attach 1), .take ⟨0, none⟩, .op ⟨1, none⟩ (.attach 2), .dropPair ⟨0, none⟩] = false ∧
    (microRun ⟨State.init none, []⟩
      [.op ⟨0, none⟩ (.attach 1), .take ⟨0, none⟩, .op ⟨1, none⟩ (.tryAppend 7), .dropPair ⟨0, none⟩]).2
      = [.ok, .ok, .returned 7] ∧
    locked [.op ⟨0, none⟩ (.attach 1), .take ⟨0, none⟩, .dropPair ⟨0, none⟩, .op ⟨1, none⟩ (.tryAppend 7)] = true ∧
    flushOrdered ⟨State.init none, []⟩
      [.op ⟨0, none⟩ (.attach 1), .take ⟨0, none⟩, .dropPair ⟨0, none⟩, .op ⟨1, none⟩ (.tryAppend 7)] = true := by
  decide

/-! ## non-vacuity -/




/-- A populated state: sink 1 attached (handle live), thread 2 has test sink 7, runtime 0 has test
sink 9. Thread 2 inside runtime 0 → 7; thread 0 inside runtime 0 → 9; thread 0 outside → 1; a
second attach / thread-local install panics and the next append still goes where it went before;
dropping thread 2's guard sends thread 2 (inside runtime 0) to 9, dropping the runtime guard to 1,
dropping the handle hands the entry back. -/
example :
    (run (State.init none)
      [(⟨0, none⟩, .attach 1), (⟨2, none⟩, .setTL 7), (⟨1, none⟩, .setRT 0 9),
       (⟨2, some 0⟩, .append 100), (⟨0, some 0⟩, .append 101), (⟨0, none⟩, .append 102),
       (⟨4, none⟩, .attach 5), (⟨2, some 1⟩, .setTL 6), (⟨3, none⟩, .setRTCur 4),
       (⟨2, some 0⟩, .append 103),
       (⟨2, none⟩, .dropTL), (⟨2, some 0⟩, .tryAppend 104),
       (⟨3, none⟩, .dropRT 0), (⟨2, some 0⟩, .tryAppend 105),
       (⟨1, none⟩, .dropAttach), (⟨2, some 0⟩, .tryAppend 106), (⟨2, some 0⟩, .append 107)]).2
    = [.ok, .ok, .ok, .dest 7, .dest 9, .dest 1, .panic, .panic, .panic, .dest 7,
       .ok, .dest 9, .ok, .dest 1, .ok, .returned 106, .panic] := by
  decide

/-- The hypotheses of `c17_restore_tl` are satisfiable with a non-trivial middle script (another
thread installs its own test sink, a runtime sink is installed, an attach panics). -/
example : (State.init (some 3)).tl 2 = none ∧
    ([(⟨1, none⟩, .setTL 8), (⟨0, none⟩, .setRT 1 4), (⟨2, some 1⟩, .append 5), (⟨0, none⟩, .attach 6)]
      : List (Ctx × Op)).all (avoidsTL 2) = true := by
  decide

/-- A race in which the detach lands between two appends of thread 0 and after the only append of
thread 1: accepted entries are written in order, the later ones are handed back. -/
example :
    let st := raceRun RaceState.init [.tryAppend 0 0, .tryAppend 1 0, .tryAppend 0 1, .detach, .tryAppend 0 2, .tryAppend 1 1]
    st.written = [(0, 0), (1, 0), (0, 1)] ∧ st.trace.map (·.2.2) = [true, true, true, false, false] ∧
    raceAccept st.trace st.written st.closed = true ∧
    raceAccept st.trace [(0, 0), (0, 1)] true = false ∧          -- a lost entry is rejected
    raceAccept st.trace [(0, 0), (1, 0), (0, 1), (0, 2)] true = false := by  -- handed back *and* written is rejected
  decide

end Global

#print axioms Global.c17_precedence
#print axioms Global.c17_routed
#print axioms Global.c17_exactly_one
#print axioms Global.c17_no_entry_no_delivery
#print axioms Global.c17_try_append_returns_unchanged
#print axioms Global.c17_log_is_results
#print axioms Global.c17_panics_preserve
#print axioms Global.c17_panics_transparent
#print axioms Global.c17_panic_iff
#print axioms Global.c17_handle_owns
#print axioms Global.c17_restore_tl
#print axioms Global.c17_restore_rt
#print axioms Global.c17_restore_attach
#print axioms Global.c17_drop_next
#print axioms Global.c17_race_exactly_one
#print axioms Global.c17_race_conserves
#print axioms Global.c17_race_accept
#print axioms Global.c17_detach_attach_linearizable
#print axioms Global.c17_slow_drop_irrelevant
#print axioms Global.c17_returned_then_attach_ok
#print axioms Global.c17_readers_neutral
#print axioms Global.c17_drop_rt_effective
#print axioms Global.c17_detach_flushes_before_detached_is_observed
