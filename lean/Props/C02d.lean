import Props.C02c
/-!
Lemmas for C02, part d: the shape of an EMF record and why that shape is valid JSON.
-/
namespace Emf
open Json

/-! ### The shape of a record -/

/-- `{"Namespace":ns,"Dimensions":[D],"Metrics":[M]}` -/
def dirOf (ns D M : Bytes) : Bytes :=
  bytes! "{\"Namespace\":" ++ ns ++ dimensionsAfterNs ++ D ++ metricsPrefix ++ M ++ bytes! "]}"

/-- a metric directive: an object with `Namespace` (a string), `Dimensions` and `Metrics` (arrays) —
either the formatter's own, or a user-supplied extra directive as serde prints it -/
def IsDirective (d : Bytes) : Prop :=
  (∃ ns D M, d = dirOf (jstr ns) D M ∧ IsItems D ∧ IsItems M) ∨ (∃ e : ExtraDirective, d = extraDirectiveJson e)

/-- the body of an EMF record:
`{"_aws":{"CloudWatchMetrics":[d0,d1,…](,"LogGroupName":"g")?,"Timestamp":<digits>}<members>}` -/
def AwsShape (body : Bytes) : Prop :=
  ∃ (d0 : Bytes) (ds : List Bytes) (lg : Bytes) (ts : Nat) (members : Bytes),
    body = bytes! "{\"_aws\":{\"CloudWatchMetrics\":[" ++ d0 ++ (ds.map (44 :: ·)).flatten ++
      93 :: (lg ++ bytes! ",\"Timestamp\":" ++ natDigits ts ++ 125 :: (members ++ [125])) ∧
    IsDirective d0 ∧ (∀ d ∈ ds, IsDirective d) ∧
    (lg = [] ∨ ∃ g, lg = bytes! ",\"LogGroupName\":" ++ jstr g) ∧ IsMembers members

theorem IsVal.extraMetricJson (m : ExtraMetric) : IsVal (extraMetricJson m) := by
  have kN := isKey_lit (bytes! "Name") (k := bytes! "\"Name\"") (by decide)
  have kU := isKey_lit (bytes! "Unit") (k := bytes! "\"Unit\"") (by decide)
  have kS := isKey_lit (bytes! "StorageResolution") (k := bytes! "\"StorageResolution\"") (by decide)
  unfold Emf.extraMetricJson
  cases m.storage with
  | none =>
    have h := IsVal.obj kN (IsVal.jstr m.name) (IsMembers.one kU (IsVal.jstr m.unit))
    simpa using h
  | some n =>
    have h := IsVal.obj kN (IsVal.jstr m.name) ((IsMembers.one kU (IsVal.jstr m.unit)).append
      (IsMembers.one kS (IsVal.natDigits n)))
    simpa using h

theorem IsDirective.isVal {d : Bytes} (h : IsDirective d) : IsVal d := by
  have kNs := isKey_lit (bytes! "Namespace") (k := bytes! "\"Namespace\"") (by decide)
  have kD := isKey_lit (bytes! "Dimensions") (k := bytes! "\"Dimensions\"") (by decide)
  have kM := isKey_lit (bytes! "Metrics") (k := bytes! "\"Metrics\"") (by decide)
  rcases h with ⟨ns, D, M, rfl, hD, hM⟩ | ⟨e, rfl⟩
  · have h := IsVal.obj kNs (IsVal.jstr ns) ((IsMembers.one kD (IsVal.arr hD)).append (IsMembers.one kM (IsVal.arr hM)))
    have e : dirOf (jstr ns) D M = 123 :: (bytes! "\"Namespace\"" ++ 58 :: (jstr ns ++
        ((44 :: (bytes! "\"Dimensions\"" ++ 58 :: (91 :: (D ++ [93]))) ++
          44 :: (bytes! "\"Metrics\"" ++ 58 :: (91 :: (M ++ [93])))) ++ [125]))) := by
      simp [dirOf, dimensionsAfterNs, metricsPrefix]
    rw [e]; exact h
  · have hD : IsItems (sepBy [44] (e.dimensions.map jarrStrings)) := IsItems.sepBy (by
      intro v hv
      obtain ⟨x, _, rfl⟩ := List.mem_map.mp hv
      exact IsVal.jarrStrings x)
    have hM : IsItems (sepBy [44] (e.metrics.map extraMetricJson)) := IsItems.sepBy (by
      intro v hv
      obtain ⟨x, _, rfl⟩ := List.mem_map.mp hv
      exact IsVal.extraMetricJson x)
    have h := IsVal.obj kD (IsVal.arr hD) ((IsMembers.one kM (IsVal.arr hM)).append
      (IsMembers.one kNs (IsVal.jstr e.nspace)))
    have eq : extraDirectiveJson e = 123 :: (bytes! "\"Dimensions\"" ++ 58 :: (91 :: (sepBy [44] (e.dimensions.map jarrStrings) ++ [93]) ++
        ((44 :: (bytes! "\"Metrics\"" ++ 58 :: (91 :: (sepBy [44] (e.metrics.map extraMetricJson) ++ [93]))) ++
          44 :: (bytes! "\"Namespace\"" ++ 58 :: jstr e.nspace)) ++ [125]))) := by
      simp [extraDirectiveJson]
    rw [eq]; exact h

theorem IsElems.commaList (ds : List Bytes) (h : ∀ d ∈ ds, IsVal d) : IsElems (ds.map (44 :: ·)).flatten := by
  induction ds with
  | nil => exact IsElems.nil
  | cons d rest ih =>
    simp only [List.map_cons, List.flatten_cons]
    exact (IsElems.one (h d (by simp))).append (ih fun x hx => h x (by simp [hx]))

/-- a record body of the stated shape is one complete compact JSON value (an object) -/
theorem AwsShape.isVal {body : Bytes} (h : AwsShape body) : IsVal body := by
  obtain ⟨d0, ds, lg, ts, members, rfl, h0, hds, hlg, hm⟩ := h
  have kA := isKey_lit (bytes! "_aws") (k := bytes! "\"_aws\"") (by decide)
  have kC := isKey_lit (bytes! "CloudWatchMetrics") (k := bytes! "\"CloudWatchMetrics\"") (by decide)
  have kT := isKey_lit (bytes! "Timestamp") (k := bytes! "\"Timestamp\"") (by decide)
  have kL := isKey_lit (bytes! "LogGroupName") (k := bytes! "\"LogGroupName\"") (by decide)
  have hitems : IsItems (d0 ++ (ds.map (44 :: ·)).flatten) :=
    Or.inr ⟨d0, _, rfl, h0.isVal, IsElems.commaList ds fun d hd => (hds d hd).isVal⟩
  have hlgm : IsMembers lg := by
    rcases hlg with rfl | ⟨g, rfl⟩
    · exact IsMembers.nil
    · have := IsMembers.one kL (IsVal.jstr g)
      simpa using this
  have haws := IsVal.obj kC (IsVal.arr hitems) (hlgm.append (IsMembers.one kT (IsVal.natDigits ts)))
  have h := IsVal.obj kA haws hm
  have e : bytes! "{\"_aws\":{\"CloudWatchMetrics\":[" ++ d0 ++ (ds.map (44 :: ·)).flatten ++
      93 :: (lg ++ bytes! ",\"Timestamp\":" ++ natDigits ts ++ 125 :: (members ++ [125])) =
      123 :: (bytes! "\"_aws\"" ++ 58 :: (123 :: (bytes! "\"CloudWatchMetrics\"" ++ 58 ::
        (91 :: (d0 ++ (ds.map (44 :: ·)).flatten ++ [93]) ++
          ((lg ++ 44 :: (bytes! "\"Timestamp\"" ++ 58 :: natDigits ts)) ++ [125]))) ++ (members ++ [125]))) := by
    simp
  rw [e]; exact h
end Emf
