import Props.C13
import Model.KeepAliveHistory
/-!
Simulation relation between a state of the micro-step model (`KeepAlive.St`, plus the ghost `w` of
`Model/KeepAliveHistory.lean`) and a state of the specification automaton (`Spec.SSt`), and the bookkeeping
lemmas about sums over slot lists.
-/
namespace KeepAlive
open Spec

/-! ## sums over the slot list -/

def sumBy (f : Slot → Nat) : List Slot → Nat
  | [] => 0
  | a :: r => f a + sumBy f r

theorem sumBy_modify {f : Slot → Nat} {l : List Slot} {i : Nat} {sl : Slot} (g : Slot → Slot)
    (h : l[i]? = some sl) : sumBy f (modifyAt g l i) + f sl = sumBy f l + f (g sl) := by
  induction l generalizing i with
  | nil => simp at h
  | cons a r ih =>
    cases i with
    | zero => simp at h; subst h; simp [modifyAt, sumBy]; omega
    | succ i => simp at h; have := ih h; simp [modifyAt, sumBy]; omega

theorem sumBy_le {f : Slot → Nat} {l : List Slot} {i : Nat} {sl : Slot} (h : l[i]? = some sl) :
    f sl ≤ sumBy f l := by
  induction l generalizing i with
  | nil => simp at h
  | cons a r ih =>
    cases i with
    | zero => simp at h; subst h; simp [sumBy]
    | succ i => simp at h; have := ih h; simp [sumBy]; omega

theorem sumBy_closeFirst {f : Slot → Nat} (hf : ∀ a, f (closeSlot1 a) = f a) {l l' : List Slot}
    (h : closeFirst l = some l') : sumBy f l' = sumBy f l := by
  induction l generalizing l' with
  | nil => simp [closeFirst] at h
  | cons a r ih =>
    simp only [closeFirst] at h
    split at h
    · cases h; simp [sumBy, hf]
    · cases hr : closeFirst r with
      | none => simp [hr] at h
      | some r' => simp [hr] at h; subst h; simp [sumBy, ih hr]

/-- the guard of this slot is between its send and the drop of its fields -/
def sentBy (sl : Slot) : Nat := if sl.g = .sent then 1 else 0
/-- … and holds a flush guard -/
def sentWBy (sl : Slot) : Nat := if sl.g = .sent ∧ sl.mode = .wait then 1 else 0
def liveWBy (sl : Slot) : Nat := if sl.g = .live ∧ sl.mode = .wait then 1 else 0

theorem held_split (l : List Slot) : held l = sumBy liveWBy l + sumBy sentWBy l := by
  induction l with
  | nil => rfl
  | cons a r ih =>
    have : heldBy a = liveWBy a + sentWBy a := by
      unfold heldBy liveWBy sentWBy
      cases hg : a.g <;> cases hm : a.mode <;> simp
    simp only [held, sumBy, ih, this]; omega

theorem sentW_le_sent (l : List Slot) : sumBy sentWBy l ≤ sumBy sentBy l := by
  induction l with
  | nil => simp [sumBy]
  | cons a r ih =>
    have : sentWBy a ≤ sentBy a := by unfold sentWBy sentBy; split <;> split <;> simp_all
    simp only [sumBy]; omega

theorem any_sent_false {l : List Slot} (h : sumBy sentBy l = 0) : l.any (·.g = .sent) = false := by
  induction l with
  | nil => rfl
  | cons a r ih =>
    simp only [sumBy] at h
    have h1 : sentBy a = 0 := by omega
    have h2 : a.g ≠ .sent := by
      intro hg; simp [sentBy, hg] at h1
    simp [h2, ih (by omega)]

theorem sumBy_fresh (f : Slot → Nat) (hf : ∀ c, f (fresh c) = 0) (cfg : List (Bool × Nat)) :
    sumBy f (cfg.map fresh) = 0 := by
  induction cfg with
  | nil => rfl
  | cons c r ih => simp [sumBy, hf, ih]

theorem modifyAt_length {α : Type} (f : α → α) (l : List α) (i : Nat) : (modifyAt f l i).length = l.length := by
  induction l generalizing i with
  | nil => rfl
  | cons a r ih => cases i <;> simp [modifyAt, ih]

theorem closeFirst_length {l l' : List Slot} (h : closeFirst l = some l') : l'.length = l.length := by
  induction l generalizing l' with
  | nil => simp [closeFirst] at h
  | cons a r ih =>
    simp only [closeFirst] at h
    split at h
    · cases h; simp
    · cases hr : closeFirst r with
      | none => simp [hr] at h
      | some r' => simp [hr] at h; subst h; simp [ih hr]

/-- an element of the list after `closeFirst` is the old element at that index, possibly closed -/
theorem closeFirst_get {l l' : List Slot} (h : closeFirst l = some l') (j : Nat) {sl' : Slot}
    (hj : l'[j]? = some sl') : ∃ sl, l[j]? = some sl ∧ (sl' = sl ∨ sl' = closeSlot1 sl) := by
  induction l generalizing l' j with
  | nil => simp [closeFirst] at h
  | cons a r ih =>
    simp only [closeFirst] at h
    split at h
    · cases h
      cases j with
      | zero => simp at hj; subst hj; exact ⟨a, by simp, Or.inr rfl⟩
      | succ j => exact ⟨sl', by simpa using hj, Or.inl rfl⟩
    · cases hr : closeFirst r with
      | none => simp [hr] at h
      | some r' =>
        simp [hr] at h; subst h
        cases j with
        | zero => simp at hj; subst hj; exact ⟨a, by simp, Or.inl rfl⟩
        | succ j => simpa using ih hr j (by simpa using hj)

/-! ## the simulation relation -/

/-- drops in flight, per program counter -/
def pF : PPc → Nat
  | .decV => 1
  | .app => 1
  | .decG => 1
  | _ => 0

def iF : IPc → Nat
  | .pending => 1
  | .app => 1
  | _ => 0

def lF : LPc → Nat
  | .free => 0
  | _ => 1

/-- the thread at `iPc` is the one that was dropping slot guard `i` -/
def PendAt (s : St) (w : Option Nat) (i : Nat) : Prop :=
  (s.iPc = .pending ∨ s.iPc = .app) ∧ s.iBy = .fg ∧ w = some i

/-- one slot of the model against one slot of the specification automaton; `p` = the drop of this slot's guard
goes on as the `iPc` thread -/
structure SlotSim (p : Prop) (sl : Slot) (tl : SSlot) : Prop where
  opened : tl.opened = sl.opened
  mode : tl.mode = sl.mode
  gval : tl.gval = sl.gval
  gone : tl.gone = true ↔ (sl.opened = true ∧ sl.g ≠ .live)
  ended : tl.ended = true → sl.opened = true ∧ sl.g = .none ∧ ¬ p
  sure : tl.sure = true → sl.sentOk = true
  pend : p → sl.opened = true ∧ sl.g = .none

structure Sim (s : St) (w : Option Nat) (t : SSt) : Prop where
  refs : t.refsOut = s.hS
  fg : t.fgOut + sumBy sentWBy s.slots = s.fgLive
  dg : t.dgOut = s.dgLive
  dgb : t.dgBegun = s.dgBegun
  dge : t.dgEnded = s.dgDone
  infl : t.inflight = pF s.pPc + iF s.iPc + s.nUp + lF s.lPc + s.nDec + sumBy sentBy s.slots
  plain : t.plain = s.plain
  hits : t.hits = s.hits
  apps : t.apps = s.appended.length
  len : t.slots.length = s.slots.length
  slots : ∀ i sl tl, s.slots[i]? = some sl → t.slots[i]? = some tl → SlotSim (PendAt s w i) sl tl
  wlen : ∀ i, PendAt s w i → i < s.slots.length

theorem SlotSim.mono {p p' : Prop} {sl : Slot} {tl : SSlot} (h : SlotSim p sl tl) (hp : p' → p) :
    SlotSim p' sl tl :=
  ⟨h.opened, h.mode, h.gval, h.gone, fun e => ⟨(h.ended e).1, (h.ended e).2.1, fun x => (h.ended e).2.2 (hp x)⟩, h.sure,
   fun x => h.pend (hp x)⟩

theorem sim_init (cfg : List (Bool × Nat)) : Sim (init (cfg.map fresh)) none (start cfg.length) := by
  constructor
  case slots =>
    intro i sl tl h1 h2
    simp only [init, List.getElem?_map] at h1
    simp only [start, List.getElem?_replicate] at h2
    split at h2
    · cases h2
      cases hc : cfg[i]? with
      | none => simp [hc] at h1
      | some c =>
        simp [hc] at h1; subst h1
        constructor <;> simp [fresh, PendAt, init]
    · cases h2
  case wlen => intro i h; simp [PendAt, init] at h
  all_goals simp [init, start, pF, iF, lF, sumBy_fresh, sentBy, sentWBy, fresh]

/-- sequential feeding with the "not late" check after every observation -/
def feedAll (t : SSt) : List Obs → Option SSt
  | [] => some t
  | o :: os => match feedChecked t o with
    | some t' => feedAll t' os
    | none => none

theorem acceptFrom_append (t : SSt) (os rest : List Obs) :
    acceptFrom t (os ++ rest) = match feedAll t os with
      | some t' => acceptFrom t' rest
      | none => false := by
  induction os generalizing t with
  | nil => rfl
  | cons o os ih =>
    simp only [List.cons_append, acceptFrom, feedAll]
    cases feedChecked t o with
    | none => rfl
    | some t' => exact ih t'

variable {cfg : List (Bool × Nat)} {s : St} {w : Option Nat} {t : SSt}

/-- **not late**: a specification state that corresponds to a reachable model state passes the lateness check -/
theorem sim_not_due (hr : Reachable cfg s) (hs : Sim s w t) : (due t && t.apps = 0) = false := by
  cases hd : due t with
  | false => rfl
  | true =>
    simp only [due, Bool.and_eq_true, decide_eq_true_eq, Bool.or_eq_true] at hd
    obtain ⟨⟨h0, h1⟩, h2⟩ := hd
    have hinf := hs.infl
    rw [h0] at hinf
    have hsent : sumBy sentBy s.slots = 0 := by omega
    have hw := sentW_le_sent s.slots
    have hq : inFlight s = false := by
      have := any_sent_false hsent
      simp only [inFlight, this, Bool.or_false]
      cases hp : s.pPc <;> cases hi : s.iPc <;> cases hl : s.lPc <;> simp [hp, hi, hl, pF, iF, lF] at hinf ⊢ <;> omega
    have hfg := hs.fg
    have := c06_not_late hr hq (by rw [← hs.refs]; exact h1)
      (by rcases h2 with h2 | h2
          · left; omega
          · right; rw [← hs.dge]; exact h2)
    simp [hs.apps, this]

theorem feedAll_nil (t : SSt) : feedAll t [] = some t := rfl

theorem feedAll_one {s' : St} {w' : Option Nat} {t' : SSt} {o : Obs} (hr : Reachable cfg s')
    (hf : feed t o = some t') (hs : Sim s' w' t') : feedAll t [o] = some t' := by
  simp only [feedAll, feedChecked, hf, sim_not_due hr hs]
  rfl

theorem feedChecked_mid {t1 : SSt} {o : Obs} (hf : feed t o = some t1) (h : t1.inflight > 0 ∨ t1.apps ≠ 0) :
    feedChecked t o = some t1 := by
  have : (due t1 && t1.apps = 0) = false := by
    rcases h with h | h
    · simp only [due]
      have : decide (t1.inflight = 0) = false := by simp; omega
      simp [this]
    · simp [h]
  simp only [feedChecked, hf, this]
  rfl

theorem feedAll_two {s' : St} {w' : Option Nat} {t1 t' : SSt} {o1 o2 : Obs} (hr : Reachable cfg s')
    (hf1 : feed t o1 = some t1) (h1 : t1.inflight > 0 ∨ t1.apps ≠ 0)
    (hf2 : feed t1 o2 = some t') (hs : Sim s' w' t') : feedAll t [o1, o2] = some t' := by
  simp only [feedAll, feedChecked_mid hf1 h1]
  exact feedAll_one hr hf2 hs

end KeepAlive
