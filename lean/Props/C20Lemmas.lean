import Model.MetricsRs
/-!
Arithmetic of the `histogram::Config::new(4, 32)` layout (helper lemmas for `Props/C20.lean`): every `u32` sample
falls into a bucket whose bounds contain it, and the midpoint reported for the bucket is within 1/32 of the sample.
-/
namespace MetricsRs

theorem pow_split (p : Nat) (hp : 4 ≤ p) : 2 ^ p = 16 * 2 ^ (p - 4) := by
  have : p = (p - 4) + 4 := by omega
  conv => lhs; rw [this, Nat.pow_add]
  omega

/-- the logarithmic part of the layout, for a sample with `2^p ≤ v < 2^(p+1)`, `5 ≤ p ≤ 31` -/
theorem layout_log (v p : Nat) (hp5 : 5 ≤ p) (hp31 : p ≤ 31) (hlo : 2 ^ p ≤ v) (hhi : v < 2 ^ (p + 1)) :
    ∃ i lo hi, i = 32 + (p - 5) * 16 + (v - 2 ^ p) / 2 ^ (p - 4) ∧
      lo = lowerBound 4 i ∧ hi = upperBound 4 32 i ∧
      i < 464 ∧ lo ≤ v ∧ v ≤ hi ∧ lo ≤ midpoint lo hi ∧ midpoint lo hi ≤ hi ∧ hi < 4294967296 ∧
      32 * (midpoint lo hi - v) ≤ v ∧ 32 * (v - midpoint lo hi) ≤ v := by
  -- w = bucket width, q = offset inside the power, r = position inside the bucket
  have hw16 : 2 ^ p = 16 * 2 ^ (p - 4) := pow_split p (by omega)
  have hw32 : 2 ^ (p + 1) = 32 * 2 ^ (p - 4) := by rw [Nat.pow_succ, hw16]; omega
  have hwpos : 0 < 2 ^ (p - 4) := Nat.two_pow_pos _
  have hw2 : 2 ≤ 2 ^ (p - 4) := by
    have : 2 ^ 1 ≤ 2 ^ (p - 4) := Nat.pow_le_pow_right (by omega) (by omega)
    simpa using this
  have hwmax : 2 ^ (p - 4) ≤ 2 ^ 27 := Nat.pow_le_pow_right (by omega) (by omega)
  generalize hwdef : 2 ^ (p - 4) = w at *
  have hdm := Nat.div_add_mod (v - 2 ^ p) w
  have hr := Nat.mod_lt (v - 2 ^ p) hwpos
  have hq : (v - 2 ^ p) / w < 16 := by
    apply Nat.div_lt_of_lt_mul; omega
  generalize hqdef : (v - 2 ^ p) / w = q at *
  generalize hrdef : (v - 2 ^ p) % w = r at *
  have hm15 : w * q ≤ w * 15 := Nat.mul_le_mul_left w (by omega)
  generalize hmdef : w * q = m at *
  -- the index decomposes back into (p, q)
  have hgg : (32 + (p - 5) * 16 + q) / 2 ^ 4 = p - 3 := by
    have : (2:Nat) ^ 4 = 16 := by decide
    rw [this]; omega
  have hh : (32 + (p - 5) * 16 + q) - (p - 3) * 2 ^ 4 = q := by
    have : (2:Nat) ^ 4 = 16 := by decide
    rw [this]; omega
  have he1 : 4 + (p - 3) - 1 = p := by omega
  have he2 : p - 3 - 1 = p - 4 := by omega
  have hlower : lowerBound 4 (32 + (p - 5) * 16 + q) = 16 * w + m := by
    unfold lowerBound
    simp only [hgg, hh, he1, he2, hwdef, hw16, hmdef]
    have : ¬ p - 3 < 1 := by omega
    simp [this]
  have hupper : upperBound 4 32 (32 + (p - 5) * 16 + q) = 16 * w + m + w - 1 := by
    unfold upperBound
    have htot : totalBuckets 4 32 - 1 = 463 := by decide
    rw [htot]
    by_cases hlast : 32 + (p - 5) * 16 + q = 463
    · have hp : p = 31 := by omega
      have hq15 : q = 15 := by omega
      subst hp; subst hq15
      simp only [hlast, ↓reduceIte]
      have : w = 134217728 := by rw [← hwdef]
      subst this; omega
    · simp only [hlast, ↓reduceIte, hgg, hh, he1, he2, hwdef, hw16]
      have : ¬ p - 3 < 1 := by omega
      simp only [this, ↓reduceIte]
      rw [Nat.mul_add, hmdef]; omega
  refine ⟨_, _, _, rfl, rfl, rfl, ?_⟩
  rw [hlower, hupper]
  unfold midpoint
  have h27 : (2:Nat) ^ 27 = 134217728 := by decide
  rw [h27] at hwmax
  have hm16 : m < 16 * w := by omega
  refine ⟨by omega, by omega, by omega, by omega, by omega, by omega, by omega, by omega⟩

end MetricsRs
