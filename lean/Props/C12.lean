import Model.Sampling
import Generated.Sampling
namespace Sampling

theorem c12_emit_iff (draw rate : Dy) :
    (fixedDecision draw rate = some rate ↔ draw.le rate = true) ∧
    (fixedDecision draw rate = none ↔ draw.le rate = false) := by
  unfold fixedDecision; split <;> simp_all

end Sampling

#print axioms Sampling.c12_emit_iff
