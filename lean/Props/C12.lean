import Props.C12Weight
import Props.C12Congress
import Generated.Sampling
import Mathlib.Algebra.Order.Floor.Defs
import Mathlib.Data.List.Sort
/-!
# C12 — sampling is consistent and unbiased

Model: `Model/Sampling.lean` (exact dyadic arithmetic, correctly rounded where the code rounds).
Lemmas: `Props/C12Weight.lean` (the EMF weight), `Props/C12Congress.lean` (congressional sampler over ℚ).

A binary32 rate in `(0,1]` is `m · 2^-k` with `0 < m < 2^24`, `m ≤ 2^k`; `1/rate = 2^k/m`.
`RateOK m k` adds `1/rate < 2^53`.
-/
namespace Sampling

/-! ## The sampling decision -/

/-- **C12 (decision).** `FixedFractionSample` hands the entry to the inner formatter exactly when
`draw ≤ rate`, and then with the sampler's own rate; `CongressSample` does so exactly when
`rate == 1.0 ∨ draw ≤ rate`, with the rate it computed for the entry's group. No other outcome exists. -/
theorem c12_emit_iff (draw rate : Dy) :
    (fixedDecision draw rate = if draw.le rate then some rate else none) ∧
    (congressDecision draw rate = if rate.beq one || draw.le rate then some rate else none) ∧
    (∀ r', fixedDecision draw rate = some r' → r' = rate ∧ draw.le rate = true) ∧
    (∀ r', congressDecision draw rate = some r' → r' = rate ∧ (rate.beq one = true ∨ draw.le rate = true)) := by
  refine ⟨rfl, rfl, ?_, ?_⟩
  · intro r' h; unfold fixedDecision at h; split at h <;> simp_all
  · intro r' h; unfold congressDecision at h; split at h <;> simp_all

/-- The `rate == 1.0 ||` short-circuit of `CongressSample` never changes the decision: a draw of
`rng.random::<f32>()` is `d/2^24 < 1`, so `draw ≤ 1` holds anyway. -/
theorem c12_emit_rate_one (word : Nat) : fixedDecision (drawF32 word) one = some one ∧
    congressDecision (drawF32 word) one = some one := by
  have hd : word % 2 ^ 32 / 2 ^ 8 < 2 ^ 24 := by omega
  have hle : (drawF32 word).le one = true := by
    unfold Dy.le Dy.align drawF32 one
    have hmin : min (-24 : Int) 0 = -24 := by omega
    simp only [hmin, decide_eq_true_eq]
    have e1 : ((-24 : Int) - -24).toNat = 0 := by omega
    have e2 : ((0 : Int) - -24).toNat = 24 := by omega
    rw [e1, e2]; omega
  constructor
  · unfold fixedDecision; rw [if_pos hle]
  · unfold congressDecision; simp [hle]

/-! ## The EMF weight -/

/-- `⌊1/rate⌋` for `rate = m·2^-k` -/
def recipFloor (m k : Nat) : Nat := 2 ^ k / m
/-- `⌈1/rate⌉` for `rate = m·2^-k` -/
def recipCeil (m k : Nat) : Nat := if 2 ^ k % m = 0 then 2 ^ k / m else 2 ^ k / m + 1

theorem not_saturated (m k : Nat) (h : RateOK m k) : (⟨m, -(k : Int)⟩ : Dy).lt satThreshold = false := by
  unfold Dy.lt Dy.align satThreshold
  simp only [decide_eq_false_iff_not, Nat.not_lt, Nat.one_mul]
  have hm := h.m_pos
  by_cases hk : k ≤ 63
  · have hmin : min (-(k : Int)) (-63) = -63 := by omega
    rw [hmin]
    have e1 : ((-63 : Int) - -63).toNat = 0 := by omega
    rw [e1]
    have : 0 < 2 ^ (-(k : Int) - -63).toNat := Nat.two_pow_pos _
    have := Nat.mul_le_mul hm this
    simpa using this
  · have hmin : min (-(k : Int)) (-63) = -(k : Int) := by omega
    rw [hmin]
    have e1 : ((-63 : Int) - -(k : Int)).toNat = k - 63 := by omega
    have e2 : (-(k : Int) - -(k : Int)).toNat = 0 := by omega
    rw [e1, e2, Nat.pow_zero, Nat.mul_one]
    have hlt := h.recip_lt
    obtain ⟨j, rfl⟩ : ∃ j, k = 63 + j := ⟨k - 63, by omega⟩
    rw [show 63 + j - 63 = j by omega]
    rw [Nat.pow_add] at hlt
    by_contra hcon
    have : m * 2 ^ 53 ≤ 2 ^ j * 2 ^ 53 := Nat.mul_le_mul_right _ (by omega)
    omega

/-- the draw threshold: `draw < alpha` iff the 53-bit draw numerator is below `A · 2^(53-s)` -/
theorem draw_lt_alpha (word A s : Nat) (hs : s ≤ 52) :
    (drawF64 word).lt ⟨A, -(s : Int)⟩ = decide (word % 2 ^ 64 / 2 ^ 11 < A * 2 ^ (53 - s)) := by
  unfold Dy.lt Dy.align drawF64
  have hmin : min (-53 : Int) (-(s : Int)) = -53 := by omega
  simp only [hmin]
  have e1 : ((-53 : Int) - -53).toNat = 0 := by omega
  have e2 : (-(s : Int) - -53).toNat = 53 - s := by omega
  rw [e1, e2, Nat.pow_zero, Nat.mul_one]

/-- `rate_to_n` in closed form (for a binary32 rate in `(0,1]` with `1/rate < 2^53`). -/
theorem rateToN_eq (m k word : Nat) (h : RateOK m k) :
    rateToN ⟨m, -(k : Int)⟩ (drawF64 word) =
      if word % 2 ^ 64 / 2 ^ 11 < (2 ^ fracBits m k - invSig m k % 2 ^ fracBits m k) * 2 ^ (53 - fracBits m k)
      then invSig m k / 2 ^ fracBits m k else invSig m k / 2 ^ fracBits m k + 1 := by
  unfold rateToN
  rw [not_saturated m k h, rateToNAlpha_eq m k h]
  simp only [Bool.false_eq_true, if_false, draw_lt_alpha _ _ _ (up_eq m k h).2, decide_eq_true_eq]
  have hn := n_small m k h
  have : min (invSig m k / 2 ^ fracBits m k + 1) u64Max = invSig m k / 2 ^ fracBits m k + 1 := by
    apply Nat.min_eq_left; unfold u64Max; omega
  rw [this]

/-- **C12 (weight is floor or ceiling).** For every binary32 rate in `(0,1]` with `1/rate < 2^53`
and every value of the random draw, the weight applied to the record is `⌊1/rate⌋` or `⌈1/rate⌉`
(hence within 1 of `1/rate`). -/
theorem c12_weight_floor_ceil (m k word : Nat) (h : RateOK m k) :
    rateToN ⟨m, -(k : Int)⟩ (drawF64 word) = recipFloor m k ∨
    rateToN ⟨m, -(k : Int)⟩ (drawF64 word) = recipCeil m k := by
  rw [rateToN_eq m k word h]
  have hm := h.m_pos
  generalize hs : fracBits m k = s
  have hS : 0 < 2 ^ s := Nat.two_pow_pos s
  -- Q = ⌊2^(k+s)/m⌋, fl = ⌊2^k/m⌋ = Q / 2^s
  have hfl : 2 ^ (k + s) / m / 2 ^ s = 2 ^ k / m := by
    rw [Nat.div_div_eq_div_mul, Nat.pow_add, Nat.mul_div_mul_right _ _ hS]
  have hM := divRne_cases (2 ^ (k + s)) m
  have hMdef : invSig m k = divRne (2 ^ (k + s)) m := by unfold invSig; rw [hs]
  rw [hMdef]
  -- if 2^k is a multiple of m then so is 2^(k+s), and Q is a multiple of 2^s
  have hexact : 2 ^ k % m = 0 → 2 ^ (k + s) % m = 0 ∧ (2 ^ (k + s) / m) % 2 ^ s = 0 := by
    intro h0
    obtain ⟨c, hc⟩ := Nat.dvd_of_mod_eq_zero h0
    have : 2 ^ (k + s) = m * (c * 2 ^ s) := by rw [Nat.pow_add, hc, Nat.mul_assoc]
    rw [this, Nat.mul_mod_right, Nat.mul_div_cancel_left _ hm, Nat.mul_mod_left]
    exact ⟨rfl, rfl⟩
  have hdm := Nat.div_add_mod (2 ^ (k + s) / m) (2 ^ s)
  have hmodlt : (2 ^ (k + s) / m) % 2 ^ s < 2 ^ s := Nat.mod_lt _ hS
  unfold recipFloor recipCeil
  rcases hM with ⟨e, -⟩ | ⟨e, hr⟩
  · -- rounded down: M = Q
    rw [e, hfl]
    split
    · left; rfl
    · rename_i hnot
      -- n+1 is used only when alpha < 1, i.e. Q mod 2^s ≠ 0, and then 2^k is not a multiple of m
      right
      have hne : (2 ^ (k + s) / m) % 2 ^ s ≠ 0 := by
        intro h0
        apply hnot
        rw [h0, Nat.sub_zero, ← Nat.pow_add]
        have : s + (53 - s) = 53 := by have := (up_eq m k h).2; omega
        rw [this]; omega
      have : 2 ^ k % m ≠ 0 := fun h0 => hne (hexact h0).2
      rw [if_neg this]
  · -- rounded up: M = Q + 1, so 2^(k+s) (hence 2^k) is not a multiple of m
    have hmpos : 2 ^ (k + s) % m ≠ 0 := by omega
    have hk0 : 2 ^ k % m ≠ 0 := fun h0 => hmpos (hexact h0).1
    rw [e, if_neg hk0]
    by_cases hdiv : (2 ^ (k + s) / m + 1) % 2 ^ s = 0
    · -- inv is an integer: alpha = 1, n = fl + 1 = ceil, always chosen
      have hq : (2 ^ (k + s) / m + 1) / 2 ^ s = 2 ^ k / m + 1 := by
        rw [Nat.succ_div, if_pos (Nat.dvd_of_mod_eq_zero hdiv), hfl]
      rw [hdiv, Nat.sub_zero, ← Nat.pow_add]
      have : s + (53 - s) = 53 := by have := (up_eq m k h).2; omega
      rw [this, if_pos (by omega), hq]
      right; rfl
    · have hq : (2 ^ (k + s) / m + 1) / 2 ^ s = 2 ^ k / m := by
        rw [Nat.succ_div, if_neg (fun hd => hdiv (Nat.mod_eq_zero_of_dvd hd)), hfl]; rfl
      rw [hq]
      split
      · left; rfl
      · right; rfl

/-- **C12 (alpha).** `alpha = A/2^s` with `0 < A ≤ 2^s` and `s ≤ 52`: alpha lies in `(0,1]`, is a
multiple of `2^-52` and was computed without rounding; so for a draw uniform on `{d/2^53 : d < 2^53}`
the event `draw < alpha` has exactly `A·2^(53-s)` of the `2^53` outcomes, i.e. probability `alpha`. -/
theorem c12_alpha_range (m k : Nat) (h : RateOK m k) :
    ∃ A s : Nat, (rateToNAlpha ⟨m, -(k : Int)⟩).2 = ⟨A, -(s : Int)⟩ ∧ 0 < A ∧ A ≤ 2 ^ s ∧ s ≤ 52 ∧
      A * 2 ^ (53 - s) ≤ 2 ^ 53 ∧
      ∀ word, (drawF64 word).lt ⟨A, -(s : Int)⟩ = decide (word % 2 ^ 64 / 2 ^ 11 < A * 2 ^ (53 - s)) := by
  have hs := (up_eq m k h).2
  have hlt : invSig m k % 2 ^ fracBits m k < 2 ^ fracBits m k := Nat.mod_lt _ (Nat.two_pow_pos _)
  refine ⟨_, _, by rw [rateToNAlpha_eq m k h], by omega, by omega, hs, ?_, fun w => draw_lt_alpha w _ _ hs⟩
  have : 2 ^ fracBits m k * 2 ^ (53 - fracBits m k) = 2 ^ 53 := by
    rw [← Nat.pow_add]; congr 1; omega
  rw [← this]
  exact Nat.mul_le_mul_right _ (by omega)

/-- **C12 (unbiased).** With `inv = M/2^s` (the binary64 value of `1.0/rate`), `n = ⌊inv⌋` and
`alpha = A/2^s`:  `alpha·n + (1−alpha)·(n+1) = inv` exactly (first conjunct, scaled by `2^s`; by
`c12_alpha_range` the probability of weight `n` is exactly `alpha`, so this is the expectation over
the draw), and `|inv − 1/rate| ≤ 2^-53 / rate` (last two conjuncts, cross-multiplied:
`2^53·|M·m − 2^(k+s)| ≤ 2^(k+s)`). -/
theorem c12_unbiased (m k : Nat) (h : RateOK m k) :
    let s := fracBits m k
    let M := invSig m k
    let n := (rateToNAlpha ⟨m, -(k : Int)⟩).1
    let A := 2 ^ s - M % 2 ^ s
    invRate ⟨m, -(k : Int)⟩ = ⟨M, -(s : Int)⟩ ∧
    (rateToNAlpha ⟨m, -(k : Int)⟩).2 = ⟨A, -(s : Int)⟩ ∧
    A * n + (2 ^ s - A) * (n + 1) = M ∧
    2 ^ 53 * (M * m) ≤ 2 ^ 53 * 2 ^ (k + s) + 2 ^ (k + s) ∧
    2 ^ 53 * 2 ^ (k + s) ≤ 2 ^ 53 * (M * m) + 2 ^ (k + s) := by
  intro s M n A
  obtain ⟨h1, -, h3, h4⟩ := invSig_spec m k h
  have hn : n = M / 2 ^ s := by simp only [n, rateToNAlpha_eq m k h, M, s]
  refine ⟨invRate_eq m k h, by simp only [rateToNAlpha_eq m k h, A, M, s], ?_, ?_, ?_⟩
  · have hdm := Nat.div_add_mod M (2 ^ s)
    have hlt : M % 2 ^ s < 2 ^ s := Nat.mod_lt _ (Nat.two_pow_pos _)
    have hA : 2 ^ s - A = M % 2 ^ s := by omega
    rw [hA, hn, Nat.mul_add, Nat.mul_one]
    have : A * (M / 2 ^ s) + M % 2 ^ s * (M / 2 ^ s) = 2 ^ s * (M / 2 ^ s) := by
      rw [← Nat.add_mul]; congr 1; omega
    omega
  · show 2 ^ 53 * (invSig m k * m) ≤ 2 ^ 53 * 2 ^ (k + fracBits m k) + 2 ^ (k + fracBits m k)
    generalize invSig m k * m = X at *
    generalize 2 ^ (k + fracBits m k) = P at *
    omega
  · show 2 ^ 53 * 2 ^ (k + fracBits m k) ≤ 2 ^ 53 * (invSig m k * m) + 2 ^ (k + fracBits m k)
    generalize invSig m k * m = X at *
    generalize 2 ^ (k + fracBits m k) = P at *
    omega

/-- **C12 (saturation).** Below `1.0 / (i64::MAX as f32) = 2^-63` the weight is `u64::MAX`, whatever the draw. -/
theorem c12_saturates (rate draw : Dy) (h : rate.lt satThreshold = true) :
    rateToN rate draw = 2 ^ 64 - 1 := by
  unfold rateToN; rw [if_pos h]; rfl

/-- the generated threshold exponent is the one of the model -/
theorem c12_sat_threshold_generated : satThreshold = ⟨1, -(Generated.Sampling.satExp : Int)⟩ := by decide

/-- **C12 (counts).** Every entry of every `Counts` array of the record is the observation's number
of occurrences (1 for a plain observation) times — saturating — one and the same weight
`rateToN rate draw`; skipped (NaN) observations contribute nothing. -/
theorem c12_counts_scaled (rate draw : Dy) (metrics : List (List Obs)) :
    recordCounts rate draw metrics = metrics.map (fun obs =>
      (obs.filter (· ≠ .skipped)).map fun o => match o with
        | .single => rateToN rate draw
        | .repeated occ => min (occ * rateToN rate draw) (2 ^ 64 - 1)
        | .skipped => 0) := by
  unfold recordCounts
  apply List.map_congr_left
  intro obs hmem
  clear hmem
  induction obs with
  | nil => rfl
  | cons o os ih =>
    cases o <;> simp_all [countsOf, List.filterMap_cons, List.filter_cons, satMul, u64Max]

/-! ## The congressional sampler (exact rationals, generated constants) -/

def genConsts : Consts := ⟨Generated.Sampling.window, Generated.Sampling.ttl⟩

theorem genConsts_window : 1 ≤ genConsts.window := by decide

/-- the state reached from a fresh sampler by an arbitrary history -/
def reach (target : Nat) (ops : List Op) : State ℚ := run Q genConsts (State.init target) ops

/-- **C12 (congress, range).** After any history — groups appearing, vanishing, bursting, empty
intervals — every group's rate lies in `(0,1]`, and so does the rate handed out for the next entry
of any group (known or new). -/
theorem c12_congress_rate_range (target : Nat) (ht : 0 < target) (ops : List Op) :
    (∀ g ∈ (reach target ops).groups, 0 < g.rate ∧ g.rate ≤ 1) ∧
    ∀ gid, 0 < (observe Q (reach target ops) gid).2 ∧ (observe Q (reach target ops) gid).2 ≤ 1 := by
  unfold reach at *
  have h := run_inv genConsts genConsts_window (State.init target) ops (inv_init target) ht
  exact ⟨fun g hg => ⟨(h.1 g hg).rate_pos, (h.1 g hg).rate_le⟩, fun gid => (observe_inv _ gid h.1).2⟩

/-- **C12 (congress, below target).** If the interval that just ended saw no more entries than the
target, every group's rate is 1. (`(reach …).cur` counts the entries since the last end of interval:
`c12_congress_counts`.) -/
theorem c12_congress_below_target (target : Nat) (ht : 0 < target) (ops : List Op) (order : List Key)
    (hle : (reach target ops).cur ≤ target) :
    ∀ g ∈ (updateRates Q genConsts order (reach target ops)).groups, g.rate = 1 := by
  unfold reach at *
  have h := run_inv genConsts genConsts_window (State.init target) ops (inv_init target) ht
  have ht' : (run Q genConsts (State.init target) ops).target = target := h.2
  exact (updateRates_spec genConsts genConsts_window order _ h.1 (by rw [ht']; exact ht)).2.1 (by rw [ht']; exact hle)

/-- **C12 (congress, budget).** If the interval saw more than the target, then
`Σ_g average_g · rate_g ≤ target` (the quantity the code bounds: `average_g · rate_g ≤
size_in_congress_g · scale_factor`, and the sizes times the scale factor sum to the target). -/
theorem c12_congress_budget (target : Nat) (ht : 0 < target) (ops : List Op) (order : List Key)
    (hgt : target < (reach target ops).cur) :
    ((updateRates Q genConsts order (reach target ops)).groups.map fun g => g.avg * g.rate).sum ≤ (target : ℚ) := by
  unfold reach at *
  have h := run_inv genConsts genConsts_window (State.init target) ops (inv_init target) ht
  have ht' : (run Q genConsts (State.init target) ops).target = target := h.2
  have := ((updateRates_spec genConsts genConsts_window order _ h.1 (by rw [ht']; exact ht)).2.2 (by rw [ht']; exact hgt)).1
  rw [ht'] at this; exact this

/-- **C12 (congress, monotone).** A rarer group is never sampled at a lower rate than a more
frequent one: `average_g ≤ average_h → rate_h ≤ rate_g` (trivially so when all rates are 1). -/
theorem c12_congress_monotone (target : Nat) (ht : 0 < target) (ops : List Op) (order : List Key) :
    ∀ g ∈ (updateRates Q genConsts order (reach target ops)).groups,
    ∀ h ∈ (updateRates Q genConsts order (reach target ops)).groups, g.avg ≤ h.avg → h.rate ≤ g.rate := by
  unfold reach at *
  have hi := run_inv genConsts genConsts_window (State.init target) ops (inv_init target) ht
  have ht' : (run Q genConsts (State.init target) ops).target = target := hi.2
  have hspec := updateRates_spec genConsts genConsts_window order _ hi.1 (by rw [ht']; exact ht)
  intro g hg h hh hav
  by_cases hle : (run Q genConsts (State.init target) ops).cur ≤ (run Q genConsts (State.init target) ops).target
  · rw [hspec.2.1 hle g hg, hspec.2.1 hle h hh]
  · exact (hspec.2.2 (by omega)).2 g hg h hh hav

/-- every group's moving average is positive after an end of interval (no division by zero, no
`average <= 0` fallback) -/
theorem c12_congress_avg_pos (target : Nat) (ht : 0 < target) (ops : List Op) (order : List Key) :
    ∀ g ∈ (updateRates Q genConsts order (reach target ops)).groups, 0 < g.avg := by
  unfold reach at *
  have hi := run_inv genConsts genConsts_window (State.init target) ops (inv_init target) ht
  have ht' : (run Q genConsts (State.init target) ops).target = target := hi.2
  intro g hg
  exact ((updateRates_spec genConsts genConsts_window order _ hi.1 (by rw [ht']; exact ht)).1 g hg).2.2.1

/-- `cur` counts the entries formatted since the last end of interval -/
theorem c12_congress_counts (C : Consts) (s : State ℚ) :
    (∀ gid, (step Q C s (.obs gid)).cur = s.cur + 1) ∧
    (∀ gid n, (step Q C s (.obsN gid n)).cur = s.cur + n) ∧
    (∀ order, (step Q C s (.endInterval order)).cur = 0) :=
  ⟨fun _ => rfl, fun gid n => observeN_cur s gid n, fun order => (updateRates_target C order s).2⟩

/-! ## Group identity: the order in which an entry yields its sample-group pairs is irrelevant -/

/-- the order `group.sort_unstable()` sorts by -/
def PairLe (a b : Pair) : Prop := pairLe a b = true

instance : DecidableRel PairLe := fun a b => inferInstanceAs (Decidable (pairLe a b = true))

theorem pairLe_iff (a b : Pair) : PairLe a b ↔ a.1 < b.1 ∨ (a.1 = b.1 ∧ a.2 ≤ b.2) := by
  simp [PairLe, pairLe]

instance : Std.Total PairLe := ⟨fun a b => by simp only [pairLe_iff]; omega⟩
instance : IsTrans Pair PairLe := ⟨fun a b c => by simp only [pairLe_iff]; omega⟩
instance : Std.Antisymm PairLe := ⟨fun a b h1 h2 => by
  rw [pairLe_iff] at h1 h2
  exact Prod.ext (by omega) (by omega)⟩

theorem insertPair_eq (a : Pair) (l : Key) : insertPair a l = List.orderedInsert PairLe a l := by
  induction l with
  | nil => rfl
  | cons b l ih =>
    simp only [insertPair, List.orderedInsert_cons, ih, PairLe]
    rfl

theorem canon_eq (l : Key) : canon l = List.insertionSort PairLe l := by
  induction l with
  | nil => rfl
  | cons a l ih =>
    show insertPair a (canon l) = _
    rw [ih, insertPair_eq]; rfl

/-- sorting canonicalises: two spellings of the same group (permutations of one another, duplicate
keys included) have the same key, and the key is a permutation of what was yielded -/
theorem canon_perm {l l' : Key} (h : l.Perm l') : canon l = canon l' := by
  rw [canon_eq, canon_eq]
  apply List.Perm.eq_of_pairwise' (r := PairLe) (List.pairwise_insertionSort _ _) (List.pairwise_insertionSort _ _)
  exact (List.perm_insertionSort _ _).trans (h.trans (List.perm_insertionSort _ _).symm)

theorem canon_is_perm (l : Key) : (canon l).Perm l := by
  rw [canon_eq]; exact List.perm_insertionSort _ _

/-- two entry-level operations that differ only in the order of the yielded pairs -/
inductive EOp.Similar : EOp → EOp → Prop
  | entry {p p' : Key} : p.Perm p' → EOp.Similar (.entry p) (.entry p')
  | entries {p p' : Key} (n : Nat) : p.Perm p' → EOp.Similar (.entries p n) (.entries p' n)
  | endInterval (order : List Key) : EOp.Similar (.endInterval order) (.endInterval order)

/-- two histories that differ only in the order in which each entry yields its pairs -/
inductive Similar : List EOp → List EOp → Prop
  | nil : Similar [] []
  | cons {a b : EOp} {l m : List EOp} : EOp.Similar a b → Similar l m → Similar (a :: l) (b :: m)

/-- **C12 (group identity).** For every arithmetic (so for the binary32 twin and for ℚ), every
`validate_groups` setting, every starting state and every two histories that differ only by
permuting, entry by entry, the `(key, value)` pairs the entries yield (`a.merge(b)` vs `b.merge(a)`,
fields declared in another order, duplicate keys included): the sampler reaches the same state — the
same groups, volumes, averages and rates — panics on the same entries, and hands the same rate to the
next entry however that entry spells its group. -/
theorem c12_group_order_irrelevant {α : Type} (A : Arith α) (C : Consts) (validate : Bool) (s : State α)
    (eops eops' : List EOp) (h : Similar eops eops') :
    runE A C canon validate s eops = runE A C canon validate s eops' ∧
    ∀ p p' : Key, p.Perm p' →
      entryRate A canon validate (runE A C canon validate s eops) p =
      entryRate A canon validate (runE A C canon validate s eops') p' := by
  have hops : eops.filterMap (toOp canon validate) = eops'.filterMap (toOp canon validate) := by
    induction h with
    | nil => rfl
    | @cons a b _ _ hab _ ih =>
      have : toOp canon validate a = toOp canon validate b := by
        cases hab with
        | entry hp => simp only [toOp, entryKey, canon_perm hp]
        | entries n hp => simp only [toOp, entryKey, canon_perm hp]
        | endInterval order => rfl
      simp only [List.filterMap_cons, this, ih]
  have hrun : runE A C canon validate s eops = runE A C canon validate s eops' := by
    unfold runE; rw [hops]
  refine ⟨hrun, fun p p' hp => ?_⟩
  rw [hrun]; simp only [entryRate, entryKey, canon_perm hp]

/-- every theorem about `run` applies to entry-level histories: they are runs (over the sorted keys) -/
theorem c12_entries_are_observations {α : Type} (A : Arith α) (C : Consts) (κ : Key → Key) (validate : Bool)
    (s : State α) (eops : List EOp) :
    runE A C κ validate s eops = run A C s (eops.filterMap (toOp κ validate)) := rfl

/-- a history in which one group (`op=1,status=1`, 300 entries) is yielded in both orders, and a
rarer group (`op=2,status=1`, 200 entries) in one, in an interval above the target of 100 -/
def splitHistory : List EOp :=
  [.entries [(1,1),(2,1)] 150, .entries [(2,1),(1,1)] 150, .entries [(1,2),(2,1)] 200, .endInterval []]

/-- **The sort is needed.** Without it (`κ = id`: the group key is the list as yielded) the frequent
group is tracked as two groups of 150, and its entries are then sampled at a *higher* rate (5/24)
than those of the rarer group (3/16): monotonicity over true group volumes fails. With the sort
(`κ = canon`) the same history gives 2/11 ≤ 5/22. (Evaluated over ℚ by the kernel.) -/
theorem c12_sort_needed :
    entryRate Q id false (runE Q genConsts id false (State.init 100) splitHistory) [(1,1),(2,1)] = some (5/24) ∧
    entryRate Q id false (runE Q genConsts id false (State.init 100) splitHistory) [(1,2),(2,1)] = some (3/16) ∧
    entryRate Q canon false (runE Q genConsts canon false (State.init 100) splitHistory) [(2,1),(1,1)] = some (2/11) ∧
    entryRate Q canon false (runE Q genConsts canon false (State.init 100) splitHistory) [(1,2),(2,1)] = some (5/22) := by
  decide +kernel

/-- with `validate_groups` a duplicate key panics whatever the order, without it the entry is sampled -/
example : entryKey canon true [(2,1),(1,1),(2,7)] = none ∧ entryKey canon true [(2,7),(2,1),(1,1)] = none ∧
    entryKey canon false [(2,7),(2,1),(1,1)] = some [(1,1),(2,1),(2,7)] := by decide

/-! ## The real clock -/

/-- every tracked group has rate 1 -/
def AllOne (s : State ℚ) : Prop := ∀ g ∈ s.groups, g.rate = 1

theorem observeGroups_allOne (key : Key) (gs : List (Group ℚ)) (h : ∀ g ∈ gs, g.rate = 1) :
    (∀ g ∈ (observeGroups Q key gs).1, g.rate = 1) ∧ (observeGroups Q key gs).2 = 1 := by
  induction gs with
  | nil => simp [observeGroups, ratArith]
  | cons g gs ih =>
    have hg := h g (by simp)
    have ih' := ih (fun x hx => h x (by simp [hx]))
    unfold observeGroups
    split
    · refine ⟨?_, hg⟩
      intro x hx
      simp only [List.mem_cons] at hx
      rcases hx with rfl | hx
      · exact hg
      · exact h x (by simp [hx])
    · refine ⟨?_, ih'.2⟩
      intro x hx
      simp only [List.mem_cons] at hx
      rcases hx with rfl | hx
      · exact hg
      · exact ih'.1 x hx

theorem observe_allOne (s : State ℚ) (key : Key) (h : AllOne s) :
    AllOne (observe Q s key).1 ∧ (observe Q s key).2 = 1 :=
  observeGroups_allOne key s.groups h

theorem rollsOver_one {α : Type} (c : Clocked α) (now : Nat) : rollsOver 1 c now = decide (c.next < now) := by
  simp [rollsOver, Nat.mod_one]

/-- **C12 (real clock).** `sample_rate` reads the clock on every call (`stride = 1`). For a sampler
state reached by any history (`Inv`), with the generated constants:
(1) a call at a time past `next_interval_start` rolls the interval over exactly once — whatever the
    elapsed time — sets `next_interval_start = now + interval`, and counts the entry in the new interval;
(2) if the interval that ends there saw no more than the target, that entry and (3) every later entry
    up to the next roll-over is handed rate 1, and all group rates are 1;
(4) the history invariant is preserved, so (1)–(3) apply along every timed history. -/
theorem c12_clock_rollover (order : List Key) (c : Clocked ℚ) (now : Nat) (key : Key)
    (hinv : Inv c.st) (ht : 0 < c.st.target) :
    let r := sampleRateAt Q genConsts 1 order c now key
    (c.next < now → r.1.next = now + c.interval ∧ r.1.st.cur = 1 ∧
        r.1.st = (observe Q (updateRates Q genConsts order c.st) key).1) ∧
    (c.next < now → c.st.cur ≤ c.st.target → r.2 = 1 ∧ AllOne r.1.st) ∧
    (¬ c.next < now → AllOne c.st → r.2 = 1 ∧ AllOne r.1.st ∧ r.1.next = c.next ∧ r.1.st.cur = c.st.cur + 1) ∧
    (Inv r.1.st ∧ r.1.st.target = c.st.target ∧ 0 < r.2 ∧ r.2 ≤ 1) := by
  intro r
  have hspec := updateRates_spec genConsts genConsts_window order c.st hinv ht
  have hupd := updateRates_target genConsts order c.st
  by_cases hroll : c.next < now
  · have hr : r = ((⟨(observe Q (updateRates Q genConsts order c.st) key).1, now + c.interval, c.interval⟩ : Clocked ℚ),
        (observe Q (updateRates Q genConsts order c.st) key).2) := by
      simp only [r, sampleRateAt, rollsOver_one, hroll, decide_true, if_true]
    have hinv' := updateRates_inv genConsts genConsts_window order c.st hinv ht
    have hobs := observe_inv _ key hinv'
    refine ⟨fun _ => ?_, fun _ hle => ?_, fun h => absurd hroll h, ?_⟩
    · rw [hr]; exact ⟨rfl, by simp only [observe, hupd.2], rfl⟩
    · rw [hr]
      have hone : AllOne (updateRates Q genConsts order c.st) := hspec.2.1 hle
      have := observe_allOne _ key hone
      exact ⟨this.2, this.1⟩
    · rw [hr]; exact ⟨hobs.1, hupd.1, hobs.2⟩
  · have hr : r = ((⟨(observe Q c.st key).1, c.next, c.interval⟩ : Clocked ℚ), (observe Q c.st key).2) := by
      simp only [r, sampleRateAt, rollsOver_one, hroll, decide_false]; rfl
    have hobs := observe_inv _ key hinv
    refine ⟨fun h => absurd h hroll, fun h => absurd h hroll, fun _ hone => ?_, ?_⟩
    · rw [hr]
      have := observe_allOne _ key hone
      exact ⟨this.2, this.1, rfl, rfl⟩
    · rw [hr]; exact ⟨hobs.1, rfl, hobs.2⟩

/-- 8 entries per interval (interval 1000 ns, entries 10 ns apart), three intervals, target 10 -/
def steadyEight : List (Nat × Key × List Key) :=
  (List.range 24).map fun i => ((i / 8) * 1100 + (i % 8) * 10 + 1, [(1, 1)], [[(1, 1)]])

/-- **The clock must be read on every call.** With the clock consulted only every 16th observation
(`stride = 16`) a steady 8 entries per interval under a target of 10 — no interval ever above the
target — is sampled at 5/8 from the 17th entry on; with `stride = 1` (the code) every rate is 1.
(Evaluated over ℚ by the kernel.) -/
theorem c12_clock_stride_breaks :
    (runClocked Q genConsts 16 ⟨State.init 10, 0, 1000⟩ steadyEight).2 =
      List.replicate 16 1 ++ List.replicate 8 (5/8) ∧
    (runClocked Q genConsts 1 ⟨State.init 10, 0, 1000⟩ steadyEight).2 = List.replicate 24 1 := by
  decide +kernel

/-! ## The default random number generator -/

/-- **C12 (default RNG).** `DefaultRng<R>` is transparent: for every script of the inner generator and
every sequence of `RngCore` calls (`next_u32`, `next_u64`, `fill_bytes`, and the `f32`/`f64` draws made
from them) the wrapper returns exactly what the inner generator returns. So the draws of the default
path (`Emf::with_sampling()`, `FixedFractionSample::new`, `CongressSampleBuilder::build`) have the inner
generator's distribution, and `c12_unbiased` / `c12_alpha_range` apply to it unchanged. -/
theorem c12_default_rng_transparent (s : Script) (calls : List RngCall) :
    runCalls (wrapperCall false) s calls = runCalls innerCall s calls := by
  induction calls generalizing s with
  | nil => rfl
  | cons c cs ih =>
    have h : wrapperCall false s c = innerCall s c := by cases c <;> rfl
    simp only [runCalls, h, ih]

/-- **Why `next_u64` must forward to `next_u64`.** If it returned `next_u32` zero-extended
(`narrow = true`), every `f64` draw would be below `2^-32` (numerator `< 2^21` of `2^53`) whatever the
inner generator does, and for rate `0.4f32 = 13421773·2^-25` the weight would be `2 = ⌊1/rate⌋` for every
word: the ceiling 3 would never be chosen and the expectation would be 2, not `1/rate ≈ 2.5`. -/
theorem c12_default_rng_narrow_breaks :
    (∀ s : Script, ∃ d, (wrapperCall true s .f64).1 = [d] ∧ d < 2 ^ 21) ∧
    (∀ word : Nat, rateToN ⟨13421773, -(25 : Nat)⟩ (drawF64 (word % 2 ^ 64 / 2 ^ 32)) = 2) ∧
    (∃ word : Nat, rateToN ⟨13421773, -(25 : Nat)⟩ (drawF64 word) = 3) := by
  refine ⟨fun s => ⟨_, rfl, ?_⟩, fun word => ?_, ⟨2 ^ 64 - 1, ?_⟩⟩
  · show (s.next.1 / 2 ^ 32) % 2 ^ 64 / 2 ^ 11 < 2 ^ 21
    have : s.next.1 < 2 ^ 64 := Nat.mod_lt _ (by decide)
    omega
  · have hok : RateOK 13421773 25 := ⟨by decide, by decide, by decide, by decide⟩
    have hf : fracBits 13421773 25 = 51 := by decide +kernel
    have hM : invSig 13421773 25 = 5629499450327041 := by decide +kernel
    rw [rateToN_eq 13421773 25 _ hok, hf, hM]
    have : word % 2 ^ 64 / 2 ^ 32 % 2 ^ 64 / 2 ^ 11 < 2 ^ 21 := by omega
    rw [if_pos (by omega)]
    decide
  · decide +kernel

/-! ## Every binary32 rate has the shape the weight theorems assume -/

/-- Every binary32 bit pattern of a rate in `(0,1]` (`0 < bits ≤ 0x3f800000`) decodes to `m·2^-k` with a
24-bit `m`, `0 < m ≤ 2^k`: the shape the weight theorems are stated for. -/
theorem c12_f32_rate_shape (bits : Nat) (h0 : 0 < bits) (h1 : bits ≤ 0x3f800000) :
    ∃ m k : Nat, f32Decode bits = some ⟨m, -(k : Int)⟩ ∧ 0 < m ∧ m < 2 ^ 24 ∧ m ≤ 2 ^ k := by
  unfold f32Decode
  have hex : bits / 2 ^ 23 % 256 = bits / 2 ^ 23 := Nat.mod_eq_of_lt (by omega)
  have hle : bits / 2 ^ 23 ≤ 127 := by omega
  simp only [hex]
  rw [if_neg (by omega), if_neg (by omega)]
  by_cases hz : bits / 2 ^ 23 = 0
  · rw [if_pos hz]
    refine ⟨bits % 2 ^ 23, 149, rfl, by omega, by omega, ?_⟩
    have : 2 ^ 23 ≤ 2 ^ 149 := Nat.pow_le_pow_right (by omega) (by omega)
    omega
  · rw [if_neg hz]
    have he : ((bits / 2 ^ 23 : Nat) : Int) - 150 = -((150 - bits / 2 ^ 23 : Nat) : Int) := by omega
    rw [he]
    have hm : bits % 2 ^ 23 + 2 ^ 23 ≤ 2 ^ (150 - bits / 2 ^ 23) := by
      by_cases h127 : bits / 2 ^ 23 = 127
      · rw [h127]; omega
      · have : 2 ^ 24 ≤ 2 ^ (150 - bits / 2 ^ 23) := Nat.pow_le_pow_right (by omega) (by omega)
        omega
    exact ⟨_, _, rfl, by omega, by omega, hm⟩

/-! ## The driver's shortcut for large volumes -/

theorem bumpFirst_zero {α : Type} (gid : Key) (gs : List (Group α)) : bumpFirst gid 0 gs = gs := by
  induction gs with
  | nil => rfl
  | cons g gs ih =>
    unfold bumpFirst; split
    · rename_i h; cases g; simp_all
    · simp_all

theorem bumpFirst_add {α : Type} (gid : Key) (a b : Nat) (gs : List (Group α)) :
    bumpFirst gid a (bumpFirst gid b gs) = bumpFirst gid (b + a) gs := by
  induction gs with
  | nil => rfl
  | cons g gs ih =>
    by_cases h : g.gid = gid
    · simp [bumpFirst, h, Nat.add_assoc]
    · simp [bumpFirst, h, ih]

theorem observeGroups_twice {α : Type} (A : Arith α) (gid : Key) (gs : List (Group α)) :
    (observeGroups A gid (observeGroups A gid gs).1).1 = bumpFirst gid 1 (observeGroups A gid gs).1 := by
  induction gs with
  | nil => simp [observeGroups, bumpFirst]
  | cons g gs ih =>
    by_cases h : g.gid = gid
    · simp [observeGroups, bumpFirst, h]
    · simp [observeGroups, bumpFirst, h, ih]

/-- `n` single observations of one group equal the bulk increment the driver uses. -/
theorem c12_obsN_bulk {α : Type} (A : Arith α) (s : State α) (gid : Key) (n : Nat) :
    observeN A s gid n = observeBulk A s gid n := by
  induction n generalizing s with
  | zero => simp [observeN, observeBulk]
  | succ n ih =>
    rw [observeN, ih]
    cases n with
    | zero => simp [observeBulk, observe, bumpFirst_zero]
    | succ n =>
      simp only [observeBulk, observe, Nat.add_one_ne_zero, if_false, Nat.add_sub_cancel]
      rw [observeGroups_twice, bumpFirst_add]
      simp only [Nat.add_comm, Nat.add_left_comm]
/-! ## Non-vacuity -/

/-- `0.4f32 = 13421773 · 2^-25` is a rate the weight theorems apply to -/
example : RateOK 13421773 25 := ⟨by decide, by decide, by decide, by decide⟩
example : f32Decode 0x3ecccccd = some ⟨13421773, -25⟩ := by decide
/-- its weights are 2 and 3, alpha = (2^51 − (M mod 2^51))/2^51 -/
example : recipFloor 13421773 25 = 2 ∧ recipCeil 13421773 25 = 3 := by decide

end Sampling

#print axioms Sampling.c12_emit_iff
#print axioms Sampling.c12_emit_rate_one
#print axioms Sampling.c12_weight_floor_ceil
#print axioms Sampling.c12_alpha_range
#print axioms Sampling.c12_unbiased
#print axioms Sampling.c12_saturates
#print axioms Sampling.c12_sat_threshold_generated
#print axioms Sampling.c12_counts_scaled
#print axioms Sampling.c12_congress_rate_range
#print axioms Sampling.c12_congress_below_target
#print axioms Sampling.c12_congress_budget
#print axioms Sampling.c12_congress_monotone
#print axioms Sampling.c12_congress_avg_pos
#print axioms Sampling.c12_congress_counts
#print axioms Sampling.c12_obsN_bulk
#print axioms Sampling.c12_group_order_irrelevant
#print axioms Sampling.c12_entries_are_observations
#print axioms Sampling.c12_sort_needed
#print axioms Sampling.c12_clock_rollover
#print axioms Sampling.c12_clock_stride_breaks
#print axioms Sampling.c12_default_rng_transparent
#print axioms Sampling.c12_default_rng_narrow_breaks
#print axioms Sampling.c12_f32_rate_shape
