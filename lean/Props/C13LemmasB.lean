import Props.C13Lemmas
/-! `SInv` is preserved by every step. -/
namespace KeepAlive
variable {cfg : List (Bool × Nat)} {s s' : St}

@[simp] theorem relG_more (k : Kind) (s : St) :
    (relG k s).fgLive = s.fgLive ∧ (relG k s).dgBegun = s.dgBegun ∧ (relG k s).slots = s.slots := by
  unfold relG; split <;> simp

/-- what every step does to the quantities the slot invariants depend on -/
theorem step_mono {e : Ev} (h : step s e = some s') :
    (s.hS = 0 → s'.hS = 0) ∧ (s.hS = 0 → s'.fgLive ≤ s.fgLive) ∧ s.dgBegun ≤ s'.dgBegun := by
  cases e
  all_goals
    simp only [step, dropFG, finishInner, setSlot] at h
    (repeat' split at h) <;> (try cases h) <;> simp_all [relG_frozen, relG_more, ownerUsable] <;> omega

theorem sinv_same_slots (h : SInv s) (hs : s'.slots = s.slots) (hh : s.hS = 0 → s'.hS = 0)
    (hf : s.hS = 0 → s'.fgLive ≤ s.fgLive) (hd : s.dgBegun ≤ s'.dgBegun) : SInv s' := by
  obtain ⟨h1, h2, h3⟩ := h
  constructor
  · rw [hs]; exact h1
  · rw [hs]; intro hc
    obtain ⟨a, b⟩ := h2 hc
    have := hf a
    exact ⟨hh a, by omega⟩
  · rw [hs]; intro sl hsl hc ho hm hd0
    exact h3 sl hsl hc ho hm (by omega)

theorem sinv_setSlot {i : Nat} {sl : Slot} {f : Slot → Slot} (h : SInv s) (hsl : s.slots[i]? = some sl)
    (hok : SlotOk (f sl)) (hc : (f sl).closedAs = sl.closedAs)
    (hg1 : (f sl).closedAs.isSome → (f sl).opened = true → (f sl).mode = .wait → s.dgBegun = 0 → (f sl).sentOk = true) :
    SInv (setSlot s i f) := by
  obtain ⟨h1, h2, h3⟩ := h
  have hmem := mem_of_getElem? hsl
  constructor
  · intro x hx
    rcases mem_modifyAt hx with hx | ⟨a, ha, rfl⟩
    · exact h1 x hx
    · rw [hsl] at ha; cases ha; exact hok
  · rintro ⟨x, hx, hxc⟩
    apply h2
    rcases mem_modifyAt hx with hx | ⟨a, ha, rfl⟩
    · exact ⟨x, hx, hxc⟩
    · rw [hsl] at ha; cases ha; exact ⟨sl, hmem, by rw [← hc]; exact hxc⟩
  · intro x hx
    rcases mem_modifyAt hx with hx | ⟨a, ha, rfl⟩
    · exact h3 x hx
    · rw [hsl] at ha; cases ha; exact hg1

theorem not_closed_of_usable (h : SInv s) (hu : ownerUsable s = true) {sl : Slot} (hm : sl ∈ s.slots) :
    sl.closedAs = none := by
  cases hc : sl.closedAs with
  | none => rfl
  | some r =>
    have := (h.g0 ⟨sl, hm, by simp [hc]⟩).1
    simp [ownerUsable] at hu; omega

theorem sinv_open {i : Nat} {m : Mode} {v0 : Nat} (hs : SInv s) (h : step s (.open i m v0) = some s') : SInv s' := by
  have hmono := step_mono h
  simp only [step] at h
  split at h
  · cases h
  · rename_i sl hsl
    split at h
    · rename_i hu
      split at h
      · cases h
        split
        · refine sinv_same_slots hs (by simp [dropFG]) ?_ ?_ ?_ <;> simp [dropFG] <;> omega
        · exact hs
      · rename_i hno
        cases h
        have hcl := not_closed_of_usable hs hu.1 (mem_of_getElem? hsl)
        obtain ⟨a1, a2, a3, a4, a5, a6, a7, a8⟩ := hs.ok sl (mem_of_getElem? hsl)
        refine sinv_setSlot hs hsl ?_ rfl ?_
        · constructor <;> grind
        · simp [hcl]
    · cases h

theorem sinv_wait {i : Nat} {sl : Slot} {b : Option Nat} (hs : SInv s) (hsl : s.slots[i]? = some sl) :
    SInv { setSlot s i (fun _ => (poll sl).1) with borrowed := b } := by
  have h1 : SInv (setSlot s i (fun _ => (poll sl).1)) := by
    obtain ⟨p1, p2, p3, p4, p5, p6⟩ := poll_same sl
    refine sinv_setSlot hs hsl (slotOk_poll (hs.ok sl (mem_of_getElem? hsl))) p1 ?_
    rw [p1, p2, p3, p4]
    exact hs.g1 sl (mem_of_getElem? hsl)
  exact sinv_same_slots h1 rfl id (fun _ => Nat.le_refl _) (Nat.le_refl _)

theorem sinv_slot_events {e : Ev} (hi : Inv s) (hs : SInv s) (h : step s e = some s')
    (he : match e with
      | .waitBegin _ | .waitPoll | .delay _ | .gmut .. | .gSend _ | .gRelease _ => True
      | _ => False) : SInv s' := by
  have hmono := step_mono h
  cases e <;> simp only at he
  case waitBegin i =>
    simp only [step] at h
    split at h
    · cases h
    · rename_i sl hsl
      split at h
      · cases h; exact sinv_wait hs hsl
      · cases h
  case waitPoll =>
    simp only [step] at h
    split at h
    · cases h
    · split at h
      · cases h
      · rename_i sl hsl
        cases h; exact sinv_wait hs hsl
  case delay i =>
    simp only [step] at h
    split at h
    · cases h
    · rename_i sl hsl
      split at h
      · rename_i hc
        split at h
        · cases h; refine sinv_same_slots hs (by simp [dropFG]) ?_ ?_ ?_ <;> simp [dropFG] <;> omega
        · cases h
          obtain ⟨a1, a2, a3, a4, a5, a6, a7, a8⟩ := hs.ok sl (mem_of_getElem? hsl)
          refine sinv_setSlot hs hsl ?_ rfl ?_
          · constructor <;> assumption
          · intro hcl _ _ hd0
            have := (hs.g0 ⟨sl, mem_of_getElem? hsl, hcl⟩).2
            omega
      · cases h
  case gmut i v =>
    simp only [step] at h
    split at h
    · cases h
    · rename_i sl hsl
      split at h
      · rename_i hg
        cases h
        obtain ⟨a1, a2, a3, a4, a5, a6, a7, a8⟩ := hs.ok sl (mem_of_getElem? hsl)
        have hns : sl.sentOk = false := by
          cases hso : sl.sentOk with
          | false => rfl
          | true => exact absurd hg (a3 hso).1
        refine sinv_setSlot hs hsl ?_ rfl ?_
        · constructor <;> grind
        · exact hs.g1 sl (mem_of_getElem? hsl)
      · cases h
  case gSend i =>
    simp only [step] at h
    split at h
    · cases h
    · rename_i sl hsl
      split at h
      · rename_i hg
        cases h
        obtain ⟨a1, a2, a3, a4, a5, a6, a7, a8⟩ := hs.ok sl (mem_of_getElem? hsl)
        have hns : sl.sentOk = false := by
          cases hso : sl.sentOk with
          | false => rfl
          | true => exact absurd hg (a3 hso).1
        refine sinv_setSlot hs hsl ?_ rfl ?_
        · cases hcl : sl.closedAs with
          | none => constructor <;> simp only [hcl] <;> grind
          | some r => constructor <;> simp only [hcl] <;> grind
        · intro hcl _ hm hd0
          simp only at hcl hm
          have hf := (hs.g0 ⟨sl, mem_of_getElem? hsl, hcl⟩).2
          have h1 : heldBy sl = 1 := by simp [heldBy, hg, hm]
          have h2 := heldBy_le_held hsl
          have h3 := hi.heldle
          omega
      · cases h
  case gRelease i =>
    simp only [step] at h
    split at h
    · cases h
    · rename_i sl hsl
      split at h
      · rename_i hg
        cases h
        obtain ⟨a1, a2, a3, a4, a5, a6, a7, a8⟩ := hs.ok sl (mem_of_getElem? hsl)
        have hbase : SInv (setSlot s i fun sl => { sl with g := .none }) := by
          refine sinv_setSlot hs hsl ?_ rfl ?_
          · constructor <;> grind
          · exact hs.g1 sl (mem_of_getElem? hsl)
        split
        · refine sinv_same_slots hbase (by simp [dropFG]) ?_ ?_ ?_ <;> simp [dropFG, setSlot] <;> omega
        · exact hbase
      · cases h

theorem sinv_closeSlot (hr : Reachable cfg s) (hs : SInv s) (h : step s .closeSlot = some s') : SInv s' := by
  have hi := inv_reachable hr
  simp only [step] at h
  split at h
  · rename_i ha
    obtain ⟨hh0, hcond⟩ := anyApp_cond hr ha
    split at h
    · rename_i l hl
      cases h
      constructor
      · intro x hx
        rcases mem_closeFirst hl hx with hx | ⟨a, ha1, ha2, rfl⟩
        · exact hs.ok x hx
        · exact slotOk_closeSlot1 (hs.ok a ha1) ha2
      · intro _; exact ⟨hh0, hcond⟩
      · intro x hx hc ho hm hd0
        rcases mem_closeFirst hl hx with hx | ⟨a, ha1, ha2, rfl⟩
        · exact hs.g1 x hx hc ho hm hd0
        · simp only [closeSlot1] at ho hm ⊢
          have hf : s.fgLive = 0 := by simp only at hd0; omega
          have hh : held s.slots = 0 := by have := hi.heldle; omega
          have hg := held_zero hh a ha1 hm
          have := (hs.ok a ha1).gone ho (by simp [hg])
          simpa [ha2] using this
    · cases h
  · cases h

theorem sinv_step {e : Ev} (hr : Reachable cfg s) (hs : SInv s) (h : step s e = some s') : SInv s' := by
  have hi := inv_reachable hr
  have hmono := step_mono h
  cases e
  case «open» i m v0 => exact sinv_open hs h
  case waitBegin i => exact sinv_slot_events hi hs h trivial
  case waitPoll => exact sinv_slot_events hi hs h trivial
  case delay i => exact sinv_slot_events hi hs h trivial
  case gmut i v => exact sinv_slot_events hi hs h trivial
  case gSend i => exact sinv_slot_events hi hs h trivial
  case gRelease i => exact sinv_slot_events hi hs h trivial
  case closeSlot => exact sinv_closeSlot hr hs h
  all_goals
    refine sinv_same_slots hs ?_ hmono.1 hmono.2.1 hmono.2.2
    simp only [step, dropFG, finishInner] at h
    (repeat' split at h) <;> (try cases h) <;> (try simp) <;> rfl

theorem sinv_reachable {s : St} (hr : Reachable cfg s) : SInv s := by
  induction hr with
  | init => exact sinv_init cfg
  | step e hr' h ih => exact sinv_step hr' ih h

end KeepAlive
