import Model.Units
import Generated.Units
/-!
# C19 — declaring or converting a unit never changes the physical quantity reported

Layers
* `Generated.Units` — the tables of `unit.rs` as they are *now* (T-gen, rewritten on every check run);
* `Units` (Model/Units.lean) — the executable model (`ratioND`, `convert`, `withUnit`, …);
* `Units.Spec` (below) — the hand-written specification: SI prefixes, 1 byte = 8 bit, CloudWatch names.

`c19_generated_is_model` ties the first to the second, `c19_table_is_SI` the second to the third; the
remaining theorems are about the model with exact rational arithmetic (`ratArith`), for every value.
-/
namespace Units

-- ------------------------------------------------------------------------------------------------
-- hand-written specification

namespace Spec

/-- SI: micro = 10⁻⁶, milli = 10⁻³ (the exponent is negated) -/
def negExp : Neg → Nat
  | .micro => 6 | .milli => 3 | .one => 0

/-- SI: kilo = 10³, mega = 10⁶, giga = 10⁹, tera = 10¹² -/
def posExp : Pos → Nat
  | .one => 0 | .kilo => 3 | .mega => 6 | .giga => 9 | .tera => 12

/-- 1 byte = 8 bit -/
def bitsPerBase : Base → Nat
  | .byte => 8 | .bytePerSecond => 8 | .bit => 1 | .bitPerSecond => 1

/-- how many of the unit make one second -/
def perSecond (s : Neg) : Nat := 10 ^ negExp s

/-- how many bits (per second) one unit is -/
def bitsPer (b : Base) (s : Pos) : Nat := bitsPerBase b * 10 ^ posExp s

/-- size of one unit of the tag in its base unit: seconds for the time units, bits (or bits per
second) for the data units; 1 for the unitless tags -/
def scale : Tag → Rat
  | .second s => 1 / (perSecond s : Rat)
  | .data b s => (bitsPer b s : Rat)
  | _ => 1

/-- the unit names of the CloudWatch `MetricDatum` API -/
def cloudWatchName : Tag → List Char
  | .none => chars! "None"
  | .count => chars! "Count"
  | .percent => chars! "Percent"
  | .second .one => chars! "Seconds"
  | .second .milli => chars! "Milliseconds"
  | .second .micro => chars! "Microseconds"
  | .data .byte .one => chars! "Bytes"
  | .data .byte .kilo => chars! "Kilobytes"
  | .data .byte .mega => chars! "Megabytes"
  | .data .byte .giga => chars! "Gigabytes"
  | .data .byte .tera => chars! "Terabytes"
  | .data .bit .one => chars! "Bits"
  | .data .bit .kilo => chars! "Kilobits"
  | .data .bit .mega => chars! "Megabits"
  | .data .bit .giga => chars! "Gigabits"
  | .data .bit .tera => chars! "Terabits"
  | .data .bytePerSecond .one => chars! "Bytes/Second"
  | .data .bytePerSecond .kilo => chars! "Kilobytes/Second"
  | .data .bytePerSecond .mega => chars! "Megabytes/Second"
  | .data .bytePerSecond .giga => chars! "Gigabytes/Second"
  | .data .bytePerSecond .tera => chars! "Terabytes/Second"
  | .data .bitPerSecond .one => chars! "Bits/Second"
  | .data .bitPerSecond .kilo => chars! "Kilobits/Second"
  | .data .bitPerSecond .mega => chars! "Megabits/Second"
  | .data .bitPerSecond .giga => chars! "Gigabits/Second"
  | .data .bitPerSecond .tera => chars! "Terabits/Second"

/-- the documented `As…` alias of every tag -/
def aliasName : Tag → List Char
  | .none => chars! "AsNone"
  | .count => chars! "AsCount"
  | .percent => chars! "AsPercent"
  | .second .one => chars! "AsSeconds"
  | .second .milli => chars! "AsMilliseconds"
  | .second .micro => chars! "AsMicroseconds"
  | .data .byte .one => chars! "AsBytes"
  | .data .byte .kilo => chars! "AsKilobytes"
  | .data .byte .mega => chars! "AsMegabytes"
  | .data .byte .giga => chars! "AsGigabytes"
  | .data .byte .tera => chars! "AsTerabytes"
  | .data .bit .one => chars! "AsBits"
  | .data .bit .kilo => chars! "AsKilobits"
  | .data .bit .mega => chars! "AsMegabits"
  | .data .bit .giga => chars! "AsGigabits"
  | .data .bit .tera => chars! "AsTerabits"
  | .data .bytePerSecond .one => chars! "AsBytesPerSecond"
  | .data .bytePerSecond .kilo => chars! "AsKilobytesPerSecond"
  | .data .bytePerSecond .mega => chars! "AsMegabytesPerSecond"
  | .data .bytePerSecond .giga => chars! "AsGigabytesPerSecond"
  | .data .bytePerSecond .tera => chars! "AsTerabytesPerSecond"
  | .data .bitPerSecond .one => chars! "AsBitsPerSecond"
  | .data .bitPerSecond .kilo => chars! "AsKilobitsPerSecond"
  | .data .bitPerSecond .mega => chars! "AsMegabitsPerSecond"
  | .data .bitPerSecond .giga => chars! "AsGigabitsPerSecond"
  | .data .bitPerSecond .tera => chars! "AsTerabitsPerSecond"

end Spec

-- ------------------------------------------------------------------------------------------------
-- finite enumerations are complete

theorem Neg.mem_all (s : Neg) : s ∈ Neg.all := by cases s <;> decide
theorem Pos.mem_all (s : Pos) : s ∈ Pos.all := by cases s <;> decide
theorem Base.mem_all (b : Base) : b ∈ Base.all := by cases b <;> decide
theorem Tag.mem_all (t : Tag) : t ∈ Tag.all := by
  cases t with
  | none => decide
  | count => decide
  | percent => decide
  | second s => cases s <;> decide
  | data b s => cases b <;> cases s <;> decide

theorem mem_convertiblePairs {a b : Tag} (h : convertible a b = true) : (a, b) ∈ convertiblePairs := by
  unfold convertiblePairs
  simp only [List.mem_flatMap, List.mem_map, List.mem_filter]
  exact ⟨a, Tag.mem_all a, b, ⟨Tag.mem_all b, h⟩, rfl⟩

-- non-vacuity: 26 tags, 435 = 26 + 9 + 400 ordered convertible pairs
example : Tag.all.length = 26 := by decide
example : convertiblePairs.length = 435 := by decide +kernel
example : convertible .none .percent = true ∧ convertible (.second .one) (.second .micro) = true ∧
    convertible (.data .bit .tera) (.data .bytePerSecond .kilo) = true ∧
    convertible .count .count = false ∧ convertible (.second .one) (.data .bit .one) = false := by decide

-- ------------------------------------------------------------------------------------------------
-- T-gen: the tables of unit.rs are the model's

open Generated.Units in
/-- The regenerated tables of `unit.rs` / `primitive.rs` are exactly the model's: every scale factor,
every row of the three tag macros (struct, alias, unit variant, bits, scale), the direction of the
three `RATIO` formulas, every `Unit::name` string, and the unit/factor of `Duration`. -/
theorem c19_generated_is_model :
    (reductionFactor.length = 3 ∧ ∀ s : Neg, reductionFactor.lookup s.variant = some s.reductionFactor) ∧
    (expansionFactor.length = 5 ∧ ∀ s : Pos, expansionFactor.lookup s.variant = some s.expansionFactor) ∧
    (plainTags = [(Tag.none.rustName, Spec.aliasName .none, chars! "None"),
                  (Tag.count.rustName, Spec.aliasName .count, chars! "Count"),
                  (Tag.percent.rustName, Spec.aliasName .percent, chars! "Percent")]) ∧
    (timeTags.length = 3 ∧ ∀ s : Neg,
      timeTags.lookup (Tag.second s).rustName = some (Spec.aliasName (.second s), s.variant)) ∧
    (bitTags.length = 20 ∧ ∀ (b : Base) (s : Pos),
      bitTags.lookup (Tag.data b s).rustName = some (Spec.aliasName (.data b s), b.variant, b.bits, s.variant)) ∧
    (timeRatioIsTargetOverSelf = true ∧ bitRatioIsSelfOverTarget = true ∧ noneRatioIsOne = true) ∧
    (unitNames.length = 26 ∧
      unitNames.lookup (chars! "None") = some ([], Tag.none.name) ∧
      unitNames.lookup (chars! "Count") = some ([], Tag.count.name) ∧
      unitNames.lookup (chars! "Percent") = some ([], Tag.percent.name) ∧
      (∀ s : Neg, (chars! "Second", s.variant, (Tag.second s).name) ∈ unitNames) ∧
      (∀ (b : Base) (s : Pos), (b.variant, s.variant, (Tag.data b s).name) ∈ unitNames)) ∧
    (durationFactorScale = Neg.milli.variant ∧ durationUnitScale = Neg.milli.variant ∧
      durationTag = (Tag.second .milli).rustName) := by
  refine ⟨⟨by decide, ?_⟩, ⟨by decide, ?_⟩, by decide, ⟨by decide, ?_⟩, ⟨by decide, ?_⟩, by decide,
    ⟨by decide, by decide, by decide, by decide, ?_, ?_⟩, by decide⟩
  · intro s; cases s <;> decide
  · intro s; cases s <;> decide
  · intro s; cases s <;> decide
  · intro b s; cases b <;> cases s <;> decide +kernel
  · intro s; cases s <;> decide
  · intro b s; cases b <;> cases s <;> decide +kernel

/-- The model's constants are the SI ones: `reduction_factor`/`expansion_factor` are the powers of
ten of the prefixes, a byte is 8 bits — hence `FROM_SECONDS`, `FROM_BITS` are the specification's
`perSecond`, `bitsPer` — and `Unit::name` gives the CloudWatch names. -/
theorem c19_table_is_SI :
    (∀ s : Neg, s.reductionFactor = 10 ^ Spec.negExp s ∧ fromSeconds s = Spec.perSecond s) ∧
    (∀ s : Pos, s.expansionFactor = 10 ^ Spec.posExp s) ∧
    (∀ b : Base, b.bits = Spec.bitsPerBase b) ∧
    (∀ (b : Base) (s : Pos), fromBits b s = Spec.bitsPer b s) ∧
    (∀ t : Tag, t.name = Spec.cloudWatchName t) := by
  refine ⟨?_, ?_, ?_, ?_, ?_⟩
  · intro s; cases s <;> decide
  · intro s; cases s <;> decide
  · intro b; cases b <;> decide
  · intro b s; cases b <;> cases s <;> decide
  · intro t
    cases t with
    | none => decide
    | count => decide
    | percent => decide
    | second s => cases s <;> decide
    | data b s => cases b <;> cases s <;> decide

/-- Unit names identify the unit: no two tags share a name, and no two tags share a struct name. -/
theorem c19_unit_name_injective (a b : Tag) :
    (a.name = b.name → a = b) ∧ (a.rustName = b.rustName → a = b) := by
  have h : ∀ p ∈ Tag.all.flatMap (fun a => Tag.all.map (fun b => (a, b))),
      (p.1.name = p.2.name → p.1 = p.2) ∧ (p.1.rustName = p.2.rustName → p.1 = p.2) := by
    decide +kernel
  exact h (a, b) (by
    simp only [List.mem_flatMap, List.mem_map]
    exact ⟨a, Tag.mem_all a, b, Tag.mem_all b, rfl⟩)

-- ------------------------------------------------------------------------------------------------
-- exact ratios

theorem fromSeconds_pos (s : Neg) : 0 < fromSeconds s := by cases s <;> decide
theorem fromBits_pos (b : Base) (s : Pos) : 0 < fromBits b s := by cases b <;> cases s <;> decide

theorem natCast_ne_zero {n : Nat} (h : 0 < n) : (n : Rat) ≠ 0 := by
  intro h0
  have : n = 0 := by exact_mod_cast h0
  omega

theorem scale_second (s : Neg) : Spec.scale (.second s) = 1 / (fromSeconds s : Rat) := by
  simp only [Spec.scale, (c19_table_is_SI.1 s).2]

theorem scale_data (b : Base) (s : Pos) : Spec.scale (.data b s) = (fromBits b s : Rat) := by
  simp only [Spec.scale, c19_table_is_SI.2.2.2.1 b s]

/-- **The quantity is preserved.** For every convertible pair of units with a physical dimension and
every number `v`: `v` converted, read in the target unit, is the same quantity as `v` read in the
source unit. -/
theorem c19_quantity_preserved (a b : Tag) (h : convertible a b = true) (ha : a ≠ .none) (v : Rat) :
    v * ratioQ a b * Spec.scale b = v * Spec.scale a := by
  cases a with
  | none => exact absurd rfl ha
  | count => cases b <;> simp [convertible, ratioND] at h
  | percent => cases b <;> simp [convertible, ratioND] at h
  | second s =>
    cases b with
    | second t =>
      have hs := natCast_ne_zero (fromSeconds_pos s)
      have ht := natCast_ne_zero (fromSeconds_pos t)
      simp only [ratioQ, ratioND, scale_second]
      grind
    | _ => simp [convertible, ratioND] at h
  | data b₁ s₁ =>
    cases b with
    | data b₂ s₂ =>
      have h2 := natCast_ne_zero (fromBits_pos b₂ s₂)
      simp only [ratioQ, ratioND, scale_data]
      grind
    | _ => simp [convertible, ratioND] at h

/-- **Declaring a unit** on a unitless value (`None → U`, any `U`) leaves the number unchanged. -/
theorem c19_declare_keeps_number (b : Tag) (v : Rat) :
    convertible .none b = true ∧ ratioQ .none b = 1 ∧ v * ratioQ .none b = v := by
  refine ⟨rfl, ?_, ?_⟩ <;> simp [ratioQ, ratioND] <;> grind

theorem ratioQ_ne_zero (a b : Tag) (h : convertible a b = true) : ratioQ a b ≠ 0 := by
  cases a with
  | none => simp [ratioQ, ratioND]; grind
  | count => cases b <;> simp [convertible, ratioND] at h
  | percent => cases b <;> simp [convertible, ratioND] at h
  | second s =>
    cases b with
    | second t =>
      have hs := natCast_ne_zero (fromSeconds_pos s)
      have ht := natCast_ne_zero (fromSeconds_pos t)
      simp only [ratioQ, ratioND]
      grind
    | _ => simp [convertible, ratioND] at h
  | data b₁ s₁ =>
    cases b with
    | data b₂ s₂ =>
      have h1 := natCast_ne_zero (fromBits_pos b₁ s₁)
      have h2 := natCast_ne_zero (fromBits_pos b₂ s₂)
      simp only [ratioQ, ratioND]
      grind
    | _ => simp [convertible, ratioND] at h

/-- **A conversion composed with its inverse is the identity** (on numbers): whenever both
directions exist, the two ratios multiply to one. -/
theorem c19_inverse (a b : Tag) (hab : convertible a b = true) (hba : convertible b a = true) :
    ratioQ a b * ratioQ b a = 1 := by
  cases a with
  | none => cases b <;> simp [convertible, ratioND] at hba; simp [ratioQ, ratioND]; grind
  | count => cases b <;> simp [convertible, ratioND] at hab
  | percent => cases b <;> simp [convertible, ratioND] at hab
  | second s =>
    cases b with
    | second t =>
      have hs := natCast_ne_zero (fromSeconds_pos s)
      have ht := natCast_ne_zero (fromSeconds_pos t)
      simp only [ratioQ, ratioND]
      grind
    | _ => simp [convertible, ratioND] at hab
  | data b₁ s₁ =>
    cases b with
    | data b₂ s₂ =>
      have h1 := natCast_ne_zero (fromBits_pos b₁ s₁)
      have h2 := natCast_ne_zero (fromBits_pos b₂ s₂)
      simp only [ratioQ, ratioND]
      grind
    | _ => simp [convertible, ratioND] at hab

/-- Conversions compose: going through an intermediate unit is the direct conversion. -/
theorem c19_ratio_compose (a b c : Tag) (hab : convertible a b = true) (hbc : convertible b c = true)
    (ha : a ≠ .none) : convertible a c = true ∧ ratioQ a b * ratioQ b c = ratioQ a c := by
  cases a with
  | none => exact absurd rfl ha
  | count => cases b <;> simp [convertible, ratioND] at hab
  | percent => cases b <;> simp [convertible, ratioND] at hab
  | second s =>
    cases b with
    | second t =>
      cases c with
      | second u =>
        have hs := natCast_ne_zero (fromSeconds_pos s)
        have ht := natCast_ne_zero (fromSeconds_pos t)
        refine ⟨rfl, ?_⟩
        simp only [ratioQ, ratioND]
        grind
      | _ => simp [convertible, ratioND] at hbc
    | _ => simp [convertible, ratioND] at hab
  | data b₁ s₁ =>
    cases b with
    | data b₂ s₂ =>
      cases c with
      | data b₃ s₃ =>
        have h2 := natCast_ne_zero (fromBits_pos b₂ s₂)
        have h3 := natCast_ne_zero (fromBits_pos b₃ s₃)
        refine ⟨rfl, ?_⟩
        simp only [ratioQ, ratioND]
        grind
      | _ => simp [convertible, ratioND] at hbc
    | _ => simp [convertible, ratioND] at hab

-- ------------------------------------------------------------------------------------------------
-- observations

/-- `Convert::convert` on exact numbers -/
abbrev convertQ (a b : Tag) (o : Obs Rat) : Obs Rat := convert ratArith (ratioQ a b) o

theorem convert_total (r : Rat) (o : Obs Rat) :
    (convert ratArith r o).total ratArith = o.total ratArith * r := by
  unfold convert
  split
  · rename_i h
    have : r = 1 := by simpa [ratArith] using h
    subst this
    grind
  · cases o <;> simp [Obs.total, ratArith]

theorem convert_occurrences {α : Type} (A : Arith α) (r : α) (o : Obs α) :
    (convert A r o).occurrences = o.occurrences := by
  unfold convert
  split
  · rfl
  · cases o <;> rfl

/-- **Every kind of observation keeps its quantity and its weight**: unsigned, floating or
repeated, the converted observation read in the target unit is the original read in the source
unit, and the number of occurrences is untouched. -/
theorem c19_convert_quantity (a b : Tag) (h : convertible a b = true) (ha : a ≠ .none) (o : Obs Rat) :
    (convertQ a b o).total ratArith * Spec.scale b = o.total ratArith * Spec.scale a ∧
    (convertQ a b o).occurrences = o.occurrences := by
  refine ⟨?_, convert_occurrences _ _ _⟩
  rw [convertQ, convert_total]
  exact c19_quantity_preserved a b h ha _

/-- Declaring a unit on a unitless observation returns the observation itself. -/
theorem c19_declare_keeps_observation (b : Tag) (o : Obs Rat) : convertQ .none b o = o := by
  simp [convertQ, convert, ratioQ, ratioND, ratArith]
  intro h
  exact absurd (by grind) h

/-- there and back: `WithUnit<WithUnit<_, b>, a>` on one observation -/
abbrev roundTripQ (a b : Tag) (o : Obs Rat) : Obs Rat := convertQ b a (convertQ a b o)

/-- **Round trip on observations**: converting there and back returns the observation — a
floating or repeated one literally (occurrences untouched), an unsigned one either literally (ratio 1)
or as the floating observation of the same number. -/
theorem c19_convert_roundtrip (a b : Tag) (hab : convertible a b = true) (hba : convertible b a = true)
    (o : Obs Rat) :
    (roundTripQ a b o = o ∨ ∃ u, o = .unsigned u ∧ roundTripQ a b o = .floating (u : Rat)) ∧
    (roundTripQ a b o).total ratArith = o.total ratArith ∧
    (roundTripQ a b o).occurrences = o.occurrences := by
  have hinv := c19_inverse a b hab hba
  have hinv' : ratioQ b a * ratioQ a b = 1 := by grind
  unfold roundTripQ convertQ
  refine ⟨?_, ?_, ?_⟩
  · by_cases h1 : ratioQ a b = 1
    · have h2 : ratioQ b a = 1 := by rw [h1] at hinv; grind
      left
      simp [convert, ratArith, h1, h2]
    · have h2 : ratioQ b a ≠ 1 := by
        intro h2; rw [h2] at hinv; apply h1; grind
      cases o with
      | unsigned u =>
        right
        refine ⟨u, rfl, ?_⟩
        simp only [convert, ratArith, h1, h2, decide_false, Bool.false_eq_true, ↓reduceIte]
        congr 1
        rw [Rat.mul_assoc, hinv]; grind
      | floating f =>
        left
        simp only [convert, ratArith, h1, h2, decide_false, Bool.false_eq_true, ↓reduceIte]
        congr 1
        rw [Rat.mul_assoc, hinv]; grind
      | repeated t n =>
        left
        simp only [convert, ratArith, h1, h2, decide_false, Bool.false_eq_true, ↓reduceIte]
        congr 1
        rw [Rat.mul_assoc, hinv]; grind
  · rw [convert_total, convert_total, Rat.mul_assoc, hinv]; grind
  · rw [convert_occurrences, convert_occurrences]

-- non-vacuity: 1500 ms are 1.5 s; 5 Gbit in 3 occurrences are 625 MB in 3 occurrences
example : convertQ (.second .milli) (.second .one) (.unsigned 1500) = .floating (3 / 2) := by decide +kernel
example : convertQ (.data .bit .giga) (.data .byte .mega) (.repeated 5 3) = .repeated 625 3 := by decide +kernel

-- ------------------------------------------------------------------------------------------------
-- the `WithUnit` writer

variable {α : Type} (A : Arith α)

/-- **The emitted unit is the declared one, observations are converted one by one, dimensions pass
through** — when the wrapped value writes its promised unit. -/
theorem c19_with_unit_honest (r : α) (src dst : Tag) (obs : List (Obs α)) (dims : List (Nat × Nat)) :
    withUnit A r src dst (.metric obs src dims) = .metric (obs.map (convert A r)) dst dims := by
  simp [withUnit]

/-- **A metric comes out of `WithUnit` only in that way**: if `WithUnit<_, dst>` writes a metric
at all, its unit is `dst`, and the wrapped value wrote a metric with exactly the promised unit
`src`, whose observations were converted and whose dimensions were kept. -/
theorem c19_with_unit_metric_only_if (r : α) (src dst : Tag) (o : Out α) (obs' : List (Obs α)) (u : Tag)
    (dims' : List (Nat × Nat)) (h : withUnit A r src dst o = .metric obs' u dims') :
    u = dst ∧ ∃ obs, o = .metric obs src dims' ∧ obs' = obs.map (convert A r) := by
  cases o with
  | nothing => simp [withUnit] at h
  | str => simp [withUnit] at h
  | error es => simp [withUnit] at h
  | metric obs unit dims =>
    simp only [withUnit] at h
    split at h
    · simp at h
    · rename_i hu
      have hu : unit = src := by simpa using hu
      simp only [Out.metric.injEq] at h
      exact ⟨h.2.1.symm, obs, by rw [hu, h.2.2], h.1.symm⟩

/-- **Errors instead of wrongly scaled numbers**: a unit on a string, or a value that writes another
unit than it promised, yields a validation error (and, by `c19_with_unit_metric_only_if`, no metric);
an error of the wrapped value is passed on; a value that writes nothing still writes nothing. -/
theorem c19_errors (r : α) (src dst : Tag) :
    withUnit A r src dst .str = .error [.unitOnString] ∧
    (∀ obs unit dims, unit ≠ src →
      withUnit A r src dst (.metric obs unit dims) = .error [.mismatch src unit]) ∧
    (∀ es, withUnit A r src dst (.error es) = .error es) ∧
    withUnit A r src dst .nothing = .nothing := by
  refine ⟨rfl, ?_, fun _ => rfl, rfl⟩
  intro obs unit dims h
  simp [withUnit, h]

/-- `Option<V>` is transparent for units: `WithUnit<Option<V>, U>` and `Option<WithUnit<V, U>>`
write the same. -/
theorem c19_option_commutes (r : α) (src dst : Tag) (o : Option (Out α)) :
    withUnit A r src dst (optional o) = optional (o.map (withUnit A r src dst)) := by
  cases o <;> rfl

/-- Whole-value statement over exact numbers: a value of unit `a` that honestly writes `obs`,
wrapped in `WithUnit<_, b>`, writes the unit `b`, as many observations, each with the same quantity
and occurrences, and the same dimensions. -/
theorem c19_with_unit_quantity (a b : Tag) (h : convertible a b = true) (ha : a ≠ .none)
    (obs : List (Obs Rat)) (dims : List (Nat × Nat)) :
    ∃ obs', withUnit ratArith (ratioQ a b) a b (.metric obs a dims) = .metric obs' b dims ∧
      obs'.length = obs.length ∧
      ∀ i (hi : i < obs.length) (hi' : i < obs'.length),
        (obs'[i]).total ratArith * Spec.scale b = (obs[i]).total ratArith * Spec.scale a ∧
        (obs'[i]).occurrences = (obs[i]).occurrences := by
  refine ⟨obs.map (convertQ a b), c19_with_unit_honest _ _ _ _ _ _, by simp, ?_⟩
  intro i hi hi'
  simp only [List.getElem_map]
  exact c19_convert_quantity a b h ha _

/-- A full round trip `WithUnit<WithUnit<V, b>, a>` over an honest value writes the unit `a` and
the same totals and occurrences. -/
theorem c19_with_unit_roundtrip (a b : Tag) (hab : convertible a b = true) (hba : convertible b a = true)
    (obs : List (Obs Rat)) (dims : List (Nat × Nat)) :
    ∃ obs', withUnit ratArith (ratioQ b a) b a (withUnit ratArith (ratioQ a b) a b (.metric obs a dims))
        = .metric obs' a dims ∧
      obs'.map (Obs.total ratArith) = obs.map (Obs.total ratArith) ∧
      obs'.map Obs.occurrences = obs.map Obs.occurrences := by
  refine ⟨(obs.map (convertQ a b)).map (convertQ b a), ?_, ?_, ?_⟩
  · rw [c19_with_unit_honest, c19_with_unit_honest]
  · simp only [List.map_map]
    apply List.map_congr_left
    intro o _
    exact (c19_convert_roundtrip a b hab hba o).2.1
  · simp only [List.map_map]
    apply List.map_congr_left
    intro o _
    exact (c19_convert_roundtrip a b hab hba o).2.2

end Units

#print axioms Units.c19_generated_is_model
#print axioms Units.c19_table_is_SI
#print axioms Units.c19_unit_name_injective
#print axioms Units.c19_quantity_preserved
#print axioms Units.c19_declare_keeps_number
#print axioms Units.c19_inverse
#print axioms Units.c19_ratio_compose
#print axioms Units.c19_convert_quantity
#print axioms Units.c19_declare_keeps_observation
#print axioms Units.c19_convert_roundtrip
#print axioms Units.c19_with_unit_honest
#print axioms Units.c19_with_unit_metric_only_if
#print axioms Units.c19_errors
#print axioms Units.c19_option_commutes
#print axioms Units.c19_with_unit_quantity
#print axioms Units.c19_with_unit_roundtrip
