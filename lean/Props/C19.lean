import Model.Units
import Generated.Units
/-!
# C19 — declaring or converting a unit never changes the physical quantity reported
-/
namespace Units

-- ------------------------------------------------------------------------------------------------
-- finite enumerations are complete

theorem Neg.mem_all (s : Neg) : s ∈ Neg.all := by cases s <;> decide
theorem Pos.mem_all (s : Pos) : s ∈ Pos.all := by cases s <;> decide
theorem Base.mem_all (b : Base) : b ∈ Base.all := by cases b <;> decide
theorem Tag.mem_all (t : Tag) : t ∈ Tag.all := by
  cases t with
  | none => decide
  | count => decide
  | percent => decide
  | second s => cases s <;> decide
  | data b s => cases b <;> cases s <;> decide

example : Tag.all.length = 26 := by decide
example : convertiblePairs.length = 435 := by decide +kernel

end Units
