import Model.Units
import Generated.Units
/-!
# C19 — declaring or converting a unit never changes the physical quantity reported

Layers
* `Generated.Units` — the tables of `unit.rs` as they are *now* (T-gen, rewritten on every check run);
* `Units` (Model/Units.lean) — the executable model (`ratioND`, `convert`, `withUnit`, …);
* `Units.Spec` (below) — the hand-written specification: SI prefixes, 1 byte = 8 bit, CloudWatch names.

`c19_generated_is_model` ties the first to the second, `c19_table_is_SI` the second to the third; the
remaining theorems are about the model with exact rational arithmetic (`ratArith`), for every value.
-/
namespace Units

-- ------------------------------------------------------------------------------------------------
-- hand-written specification

namespace Spec

/-- SI: micro = 10⁻⁶, milli = 10⁻³ (the exponent is negated) -/
def negExp : Neg → Nat
  | .micro => 6 | .milli => 3 | .one => 0

/-- SI: kilo = 10³, mega = 10⁶, giga = 10⁹, tera = 10¹² -/
def posExp : Pos → Nat
  | .one => 0 | .kilo => 3 | .mega => 6 | .giga => 9 | .tera => 12

/-- 1 byte = 8 bit -/
def bitsPerBase : Base → Nat
  | .byte => 8 | .bytePerSecond => 8 | .bit => 1 | .bitPerSecond => 1

/-- how many of the unit make one second -/
def perSecond (s : Neg) : Nat := 10 ^ negExp s

/-- how many bits (per second) one unit is -/
def bitsPer (b : Base) (s : Pos) : Nat := bitsPerBase b * 10 ^ posExp s

/-- size of one unit of the tag in its base unit: seconds for the time units, bits (or bits per
second) for the data units; 1 for the unitless tags -/
def scale : Tag → Rat
  | .second s => 1 / (perSecond s : Rat)
  | .data b s => (bitsPer b s : Rat)
  | _ => 1

/-- the unit names of the CloudWatch `MetricDatum` API -/
def cloudWatchName : Tag → List Char
  | .none => chars! "None"
  | .count => chars! "Count"
  | .percent => chars! "Percent"
  | .second .one => chars! "Seconds"
  | .second .milli => chars! "Milliseconds"
  | .second .micro => chars! "Microseconds"
  | .data .byte .one => chars! "Bytes"
  | .data .byte .kilo => chars! "Kilobytes"
  | .data .byte .mega => chars! "Megabytes"
  | .data .byte .giga => chars! "Gigabytes"
  | .data .byte .tera => chars! "Terabytes"
  | .data .bit .one => chars! "Bits"
  | .data .bit .kilo => chars! "Kilobits"
  | .data .bit .mega => chars! "Megabits"
  | .data .bit .giga => chars! "Gigabits"
  | .data .bit .tera => chars! "Terabits"
  | .data .bytePerSecond .one => chars! "Bytes/Second"
  | .data .bytePerSecond .kilo => chars! "Kilobytes/Second"
  | .data .bytePerSecond .mega => chars! "Megabytes/Second"
  | .data .bytePerSecond .giga => chars! "Gigabytes/Second"
  | .data .bytePerSecond .tera => chars! "Terabytes/Second"
  | .data .bitPerSecond .one => chars! "Bits/Second"
  | .data .bitPerSecond .kilo => chars! "Kilobits/Second"
  | .data .bitPerSecond .mega => chars! "Megabits/Second"
  | .data .bitPerSecond .giga => chars! "Gigabits/Second"
  | .data .bitPerSecond .tera => chars! "Terabits/Second"

/-- the documented `As…` alias of every tag -/
def aliasName : Tag → List Char
  | .none => chars! "AsNone"
  | .count => chars! "AsCount"
  | .percent => chars! "AsPercent"
  | .second .one => chars! "AsSeconds"
  | .second .milli => chars! "AsMilliseconds"
  | .second .micro => chars! "AsMicroseconds"
  | .data .byte .one => chars! "AsBytes"
  | .data .byte .kilo => chars! "AsKilobytes"
  | .data .byte .mega => chars! "AsMegabytes"
  | .data .byte .giga => chars! "AsGigabytes"
  | .data .byte .tera => chars! "AsTerabytes"
  | .data .bit .one => chars! "AsBits"
  | .data .bit .kilo => chars! "AsKilobits"
  | .data .bit .mega => chars! "AsMegabits"
  | .data .bit .giga => chars! "AsGigabits"
  | .data .bit .tera => chars! "AsTerabits"
  | .data .bytePerSecond .one => chars! "AsBytesPerSecond"
  | .data .bytePerSecond .kilo => chars! "AsKilobytesPerSecond"
  | .data .bytePerSecond .mega => chars! "AsMegabytesPerSecond"
  | .data .bytePerSecond .giga => chars! "AsGigabytesPerSecond"
  | .data .bytePerSecond .tera => chars! "AsTerabytesPerSecond"
  | .data .bitPerSecond .one => chars! "AsBitsPerSecond"
  | .data .bitPerSecond .kilo => chars! "AsKilobitsPerSecond"
  | .data .bitPerSecond .mega => chars! "AsMegabitsPerSecond"
  | .data .bitPerSecond .giga => chars! "AsGigabitsPerSecond"
  | .data .bitPerSecond .tera => chars! "AsTerabitsPerSecond"

end Spec

-- ------------------------------------------------------------------------------------------------
-- finite enumerations are complete

theorem Neg.mem_all (s : Neg) : s ∈ Neg.all := by cases s <;> decide
theorem Pos.mem_all (s : Pos) : s ∈ Pos.all := by cases s <;> decide
theorem Base.mem_all (b : Base) : b ∈ Base.all := by cases b <;> decide
theorem Tag.mem_all (t : Tag) : t ∈ Tag.all := by
  cases t with
  | none => decide
  | count => decide
  | percent => decide
  | second s => cases s <;> decide
  | data b s => cases b <;> cases s <;> decide

theorem mem_convertiblePairs {a b : Tag} (h : convertible a b = true) : (a, b) ∈ convertiblePairs := by
  unfold convertiblePairs
  simp only [List.mem_flatMap, List.mem_map, List.mem_filter]
  exact ⟨a, Tag.mem_all a, b, ⟨Tag.mem_all b, h⟩, rfl⟩

-- non-vacuity: 26 tags, 435 = 26 + 9 + 400 ordered convertible pairs
example : Tag.all.length = 26 := by decide
example : convertiblePairs.length = 435 := by decide +kernel
example : convertible .none .percent = true ∧ convertible (.second .one) (.second .micro) = true ∧
    convertible (.data .bit .tera) (.data .bytePerSecond .kilo) = true ∧
    convertible .count .count = false ∧ convertible (.second .one) (.data .bit .one) = false := by decide

-- ------------------------------------------------------------------------------------------------
-- T-gen: the tables of unit.rs are the model's

open Generated.Units in
/-- The regenerated tables of `unit.rs` / `primitive.rs` are exactly the model's: every scale factor,
every row of the three tag macros (struct, alias, unit variant, bits, scale), the direction of the
three `RATIO` formulas, every `Unit::name` string, and the unit/factor of `Duration`. -/
theorem c19_generated_is_model :
    (reductionFactor.length = 3 ∧ ∀ s : Neg, reductionFactor.lookup s.variant = some s.reductionFactor) ∧
    (expansionFactor.length = 5 ∧ ∀ s : Pos, expansionFactor.lookup s.variant = some s.expansionFactor) ∧
    (plainTags = [(Tag.none.rustName, Spec.aliasName .none, chars! "None"),
                  (Tag.count.rustName, Spec.aliasName .count, chars! "Count"),
                  (Tag.percent.rustName, Spec.aliasName .percent, chars! "Percent")]) ∧
    (timeTags.length = 3 ∧ ∀ s : Neg,
      timeTags.lookup (Tag.second s).rustName = some (Spec.aliasName (.second s), s.variant)) ∧
    (bitTags.length = 20 ∧ ∀ (b : Base) (s : Pos),
      bitTags.lookup (Tag.data b s).rustName = some (Spec.aliasName (.data b s), b.variant, b.bits, s.variant)) ∧
    (timeRatioIsTargetOverSelf = true ∧ bitRatioIsSelfOverTarget = true ∧ noneRatioIsOne = true) ∧
    (unitNames.length = 26 ∧
      unitNames.lookup (chars! "None") = some ([], Tag.none.name) ∧
      unitNames.lookup (chars! "Count") = some ([], Tag.count.name) ∧
      unitNames.lookup (chars! "Percent") = some ([], Tag.percent.name) ∧
      (∀ s : Neg, (chars! "Second", s.variant, (Tag.second s).name) ∈ unitNames) ∧
      (∀ (b : Base) (s : Pos), (b.variant, s.variant, (Tag.data b s).name) ∈ unitNames)) ∧
    (durationFactorScale = Neg.milli.variant ∧ durationUnitScale = Neg.milli.variant ∧
      durationTag = (Tag.second .milli).rustName) := by
  refine ⟨⟨by decide, ?_⟩, ⟨by decide, ?_⟩, by decide, ⟨by decide, ?_⟩, ⟨by decide, ?_⟩, by decide,
    ⟨by decide, by decide, by decide, by decide, ?_, ?_⟩, by decide⟩
  · intro s; cases s <;> decide
  · intro s; cases s <;> decide
  · intro s; cases s <;> decide
  · intro b s; cases b <;> cases s <;> decide +kernel
  · intro s; cases s <;> decide
  · intro b s; cases b <;> cases s <;> decide +kernel

/-- The model's constants are the SI ones: `reduction_factor`/`expansion_factor` are the powers of
ten of the prefixes, a byte is 8 bits — hence `FROM_SECONDS`, `FROM_BITS` are the specification's
`perSecond`, `bitsPer` — and `Unit::name` gives the CloudWatch names. -/
theorem c19_table_is_SI :
    (∀ s : Neg, s.reductionFactor = 10 ^ Spec.negExp s ∧ fromSeconds s = Spec.perSecond s) ∧
    (∀ s : Pos, s.expansionFactor = 10 ^ Spec.posExp s) ∧
    (∀ b : Base, b.bits = Spec.bitsPerBase b) ∧
    (∀ (b : Base) (s : Pos), fromBits b s = Spec.bitsPer b s) ∧
    (∀ t : Tag, t.name = Spec.cloudWatchName t) := by
  refine ⟨?_, ?_, ?_, ?_, ?_⟩
  · intro s; cases s <;> decide
  · intro s; cases s <;> decide
  · intro b; cases b <;> decide
  · intro b s; cases b <;> cases s <;> decide
  · intro t
    cases t with
    | none => decide
    | count => decide
    | percent => decide
    | second s => cases s <;> decide
    | data b s => cases b <;> cases s <;> decide

/-- Unit names identify the unit: no two tags share a name, and no two tags share a struct name. -/
theorem c19_unit_name_injective (a b : Tag) :
    (a.name = b.name → a = b) ∧ (a.rustName = b.rustName → a = b) := by
  have h : ∀ p ∈ Tag.all.flatMap (fun a => Tag.all.map (fun b => (a, b))),
      (p.1.name = p.2.name → p.1 = p.2) ∧ (p.1.rustName = p.2.rustName → p.1 = p.2) := by
    decide +kernel
  exact h (a, b) (by
    simp only [List.mem_flatMap, List.mem_map]
    exact ⟨a, Tag.mem_all a, b, Tag.mem_all b, rfl⟩)

-- ------------------------------------------------------------------------------------------------
-- exact ratios

theorem fromSeconds_pos (s : Neg) : 0 < fromSeconds s := by cases s <;> decide
theorem fromBits_pos (b : Base) (s : Pos) : 0 < fromBits b s := by cases b <;> cases s <;> decide

theorem natCast_ne_zero {n : Nat} (h : 0 < n) : (n : Rat) ≠ 0 := by
  intro h0
  have : n = 0 := by exact_mod_cast h0
  omega

theorem scale_second (s : Neg) : Spec.scale (.second s) = 1 / (fromSeconds s : Rat) := by
  simp only [Spec.scale, (c19_table_is_SI.1 s).2]

theorem scale_data (b : Base) (s : Pos) : Spec.scale (.data b s) = (fromBits b s : Rat) := by
  simp only [Spec.scale, c19_table_is_SI.2.2.2.1 b s]

/-- **The quantity is preserved.** For every convertible pair of units with a physical dimension and
every number `v`: `v` converted, read in the target unit, is the same quantity as `v` read in the
source unit. -/
theorem c19_quantity_preserved (a b : Tag) (h : convertible a b = true) (ha : a ≠ .none) (v : Rat) :
    v * ratioQ a b * Spec.scale b = v * Spec.scale a := by
  cases a with
  | none => exact absurd rfl ha
  | count => cases b <;> simp [convertible, ratioND] at h
  | percent => cases b <;> simp [convertible, ratioND] at h
  | second s =>
    cases b with
    | second t =>
      have hs := natCast_ne_zero (fromSeconds_pos s)
      have ht := natCast_ne_zero (fromSeconds_pos t)
      simp only [ratioQ, ratioND, scale_second]
      grind
    | _ => simp [convertible, ratioND] at h
  | data b₁ s₁ =>
    cases b with
    | data b₂ s₂ =>
      have h2 := natCast_ne_zero (fromBits_pos b₂ s₂)
      simp only [ratioQ, ratioND, scale_data]
      grind
    | _ => simp [convertible, ratioND] at h

/-- **Declaring a unit** on a unitless value (`None → U`, any `U`) leaves the number unchanged. -/
theorem c19_declare_keeps_number (b : Tag) (v : Rat) :
    convertible .none b = true ∧ ratioQ .none b = 1 ∧ v * ratioQ .none b = v := by
  refine ⟨rfl, ?_, ?_⟩ <;> simp [ratioQ, ratioND] <;> grind

theorem ratioQ_ne_zero (a b : Tag) (h : convertible a b = true) : ratioQ a b ≠ 0 := by
  cases a with
  | none => simp [ratioQ, ratioND]; grind
  | count => cases b <;> simp [convertible, ratioND] at h
  | percent => cases b <;> simp [convertible, ratioND] at h
  | second s =>
    cases b with
    | second t =>
      have hs := natCast_ne_zero (fromSeconds_pos s)
      have ht := natCast_ne_zero (fromSeconds_pos t)
      simp only [ratioQ, ratioND]
      grind
    | _ => simp [convertible, ratioND] at h
  | data b₁ s₁ =>
    cases b with
    | data b₂ s₂ =>
      have h1 := natCast_ne_zero (fromBits_pos b₁ s₁)
      have h2 := natCast_ne_zero (fromBits_pos b₂ s₂)
      simp only [ratioQ, ratioND]
      grind
    | _ => simp [convertible, ratioND] at h

/-- **A conversion composed with its inverse is the identity** (on numbers): whenever both
directions exist, the two ratios multiply to one. -/
theorem c19_inverse (a b : Tag) (hab : convertible a b = true) (hba : convertible b a = true) :
    ratioQ a b * ratioQ b a = 1 := by
  cases a with
  | none => cases b <;> simp [convertible, ratioND] at hba; simp [ratioQ, ratioND]; grind
  | count => cases b <;> simp [convertible, ratioND] at hab
  | percent => cases b <;> simp [convertible, ratioND] at hab
  | second s =>
    cases b with
    | second t =>
      have hs := natCast_ne_zero (fromSeconds_pos s)
      have ht := natCast_ne_zero (fromSeconds_pos t)
      simp only [ratioQ, ratioND]
      grind
    | _ => simp [convertible, ratioND] at hab
  | data b₁ s₁ =>
    cases b with
    | data b₂ s₂ =>
      have h1 := natCast_ne_zero (fromBits_pos b₁ s₁)
      have h2 := natCast_ne_zero (fromBits_pos b₂ s₂)
      simp only [ratioQ, ratioND]
      grind
    | _ => simp [convertible, ratioND] at hab

/-- Conversions compose: going through an intermediate unit is the direct conversion. -/
theorem c19_ratio_compose (a b c : Tag) (hab : convertible a b = true) (hbc : convertible b c = true)
    (ha : a ≠ .none) : convertible a c = true ∧ ratioQ a b * ratioQ b c = ratioQ a c := by
  cases a with
  | none => exact absurd rfl ha
  | count => cases b <;> simp [convertible, ratioND] at hab
  | percent => cases b <;> simp [convertible, ratioND] at hab
  | second s =>
    cases b with
    | second t =>
      cases c with
      | second u =>
        have hs := natCast_ne_zero (fromSeconds_pos s)
        have ht := natCast_ne_zero (fromSeconds_pos t)
        refine ⟨rfl, ?_⟩
        simp only [ratioQ, ratioND]
        grind
      | _ => simp [convertible, ratioND] at hbc
    | _ => simp [convertible, ratioND] at hab
  | data b₁ s₁ =>
    cases b with
    | data b₂ s₂ =>
      cases c with
      | data b₃ s₃ =>
        have h2 := natCast_ne_zero (fromBits_pos b₂ s₂)
        have h3 := natCast_ne_zero (fromBits_pos b₃ s₃)
        refine ⟨rfl, ?_⟩
        simp only [ratioQ, ratioND]
        grind
      | _ => simp [convertible, ratioND] at hbc
    | _ => simp [convertible, ratioND] at hab

-- ------------------------------------------------------------------------------------------------
-- observations

/-- `Convert::convert` on exact numbers -/
abbrev convertQ (a b : Tag) (o : Obs Rat) : Obs Rat := convert ratArith (ratioQ a b) o

theorem convert_total (r : Rat) (o : Obs Rat) :
    (convert ratArith r o).total ratArith = o.total ratArith * r := by
  unfold convert
  split
  · rename_i h
    have : r = 1 := by simpa [ratArith] using h
    subst this
    grind
  · cases o <;> simp [Obs.total, ratArith]

theorem convert_occurrences {α : Type} (A : Arith α) (r : α) (o : Obs α) :
    (convert A r o).occurrences = o.occurrences := by
  unfold convert
  split
  · rfl
  · cases o <;> rfl

/-- **Every kind of observation keeps its quantity and its weight**: unsigned, floating or
repeated, the converted observation read in the target unit is the original read in the source
unit, and the number of occurrences is untouched. -/
theorem c19_convert_quantity (a b : Tag) (h : convertible a b = true) (ha : a ≠ .none) (o : Obs Rat) :
    (convertQ a b o).total ratArith * Spec.scale b = o.total ratArith * Spec.scale a ∧
    (convertQ a b o).occurrences = o.occurrences := by
  refine ⟨?_, convert_occurrences _ _ _⟩
  rw [convertQ, convert_total]
  exact c19_quantity_preserved a b h ha _

/-- Declaring a unit on a unitless observation returns the observation itself. -/
theorem c19_declare_keeps_observation (b : Tag) (o : Obs Rat) : convertQ .none b o = o := by
  simp [convertQ, convert, ratioQ, ratioND, ratArith]
  intro h
  exact absurd (by grind) h

/-- there and back: `WithUnit<WithUnit<_, b>, a>` on one observation -/
abbrev roundTripQ (a b : Tag) (o : Obs Rat) : Obs Rat := convertQ b a (convertQ a b o)

/-- **Round trip on observations**: converting there and back returns the observation — a
floating or repeated one literally (occurrences untouched), an unsigned one either literally (ratio 1)
or as the floating observation of the same number. -/
theorem c19_convert_roundtrip (a b : Tag) (hab : convertible a b = true) (hba : convertible b a = true)
    (o : Obs Rat) :
    (roundTripQ a b o = o ∨ ∃ u, o = .unsigned u ∧ roundTripQ a b o = .floating (u : Rat)) ∧
    (roundTripQ a b o).total ratArith = o.total ratArith ∧
    (roundTripQ a b o).occurrences = o.occurrences := by
  have hinv := c19_inverse a b hab hba
  have hinv' : ratioQ b a * ratioQ a b = 1 := by grind
  unfold roundTripQ convertQ
  refine ⟨?_, ?_, ?_⟩
  · by_cases h1 : ratioQ a b = 1
    · have h2 : ratioQ b a = 1 := by rw [h1] at hinv; grind
      left
      simp [convert, ratArith, h1, h2]
    · have h2 : ratioQ b a ≠ 1 := by
        intro h2; rw [h2] at hinv; apply h1; grind
      cases o with
      | unsigned u =>
        right
        refine ⟨u, rfl, ?_⟩
        simp only [convert, ratArith, h1, h2, decide_false, Bool.false_eq_true, ↓reduceIte]
        congr 1
        rw [Rat.mul_assoc, hinv]; grind
      | floating f =>
        left
        simp only [convert, ratArith, h1, h2, decide_false, Bool.false_eq_true, ↓reduceIte]
        congr 1
        rw [Rat.mul_assoc, hinv]; grind
      | repeated t n =>
        left
        simp only [convert, ratArith, h1, h2, decide_false, Bool.false_eq_true, ↓reduceIte]
        congr 1
        rw [Rat.mul_assoc, hinv]; grind
  · rw [convert_total, convert_total, Rat.mul_assoc, hinv]; grind
  · rw [convert_occurrences, convert_occurrences]

-- non-vacuity: 1500 ms are 1.5 s; 5 Gbit in 3 occurrences are 625 MB in 3 occurrences
example : convertQ (.second .milli) (.second .one) (.unsigned 1500) = .floating (3 / 2) := by decide +kernel
example : convertQ (.data .bit .giga) (.data .byte .mega) (.repeated 5 3) = .repeated 625 3 := by decide +kernel

-- ------------------------------------------------------------------------------------------------
-- the `WithUnit` writer

variable {α : Type} (A : Arith α)

/-- **The emitted unit is the declared one, observations are converted one by one, dimensions pass
through** — when the wrapped value writes its promised unit. -/
theorem c19_with_unit_honest (r : α) (src dst : Tag) (obs : List (Obs α)) (dims : List (Nat × Nat)) :
    withUnit A r src dst (.metric obs src dims) = .metric (obs.map (convert A r)) dst dims := by
  simp [withUnit]

/-- **A metric comes out of `WithUnit` only in that way**: if `WithUnit<_, dst>` writes a metric
at all, its unit is `dst`, and the wrapped value wrote a metric with exactly the promised unit
`src`, whose observations were converted and whose dimensions were kept. -/
theorem c19_with_unit_metric_only_if (r : α) (src dst : Tag) (o : Out α) (obs' : List (Obs α)) (u : Tag)
    (dims' : List (Nat × Nat)) (h : withUnit A r src dst o = .metric obs' u dims') :
    u = dst ∧ ∃ obs, o = .metric obs src dims' ∧ obs' = obs.map (convert A r) := by
  cases o with
  | nothing => simp [withUnit] at h
  | str => simp [withUnit] at h
  | error es => simp [withUnit] at h
  | metric obs unit dims =>
    simp only [withUnit] at h
    split at h
    · simp at h
    · rename_i hu
      have hu : unit = src := by simpa using hu
      simp only [Out.metric.injEq] at h
      exact ⟨h.2.1.symm, obs, by rw [hu, h.2.2], h.1.symm⟩

/-- **Errors instead of wrongly scaled numbers**: a unit on a string, or a value that writes another
unit than it promised, yields a validation error (and, by `c19_with_unit_metric_only_if`, no metric);
an error of the wrapped value is passed on; a value that writes nothing still writes nothing. -/
theorem c19_errors (r : α) (src dst : Tag) :
    withUnit A r src dst .str = .error [.unitOnString] ∧
    (∀ obs unit dims, unit ≠ src →
      withUnit A r src dst (.metric obs unit dims) = .error [.mismatch src unit]) ∧
    (∀ es, withUnit A r src dst (.error es) = .error es) ∧
    withUnit A r src dst .nothing = .nothing := by
  refine ⟨rfl, ?_, fun _ => rfl, rfl⟩
  intro obs unit dims h
  simp [withUnit, h]

/-- `Option<V>` is transparent for units: `WithUnit<Option<V>, U>` and `Option<WithUnit<V, U>>`
write the same. -/
theorem c19_option_commutes (r : α) (src dst : Tag) (o : Option (Out α)) :
    withUnit A r src dst (optional o) = optional (o.map (withUnit A r src dst)) := by
  cases o <;> rfl

/-- Whole-value statement over exact numbers: a value of unit `a` that honestly writes `obs`,
wrapped in `WithUnit<_, b>`, writes the unit `b`, as many observations, each with the same quantity
and occurrences, and the same dimensions. -/
theorem c19_with_unit_quantity (a b : Tag) (h : convertible a b = true) (ha : a ≠ .none)
    (obs : List (Obs Rat)) (dims : List (Nat × Nat)) :
    ∃ obs', withUnit ratArith (ratioQ a b) a b (.metric obs a dims) = .metric obs' b dims ∧
      obs'.length = obs.length ∧
      ∀ i (hi : i < obs.length) (hi' : i < obs'.length),
        (obs'[i]).total ratArith * Spec.scale b = (obs[i]).total ratArith * Spec.scale a ∧
        (obs'[i]).occurrences = (obs[i]).occurrences := by
  refine ⟨obs.map (convertQ a b), c19_with_unit_honest _ _ _ _ _ _, by simp, ?_⟩
  intro i hi hi'
  simp only [List.getElem_map]
  exact c19_convert_quantity a b h ha _

/-- A full round trip `WithUnit<WithUnit<V, b>, a>` over an honest value writes the unit `a` and
the same totals and occurrences. -/
theorem c19_with_unit_roundtrip (a b : Tag) (hab : convertible a b = true) (hba : convertible b a = true)
    (obs : List (Obs Rat)) (dims : List (Nat × Nat)) :
    ∃ obs', withUnit ratArith (ratioQ b a) b a (withUnit ratArith (ratioQ a b) a b (.metric obs a dims))
        = .metric obs' a dims ∧
      obs'.map (Obs.total ratArith) = obs.map (Obs.total ratArith) ∧
      obs'.map Obs.occurrences = obs.map Obs.occurrences := by
  refine ⟨(obs.map (convertQ a b)).map (convertQ b a), ?_, ?_, ?_⟩
  · rw [c19_with_unit_honest, c19_with_unit_honest]
  · simp only [List.map_map]
    apply List.map_congr_left
    intro o _
    exact (c19_convert_roundtrip a b hab hba o).2.1
  · simp only [List.map_map]
    apply List.map_congr_left
    intro o _
    exact (c19_convert_roundtrip a b hab hba o).2.2

-- ------------------------------------------------------------------------------------------------
-- `Distribution`, `Mean`

/-- the outputs of honest values of unit `u` without dimensions -/
def honest (u : Tag) (obss : List (List (Obs α))) : List (Out α) := obss.map (fun os => .metric os u [])

theorem collect_honest (u : Tag) (obss : List (List (Obs α))) :
    collect u (honest u obss) = ([], obss.flatten) := by
  induction obss with
  | nil => rfl
  | cons os rest ih =>
    simp only [honest, List.map_cons, collect] at ih ⊢
    rw [ih]
    simp

/-- A distribution of honest values writes all their observations, in order, with the common unit. -/
theorem c19_distribution_honest (u : Tag) (obss : List (List (Obs α))) (hne : obss ≠ []) :
    distribution u (honest u obss) = .metric obss.flatten u [] := by
  have : (honest u obss).isEmpty = false := by
    cases obss with
    | nil => exact absurd rfl hne
    | cons _ _ => rfl
  simp [distribution, this, collect_honest]

/-- **Conversion commutes with collection**: `WithUnit<Distribution<V>, b>` and
`Distribution<WithUnit<V, b>>` write the same metric — the converted observations, unit `b`. -/
theorem c19_distribution_commutes (r : α) (a b : Tag) (obss : List (List (Obs α))) (hne : obss ≠ []) :
    withUnit A r a b (distribution a (honest a obss)) = .metric (obss.flatten.map (convert A r)) b [] ∧
    distribution b ((honest a obss).map (withUnit A r a b)) = .metric (obss.flatten.map (convert A r)) b [] := by
  constructor
  · rw [c19_distribution_honest a obss hne, c19_with_unit_honest]
  · have h : (honest a obss).map (withUnit A r a b) = honest b (obss.map (List.map (convert A r))) := by
      simp [honest, c19_with_unit_honest]
    rw [h, c19_distribution_honest b _ (by simpa using hne), List.map_flatten]

theorem collect_errors_of_mem (u : Tag) (elems : List (Out α)) (o : Out α) (hmem : o ∈ elems)
    (hbad : o = .str ∨ ∃ obs unit dims, o = .metric obs unit dims ∧ unit ≠ u) :
    (collect u elems).1 ≠ [] := by
  induction elems with
  | nil => cases hmem
  | cons e rest ih =>
    simp only [collect]
    rcases List.mem_cons.mp hmem with rfl | hrest
    · rcases hbad with rfl | ⟨obs, unit, dims, rfl, hne⟩
      · simp
      · simp [hne]
    · have := ih hrest
      cases e with
      | nothing => simpa using this
      | str => simp
      | metric obs unit dims =>
        by_cases h1 : unit ≠ u
        · simp [h1]
        · by_cases h2 : dims ≠ []
          · simp [h1, h2]
          · simpa [h1, h2] using this
      | error es => simp [this]

/-- **A distribution containing a string or a value of another unit is an error, not a metric.** -/
theorem c19_distribution_errors (u : Tag) (elems : List (Out α)) (o : Out α) (hmem : o ∈ elems)
    (hbad : o = .str ∨ ∃ obs unit dims, o = .metric obs unit dims ∧ unit ≠ u) :
    ∃ es, es ≠ [] ∧ distribution u elems = .error es := by
  have hne : elems.isEmpty = false := by
    cases elems with
    | nil => cases hmem
    | cons _ _ => rfl
  have h := collect_errors_of_mem u elems o hmem hbad
  refine ⟨(collect u elems).1, h, ?_⟩
  simp only [distribution, hne, Bool.false_eq_true, ↓reduceIte]
  cases hc : collect u elems with
  | mk es os =>
    have : es ≠ [] := by simpa [hc] using h
    simp [this]

/-- sums of an honest list of observation lists -/
def sumTotal (obss : List (List (Obs Rat))) : Rat := (obss.flatten.map (Obs.total ratArith)).sum
def sumOcc {α : Type} (obss : List (List (Obs α))) : Nat := (obss.flatten.map Obs.occurrences).sum

theorem foldl_mean (os : List (Obs Rat)) (st : MeanSt Rat) :
    os.foldl (fun (st : MeanSt Rat) ob => (ratArith.add st.1 (Obs.total ratArith ob), st.2 + ob.occurrences)) st
      = (st.1 + (os.map (Obs.total ratArith)).sum, st.2 + (os.map Obs.occurrences).sum) := by
  induction os generalizing st with
  | nil => obtain ⟨t, n⟩ := st; simp [Rat.add_zero]
  | cons o rest ih =>
    simp only [List.foldl_cons, List.map_cons, List.sum_cons]
    rw [ih]
    simp only [ratArith]
    congr 1
    · grind
    · omega

/-- `Mean::try_new` over honest values: the total is the sum of the totals and the occurrences are
the sum of the occurrences. -/
theorem mean_honest (u : Tag) (obss : List (List (Obs Rat))) (st : MeanSt Rat) :
    meanTryExtend ratArith u st (honest u obss) = .ok (st.1 + sumTotal obss, st.2 + sumOcc obss) := by
  induction obss generalizing st with
  | nil => obtain ⟨t, n⟩ := st; simp [honest, meanTryExtend, sumTotal, sumOcc, Rat.add_zero]
  | cons os rest ih =>
    have hc : collect u [Out.metric os u ([] : List (Nat × Nat))] = (([] : List Err), os) := by
      simp [collect]
    simp only [honest, List.map_cons, meanTryExtend, meanRecord, hc] at ih ⊢
    rw [foldl_mean, ih]
    simp only [sumTotal, sumOcc, List.flatten_cons, List.map_append, List.sum_append]
    congr 1
    ext
    · simp only; grind
    · simp only; omega

theorem sum_map_mul (l : List Rat) (r : Rat) : (l.map (· * r)).sum = l.sum * r := by
  induction l with
  | nil => simp
  | cons x xs ih => simp only [List.map_cons, List.sum_cons, ih]; grind

/-- **A mean keeps the quantity**: for honest values of unit `a`, `WithUnit<Mean<a>, b>` and
`Mean<b>` over the individually converted values write the same repeated observation; its
occurrences are the sum of the occurrences and its total, read in `b`, is the sum of the totals read
in `a`. -/
theorem c19_mean_quantity (a b : Tag) (h : convertible a b = true) (ha : a ≠ .none)
    (obss : List (List (Obs Rat))) (hpos : 0 < sumOcc obss) :
    ∃ total',
      (meanTryExtend ratArith a (0, 0) (honest a obss)).map (fun st => withUnit ratArith (ratioQ a b) a b (meanWrite a st))
        = .ok (.metric [.repeated total' (sumOcc obss)] b []) ∧
      (meanTryExtend ratArith b (0, 0) ((honest a obss).map (withUnit ratArith (ratioQ a b) a b))).map (meanWrite b)
        = .ok (.metric [.repeated total' (sumOcc obss)] b []) ∧
      total' * Spec.scale b = sumTotal obss * Spec.scale a := by
  refine ⟨sumTotal obss * ratioQ a b, ?_, ?_, c19_quantity_preserved a b h ha _⟩
  · rw [mean_honest]
    simp only [Except.map, meanWrite, Nat.zero_add, hpos, ↓reduceIte, c19_with_unit_honest, List.map_cons,
      List.map_nil]
    congr 3
    have hz : (0 : Rat) + sumTotal obss = sumTotal obss := by grind
    rw [hz]
    unfold convert
    split
    · rename_i h1
      have : ratioQ a b = 1 := by simpa [ratArith] using h1
      rw [this]; congr 1; grind
    · rfl
  · have hm : (honest a obss).map (withUnit ratArith (ratioQ a b) a b)
        = honest b (obss.map (List.map (convertQ a b))) := by
      simp [honest, c19_with_unit_honest]
    rw [hm, mean_honest]
    have hocc : sumOcc (obss.map (List.map (convertQ a b))) = sumOcc obss := by
      simp only [sumOcc, ← List.map_flatten, List.map_map]
      congr 1
      apply List.map_congr_left
      intro o _
      exact convert_occurrences _ _ _
    have htot : sumTotal (obss.map (List.map (convertQ a b))) = sumTotal obss * ratioQ a b := by
      simp only [sumTotal, ← List.map_flatten, List.map_map]
      rw [← sum_map_mul, List.map_map]
      congr 1
      apply List.map_congr_left
      intro o _
      exact convert_total _ _
    simp only [Except.map, meanWrite, Nat.zero_add, hocc, htot, hpos, ↓reduceIte]
    congr 4
    grind

/-- `Mean::try_new` refuses (returns the error, builds no mean) as soon as a value is a string or
writes another unit. -/
theorem c19_mean_errors (u : Tag) (st : MeanSt α) (pre : List (List (Obs α))) (o : Out α) (rest : List (Out α))
    (hbad : o = .str ∨ ∃ obs unit dims, o = .metric obs unit dims ∧ unit ≠ u) :
    ∃ es, es ≠ [] ∧ meanTryExtend A u st (honest u pre ++ o :: rest) = .error es := by
  induction pre generalizing st with
  | nil =>
    simp only [honest, List.map_nil, List.nil_append, meanTryExtend, meanRecord]
    have h := collect_errors_of_mem u [o] o (List.mem_singleton.mpr rfl) hbad
    cases hc : collect u [o] with
    | mk es os =>
      have hes : es ≠ [] := by simpa [hc] using h
      cases es with
      | nil => exact absurd rfl hes
      | cons e es' => exact ⟨e :: es', by simp, rfl⟩
  | cons os pre ih =>
    have hc : collect u [Out.metric os u ([] : List (Nat × Nat))] = (([] : List Err), os) := by
      simp [collect]
    simp only [honest, List.map_cons, List.cons_append, meanTryExtend, meanRecord, hc] at ih ⊢
    exact ih _

-- non-vacuity: a mean of 1 s + (2 s in 2 occurrences) declared in milliseconds
example :
    ((meanTryExtend ratArith (.second .one) (0, 0)
        (honest (.second .one) [[.unsigned 1], [.repeated 2 2]])).map
      (fun st => withUnit ratArith (ratioQ (.second .one) (.second .milli)) (.second .one) (.second .milli)
        (meanWrite (.second .one) st))).toOption
    = some (.metric [.repeated 3000 3] (.second .milli) []) := by decide +kernel
example : distribution (.second .one) ([.metric [.unsigned 1] (.second .one) [], .str] : List (Out Rat))
    = .error [.distStrings] := by decide +kernel

-- ------------------------------------------------------------------------------------------------
-- `Duration`

/-- the duration in seconds, exactly -/
def durationSeconds (secs nanos : Nat) : Rat := (secs : Rat) + (nanos : Rat) / (1000000000 : Nat)

theorem durationMillis_exact (secs nanos : Nat) :
    durationMillis ratArith secs nanos = durationSeconds secs nanos * (1000 : Nat) := by
  simp [durationMillis, durationSeconds, ratArith, Neg.reductionFactor]

/-- **Durations are reported in milliseconds unless another time unit is declared**, and in both
cases the reported number is the duration: without a wrapper the unit is `Milliseconds` and the
number of milliseconds is `secs·10³ + nanos/10⁶`; under `WithUnit<Duration, t>` for any time unit `t`
the unit is `t` and the number, read in `t`, is the same duration. -/
theorem c19_duration_ms (secs nanos : Nat) :
    (∃ ms, durationOut ratArith secs nanos = .metric [.floating ms] (.second .milli) [] ∧
      ms * Spec.scale (.second .milli) = durationSeconds secs nanos) ∧
    (∀ t : Neg, convertible (.second .milli) (.second t) = true ∧
      ∃ o, withUnit ratArith (ratioQ (.second .milli) (.second t)) (.second .milli) (.second t)
          (durationOut ratArith secs nanos) = .metric [o] (.second t) [] ∧
        o.total ratArith * Spec.scale (.second t) = durationSeconds secs nanos ∧ o.occurrences = 1) := by
  have hms : durationMillis ratArith secs nanos * Spec.scale (.second .milli) = durationSeconds secs nanos := by
    rw [durationMillis_exact, scale_second]
    have : ((fromSeconds .milli : Nat) : Rat) = ((1000 : Nat) : Rat) := rfl
    rw [this]
    have h1000 : ((1000 : Nat) : Rat) ≠ 0 := natCast_ne_zero (by decide)
    grind
  refine ⟨⟨_, rfl, hms⟩, fun t => ⟨rfl, ?_⟩⟩
  refine ⟨convertQ (.second .milli) (.second t) (.floating (durationMillis ratArith secs nanos)), ?_, ?_, ?_⟩
  · simp [durationOut, withUnit, convertQ]
  · have := (c19_convert_quantity (.second .milli) (.second t) rfl (by simp)
      (.floating (durationMillis ratArith secs nanos))).1
    rw [this]
    exact hms
  · rw [convert_occurrences]; rfl

-- non-vacuity: 1.5 s is written as 1500 ms, and as 1.5 under `AsSeconds`
example : durationOut ratArith 1 500000000 = .metric [.floating 1500] (.second .milli) [] := by decide +kernel
example : withUnit ratArith (ratioQ (.second .milli) (.second .one)) (.second .milli) (.second .one)
    (durationOut ratArith 1 500000000) = .metric [.floating (3 / 2)] (.second .one) [] := by decide +kernel

-- ------------------------------------------------------------------------------------------------
-- the `f64` constants

theorem roundHalfEven_cases (N D : Nat) :
    roundHalfEven N D = N / D ∧ 2 * (N % D) ≤ D ∨ roundHalfEven N D = N / D + 1 ∧ D ≤ 2 * (N % D) := by
  unfold roundHalfEven
  simp only
  split
  · left; exact ⟨rfl, by omega⟩
  · split
    · right; exact ⟨rfl, by omega⟩
    · split
      · left; exact ⟨rfl, by omega⟩
      · right; exact ⟨rfl, by omega⟩

/-- rounding to the nearest integer is off by at most one half: `|m·D − N| ≤ D/2` -/
theorem roundHalfEven_err (N D : Nat) (hD : 0 < D) :
    2 * (roundHalfEven N D * D - N) ≤ D ∧ 2 * (N - roundHalfEven N D * D) ≤ D := by
  have hdm := Nat.div_add_mod N D
  have hlt := Nat.mod_lt N hD
  generalize hP : D * (N / D) = P at hdm
  rcases roundHalfEven_cases N D with ⟨hm, hr⟩ | ⟨hm, hr⟩
  · rw [hm, Nat.mul_comm (N / D) D, hP]
    omega
  · rw [hm, Nat.add_mul, Nat.one_mul, Nat.mul_comm (N / D) D, hP]
    omega

/-- The `Nat` form of correct rounding (the statement over ℚ, `c19_rne_rel_err`, is derived from it in
`Props/C19Float.lean`). If `rneAt n d k` succeeds with `(m, e)` then, with `N / D = (n / d) · 2^k` the
scaled fraction (`scaleBy`), there is an integer significand `m'` with `m' · 2^(-k) = m · 2^e`,
`2^52 ≤ m < 2^53` (a normal binary64 significand), `|m'·D − N| ≤ D/2` (nearest) and hence
`2^53 · |m'·D − N| ≤ N`. -/
theorem c19_rneAt_nat_form (n d : Nat) (k : Int) (m : Nat) (e : Int)
    (h : rneAt n d k = some (m, e)) :
    ∃ m', ((m = m' ∧ e = -k) ∨ (m' = 2 ^ 53 ∧ m = 2 ^ 52 ∧ e = -k + 1)) ∧
      2 ^ 52 ≤ m ∧ m < 2 ^ 53 ∧
      2 * (m' * (scaleBy n d k).2 - (scaleBy n d k).1) ≤ (scaleBy n d k).2 ∧
      2 * ((scaleBy n d k).1 - m' * (scaleBy n d k).2) ≤ (scaleBy n d k).2 ∧
      2 ^ 53 * (m' * (scaleBy n d k).2 - (scaleBy n d k).1) ≤ (scaleBy n d k).1 ∧
      2 ^ 53 * ((scaleBy n d k).1 - m' * (scaleBy n d k).2) ≤ (scaleBy n d k).1 := by
  unfold rneAt at h
  generalize scaleBy n d k = p at h ⊢
  obtain ⟨N, D⟩ := p
  simp only at h ⊢
  split at h
  · rename_i hc
    obtain ⟨hD, hlo, hhi⟩ := hc
    have herr := roundHalfEven_err N D hD
    have hq1 : 2 ^ 52 ≤ N / D := (Nat.le_div_iff_mul_le hD).mpr hlo
    have hq2 : N / D < 2 ^ 53 := (Nat.div_lt_iff_lt_mul hD).mpr hhi
    have hm1 : 2 ^ 52 ≤ roundHalfEven N D := by
      rcases roundHalfEven_cases N D with ⟨hm, _⟩ | ⟨hm, _⟩ <;> omega
    have hm2 : roundHalfEven N D ≤ 2 ^ 53 := by
      rcases roundHalfEven_cases N D with ⟨hm, _⟩ | ⟨hm, _⟩ <;> omega
    refine ⟨roundHalfEven N D, ?_, ?_, ?_, herr.1, herr.2, ?_, ?_⟩
    · split at h
      · rename_i h53
        simp only [Option.some.injEq, Prod.mk.injEq] at h
        right; exact ⟨h53, h.1.symm, h.2.symm⟩
      · simp only [Option.some.injEq, Prod.mk.injEq] at h
        left; exact ⟨h.1.symm, h.2.symm⟩
    · split at h <;> simp only [Option.some.injEq, Prod.mk.injEq] at h <;> omega
    · split at h <;> simp only [Option.some.injEq, Prod.mk.injEq] at h <;> omega
    · have := herr.1; omega
    · have := herr.2; omega
  · cases h

/-- `rne` is `rneAt` at one of its two candidate exponents, so `c19_rneAt_nat_form` applies to
every value `rne` returns (in particular to all 435 constants of `c19_f64_ratio_representable`). -/
theorem c19_rne_is_rneAt (n d m : Nat) (e : Int) (h : rne n d = some (m, e)) :
    ∃ k, rneAt n d k = some (m, e) ∧ -1022 ≤ e + 52 ∧ e + 52 ≤ 1023 := by
  unfold rne at h
  split at h
  · cases h
  · simp only at h
    split at h
    · rename_i m' e' hr
      split at h
      · rename_i hrange
        simp only [Option.some.injEq, Prod.mk.injEq] at h
        obtain ⟨rfl, rfl⟩ := h
        split at hr
        · rename_i r hk
          cases hr
          exact ⟨_, hk, hrange⟩
        · exact ⟨_, hr, hrange⟩
      · cases h
    · cases h

/-- the checks of `c19_f64_ratio_representable` for one pair, as a computation -/
def ratioOk (p : Tag × Tag) : Bool :=
  match ratioND p.1 p.2 with
  | some (n, d) =>
    match rne n d with
    | some (m, e) =>
      decide (0 < n) && decide (0 < d) && (ratioBits p.1 p.2 == some (f64Bits m e)) &&
        decide (2 ^ 52 ≤ m) && decide (m < 2 ^ 53)
    | none => false
  | none => false

/-- **Every `RATIO` constant is representable**: for each of the 435 convertible pairs the exact
ratio rounds (to nearest, ties to even) to a normal binary64 number, whose bit pattern the driver
compares with the real `Convert::RATIO` on every run. -/
theorem c19_f64_ratio_representable (a b : Tag) (h : convertible a b = true) :
    ∃ n d m e, ratioND a b = some (n, d) ∧ 0 < n ∧ 0 < d ∧ rne n d = some (m, e) ∧
      ratioBits a b = some (f64Bits m e) ∧ 2 ^ 52 ≤ m ∧ m < 2 ^ 53 := by
  have hall : convertiblePairs.all ratioOk = true := by decide +kernel
  have := List.all_eq_true.mp hall (a, b) (mem_convertiblePairs h)
  unfold ratioOk at this
  simp only at this
  split at this
  · rename_i n d hnd
    split at this
    · rename_i m e hme
      simp only [Bool.and_eq_true, decide_eq_true_eq, beq_iff_eq] at this
      exact ⟨n, d, m, e, hnd, this.1.1.1.1, this.1.1.1.2, hme, this.1.1.2, this.1.2, this.2⟩
    · simp at this
  · cases this

-- the constants asserted by the repository's own test, and two it does not assert
example : ratioBits (.second .one) (.second .milli) = some 0x408f400000000000 := by decide +kernel  -- 1000.0
example : ratioBits (.second .milli) (.second .one) = some 0x3f50624dd2f1a9fc := by decide +kernel  -- 0.001
example : ratioBits (.data .byte .mega) (.data .bit .giga) = some 0x3f80624dd2f1a9fc := by decide +kernel  -- 0.008
example : ratioBits (.data .bit .tera) (.data .byte .kilo) = some 0x419dcd6500000000 := by decide +kernel  -- 1.25e8
example : ratioBits (.data .bit .one) (.data .bytePerSecond .tera) = some 0x3d419799812dea11 := by decide +kernel  -- 1.25e-13

-- ------------------------------------------------------------------------------------------------
-- every nesting of unit wrappers

/-- a tower of unit wrappers `WithUnit<… WithUnit<WithUnit<V, t₁>, t₂> …, tₙ>` over a value with
`V::Unit = src` that wrote `o`; `ratio` gives the `RATIO` constant of each step -/
def wrapChain {α : Type} (A : Arith α) (ratio : Tag → Tag → α) (src : Tag) : List Tag → Out α → Out α
  | [], o => o
  | t :: ts, o => wrapChain A ratio t ts (withUnit A (ratio src t) src t o)

/-- the tower type-checks: every step has a `Convert` impl -/
def chainConvertible (src : Tag) : List Tag → Bool
  | [] => true
  | t :: ts => convertible src t && chainConvertible t ts

/-- the outermost declared unit -/
def chainLast (src : Tag) : List Tag → Tag
  | [] => src
  | t :: ts => chainLast t ts

theorem convertible_to_none {a : Tag} (h : convertible a .none = true) : a = .none := by
  cases a <;> simp [convertible, ratioND] at h ⊢

theorem wrapChain_error {α : Type} (A : Arith α) (ratio : Tag → Tag → α) (src : Tag) (chain : List Tag)
    (es : List Err) : wrapChain A ratio src chain (.error es) = .error es := by
  induction chain generalizing src with
  | nil => rfl
  | cons t ts ih => simp only [wrapChain, withUnit]; exact ih t

theorem wrapChain_nothing {α : Type} (A : Arith α) (ratio : Tag → Tag → α) (src : Tag) (chain : List Tag) :
    wrapChain A ratio src chain .nothing = .nothing := by
  induction chain generalizing src with
  | nil => rfl
  | cons t ts ih => simp only [wrapChain, withUnit]; exact ih t

/-- **Any tower of unit wrappers keeps the quantity.** For every well-typed tower
`src → t₁ → … → tₙ` (any length, any units) over an honest value of a unit `src ≠ None`, the outermost
wrapper writes exactly the outermost declared unit, the same dimensions, as many observations, each
with the same quantity (read in `tₙ` resp. in `src`) and the same occurrences. -/
theorem c19_nested_wrappers (src : Tag) (chain : List Tag) (hsrc : src ≠ .none)
    (hc : chainConvertible src chain = true) (obs : List (Obs Rat)) (dims : List (Nat × Nat)) :
    ∃ obs', wrapChain ratArith ratioQ src chain (.metric obs src dims)
        = .metric obs' (chainLast src chain) dims ∧
      obs'.map (fun o => o.total ratArith * Spec.scale (chainLast src chain))
        = obs.map (fun o => o.total ratArith * Spec.scale src) ∧
      obs'.map Obs.occurrences = obs.map Obs.occurrences := by
  induction chain generalizing src obs with
  | nil => exact ⟨obs, rfl, rfl, rfl⟩
  | cons t ts ih =>
    simp only [chainConvertible, Bool.and_eq_true] at hc
    have ht : t ≠ .none := fun h => hsrc (convertible_to_none (h ▸ hc.1))
    obtain ⟨obs', h1, h2, h3⟩ := ih t ht hc.2 (obs.map (convertQ src t))
    refine ⟨obs', ?_, ?_, ?_⟩
    · simp only [wrapChain, chainLast, c19_with_unit_honest]; exact h1
    · simp only [chainLast]
      rw [h2, List.map_map]
      apply List.map_congr_left
      intro o _
      exact (c19_convert_quantity src t hc.1 hsrc o).1
    · rw [h3, List.map_map]
      apply List.map_congr_left
      intro o _
      exact convert_occurrences _ _ _

/-- The same for a unitless value: the first wrapper *declares* the unit (the numbers are kept
as they are), from there on `c19_nested_wrappers` applies. -/
theorem c19_nested_declare (t : Tag) (ts : List Tag) (obs : List (Obs Rat)) (dims : List (Nat × Nat)) :
    wrapChain ratArith ratioQ .none (t :: ts) (.metric obs .none dims)
      = wrapChain ratArith ratioQ t ts (.metric obs t dims) := by
  simp only [wrapChain, c19_with_unit_honest]
  congr 2
  rw [List.map_congr_left (g := id) (fun o _ => c19_declare_keeps_observation t o), List.map_id]

/-- **The emitted unit is exactly the outermost declared one** — for any arithmetic, any ratios,
any tower with at least one wrapper and *whatever* the innermost value wrote. -/
theorem c19_nested_unit {α : Type} (A : Arith α) (ratio : Tag → Tag → α) (src : Tag) (chain : List Tag)
    (hne : chain ≠ []) (o : Out α) (obs' : List (Obs α)) (u : Tag) (dims' : List (Nat × Nat))
    (h : wrapChain A ratio src chain o = .metric obs' u dims') : u = chainLast src chain := by
  induction chain generalizing src o with
  | nil => exact absurd rfl hne
  | cons t ts ih =>
    cases ts with
    | nil =>
      simp only [wrapChain] at h
      exact (c19_with_unit_metric_only_if A _ src t o obs' u dims' h).1
    | cons t' ts' =>
      simp only [chainLast]
      exact ih t (by simp) _ h

/-- **A wrongly typed innermost value is an error through any tower**: a string, or a metric of
another unit than promised, under at least one unit wrapper yields a validation error and no
metric, however many wrappers follow. -/
theorem c19_nested_errors {α : Type} (A : Arith α) (ratio : Tag → Tag → α) (src : Tag) (chain : List Tag)
    (hne : chain ≠ []) (o : Out α)
    (hbad : o = .str ∨ ∃ obs unit dims, o = .metric obs unit dims ∧ unit ≠ src) :
    ∃ es, es ≠ [] ∧ wrapChain A ratio src chain o = .error es := by
  cases chain with
  | nil => exact absurd rfl hne
  | cons t ts =>
    simp only [wrapChain]
    rcases hbad with rfl | ⟨obs, unit, dims, rfl, hu⟩
    · exact ⟨[.unitOnString], by simp, by simp only [withUnit]; exact wrapChain_error _ _ _ _ _⟩
    · refine ⟨[.mismatch src unit], by simp, ?_⟩
      rw [(c19_errors A (ratio src t) src t).2.1 obs unit dims hu]
      exact wrapChain_error _ _ _ _ _

-- non-vacuity: 90 000 000 µs declared via ms, s, back to ms: 90 000 ms, unit Milliseconds
example : wrapChain ratArith ratioQ (.second .micro) [.second .milli, .second .one, .second .milli]
    (.metric [.unsigned 90000000] (.second .micro) [(0, 0)])
    = .metric [.floating 90000] (.second .milli) [(0, 0)] := by decide +kernel
example : chainConvertible (.second .micro) [.second .milli, .second .one, .second .milli] = true := by decide

end Units

#print axioms Units.c19_generated_is_model
#print axioms Units.c19_table_is_SI
#print axioms Units.c19_unit_name_injective
#print axioms Units.c19_quantity_preserved
#print axioms Units.c19_declare_keeps_number
#print axioms Units.c19_inverse
#print axioms Units.c19_ratio_compose
#print axioms Units.c19_convert_quantity
#print axioms Units.c19_declare_keeps_observation
#print axioms Units.c19_convert_roundtrip
#print axioms Units.c19_with_unit_honest
#print axioms Units.c19_with_unit_metric_only_if
#print axioms Units.c19_errors
#print axioms Units.c19_option_commutes
#print axioms Units.c19_with_unit_quantity
#print axioms Units.c19_with_unit_roundtrip
#print axioms Units.c19_distribution_honest
#print axioms Units.c19_distribution_commutes
#print axioms Units.c19_distribution_errors
#print axioms Units.c19_mean_quantity
#print axioms Units.c19_mean_errors
#print axioms Units.c19_duration_ms
#print axioms Units.c19_rneAt_nat_form
#print axioms Units.c19_f64_ratio_representable
#print axioms Units.c19_rne_is_rneAt
#print axioms Units.c19_nested_wrappers
#print axioms Units.c19_nested_declare
#print axioms Units.c19_nested_unit
#print axioms Units.c19_nested_errors
