import Props.C02b
/-!
Lemmas for C02, part c: the invariant of the per-call writer, preserved by every writer call.
-/
namespace Emf
open Json

/-! ### The writer invariant -/

structure WInv (cfg : Config) (w : Writer) : Prop where
  sf : ∃ S, w.st.stringFieldsBuf = ⟨0, S⟩ ∧ IsMembers S
  f : ∃ F, w.st.fieldsBuf = ⟨1, 125 :: F⟩ ∧ IsMembers F
  m : ∃ M, w.st.metricsBuf = ⟨metricsPrefix.length, metricsPrefix ++ M⟩ ∧ IsItems M
  counts : w.st.countsBuf = PBuf.new countsPrefix
  decl : w.st.declBuf = PBuf.new (extraDirectivesStr cfg.extraDirectives)
  dbuf : w.st.dimensionsBuf.WF (dimensionsPrefix cfg)
  ed : ∀ ds, w.entryDims = some ds → ∀ d ∈ ds, IsArrLit d
  dm : ∀ e ∈ w.st.dimMap, DimInv cfg e

theorem eachDims_arr (cfg : Config) : ∀ d ∈ (Consts.ofConfig cfg).eachDims, IsArrLit d := by
  intro d hd
  obtain ⟨x, _, rfl⟩ := List.mem_map.mp hd
  exact IsArrLit.jarrStrings x

theorem WInv.start (cfg : Config) : WInv cfg (Writer.start (Consts.ofConfig cfg) (State.fresh cfg)) := by
  refine ⟨⟨[], rfl, IsMembers.nil⟩, ⟨[], rfl, IsMembers.nil⟩, ⟨[], rfl, IsItems.nil⟩, rfl, ?_, PBuf.WF.new _, ?_, ?_⟩
  · exact (PBuf.WF.new _).clear_eq
  · intro ds h; cases h
  · intro e he; cases he

theorem WInv.of_st_eq {cfg : Config} {w w' : Writer} (h : WInv cfg w) (hs : w'.st = w.st)
    (he : w'.entryDims = w.entryDims) : WInv cfg w' :=
  ⟨hs ▸ h.sf, hs ▸ h.f, hs ▸ h.m, hs ▸ h.counts, hs ▸ h.decl, hs ▸ h.dbuf, he ▸ h.ed, hs ▸ h.dm⟩

theorem metricCheck_entryDims (c : Consts) (w : Writer) (name : Bytes) (i : Nat) :
    (metricCheck c w name i).entryDims = w.entryDims := by
  unfold metricCheck validateMetric
  split
  · cases h : w.vmap.find? name with
    | none => rfl
    | some k =>
      cases k with
      | metric idxs => simp only; split <;> rfl
      | _ => rfl
  · rfl

theorem metricPreCheck_entryDims (c : Consts) (w : Writer) (dims : List (Bytes × Bytes)) :
    (metricPreCheck c w dims).entryDims = w.entryDims := by
  unfold metricPreCheck
  split <;> rfl

theorem validateName_entryDims (c : Consts) (w : Writer) (name : Bytes) :
    (validateName c w name).1.entryDims = w.entryDims := by
  unfold validateName
  split
  · split
    · rfl
    · split <;> rfl
  · rfl

theorem validateString_entryDims (w : Writer) (name : Bytes) : (validateString w name).entryDims = w.entryDims := by
  unfold validateString
  cases h : w.vmap.find? name with
  | none => rfl
  | some k => cases k <;> rfl

theorem metricGlobalWrite_inv {cfg : Config} (mult : Option Nat) {w : Writer} (h : WInv cfg w)
    (name : Bytes) (obs : List Obs) (hok : ∀ o ∈ obs, o.fmtOk = true) (unit : Option Bytes) (flags : Flags) :
    WInv cfg (metricGlobalWrite mult w name obs unit flags) := by
  obtain ⟨F, hF, hFm⟩ := h.f
  obtain ⟨M, hM, hMi⟩ := h.m
  unfold metricGlobalWrite
  rw [hF, hM, h.counts]
  obtain ⟨⟨x, e1, hx⟩, ⟨M', e2, hM'⟩, e3⟩ := writeMetric_spec name ⟨1, 125 :: F⟩ metricsPrefix M hMi obs hok unit flags mult
  exact ⟨h.sf, ⟨F ++ x, by simp only [e1]; simp, hFm.append hx⟩, ⟨M', by simp only [e2], hM'⟩, by simp only [e3],
    h.decl, h.dbuf, h.ed, h.dm⟩

theorem metricSplitWrite_inv {cfg : Config} (mult : Option Nat) {w : Writer} (h : WInv cfg w)
    (entry : DimEntry) (he : DimInv cfg entry)
    (name : Bytes) (obs : List Obs) (hok : ∀ o ∈ obs, o.fmtOk = true) (unit : Option Bytes) (flags : Flags) :
    WInv cfg (metricSplitWrite mult w entry name obs unit flags) := by
  obtain ⟨P, F, D, M, hF, hP, hFm, hM, hD, hMi, ha⟩ := he
  unfold metricSplitWrite
  rw [hF, hM, h.counts]
  obtain ⟨⟨x, e1, hx⟩, ⟨M', e2, hM'⟩, e3⟩ := writeMetric_spec name ⟨(125 :: P).length, 125 :: P ++ F⟩
    (recHead cfg ++ D ++ metricsPrefix) M hMi obs hok unit flags mult
  refine ⟨h.sf, h.f, h.m, by simp only [e3], h.decl, h.dbuf, h.ed, ?_⟩
  simp only
  apply dimSet_forall h.dm
  exact ⟨P, F ++ x, D, M', by simp only [e1]; simp, hP, hFm.append hx, by simp only [e2], hD, hM', ha⟩

theorem dimEntryFor_inv {cfg : Config} {w : Writer} (h : WInv cfg w) (key : DimKey) :
    DimInv cfg (dimEntryFor (Consts.ofConfig cfg) w key) := by
  unfold dimEntryFor
  cases hf : dimFind? w.st.dimMap key with
  | some e => exact h.dm e (dimFind?_mem hf)
  | none =>
    simp only
    apply DimInv.new
    cases hd : w.entryDims with
    | none => exact eachDims_arr cfg
    | some ds => exact h.ed ds hd

theorem applyItem_inv {cfg : Config} (mult : Option Nat) {w : Writer} (h : WInv cfg w) (it : Item)
    (hok : it.fmtOk = true) : WInv cfg (applyItem (Consts.ofConfig cfg) mult w it) := by
  cases it with
  | timestamp t =>
    simp only [applyItem]
    by_cases ht : w.timestamp.isSome = true <;> simp only [ht, Bool.false_eq_true, ↓reduceIte] <;>
      exact h.of_st_eq rfl rfl
  | allowSplit => exact h.of_st_eq rfl rfl
  | otherCfg => exact h
  | allowUnroutable => exact h.of_st_eq rfl rfl
  | entryDims sets =>
    simp only [applyItem]
    unfold configEntryDims
    split
    · exact h.of_st_eq rfl rfl
    · split
      · exact h.of_st_eq rfl rfl
      · split
        · exact h.of_st_eq rfl rfl
        · simp only
          have hst : (if (!(Consts.ofConfig cfg).validation.skipUnique || !(Consts.ofConfig cfg).validation.skipDimsExist) = true
              then sets.flatten.foldl (entryDimsValidate (Consts.ofConfig cfg)) w else w).st = w.st := by
            split
            · exact foldl_entryDimsValidate_st _ _ _
            · rfl
          refine ⟨hst ▸ h.sf, hst ▸ h.f, hst ▸ h.m, hst ▸ h.counts, hst ▸ h.decl, hst ▸ h.dbuf, ?_, hst ▸ h.dm⟩
          intro ds hds d hd
          simp only [Option.some.injEq] at hds
          subst hds
          obtain ⟨d0, hd0, hd'⟩ := List.mem_flatMap.mp hd
          obtain ⟨e, _, rfl⟩ := List.mem_map.mp hd'
          exact (eachDims_arr cfg d0 hd0).extendWithStrings e
  | value name v =>
    simp only [applyItem, value]
    have hst := validateName_st (Consts.ofConfig cfg) w name
    have hed := validateName_entryDims (Consts.ofConfig cfg) w name
    generalize validateName (Consts.ofConfig cfg) w name = r at *
    obtain ⟨w1, ok⟩ := r
    simp only at hst hed
    have h1 : WInv cfg w1 := h.of_st_eq hst hed
    cases ok with
    | false => exact h1
    | true =>
      cases v with
      | str s =>
        simp only
        unfold valueString
        obtain ⟨S, hS, hSm⟩ := h1.sf
        have hp : WInv cfg (pushStringField w1 name s) := by
          refine ⟨⟨S ++ 44 :: (jstr name ++ 58 :: jstr s), ?_, hSm.append (IsMembers.one (IsKey.jstr name) (IsVal.jstr s))⟩,
            h1.f, h1.m, h1.counts, h1.decl, h1.dbuf, h1.ed, h1.dm⟩
          simp [pushStringField, hS, PBuf.push, PBuf.jsonString, PBuf.pushRaw]
        split
        · exact hp.of_st_eq (validateString_st _ _) (validateString_entryDims _ _)
        · exact hp
      | metric obs unit dims flags =>
        simp only
        have hobs : ∀ o ∈ obs, o.fmtOk = true := by
          simpa [Item.fmtOk, Val.fmtOk, List.all_eq_true] using hok
        unfold valueMetric
        have h2 : WInv cfg (metricPreCheck (Consts.ofConfig cfg) w1 dims) :=
          h1.of_st_eq (metricPreCheck_st _ _ _) (metricPreCheck_entryDims _ _ _)
        generalize metricPreCheck (Consts.ofConfig cfg) w1 dims = w2 at *
        unfold valueMetricCore
        split
        · exact metricGlobalWrite_inv mult (h2.of_st_eq (metricCheck_counts _ _ _ _) (metricCheck_entryDims _ _ _ _))
            name obs hobs unit flags
        · exact metricSplitWrite_inv mult (h2.of_st_eq (metricCheck_counts _ _ _ _) (metricCheck_entryDims _ _ _ _))
            _ (dimEntryFor_inv h2 _) name obs hobs unit flags
      | error => exact h1.of_st_eq rfl rfl
      | nothing => exact h1

theorem foldl_applyItem_inv {cfg : Config} (mult : Option Nat) (items : List Item)
    (hok : ∀ it ∈ items, it.fmtOk = true) {w : Writer} (h : WInv cfg w) :
    WInv cfg (items.foldl (applyItem (Consts.ofConfig cfg) mult) w) := by
  induction items generalizing w with
  | nil => exact h
  | cons it rest ih =>
    exact ih (fun x hx => hok x (by simp [hx])) (applyItem_inv mult h it (hok it (by simp)))
end Emf
