//! Static support code of the generated crate: the order-preserving recorder and an opaque
//! hand-written `Entry` for `#[metrics(flatten_entry)]` fields.
use metrique::writer::{Entry, EntryWriter, MetricFlags, Observation, Unit, ValidationError, Value, ValueWriter};
use std::borrow::Cow;
use std::fmt::Write as _;

pub fn hex(s: &str) -> String {
    if s.is_empty() {
        return "-".to_string();
    }
    let mut out = String::with_capacity(s.len() * 2);
    for b in s.bytes() {
        let _ = write!(out, "{b:02x}");
    }
    out
}

/// one recorded `Value::write`: `None` = wrote nothing (absent option)
#[derive(Default)]
struct ValRec(Option<String>);

fn obs(o: Observation) -> String {
    match o {
        Observation::Unsigned(u) => format!("u{u}"),
        Observation::Floating(f) => {
            if f.is_finite() && f.fract() == 0.0 && f.abs() < 1e15 {
                format!("f{}", f as i64)
            } else {
                format!("F{:016x}", f.to_bits())
            }
        }
        Observation::Repeated { total, occurrences } => format!("r{:016x}x{occurrences}", total.to_bits()),
        _ => "?".to_string(),
    }
}

impl ValueWriter for &mut ValRec {
    fn string(self, value: &str) {
        self.0 = Some(format!("s:{}:-", hex(value)));
    }
    fn metric<'a>(
        self,
        distribution: impl IntoIterator<Item = Observation>,
        unit: Unit,
        dimensions: impl IntoIterator<Item = (&'a str, &'a str)>,
        _flags: MetricFlags<'_>,
    ) {
        let v: Vec<String> = distribution.into_iter().map(obs).collect();
        // dimensions (`WithDimensions`) and flags (`ForceFlag`) added by wrappers are C15's subject, not recorded
        let _ = dimensions;
        let val = v.join(",");
        self.0 = Some(format!("m:{}:{}", hex(&val), hex(unit.name())));
    }
    fn error(self, error: ValidationError) {
        self.0 = Some(format!("e:{}:-", hex(&format!("{error:?}"))));
    }
}

#[derive(Default)]
pub struct Rec {
    pub items: Vec<String>,
    pub timestamps: usize,
}

impl<'a> EntryWriter<'a> for Rec {
    fn timestamp(&mut self, _timestamp: std::time::SystemTime) {
        self.timestamps += 1;
    }
    fn value(&mut self, name: impl Into<Cow<'a, str>>, value: &(impl Value + ?Sized)) {
        let name = name.into();
        let mut vr = ValRec::default();
        value.write(&mut vr);
        if let Some(v) = vr.0 {
            self.items.push(format!("{}:{}", hex(&name), v));
        }
    }
    fn config(&mut self, _config: &'a dyn metrique::writer::EntryConfig) {}
}

/// records one instance: `<id>\tI <items> ; G <pairs>`
pub fn record(id: usize, entry: &impl Entry, out: &mut String) {
    let mut rec = Rec::default();
    entry.write(&mut rec);
    let sg: Vec<String> = entry.sample_group().map(|(k, v)| format!("{}={}", hex(&k), hex(&v))).collect();
    let _ = writeln!(out, "{id}\tI {} ; G {}", rec.items.join(" "), sg.join(" "));
}

/// opaque hand-written entry for `flatten_entry`
#[derive(Clone, Debug)]
pub struct RawEntry {
    /// (name, Some(metric) | None = string item, string value)
    pub items: Vec<(&'static str, Option<u64>, &'static str)>,
    pub sg: Vec<(&'static str, &'static str)>,
}

impl Entry for RawEntry {
    fn write<'a>(&'a self, writer: &mut impl EntryWriter<'a>) {
        for (k, n, s) in &self.items {
            match n {
                Some(n) => writer.value(*k, n),
                None => writer.value(*k, s),
            }
        }
    }
    fn sample_group(&self) -> impl Iterator<Item = (Cow<'static, str>, Cow<'static, str>)> {
        self.sg.iter().map(|(k, v)| (Cow::Borrowed(*k), Cow::Borrowed(*v)))
    }
}

impl metrique::CloseValue for RawEntry {
    type Closed = RawEntry;
    fn close(self) -> RawEntry {
        self
    }
}

impl metrique::CloseValue for &RawEntry {
    type Closed = RawEntry;
    fn close(self) -> RawEntry {
        self.clone()
    }
}

// ------------------------------------------------------------------------------------------------
// Field types whose `CloseValue` yields the closed child behind each container for which
// metrique-core has a forwarding `InflectableEntry<NS>` impl (inflectable_entry_impls.rs):
// `&T`, `Box<T>`, `Arc<T>`, `Cow<'_, T>` (`Option<T>`, `ForceFlag<T, F>`, `WithDimensions<T, N>`
// come from metrique-core's own CloseValue impls). Each closes by value and by reference, so it
// can sit below by-reference (`subfield`) parents.

macro_rules! closed_behind {
    ($name:ident, $closed:ty, $mk:expr $(, $bound:path)?) => {
        #[derive(Clone)]
        pub struct $name<C>(pub C);
        impl<C, E: 'static $(+ $bound)?> metrique::CloseValue for $name<C>
        where
            C: metrique::CloseValue<Closed = E>,
        {
            type Closed = $closed;
            fn close(self) -> Self::Closed {
                let e: E = self.0.close();
                ($mk)(e)
            }
        }
        impl<'x, C, E: 'static $(+ $bound)?> metrique::CloseValue for &'x $name<C>
        where
            &'x C: metrique::CloseValue<Closed = E>,
        {
            type Closed = $closed;
            fn close(self) -> Self::Closed {
                let e: E = (&self.0).close();
                ($mk)(e)
            }
        }
    };
}

closed_behind!(WRef, &'static E, |e: E| -> &'static E { Box::leak(Box::new(e)) });
closed_behind!(WBox, Box<E>, |e: E| Box::new(e));
closed_behind!(WArc, std::sync::Arc<E>, |e: E| std::sync::Arc::new(e));
closed_behind!(WCow, Cow<'static, E>, |e: E| -> Cow<'static, E> { Cow::Owned(e) }, Clone);

/// a `FlagConstructor` for `ForceFlag<Child, NoFlags>` fields
pub struct NoFlags;
impl metrique::writer::core::value::FlagConstructor for NoFlags {
    fn construct() -> MetricFlags<'static> {
        MetricFlags::empty()
    }
}
