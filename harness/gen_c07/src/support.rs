//! Static support code of the generated crate: the order-preserving recorder and an opaque
//! hand-written `Entry` for `#[metrics(flatten_entry)]` fields.
use metrique::writer::{Entry, EntryWriter, MetricFlags, Observation, Unit, ValidationError, Value, ValueWriter};
use std::borrow::Cow;
use std::fmt::Write as _;

pub fn hex(s: &str) -> String {
    if s.is_empty() {
        return "-".to_string();
    }
    let mut out = String::with_capacity(s.len() * 2);
    for b in s.bytes() {
        let _ = write!(out, "{b:02x}");
    }
    out
}

/// one recorded `Value::write`: `None` = wrote nothing (absent option)
#[derive(Default)]
struct ValRec(Option<String>);

fn obs(o: Observation) -> String {
    match o {
        Observation::Unsigned(u) => format!("u{u}"),
        Observation::Floating(f) => {
            if f.is_finite() && f.fract() == 0.0 && f.abs() < 1e15 {
                format!("f{}", f as i64)
            } else {
                format!("F{:016x}", f.to_bits())
            }
        }
        Observation::Repeated { total, occurrences } => format!("r{:016x}x{occurrences}", total.to_bits()),
        _ => "?".to_string(),
    }
}

impl ValueWriter for &mut ValRec {
    fn string(self, value: &str) {
        self.0 = Some(format!("s:{}:-", hex(value)));
    }
    fn metric<'a>(
        self,
        distribution: impl IntoIterator<Item = Observation>,
        unit: Unit,
        dimensions: impl IntoIterator<Item = (&'a str, &'a str)>,
        _flags: MetricFlags<'_>,
    ) {
        let v: Vec<String> = distribution.into_iter().map(obs).collect();
        let dims: Vec<String> = dimensions.into_iter().map(|(k, v)| format!("{k}={v}")).collect();
        let mut val = v.join(",");
        if !dims.is_empty() {
            val.push_str(&format!("[{}]", dims.join(",")));
        }
        self.0 = Some(format!("m:{}:{}", hex(&val), hex(unit.name())));
    }
    fn error(self, error: ValidationError) {
        self.0 = Some(format!("e:{}:-", hex(&format!("{error:?}"))));
    }
}

#[derive(Default)]
pub struct Rec {
    pub items: Vec<String>,
    pub timestamps: usize,
}

impl<'a> EntryWriter<'a> for Rec {
    fn timestamp(&mut self, _timestamp: std::time::SystemTime) {
        self.timestamps += 1;
    }
    fn value(&mut self, name: impl Into<Cow<'a, str>>, value: &(impl Value + ?Sized)) {
        let name = name.into();
        let mut vr = ValRec::default();
        value.write(&mut vr);
        if let Some(v) = vr.0 {
            self.items.push(format!("{}:{}", hex(&name), v));
        }
    }
    fn config(&mut self, _config: &'a dyn metrique::writer::EntryConfig) {}
}

/// records one instance: `<id>\tI <items> ; G <pairs>`
pub fn record(id: usize, entry: &impl Entry, out: &mut String) {
    let mut rec = Rec::default();
    entry.write(&mut rec);
    let sg: Vec<String> = entry.sample_group().map(|(k, v)| format!("{}={}", hex(&k), hex(&v))).collect();
    let _ = writeln!(out, "{id}\tI {} ; G {}", rec.items.join(" "), sg.join(" "));
}

/// opaque hand-written entry for `flatten_entry`
#[derive(Clone, Debug)]
pub struct RawEntry {
    /// (name, Some(metric) | None = string item, string value)
    pub items: Vec<(&'static str, Option<u64>, &'static str)>,
    pub sg: Vec<(&'static str, &'static str)>,
}

impl Entry for RawEntry {
    fn write<'a>(&'a self, writer: &mut impl EntryWriter<'a>) {
        for (k, n, s) in &self.items {
            match n {
                Some(n) => writer.value(*k, n),
                None => writer.value(*k, s),
            }
        }
    }
    fn sample_group(&self) -> impl Iterator<Item = (Cow<'static, str>, Cow<'static, str>)> {
        self.sg.iter().map(|(k, v)| (Cow::Borrowed(*k), Cow::Borrowed(*v)))
    }
}

impl metrique::CloseValue for RawEntry {
    type Closed = RawEntry;
    fn close(self) -> RawEntry {
        self
    }
}

impl metrique::CloseValue for &RawEntry {
    type Closed = RawEntry;
    fn close(self) -> RawEntry {
        self.clone()
    }
}
