// (included by c07.rs) Generator of well-formed definition trees.
//
// Well-formedness rules taken from the macro's validation (metrique-macro/src/lib.rs):
//  * `prefix` (container or flatten): only alphanumerics, `_`, `-`; a container prefix must end with
//    `_` or `-`; `exact_prefix`: anything;
//  * `name`, tag `name` / `name_exact`: non-empty, no spaces;
//  * tuple-variant fields: flatten / flatten_entry / ignore only; `unit`, `name`, `sample_group`
//    only on plain fields; value structs: one field, no name/prefix/rename_all;
// and from what makes the *generated code* compile (found while building this generator, see
// notes/C07.md): the `ConstStr` helper structs are named after PascalCase(text) with
// non-alphanumerics removed, so that stem must not start with a digit, and two flatten prefixes (or
// a flatten prefix and the tag name) with the same stem cannot share a struct / variant arm;
// `#[metrics(ignore)]` cannot be used in a struct variant of an entry enum (the generated close
// refers to the ignored field of the entry, which does not exist); `String` fields need a parent that
// closes by value.

const KEYWORDS: &[&str] = &[
    "as", "break", "const", "continue", "crate", "else", "enum", "extern", "false", "fn", "for", "if", "impl", "in",
    "let", "loop", "match", "mod", "move", "mut", "pub", "ref", "return", "self", "Self", "static", "struct", "super",
    "trait", "true", "type", "unsafe", "use", "where", "while", "async", "await", "dyn", "abstract", "become", "box",
    "do", "final", "macro", "override", "priv", "typeof", "unsized", "virtual", "yield", "try", "gen", "union",
    "writer", "out", "v", "record",
];

const WORDS: &[&str] = &[
    "foo", "bar", "op", "kind", "id", "http", "status", "code", "count", "latency", "ms", "p99", "v2", "io", "db",
    "request", "bytes", "read", "x", "n", "api", "user", "ID", "URL", "Http", "Status", "Op", "Kind", "Count", "Bytes",
    "TTL", "a", "B", "k8s", "s3", "Ipv6", "utf8",
];

pub const UNITS: &[&str] = &[
    "Count", "Percent", "Second", "Millisecond", "Microsecond", "Byte", "Kilobyte", "Megabyte", "Gigabyte", "Terabyte",
    "Bit", "Kilobit", "BytePerSecond", "MegabytePerSecond", "BitPerSecond", "GigabitPerSecond", "None",
];

const PUNCT: &[char] = &['.', ':', '/', '$', '#', '@', '+', '=', '!', '~', '*', '(', ')', '[', ']', ',', ';', '\'', '"', '\\', '%', '&', '|', '<', '>', '?', '^', '{', '}', '`'];
const UNI: &[char] = &['é', 'ß', 'Ж', '中', 'ñ', 'Ω', 'ı', 'ǅ', '🦆', '\u{301}', '²'];

pub struct Gen {
    pub rng: Rng,
    /// chains longer than concat.rs's limit are produced with this probability (per tree, in 1/100)
    pub long_pct: u64,
}

impl Gen {
    pub fn new(rng: Rng) -> Gen {
        Gen { rng, long_pct: 20 }
    }

    /// an ASCII Rust identifier (also the alphabet of everything that gets inflected)
    pub fn ident(&mut self, upper_first: bool) -> String {
        let r = &mut self.rng;
        let mut s = String::new();
        if r.chance(3, 4) {
            // word-based: snake_case / camelCase / PascalCase / SCREAMING / digits
            let n = r.range(1, 3);
            let joiner = *r.pick(&["_", "", "_", "__"]);
            for i in 0..n {
                let w = *r.pick(WORDS);
                let w = match r.below(5) {
                    0 => w.to_uppercase(),
                    1 => w.to_lowercase(),
                    2 => {
                        let mut c = w.chars();
                        c.next().map(|f| f.to_uppercase().collect::<String>() + c.as_str()).unwrap_or_default()
                    }
                    _ => w.to_string(),
                };
                if i > 0 {
                    s.push_str(joiner);
                }
                s.push_str(&w);
                if r.chance(1, 6) {
                    s.push_str(&r.below(100).to_string());
                }
            }
            if r.chance(1, 12) {
                s.push('_');
            }
            if r.chance(1, 12) {
                s.insert(0, '_');
            }
        } else {
            let n = r.range(1, 9);
            for _ in 0..n {
                let c = match r.below(10) {
                    0 | 1 => (b'0' + r.below(10) as u8) as char,
                    2 => '_',
                    3..=5 => (b'A' + r.below(26) as u8) as char,
                    _ => (b'a' + r.below(26) as u8) as char,
                };
                s.push(c);
            }
        }
        // first character: a letter (lower for fields, upper for variants unless the dice say otherwise)
        let first = s.chars().next().unwrap();
        if !(first.is_ascii_alphabetic() || (first == '_' && s.len() > 1 && s.chars().nth(1).unwrap().is_ascii_alphabetic())) {
            s.insert(0, 'q');
        }
        let first = s.chars().next().unwrap();
        if first.is_ascii_alphabetic() {
            let want_upper = if upper_first { !r.chance(1, 8) } else { r.chance(1, 10) };
            let f = if want_upper { first.to_ascii_uppercase() } else { first.to_ascii_lowercase() };
            s.replace_range(0..1, &f.to_string());
        }
        if KEYWORDS.contains(&s.as_str()) || s.starts_with("zz") || s.starts_with("__") {
            s.push('x');
        }
        if !upper_first && s.len() >= 2 && s[..1].chars().all(|c| c == 'T') && s[1..].chars().all(|c| c.is_ascii_digit()) {
            s.push('y');
        }
        s
    }

    /// an inflectable prefix: alphanumerics, `_`, `-`; `delim_end` for container prefixes
    pub fn infl_prefix(&mut self, delim_end: bool, long: bool) -> String {
        let r = &mut self.rng;
        // nasty: delimiter-only prefixes, and (flatten level only) the empty prefix
        if !long && r.chance(1, 20) {
            return (*r.pick(if delim_end { &["_", "-", "__", "-_"][..] } else { &["_", "-", "__", ""][..] })).to_string();
        }
        let mut s = String::new();
        let n = if long { r.range(5, 12) } else { r.range(1, 2) };
        for i in 0..n {
            let w = *r.pick(WORDS);
            let w = match r.below(4) {
                0 => w.to_uppercase(),
                1 => w.to_lowercase(),
                _ => w.to_string(),
            };
            if i > 0 {
                s.push_str(*r.pick(&["_", "-", "", "_-", "__"]));
            }
            s.push_str(&w);
        }
        match r.below(6) {
            0 | 1 => s.push('_'),
            2 | 3 => s.push('-'),
            4 => s.push_str("-_"),
            _ => {}
        }
        if delim_end && !(s.ends_with('_') || s.ends_with('-')) {
            s.push(*r.pick(&['_', '-']));
        }
        if r.chance(1, 15) {
            s.insert(0, *r.pick(&['_', '-']));
        }
        if first_alnum_is_digit(&s) {
            s.insert(0, 'q');
        }
        s
    }

    /// free text for `exact_prefix` / `name` / `name_exact` (no spaces unless `spaces`)
    pub fn free_text(&mut self, spaces: bool, long: bool, may_be_empty: bool) -> String {
        let r = &mut self.rng;
        if may_be_empty && r.chance(1, 25) {
            return String::new();
        }
        let mut s = String::new();
        let n = if long { r.range(25, 70) } else { r.range(1, 8) };
        for _ in 0..n {
            let c = match r.below(12) {
                0 | 1 => *r.pick(PUNCT),
                2 => *r.pick(UNI),
                3 => (b'0' + r.below(10) as u8) as char,
                4 => *r.pick(&['_', '-', '.']),
                5 if spaces => ' ',
                5 | 6 | 7 => (b'A' + r.below(26) as u8) as char,
                _ => (b'a' + r.below(26) as u8) as char,
            };
            s.push(c);
        }
        // '²' (alphanumeric but not XID) and combining marks are identifier-hostile anywhere
        s = s.replace('²', "2").replace('\u{301}', "e");
        // the ConstStr ident stem must be a valid identifier start: no digit / non-XID "alphanumeric" first
        let bad_first = |s: &str| s.chars().find(|c| c.is_alphanumeric()).map(|c| !c.is_alphabetic() || c == 'ǅ').unwrap_or(false);
        if bad_first(&s) {
            s.insert(0, 'w');
        }
        s
    }

    /// ASCII text without spaces for an inflectable tag name
    pub fn tag_text(&mut self) -> String {
        let r = &mut self.rng;
        if r.chance(2, 3) {
            return self.ident(false);
        }
        let mut s = String::new();
        let n = r.range(1, 8);
        for _ in 0..n {
            let c = match r.below(10) {
                0 | 1 => *r.pick(PUNCT),
                2 => (b'0' + r.below(10) as u8) as char,
                3 => *r.pick(&['_', '-', '.']),
                4 | 5 => (b'A' + r.below(26) as u8) as char,
                _ => (b'a' + r.below(26) as u8) as char,
            };
            s.push(c);
        }
        if first_alnum_is_digit(&s) || !s.chars().any(|c| c.is_ascii_alphanumeric()) {
            s.insert(0, 't');
        }
        s
    }

    fn style(&mut self) -> Style {
        match self.rng.below(10) {
            0..=3 => Style::Preserve,
            4 | 5 => Style::Pascal,
            6 | 7 => Style::Snake,
            _ => Style::Kebab,
        }
    }

    fn opt_pfx(&mut self, container: bool, long: bool) -> Option<Pfx> {
        match self.rng.below(20) {
            0..=6 if container => None,
            0..=4 => None,
            7..=14 => Some(Pfx::Infl(self.infl_prefix(container, long))),
            _ => Some(Pfx::Exact(self.free_text(true, long, true))),
        }
    }

    fn unique_ident(&mut self, used: &mut BTreeSet<String>, upper: bool) -> String {
        loop {
            let id = self.ident(upper);
            if used.insert(id.clone()) {
                return id;
            }
        }
    }

    fn base_val(&mut self, owned_ok: bool, string_only: bool) -> FVal {
        let r = &mut self.rng;
        let k = if string_only { 5 + r.below(3) } else { r.below(8) };
        match k {
            0 => FVal::Num(NumTy::U64, r.below(1000)),
            1 => FVal::Num(NumTy::Usize, r.below(1000)),
            2 => FVal::Num(NumTy::Bool, r.below(2)),
            3 => FVal::Num(NumTy::F64, r.below(1000)),
            4 => FVal::Num(NumTy::Duration, r.below(100)),
            5 | 6 => {
                let owned = owned_ok && !string_only && r.chance(1, 3);
                FVal::Str { s: self.free_text(true, false, true), owned }
            }
            _ => {
                let style = self.style();
                let n = self.rng.range(1, 3) as usize;
                let mut used = BTreeSet::new();
                let variants: Vec<_> = (0..n)
                    .map(|_| {
                        let id = self.unique_ident(&mut used, true);
                        let ov = if self.rng.chance(1, 4) { Some(self.free_text(true, false, true)) } else { None };
                        (id, ov)
                    })
                    .collect();
                let sel = self.rng.below(n as u64) as usize;
                FVal::Variant { style, variants, sel }
            }
        }
    }

    fn plain(&mut self, used: &mut BTreeSet<String>, owned_ok: bool) -> Field {
        let ident = self.unique_ident(used, false);
        let sg = self.rng.chance(1, 5);
        let mut v = self.base_val(owned_ok, sg);
        let mut unit = None;
        let numeric_unitless = matches!(v, FVal::Num(t, _) if t != NumTy::Duration);
        let is_duration = matches!(v, FVal::Num(NumTy::Duration, _));
        // newtype wrapper (`#[metrics(value)]`), possibly with the unit inside
        if self.rng.chance(1, 5) && !matches!(v, FVal::Str { owned: true, .. }) {
            let inner_unit = if numeric_unitless && self.rng.chance(1, 2) {
                Some(self.rng.pick(UNITS).to_string())
            } else if is_duration && self.rng.chance(1, 3) {
                Some("Millisecond".to_string())
            } else {
                None
            };
            v = FVal::Newtype { unit: inner_unit, inner: Box::new(v) };
        } else if numeric_unitless && self.rng.chance(2, 5) {
            unit = Some(self.rng.pick(UNITS).to_string());
        } else if is_duration && self.rng.chance(1, 4) {
            unit = Some("Millisecond".to_string());
        }
        if !sg && self.rng.chance(1, 4) {
            v = FVal::Opt { present: self.rng.chance(2, 3), inner: Box::new(v) };
        }
        let name = if self.rng.chance(1, 4) { Some(self.free_text(false, false, false)) } else { None };
        Field::Plain { ident, name, unit, sg, v }
    }

    fn raw_entry(&mut self) -> Field {
        let n = self.rng.range(0, 2);
        let mut items = vec![];
        for _ in 0..n {
            let name = self.free_text(true, false, false);
            if self.rng.chance(1, 2) {
                items.push(RawItem { name, num: Some(self.rng.below(100)), sval: String::new() });
            } else {
                items.push(RawItem { name, num: None, sval: self.free_text(true, false, true) });
            }
        }
        let sg = if self.rng.chance(1, 3) {
            vec![(self.free_text(true, false, false), self.free_text(true, false, true))]
        } else {
            vec![]
        };
        Field::FlattenEntry { items, sg }
    }

    fn flatten(&mut self, depth: usize, by_value: bool, long: bool, stems: &mut BTreeSet<String>) -> Field {
        let pfx = loop {
            let p = self.opt_pfx(false, long);
            match &p {
                None => break p,
                Some(Pfx::Infl(s)) | Some(Pfx::Exact(s)) => {
                    if stems.insert(ident_base(s)) {
                        break p;
                    }
                }
            }
        };
        let optional = self.rng.chance(1, 4);
        let present = !optional || self.rng.chance(2, 3);
        let child = self.def(depth - 1, false, long);
        // how the field holds the child: half of the flattens go through a forwarding impl / CloseValue impl
        let mut wrap = if self.rng.chance(1, 2) {
            Wrap::Owned
        } else {
            *self.rng.pick(&Wrap::ALL[1..])
        };
        if wrap.by_value_only() && !by_value {
            wrap = *self.rng.pick(&[Wrap::Ref, Wrap::Box, Wrap::Arc, Wrap::Cow, Wrap::Mutex, Wrap::StdArc]);
        }
        let mut child = child;
        if wrap.needs_clone() {
            // everything below a Cow is `#[derive(Clone)]`: no `Mutex` fields there
            demutex(&mut child);
        }
        Field::Flatten { pfx, optional, wrap, present, child: Box::new(child) }
    }

    /// fields of a struct or struct variant
    fn fields(&mut self, depth: usize, root: bool, long: bool, allow_ignore: bool, stems: &mut BTreeSet<String>) -> Vec<Field> {
        let n = self.rng.range(1, 4);
        let mut used = BTreeSet::new();
        let mut out = vec![];
        for _ in 0..n {
            let k = self.rng.below(20);
            out.push(match k {
                0..=9 => self.plain(&mut used, root),
                10..=14 if depth > 0 => self.flatten(depth, root, long, stems),
                15 if allow_ignore => Field::Ignore,
                16 => Field::Timestamp,
                17 => self.raw_entry(),
                _ => self.plain(&mut used, root),
            });
        }
        out
    }

    pub fn def(&mut self, depth: usize, root: bool, long: bool) -> Def {
        let a = Attrs { style: self.style(), pfx: self.opt_pfx(true, false) };
        if self.rng.chance(13, 20) {
            let mut stems = BTreeSet::new();
            Def::Struct { fields: self.fields(depth, root, long, true, &mut stems), a }
        } else {
            let tag = match self.rng.below(10) {
                0..=2 => None,
                3..=6 => Some(Tag { exact: false, name: self.tag_text(), sg: self.rng.chance(2, 5) }),
                _ => Some(Tag { exact: true, name: self.free_text(false, false, false), sg: self.rng.chance(2, 5) }),
            };
            // stem of the tag's ConstStr structs (the Preserve rendering of the tag's field name)
            let tag_stem = tag.as_ref().map(|t| {
                if t.exact {
                    ident_base(&t.name)
                } else {
                    match &a.pfx {
                        Some(Pfx::Infl(p)) | Some(Pfx::Exact(p)) => ident_base(&format!("{p}{}", t.name)),
                        None => ident_base(&t.name),
                    }
                }
            });
            let n = self.rng.range(1, 3) as usize;
            let mut used = BTreeSet::new();
            let mut variants = vec![];
            for _ in 0..n {
                let ident = self.unique_ident(&mut used, true);
                let name = if self.rng.chance(1, 4) { Some(self.free_text(true, false, true)) } else { None };
                let mut stems = BTreeSet::new();
                if let Some(s) = &tag_stem {
                    stems.insert(s.clone());
                }
                let (tuple, fields) = match self.rng.below(4) {
                    0 => (false, vec![]),
                    1 => {
                        let k = self.rng.range(1, 3);
                        let mut fs = vec![];
                        for _ in 0..k {
                            fs.push(match self.rng.below(6) {
                                0 => Field::Ignore,
                                1 => self.raw_entry(),
                                _ if depth > 0 => self.flatten(depth, root, long, &mut stems),
                                _ => self.raw_entry(),
                            });
                        }
                        (true, fs)
                    }
                    _ => (false, self.fields(depth, root, long, false, &mut stems)),
                };
                variants.push(Variant { ident, name, tuple, fields });
            }
            let sel = self.rng.below(n as u64) as usize;
            Def::Enum { a, tag, variants, sel }
        }
    }

    /// a random tree with the tier's depth bound
    pub fn tree(&mut self, max_depth: usize) -> Def {
        let long = self.rng.below(100) < self.long_pct;
        let depth = if long { max_depth.max(2) } else { self.rng.range(0, max_depth as u64) as usize };
        self.def(depth, true, long)
    }
}

fn demutex(d: &mut Def) {
    fn fields(fs: &mut [Field]) {
        for f in fs {
            if let Field::Flatten { wrap, child, .. } = f {
                if *wrap == Wrap::Mutex {
                    *wrap = Wrap::StdArc;
                }
                demutex(child);
            }
        }
    }
    match d {
        Def::Struct { fields: fs, .. } => fields(fs),
        Def::Enum { variants, .. } => variants.iter_mut().for_each(|v| fields(&mut v.fields)),
    }
}

/// re-draws everything that is *instance* (selected variants, Option presence, values)
pub fn reinstantiate(d: &mut Def, r: &mut Rng) {
    fn fval(v: &mut FVal, r: &mut Rng) {
        match v {
            FVal::Num(NumTy::Bool, n) => *n = r.below(2),
            FVal::Num(_, n) => *n = r.below(1000),
            FVal::Str { .. } => {}
            FVal::Variant { variants, sel, .. } => *sel = r.below(variants.len() as u64) as usize,
            FVal::Newtype { inner, .. } => fval(inner, r),
            FVal::Opt { present, inner } => {
                *present = r.chance(1, 2);
                fval(inner, r)
            }
        }
    }
    fn fields(fs: &mut [Field], r: &mut Rng) {
        for f in fs {
            match f {
                Field::Plain { v, .. } => fval(v, r),
                Field::Flatten { optional, present, child, .. } => {
                    if *optional {
                        *present = r.chance(1, 2);
                    }
                    reinstantiate(child, r);
                }
                _ => {}
            }
        }
    }
    match d {
        Def::Struct { fields: fs, .. } => fields(fs, r),
        Def::Enum { variants, sel, .. } => {
            *sel = r.below(variants.len() as u64) as usize;
            for v in variants {
                fields(&mut v.fields, r);
            }
        }
    }
}

/// number of named Rust types the tree needs (compile-cost proxy)
pub fn type_count(d: &Def) -> usize {
    fn fval(v: &FVal) -> usize {
        match v {
            FVal::Variant { .. } => 1,
            FVal::Newtype { inner, .. } => 1 + fval(inner),
            FVal::Opt { inner, .. } => fval(inner),
            _ => 0,
        }
    }
    fn fields(fs: &[Field]) -> usize {
        fs.iter()
            .map(|f| match f {
                Field::Plain { v, .. } => fval(v),
                Field::Flatten { child, .. } => type_count(child),
                _ => 0,
            })
            .sum()
    }
    1 + match d {
        Def::Struct { fields: fs, .. } => fields(fs),
        Def::Enum { variants, .. } => variants.iter().map(|v| fields(&v.fields)).sum(),
    }
}
