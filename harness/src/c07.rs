//! C07 (`naming` engine): instantiated `#[metrics]` definition trees — data, line-protocol
//! encoding, the documented naming function (the Rust property oracle, independent of Lean) and the
//! Rust code generator for `harness/gen_c07`.

use crate::{Rng, hex, unhex};
use inflector::Inflector;
use std::collections::BTreeSet;
use std::fmt::Write as _;

#[derive(Clone, Copy, Debug, PartialEq, Eq, Hash, PartialOrd, Ord)]
pub enum Style {
    Preserve,
    Pascal,
    Snake,
    Kebab,
}

impl Style {
    pub const ALL: [Style; 4] = [Style::Preserve, Style::Pascal, Style::Snake, Style::Kebab];
    fn tok(self) -> &'static str {
        match self {
            Style::Preserve => "n",
            Style::Pascal => "p",
            Style::Snake => "s",
            Style::Kebab => "k",
        }
    }
    fn from_tok(s: &str) -> Option<Style> {
        Some(match s {
            "n" => Style::Preserve,
            "p" => Style::Pascal,
            "s" => Style::Snake,
            "k" => Style::Kebab,
            _ => return None,
        })
    }
    pub fn attr(self) -> Option<&'static str> {
        match self {
            Style::Preserve => None,
            Style::Pascal => Some("PascalCase"),
            Style::Snake => Some("snake_case"),
            Style::Kebab => Some("kebab-case"),
        }
    }
    /// the documented inflection of a name ("uses the Inflector crate")
    pub fn apply(self, s: &str) -> String {
        match self {
            Style::Preserve => s.to_string(),
            Style::Pascal => s.to_pascal_case(),
            Style::Snake => s.to_snake_case(),
            Style::Kebab => s.to_kebab_case(),
        }
    }
    /// the documented inflection of a prefix: inflected, and ends with the style's delimiter
    pub fn apply_prefix(self, s: &str) -> String {
        match self {
            Style::Preserve => s.to_string(),
            Style::Pascal => s.to_pascal_case(),
            Style::Snake => {
                let mut r = s.to_snake_case();
                if !r.ends_with('_') {
                    r.push('_');
                }
                r
            }
            Style::Kebab => {
                let mut r = s.to_kebab_case();
                if !r.ends_with('-') {
                    r.push('-');
                }
                r
            }
        }
    }
}

#[derive(Clone, Debug, PartialEq, Eq)]
pub enum Pfx {
    Infl(String),
    Exact(String),
}

#[derive(Clone, Debug, PartialEq, Eq)]
pub struct Tag {
    pub exact: bool,
    pub name: String,
    pub sg: bool,
}

#[derive(Clone, Copy, Debug, PartialEq, Eq)]
pub enum NumTy {
    U64,
    Usize,
    Bool,
    F64,
    Duration,
}

impl NumTy {
    fn tok(self) -> char {
        match self {
            NumTy::U64 => 'u',
            NumTy::Usize => 'z',
            NumTy::Bool => 'b',
            NumTy::F64 => 'f',
            NumTy::Duration => 'd',
        }
    }
    fn from_tok(c: &str) -> Option<NumTy> {
        Some(match c {
            "u" => NumTy::U64,
            "z" => NumTy::Usize,
            "b" => NumTy::Bool,
            "f" => NumTy::F64,
            "d" => NumTy::Duration,
            _ => return None,
        })
    }
}

/// value (and, implicitly, type) of a plain field
#[derive(Clone, Debug, PartialEq)]
pub enum FVal {
    Num(NumTy, u64),
    /// `&'static str`, or `String` when `owned` (only legal where the parent closes by value)
    Str { s: String, owned: bool },
    /// `#[metrics(value(string))]` enum: all variants (ident, name override) and the one selected
    Variant { style: Style, variants: Vec<(String, Option<String>)>, sel: usize },
    /// `#[metrics(value)]` newtype
    Newtype { unit: Option<String>, inner: Box<FVal> },
    /// `Option<T>`; `inner` always carries the type
    Opt { present: bool, inner: Box<FVal> },
}

#[derive(Clone, Debug, PartialEq)]
pub struct Attrs {
    pub style: Style,
    pub pfx: Option<Pfx>,
}

#[derive(Clone, Debug, PartialEq)]
pub struct RawItem {
    pub name: String,
    /// `None`: string item with value `sval`; `Some(n)`: unit-less u64 metric
    pub num: Option<u64>,
    pub sval: String,
}

/// how a flatten field holds its child (below an optional `Option<_>`), i.e. which CloseValue impl
/// produces the closed child and through which forwarding `InflectableEntry<NS>` impl it is written
#[derive(Clone, Copy, Debug, PartialEq, Eq, PartialOrd, Ord)]
pub enum Wrap {
    /// `Child` itself
    Owned,
    /// support `WRef<Child>`, closes to `&'static ChildEntry`
    Ref,
    /// support `WBox<Child>`, closes to `Box<ChildEntry>`
    Box,
    /// support `WArc<Child>`, closes to `Arc<ChildEntry>`
    Arc,
    /// support `WCow<Child>`, closes to `Cow<'static, ChildEntry>`
    Cow,
    /// `ForceFlag<Child, NoFlags>` (metrique-core CloseValue), closes to `ForceFlag<ChildEntry, _>`
    ForceFlag,
    /// `WithDimensions<Child, 1>` (by-value parents only)
    WithDims,
    /// `Mutex<Child>`, closes to `Option<ChildEntry>` (always `Some`)
    Mutex,
    /// `Arc<Child>`, closes to the bare `ChildEntry`
    StdArc,
    /// `#[metrics(flatten, no_close)] Arc<<Child as CloseValue>::Closed>` (by-value parents only)
    NoCloseArc,
    /// `Cow<'static, <Child as CloseValue>::Closed>` (CloseValue for Cow is the identity; by-value parents only)
    RealCow,
}

impl Wrap {
    pub const ALL: [Wrap; 11] = [
        Wrap::Owned, Wrap::Ref, Wrap::Box, Wrap::Arc, Wrap::Cow, Wrap::ForceFlag, Wrap::WithDims, Wrap::Mutex,
        Wrap::StdArc, Wrap::NoCloseArc, Wrap::RealCow,
    ];
    pub fn tok(self) -> &'static str {
        match self {
            Wrap::Owned => "",
            Wrap::Ref => "r",
            Wrap::Box => "b",
            Wrap::Arc => "a",
            Wrap::Cow => "c",
            Wrap::ForceFlag => "f",
            Wrap::WithDims => "d",
            Wrap::Mutex => "m",
            Wrap::StdArc => "s",
            Wrap::NoCloseArc => "n",
            Wrap::RealCow => "w",
        }
    }
    fn from_tok(c: char) -> Option<Wrap> {
        Wrap::ALL.iter().copied().find(|w| w.tok().chars().next() == Some(c))
    }
    /// needs a parent that closes its fields by value (the root)
    pub fn by_value_only(self) -> bool {
        matches!(self, Wrap::WithDims | Wrap::NoCloseArc | Wrap::RealCow)
    }
    /// the two forwarding impls of metrique-core's close_value_impls.rs, which did not override
    /// `sample_group` before fix 1af396b; only used to *classify* a regression of that fix
    /// (`naming:sample-group-dropped-by-wrapper`)
    pub fn drops_sample_group(self) -> bool {
        matches!(self, Wrap::ForceFlag | Wrap::WithDims)
    }
    pub fn needs_clone(self) -> bool {
        matches!(self, Wrap::Cow | Wrap::RealCow)
    }
}

#[derive(Clone, Debug, PartialEq)]
pub enum Field {
    Plain { ident: String, name: Option<String>, unit: Option<String>, sg: bool, v: FVal },
    Ignore,
    Timestamp,
    Flatten { pfx: Option<Pfx>, optional: bool, wrap: Wrap, present: bool, child: Box<Def> },
    FlattenEntry { items: Vec<RawItem>, sg: Vec<(String, String)> },
}

#[derive(Clone, Debug, PartialEq)]
pub struct Variant {
    pub ident: String,
    pub name: Option<String>,
    pub tuple: bool,
    pub fields: Vec<Field>,
}

#[derive(Clone, Debug, PartialEq)]
pub enum Def {
    Struct { a: Attrs, fields: Vec<Field> },
    Enum { a: Attrs, tag: Option<Tag>, variants: Vec<Variant>, sel: usize },
}

// ------------------------------------------------------------------------------------------------
// Line protocol (see lean/Driver/Naming.lean). `encode` projects an instance: only the selected
// variant of every enum is written.

fn ostr(s: &Option<String>) -> String {
    match s {
        None => "~".into(),
        Some(s) => format!("={}", hex(s.as_bytes())),
    }
}

fn pfx_tok(p: &Option<Pfx>) -> String {
    match p {
        None => "~".into(),
        Some(Pfx::Infl(s)) => format!("i{}", hex(s.as_bytes())),
        Some(Pfx::Exact(s)) => format!("x{}", hex(s.as_bytes())),
    }
}

impl FVal {
    fn encode(&self, out: &mut Vec<String>) {
        match self {
            FVal::Num(t, n) => {
                out.push(format!("N{}", t.tok()));
                out.push(n.to_string());
            }
            FVal::Str { s, .. } => {
                out.push("Q".into());
                out.push(hex(s.as_bytes()));
            }
            FVal::Variant { style, variants, sel } => {
                let (id, ov) = &variants[*sel];
                out.push("V".into());
                out.push(style.tok().into());
                out.push(hex(id.as_bytes()));
                out.push(ostr(ov));
            }
            FVal::Newtype { unit, inner } => {
                out.push("W".into());
                out.push(ostr(unit));
                inner.encode(out);
            }
            FVal::Opt { present, inner } => {
                if *present {
                    out.push("O".into());
                    inner.encode(out);
                } else {
                    out.push("A".into());
                }
            }
        }
    }
}

impl Field {
    fn encode(&self, out: &mut Vec<String>) {
        match self {
            Field::Plain { ident, name, unit, sg, v } => {
                out.push("P".into());
                out.push(hex(ident.as_bytes()));
                out.push(ostr(name));
                out.push(ostr(unit));
                out.push(if *sg { "1" } else { "0" }.into());
                v.encode(out);
            }
            Field::Ignore => out.push("G".into()),
            Field::Timestamp => out.push("T".into()),
            Field::Flatten { pfx, optional, wrap, present, child } => {
                out.push("F".into());
                out.push(pfx_tok(pfx));
                out.push(if *present { "1" } else { "0" }.into());
                let w = format!("{}{}", if *optional { "o" } else { "" }, wrap.tok());
                out.push(if w.is_empty() { "-".into() } else { w });
                child.encode_into(out);
            }
            Field::FlattenEntry { items, sg } => {
                out.push("R".into());
                out.push(items.len().to_string());
                for it in items {
                    out.push(hex(it.name.as_bytes()));
                    match it.num {
                        Some(n) => {
                            out.push("m".into());
                            out.push(hex(format!("u{n}").as_bytes()));
                            out.push(hex(b"None"));
                        }
                        None => {
                            out.push("s".into());
                            out.push(hex(it.sval.as_bytes()));
                            out.push("-".into());
                        }
                    }
                }
                out.push(sg.len().to_string());
                for (k, v) in sg {
                    out.push(hex(k.as_bytes()));
                    out.push(hex(v.as_bytes()));
                }
            }
        }
    }
}

impl Def {
    fn encode_into(&self, out: &mut Vec<String>) {
        match self {
            Def::Struct { a, fields } => {
                out.push("S".into());
                out.push(a.style.tok().into());
                out.push(pfx_tok(&a.pfx));
                out.push(fields.len().to_string());
                for f in fields {
                    f.encode(out);
                }
            }
            Def::Enum { a, tag, variants, sel } => {
                let v = &variants[*sel];
                out.push("E".into());
                out.push(a.style.tok().into());
                out.push(pfx_tok(&a.pfx));
                out.push(match tag {
                    None => "~".into(),
                    Some(t) => format!(
                        "{}{}{}",
                        if t.exact { "x" } else { "i" },
                        if t.sg { "1" } else { "0" },
                        hex(t.name.as_bytes())
                    ),
                });
                out.push(hex(v.ident.as_bytes()));
                out.push(ostr(&v.name));
                out.push(if v.tuple { "1" } else { "0" }.into());
                out.push(v.fields.len().to_string());
                for f in &v.fields {
                    f.encode(out);
                }
            }
        }
    }
    /// the case line (also the request to the Lean driver)
    pub fn encode(&self) -> String {
        let mut out = vec!["D".to_string()];
        self.encode_into(&mut out);
        out.join(" ")
    }
    pub fn decode(line: &str) -> Option<Def> {
        let toks: Vec<&str> = line.split_whitespace().collect();
        if toks.first() != Some(&"D") {
            return None;
        }
        let mut p = Parser { toks: &toks, pos: 1 };
        let d = p.def()?;
        if p.pos == toks.len() { Some(d) } else { None }
    }
}

struct Parser<'a> {
    toks: &'a [&'a str],
    pos: usize,
}

fn utf8(h: &str) -> Option<String> {
    String::from_utf8(unhex(h)?).ok()
}

impl<'a> Parser<'a> {
    fn next(&mut self) -> Option<&'a str> {
        let t = self.toks.get(self.pos).copied();
        self.pos += 1;
        t
    }
    fn boolean(&mut self) -> Option<bool> {
        match self.next()? {
            "0" => Some(false),
            "1" => Some(true),
            _ => None,
        }
    }
    fn ostr(&mut self) -> Option<Option<String>> {
        let t = self.next()?;
        if t == "~" {
            Some(None)
        } else {
            Some(Some(utf8(t.strip_prefix('=')?)?))
        }
    }
    fn pfx(&mut self) -> Option<Option<Pfx>> {
        let t = self.next()?;
        if t == "~" {
            Some(None)
        } else if let Some(h) = t.strip_prefix('i') {
            Some(Some(Pfx::Infl(utf8(h)?)))
        } else if let Some(h) = t.strip_prefix('x') {
            Some(Some(Pfx::Exact(utf8(h)?)))
        } else {
            None
        }
    }
    fn fval(&mut self) -> Option<FVal> {
        let t = self.next()?;
        Some(match t {
            "A" => FVal::Opt { present: false, inner: Box::new(FVal::Num(NumTy::U64, 0)) },
            "O" => FVal::Opt { present: true, inner: Box::new(self.fval()?) },
            "Q" => FVal::Str { s: utf8(self.next()?)?, owned: false },
            "V" => {
                let style = Style::from_tok(self.next()?)?;
                let id = utf8(self.next()?)?;
                let ov = self.ostr()?;
                FVal::Variant { style, variants: vec![(id, ov)], sel: 0 }
            }
            "W" => {
                let unit = self.ostr()?;
                FVal::Newtype { unit, inner: Box::new(self.fval()?) }
            }
            _ => {
                let ty = NumTy::from_tok(t.strip_prefix('N')?)?;
                FVal::Num(ty, self.next()?.parse().ok()?)
            }
        })
    }
    fn field(&mut self) -> Option<Field> {
        Some(match self.next()? {
            "G" => Field::Ignore,
            "T" => Field::Timestamp,
            "P" => {
                let ident = utf8(self.next()?)?;
                let name = self.ostr()?;
                let unit = self.ostr()?;
                let sg = self.boolean()?;
                Field::Plain { ident, name, unit, sg, v: self.fval()? }
            }
            "F" => {
                let pfx = self.pfx()?;
                let present = self.boolean()?;
                let w = self.next()?;
                let w = match w {
                    "0" | "-" => "",
                    "1" => "o",
                    w => w,
                };
                let optional = w.starts_with('o');
                let rest = w.strip_prefix('o').unwrap_or(w);
                let wrap = match rest.len() {
                    0 => Wrap::Owned,
                    1 => Wrap::from_tok(rest.chars().next()?)?,
                    _ => return None,
                };
                if !present && !optional {
                    return None;
                }
                Field::Flatten { pfx, optional, wrap, present, child: Box::new(self.def()?) }
            }
            "R" => {
                let n: usize = self.next()?.parse().ok()?;
                let mut items = vec![];
                for _ in 0..n {
                    let name = utf8(self.next()?)?;
                    let kind = self.next()?;
                    let val = utf8(self.next()?)?;
                    let _unit = self.next()?;
                    items.push(match kind {
                        "m" => RawItem { name, num: Some(val.strip_prefix('u')?.parse().ok()?), sval: String::new() },
                        "s" => RawItem { name, num: None, sval: val },
                        _ => return None,
                    });
                }
                let k: usize = self.next()?.parse().ok()?;
                let mut sg = vec![];
                for _ in 0..k {
                    sg.push((utf8(self.next()?)?, utf8(self.next()?)?));
                }
                Field::FlattenEntry { items, sg }
            }
            _ => return None,
        })
    }
    fn def(&mut self) -> Option<Def> {
        match self.next()? {
            "S" => {
                let style = Style::from_tok(self.next()?)?;
                let pfx = self.pfx()?;
                let n: usize = self.next()?.parse().ok()?;
                let mut fields = vec![];
                for _ in 0..n {
                    fields.push(self.field()?);
                }
                Some(Def::Struct { a: Attrs { style, pfx }, fields })
            }
            "E" => {
                let style = Style::from_tok(self.next()?)?;
                let pfx = self.pfx()?;
                let t = self.next()?;
                let tag = if t == "~" {
                    None
                } else {
                    let exact = match &t[..1] {
                        "x" => true,
                        "i" => false,
                        _ => return None,
                    };
                    let sg = match t.get(1..2)? {
                        "1" => true,
                        "0" => false,
                        _ => return None,
                    };
                    Some(Tag { exact, name: utf8(t.get(2..)?)?, sg })
                };
                let ident = utf8(self.next()?)?;
                let name = self.ostr()?;
                let tuple = self.boolean()?;
                let n: usize = self.next()?.parse().ok()?;
                let mut fields = vec![];
                for _ in 0..n {
                    fields.push(self.field()?);
                }
                Some(Def::Enum { a: Attrs { style, pfx }, tag, variants: vec![Variant { ident, name, tuple, fields }], sel: 0 })
            }
            _ => None,
        }
    }
}

// ------------------------------------------------------------------------------------------------
// The documented naming function (property oracle). Written from the macro's documentation:
//  * effective style = nearest explicit rename_all from the field up to the root;
//  * name = flatten-prefix chain (each prefix inflected in the style in force where it was declared,
//    exact prefixes verbatim) ++ (name override | exact container prefix ++ style(ident)
//    | style(container prefix ++ ident));
//  * tag name by the same rule (name_exact verbatim, still below the chain); tag value and
//    value(string) variants: `name`, else the enum's *own* rename_all of the identifier;
//  * ignored fields and absent Options contribute nothing; flatten_entry is verbatim;
//  * sample-group pairs use the same names.

#[derive(Clone, Debug, PartialEq, Eq)]
pub struct Item {
    pub name: String,
    pub metric: bool,
    pub value: String,
    pub unit: String,
}

impl Item {
    pub fn render(&self) -> String {
        format!(
            "{}:{}:{}:{}",
            hex(self.name.as_bytes()),
            if self.metric { "m" } else { "s" },
            hex(self.value.as_bytes()),
            hex(self.unit.as_bytes())
        )
    }
}

pub fn render(items: &[Item], sg: &[(String, String)]) -> String {
    format!(
        "I {} ; G {}",
        items.iter().map(|i| i.render()).collect::<Vec<_>>().join(" "),
        sg.iter().map(|(k, v)| format!("{}={}", hex(k.as_bytes()), hex(v.as_bytes()))).collect::<Vec<_>>().join(" ")
    )
}

/// (metric?, rendered value, unit attribute name / "None" / "" for strings) of a closed field value
fn observe(v: &FVal) -> Option<(bool, String, String)> {
    match v {
        FVal::Num(NumTy::U64 | NumTy::Usize | NumTy::Bool, n) => Some((true, format!("u{n}"), "None".into())),
        FVal::Num(NumTy::F64, n) => Some((true, format!("f{n}"), "None".into())),
        FVal::Num(NumTy::Duration, n) => Some((true, format!("f{}", n * 1000), "Milliseconds".into())),
        FVal::Str { s, .. } => Some((false, s.clone(), String::new())),
        FVal::Variant { style, variants, sel } => {
            let (id, ov) = &variants[*sel];
            Some((false, ov.clone().unwrap_or_else(|| style.apply(id)), String::new()))
        }
        FVal::Newtype { unit, inner } => observe(inner).map(|o| attach(unit, o)),
        FVal::Opt { present, inner } => {
            if *present {
                observe(inner)
            } else {
                None
            }
        }
    }
}

fn attach(unit: &Option<String>, o: (bool, String, String)) -> (bool, String, String) {
    match unit {
        Some(u) if o.0 => (o.0, o.1, u.clone()),
        _ => o,
    }
}

fn eff(inh: Style, own: Style) -> Style {
    if own == Style::Preserve { inh } else { own }
}

fn spec_name(style: Style, chain: &str, a: &Attrs, base: &str, ov: &Option<String>) -> String {
    let tail = match ov {
        Some(n) => n.clone(),
        None => match &a.pfx {
            None => style.apply(base),
            Some(Pfx::Exact(e)) => format!("{e}{}", style.apply(base)),
            Some(Pfx::Infl(p)) => style.apply(&format!("{p}{base}")),
        },
    };
    format!("{chain}{tail}")
}

/// One spec walk produces the items and, for sample groups, both the documented pairs and the pairs
/// with every flatten prefix chain stripped (only used to *classify* a mismatch as the known finding).
#[derive(Default, Debug, Clone)]
pub struct SpecOut {
    pub items: Vec<Item>,
    pub sg: Vec<(String, String)>,
    pub sg_chainless: Vec<(String, String)>,
    /// `sg_chainless` without the pairs that lie below a `ForceFlag` / `WithDimensions` flatten
    /// (classification of the wrapper defect only)
    pub sg_wrapper_dropped: Vec<(String, String)>,
    below_dropping_wrapper: u32,
}

pub fn spec(def: &Def) -> SpecOut {
    let mut out = SpecOut::default();
    spec_def(def, Style::Preserve, "", &mut out);
    out
}

fn spec_def(def: &Def, inh: Style, chain: &str, out: &mut SpecOut) {
    match def {
        Def::Struct { a, fields } => {
            let style = eff(inh, a.style);
            for f in fields {
                spec_field(f, style, chain, a, out);
            }
        }
        Def::Enum { a, tag, variants, sel } => {
            let style = eff(inh, a.style);
            let v = &variants[*sel];
            if let Some(t) = tag {
                let value = v.name.clone().unwrap_or_else(|| a.style.apply(&v.ident));
                let (name, chainless) = if t.exact {
                    (format!("{chain}{}", t.name), t.name.clone())
                } else {
                    (spec_name(style, chain, a, &t.name, &None), spec_name(style, "", a, &t.name, &None))
                };
                out.items.push(Item { name: name.clone(), metric: false, value: value.clone(), unit: String::new() });
                if t.sg {
                    out.sg.push((name, value.clone()));
                    if out.below_dropping_wrapper == 0 {
                        out.sg_wrapper_dropped.push((chainless.clone(), value.clone()));
                    }
                    out.sg_chainless.push((chainless, value));
                }
            }
            for f in &v.fields {
                spec_field(f, style, chain, a, out);
            }
        }
    }
}

fn spec_field(f: &Field, style: Style, chain: &str, a: &Attrs, out: &mut SpecOut) {
    match f {
        Field::Plain { ident, name, unit, sg, v } => {
            let full = spec_name(style, chain, a, ident, name);
            if let Some(o) = observe(v).map(|o| attach(unit, o)) {
                out.items.push(Item { name: full.clone(), metric: o.0, value: o.1, unit: o.2 });
            }
            if *sg {
                let value = observe(v).map(|o| o.1).unwrap_or_default();
                out.sg.push((full, value.clone()));
                if out.below_dropping_wrapper == 0 {
                    out.sg_wrapper_dropped.push((spec_name(style, "", a, ident, name), value.clone()));
                }
                out.sg_chainless.push((spec_name(style, "", a, ident, name), value));
            }
        }
        Field::Ignore | Field::Timestamp => {}
        // however the field holds the child (Box, Arc, &, Cow, Option, ForceFlag, …): same style, same chain
        Field::Flatten { pfx, present, child, wrap, .. } => {
            if *present {
                let chain2 = match pfx {
                    None => chain.to_string(),
                    Some(Pfx::Exact(e)) => format!("{chain}{e}"),
                    Some(Pfx::Infl(p)) => format!("{chain}{}", style.apply_prefix(p)),
                };
                if wrap.drops_sample_group() {
                    out.below_dropping_wrapper += 1;
                }
                spec_def(child, style, &chain2, out);
                if wrap.drops_sample_group() {
                    out.below_dropping_wrapper -= 1;
                }
            }
        }
        Field::FlattenEntry { items, sg } => {
            for it in items {
                out.items.push(match it.num {
                    Some(n) => Item { name: it.name.clone(), metric: true, value: format!("u{n}"), unit: "None".into() },
                    None => Item { name: it.name.clone(), metric: false, value: it.sval.clone(), unit: String::new() },
                });
            }
            out.sg.extend(sg.iter().cloned());
            out.sg_chainless.extend(sg.iter().cloned());
            if out.below_dropping_wrapper == 0 {
                out.sg_wrapper_dropped.extend(sg.iter().cloned());
            }
        }
    }
}

/// the identifier stem `make_inflect_base` / `make_exact_prefix` derive for their `ConstStr` structs
pub fn ident_base(s: &str) -> String {
    s.to_pascal_case().chars().filter(|c| c.is_alphanumeric()).collect()
}

pub fn first_alnum_is_digit(s: &str) -> bool {
    s.chars().find(|c| c.is_alphanumeric()).map(|c| c.is_numeric()).unwrap_or(false)
}

include!("c07_codegen.rs");
include!("c07_gen.rs");

#[allow(dead_code)]
fn _unused(_: &mut Rng, _: BTreeSet<u8>, s: &mut String) {
    let _ = write!(s, "");
}
