//! Shared machinery of the correspondence harness: one PRNG, the line protocol to the Lean driver,
//! the run report (what `./check` turns into evidence / VIOLATION lines), a generic shrinker.
//!
//! Every engine binary (`src/bin/<engine>.rs`) has the same command line:
//!   <engine> --property Cxx --tier quick|thorough --seed N --out <json> [--driver <path>|none]
//!            [--replay <file>] [--corpus <dir>]
//! and never prints VIOLATION lines itself: it writes the report, `./check` decides.

use std::collections::{BTreeMap, BTreeSet};
use std::io::{BufRead, BufReader, Write};
use std::process::{Command, Stdio};
use std::time::Instant;

pub use serde_json::{Value as Json, json};

pub mod gen_entry;
pub mod c07;
pub mod strict_json;
pub mod qgate;

// ------------------------------------------------------------------------------------------------
// PRNG: splitmix64; every random choice of a run derives from the one seed.

#[derive(Clone, Debug)]
pub struct Rng(pub u64);

impl Rng {
    pub fn new(seed: u64) -> Self {
        Rng(seed ^ 0x9E37_79B9_7F4A_7C15)
    }
    pub fn next_u64(&mut self) -> u64 {
        self.0 = self.0.wrapping_add(0x9E37_79B9_7F4A_7C15);
        let mut z = self.0;
        z = (z ^ (z >> 30)).wrapping_mul(0xBF58_476D_1CE4_E5B9);
        z = (z ^ (z >> 27)).wrapping_mul(0x94D0_49BB_1331_11EB);
        z ^ (z >> 31)
    }
    /// uniform in 0..n (n > 0)
    pub fn below(&mut self, n: u64) -> u64 {
        self.next_u64() % n
    }
    pub fn range(&mut self, lo: u64, hi_incl: u64) -> u64 {
        lo + self.below(hi_incl - lo + 1)
    }
    pub fn chance(&mut self, num: u64, den: u64) -> bool {
        self.below(den) < num
    }
    pub fn pick<'a, T>(&mut self, xs: &'a [T]) -> &'a T {
        &xs[self.below(xs.len() as u64) as usize]
    }
    /// an independent stream (for shards / sub-generators)
    pub fn fork(&mut self, tag: u64) -> Rng {
        Rng::new(self.next_u64() ^ tag.wrapping_mul(0xD6E8_FEB8_6659_FD93))
    }
    pub fn shuffle<T>(&mut self, xs: &mut [T]) {
        for i in (1..xs.len()).rev() {
            let j = self.below(i as u64 + 1) as usize;
            xs.swap(i, j);
        }
    }
}

// ------------------------------------------------------------------------------------------------
// Encoding helpers for the line protocol: strings as hex of UTF-8, floats as bit patterns.

pub fn hex(s: &[u8]) -> String {
    if s.is_empty() {
        return "-".to_string();
    }
    // table-driven (same output as `format!("{b:02x}")` per byte; multi-megabyte strings are encoded)
    const DIGITS: &[u8; 16] = b"0123456789abcdef";
    let mut out = Vec::with_capacity(s.len() * 2);
    for b in s {
        out.push(DIGITS[(b >> 4) as usize]);
        out.push(DIGITS[(b & 15) as usize]);
    }
    String::from_utf8(out).expect("hex digits are ASCII")
}

pub fn unhex(s: &str) -> Option<Vec<u8>> {
    if s == "-" {
        return Some(vec![]);
    }
    if s.len() % 2 != 0 {
        return None;
    }
    (0..s.len() / 2).map(|i| u8::from_str_radix(&s[2 * i..2 * i + 2], 16).ok()).collect()
}

pub fn f64_bits(x: f64) -> String {
    format!("{:016x}", x.to_bits())
}

pub fn f32_bits(x: f32) -> String {
    format!("{:08x}", x.to_bits())
}

// ------------------------------------------------------------------------------------------------
// Command line

#[derive(Clone, Debug)]
pub struct Args {
    pub property: String,
    pub tier: String,
    pub seed: u64,
    pub out: String,
    pub driver: Option<String>,
    pub replay: Option<String>,
    pub corpus: Option<String>,
    pub extra: BTreeMap<String, String>,
}

impl Args {
    pub fn parse() -> Args {
        let mut a = Args {
            property: String::new(),
            tier: "quick".into(),
            seed: 1,
            out: String::new(),
            driver: Some("/verif/lean/.lake/build/bin/driver".into()),
            replay: None,
            corpus: None,
            extra: BTreeMap::new(),
        };
        let v: Vec<String> = std::env::args().skip(1).collect();
        let mut i = 0;
        while i < v.len() {
            let k = v[i].clone();
            let val = v.get(i + 1).cloned().unwrap_or_default();
            match k.as_str() {
                "--property" => a.property = val,
                "--tier" => a.tier = val,
                "--seed" => a.seed = val.parse().unwrap_or(1),
                "--out" => a.out = val,
                "--driver" => a.driver = if val == "none" { None } else { Some(val) },
                "--replay" => a.replay = Some(val),
                "--corpus" => a.corpus = Some(val),
                _ => {
                    a.extra.insert(k.trim_start_matches("--").to_string(), val);
                }
            }
            i += 2;
        }
        a
    }
    pub fn thorough(&self) -> bool {
        self.tier == "thorough"
    }
    /// corpus lines (`<corpus>/*.case`, one case per line, `#` comments), run before generated cases
    pub fn corpus_cases(&self) -> Vec<String> {
        let mut out = vec![];
        if let Some(dir) = &self.corpus {
            if let Ok(rd) = std::fs::read_dir(dir) {
                let mut files: Vec<_> = rd.filter_map(|e| e.ok()).map(|e| e.path()).collect();
                files.sort();
                for f in files {
                    if f.extension().map(|e| e == "case").unwrap_or(false) {
                        if let Ok(s) = std::fs::read_to_string(&f) {
                            for l in s.lines() {
                                let l = l.trim();
                                if !l.is_empty() && !l.starts_with('#') {
                                    out.push(l.to_string());
                                }
                            }
                        }
                    }
                }
            }
        }
        out
    }
    /// the case line of a replay file written by `./check` (JSON with a "case" member), if any
    pub fn replay_case(&self) -> Option<String> {
        let p = self.replay.as_ref()?;
        let s = std::fs::read_to_string(p).ok()?;
        let j: Json = serde_json::from_str(&s).ok()?;
        j.get("case").and_then(|c| c.as_str()).map(|s| s.to_string())
    }
}

// ------------------------------------------------------------------------------------------------
// Lean driver: batch line protocol

/// Runs `driver <engine>` on the given request lines; `None` when the driver is unavailable
/// (then the run is oracle-only and the report says so).
pub fn run_driver(driver: &Option<String>, engine: &str, lines: &[String]) -> Option<Vec<String>> {
    let path = driver.as_ref()?;
    if !std::path::Path::new(path).exists() {
        return None;
    }
    let mut child = Command::new(path)
        .arg(engine)
        .stdin(Stdio::piped())
        .stdout(Stdio::piped())
        .stderr(Stdio::inherit())
        .spawn()
        .ok()?;
    let mut stdin = child.stdin.take()?;
    let payload: String = lines.iter().map(|l| format!("{l}\n")).collect();
    let writer = std::thread::spawn(move || {
        let _ = stdin.write_all(payload.as_bytes());
    });
    let stdout = child.stdout.take()?;
    let mut out = Vec::with_capacity(lines.len());
    for l in BufReader::new(stdout).lines() {
        out.push(l.ok()?);
    }
    let _ = writer.join();
    let st = child.wait().ok()?;
    if !st.success() || out.len() != lines.len() {
        eprintln!(
            "driver {engine}: exit {:?}, {} replies for {} requests",
            st.code(),
            out.len(),
            lines.len()
        );
        return None;
    }
    Some(out)
}

// ------------------------------------------------------------------------------------------------
// Report

#[derive(Debug, Clone)]
pub struct OracleFailure {
    /// stable identification of the defect *class and site* for known-findings matching
    pub key: String,
    /// minimal (shrunk) line-protocol case
    pub case: String,
    pub impl_out: String,
    pub what: String,
}

#[derive(Debug, Clone)]
pub struct Disagreement {
    pub component: String,
    pub case: String,
    pub impl_out: String,
    pub model_out: String,
}

pub struct Report {
    pub property: String,
    pub engine: String,
    pub tier: String,
    pub seed: u64,
    pub rule: String,
    pub evaluations: u64,
    pub nontrivial: BTreeSet<u64>,
    pub samples: Vec<Json>,
    pub distribution: BTreeMap<String, u64>,
    pub oracle_failures: Vec<OracleFailure>,
    pub disagreements: Vec<Disagreement>,
    pub traces_validated: u64,
    pub driver_available: bool,
    pub search_cases: u64,
    pub search_found: bool,
    pub exhaustive: bool,
    pub notes: Vec<String>,
    start: Instant,
}

fn fnv(s: &str) -> u64 {
    let mut h: u64 = 0xcbf29ce484222325;
    for b in s.bytes() {
        h ^= b as u64;
        h = h.wrapping_mul(0x100000001b3);
    }
    h
}

impl Report {
    pub fn new(args: &Args, engine: &str, rule: &str) -> Report {
        Report {
            property: args.property.clone(),
            engine: engine.into(),
            tier: args.tier.clone(),
            seed: args.seed,
            rule: rule.into(),
            evaluations: 0,
            nontrivial: BTreeSet::new(),
            samples: vec![],
            distribution: BTreeMap::new(),
            oracle_failures: vec![],
            disagreements: vec![],
            traces_validated: 0,
            driver_available: true,
            search_cases: 0,
            search_found: false,
            exhaustive: false,
            notes: vec![],
            start: Instant::now(),
        }
    }
    /// count one evaluated case; `nontrivial` per the engine's stated rule
    pub fn case(&mut self, case: &str, nontrivial: bool) {
        self.evaluations += 1;
        if nontrivial {
            self.nontrivial.insert(fnv(case));
        }
    }
    pub fn sample(&mut self, v: Json) {
        if self.samples.len() < 6 {
            self.samples.push(v);
        }
    }
    pub fn bump(&mut self, key: &str) {
        *self.distribution.entry(key.to_string()).or_insert(0) += 1;
    }
    pub fn bump_by(&mut self, key: &str, n: u64) {
        *self.distribution.entry(key.to_string()).or_insert(0) += n;
    }
    pub fn oracle_failure(&mut self, key: &str, case: &str, impl_out: &str, what: &str) {
        if self.oracle_failures.len() < 50 {
            self.oracle_failures.push(OracleFailure {
                key: key.into(),
                case: case.into(),
                impl_out: impl_out.into(),
                what: what.into(),
            });
        }
    }
    pub fn disagreement(&mut self, component: &str, case: &str, impl_out: &str, model_out: &str) {
        if self.disagreements.len() < 50 {
            self.disagreements.push(Disagreement {
                component: component.into(),
                case: case.into(),
                impl_out: impl_out.into(),
                model_out: model_out.into(),
            });
        }
    }
    pub fn clean(&self) -> bool {
        self.oracle_failures.is_empty() && self.disagreements.is_empty()
    }
    pub fn to_json(&self) -> Json {
        json!({
            "property": self.property, "engine": self.engine, "tier": self.tier, "seed": self.seed,
            "rule": self.rule,
            "evaluations": self.evaluations,
            "distinct_nontrivial": self.nontrivial.len(),
            "samples": self.samples,
            "distribution": self.distribution,
            "oracle_failures": self.oracle_failures.iter().map(|f| json!({
                "key": f.key, "case": f.case, "impl": f.impl_out, "what": f.what})).collect::<Vec<_>>(),
            "disagreements": self.disagreements.iter().map(|d| json!({
                "component": d.component, "case": d.case, "impl": d.impl_out, "model": d.model_out})).collect::<Vec<_>>(),
            "traces_validated_against_impl": self.traces_validated,
            "driver_available": self.driver_available,
            "search": {"cases": self.search_cases, "found": self.search_found},
            "exhaustive": self.exhaustive,
            "notes": self.notes,
            "wall_s": self.start.elapsed().as_secs_f64(),
        })
    }
    pub fn write(&self, args: &Args) {
        let s = serde_json::to_string_pretty(&self.to_json()).unwrap();
        if args.out.is_empty() {
            println!("{s}");
        } else {
            std::fs::write(&args.out, s).expect("write report");
        }
    }
}

// ------------------------------------------------------------------------------------------------
// Generic delta-debugging shrinker over a list of items: removes chunks while `fails` stays true.

pub fn shrink_list<T: Clone>(items: &[T], mut fails: impl FnMut(&[T]) -> bool) -> Vec<T> {
    let mut cur: Vec<T> = items.to_vec();
    let mut chunk = (cur.len() / 2).max(1);
    loop {
        let mut progressed = false;
        let mut i = 0;
        while i < cur.len() {
            let end = (i + chunk).min(cur.len());
            let mut cand = cur[..i].to_vec();
            cand.extend_from_slice(&cur[end..]);
            if cand.len() < cur.len() && fails(&cand) {
                cur = cand;
                progressed = true;
            } else {
                i += chunk;
            }
        }
        if !progressed {
            if chunk == 1 {
                break;
            }
            chunk = (chunk / 2).max(1);
        }
    }
    cur
}

/// Runs `f` catching panics (a panic inside the implementation is an observable, not a harness crash).
pub fn catch<T>(f: impl FnOnce() -> T) -> Result<T, String> {
    match std::panic::catch_unwind(std::panic::AssertUnwindSafe(f)) {
        Ok(v) => Ok(v),
        Err(e) => Err(if let Some(s) = e.downcast_ref::<&str>() {
            s.to_string()
        } else if let Some(s) = e.downcast_ref::<String>() {
            s.clone()
        } else {
            "panic".to_string()
        }),
    }
}

/// Silences the default panic hook's stderr noise for panics we catch on purpose.
pub fn quiet_panics() {
    std::panic::set_hook(Box::new(|_| {}));
}
