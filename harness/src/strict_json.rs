//! A strict JSON parser written by hand over `&[u8]` (deliberately not serde_json: the code under
//! test produces its strings with serde_json, an oracle built on the same crate would share its
//! blind spots).
//!
//! Grammar: RFC 8259. One value with optional surrounding whitespace (space, `\t`, `\n`, `\r`);
//! numbers `-?(0|[1-9][0-9]*)(\.[0-9]+)?([eE][+-]?[0-9]+)?`; string escapes
//! `\" \\ \/ \b \f \n \r \t \uXXXX` (4 hex digits, either case); raw bytes >= 0x20 other than `"`
//! and `\` are allowed inside strings (0x7f too); literals `true` `false` `null`.
//! Rejected: trailing commas, raw control characters (< 0x20) inside strings, invalid escapes, leading
//! zeros / malformed numbers, anything but whitespace after the value, and (by [`parse`] only) input
//! that is not valid UTF-8.
//!
//! The tree keeps member order and duplicate members. `\uXXXX` escapes are decoded; a surrogate pair
//! becomes one scalar value, a lone surrogate escape is accepted (it is grammatical) and decoded as
//! U+FFFD.

#[derive(Clone, Debug, PartialEq)]
pub enum J {
    Null,
    Bool(bool),
    /// the literal text of the number
    Num(String),
    Str(String),
    Arr(Vec<J>),
    /// members in source order, duplicates kept
    Obj(Vec<(String, J)>),
}

impl J {
    /// first member with that name
    pub fn get(&self, name: &str) -> Option<&J> {
        match self {
            J::Obj(ms) => ms.iter().find(|(k, _)| k == name).map(|(_, v)| v),
            _ => None,
        }
    }
    pub fn as_obj(&self) -> Option<&[(String, J)]> {
        match self {
            J::Obj(ms) => Some(ms),
            _ => None,
        }
    }
    pub fn as_arr(&self) -> Option<&[J]> {
        match self {
            J::Arr(xs) => Some(xs),
            _ => None,
        }
    }
}

/// Strict parse: valid UTF-8 and the grammar above.
pub fn parse(bytes: &[u8]) -> Result<J, String> {
    if let Err(e) = std::str::from_utf8(bytes) {
        return Err(format!("invalid UTF-8 at byte {}", e.valid_up_to()));
    }
    parse_grammar(bytes)
}

/// Grammar only (byte level): bytes >= 0x80 are accepted raw inside strings without checking that
/// they form valid UTF-8 (string contents are then decoded lossily).
pub fn parse_grammar(bytes: &[u8]) -> Result<J, String> {
    let mut p = P { b: bytes, i: 0 };
    p.ws();
    let v = p.value()?;
    p.ws();
    if p.i != bytes.len() {
        return Err(format!("trailing bytes at {}", p.i));
    }
    Ok(v)
}

/// The grammar-level verdict (what the Lean recogniser decides).
pub fn accepts_grammar(bytes: &[u8]) -> bool {
    parse_grammar(bytes).is_ok()
}

/// Names that occur more than once among the members of one object, at any depth
/// (one entry per surplus occurrence, in document order).
pub fn duplicate_members(j: &J) -> Vec<String> {
    let mut out = vec![];
    dups(j, &mut out);
    out
}

fn dups(j: &J, out: &mut Vec<String>) {
    match j {
        J::Arr(xs) => xs.iter().for_each(|x| dups(x, out)),
        J::Obj(ms) => {
            let mut seen = std::collections::HashSet::new();
            for (k, v) in ms {
                if !seen.insert(k.as_str()) {
                    out.push(k.clone());
                }
                dups(v, out);
            }
        }
        _ => {}
    }
}

struct P<'a> {
    b: &'a [u8],
    i: usize,
}

impl P<'_> {
    fn peek(&self) -> Option<u8> {
        self.b.get(self.i).copied()
    }
    fn ws(&mut self) {
        while let Some(b' ' | b'\t' | b'\n' | b'\r') = self.peek() {
            self.i += 1;
        }
    }
    fn err<T>(&self, what: &str) -> Result<T, String> {
        Err(format!("{what} at byte {}", self.i))
    }
    fn lit(&mut self, text: &[u8], v: J) -> Result<J, String> {
        if self.b[self.i..].starts_with(text) {
            self.i += text.len();
            Ok(v)
        } else {
            self.err("bad literal")
        }
    }
    fn value(&mut self) -> Result<J, String> {
        match self.peek() {
            None => self.err("unexpected end of input"),
            Some(b'n') => self.lit(b"null", J::Null),
            Some(b't') => self.lit(b"true", J::Bool(true)),
            Some(b'f') => self.lit(b"false", J::Bool(false)),
            Some(b'"') => Ok(J::Str(self.string()?)),
            Some(b'[') => {
                self.i += 1;
                let mut xs = vec![];
                self.ws();
                if self.peek() == Some(b']') {
                    self.i += 1;
                    return Ok(J::Arr(xs));
                }
                loop {
                    self.ws();
                    xs.push(self.value()?);
                    self.ws();
                    match self.peek() {
                        Some(b',') => self.i += 1,
                        Some(b']') => {
                            self.i += 1;
                            return Ok(J::Arr(xs));
                        }
                        _ => return self.err("expected `,` or `]`"),
                    }
                }
            }
            Some(b'{') => {
                self.i += 1;
                let mut ms = vec![];
                self.ws();
                if self.peek() == Some(b'}') {
                    self.i += 1;
                    return Ok(J::Obj(ms));
                }
                loop {
                    self.ws();
                    if self.peek() != Some(b'"') {
                        return self.err("expected member name");
                    }
                    let k = self.string()?;
                    self.ws();
                    if self.peek() != Some(b':') {
                        return self.err("expected `:`");
                    }
                    self.i += 1;
                    self.ws();
                    let v = self.value()?;
                    ms.push((k, v));
                    self.ws();
                    match self.peek() {
                        Some(b',') => self.i += 1,
                        Some(b'}') => {
                            self.i += 1;
                            return Ok(J::Obj(ms));
                        }
                        _ => return self.err("expected `,` or `}`"),
                    }
                }
            }
            Some(b'-' | b'0'..=b'9') => self.number(),
            Some(_) => self.err("unexpected byte"),
        }
    }
    fn digits(&mut self) -> usize {
        let s = self.i;
        while let Some(b'0'..=b'9') = self.peek() {
            self.i += 1;
        }
        self.i - s
    }
    fn number(&mut self) -> Result<J, String> {
        let start = self.i;
        if self.peek() == Some(b'-') {
            self.i += 1;
        }
        match self.peek() {
            Some(b'0') => self.i += 1, // a leading zero stands alone: `01` leaves `1` behind and fails later
            Some(b'1'..=b'9') => {
                self.digits();
            }
            _ => return self.err("expected digit"),
        }
        if self.peek() == Some(b'.') {
            self.i += 1;
            if self.digits() == 0 {
                return self.err("expected fraction digit");
            }
        }
        if let Some(b'e' | b'E') = self.peek() {
            self.i += 1;
            if let Some(b'+' | b'-') = self.peek() {
                self.i += 1;
            }
            if self.digits() == 0 {
                return self.err("expected exponent digit");
            }
        }
        Ok(J::Num(String::from_utf8_lossy(&self.b[start..self.i]).into_owned()))
    }
    fn hex4(&mut self) -> Result<u32, String> {
        let mut v = 0u32;
        for _ in 0..4 {
            let d = match self.peek() {
                Some(c @ b'0'..=b'9') => c - b'0',
                Some(c @ b'a'..=b'f') => c - b'a' + 10,
                Some(c @ b'A'..=b'F') => c - b'A' + 10,
                _ => return self.err("expected hex digit"),
            };
            v = v * 16 + d as u32;
            self.i += 1;
        }
        Ok(v)
    }
    fn string(&mut self) -> Result<String, String> {
        // at the opening quote
        self.i += 1;
        let mut out: Vec<u8> = vec![];
        let push = |out: &mut Vec<u8>, cp: u32| {
            let c = char::from_u32(cp).unwrap_or('\u{fffd}');
            let mut tmp = [0u8; 4];
            out.extend_from_slice(c.encode_utf8(&mut tmp).as_bytes());
        };
        loop {
            // fast path over a run of ordinary bytes
            let s = self.i;
            while let Some(c) = self.peek() {
                if c == b'"' || c == b'\\' || c < 0x20 {
                    break;
                }
                self.i += 1;
            }
            out.extend_from_slice(&self.b[s..self.i]);
            match self.peek() {
                None => return self.err("unterminated string"),
                Some(b'"') => {
                    self.i += 1;
                    return Ok(match String::from_utf8(out) {
                        Ok(s) => s,
                        Err(e) => String::from_utf8_lossy(e.as_bytes()).into_owned(),
                    });
                }
                Some(b'\\') => {
                    self.i += 1;
                    let e = self.peek();
                    self.i += 1;
                    match e {
                        Some(b'"') => out.push(b'"'),
                        Some(b'\\') => out.push(b'\\'),
                        Some(b'/') => out.push(b'/'),
                        Some(b'b') => out.push(8),
                        Some(b'f') => out.push(12),
                        Some(b'n') => out.push(b'\n'),
                        Some(b'r') => out.push(b'\r'),
                        Some(b't') => out.push(b'\t'),
                        Some(b'u') => {
                            let hi = self.hex4()?;
                            if (0xd800..0xdc00).contains(&hi) && self.b[self.i..].starts_with(b"\\u") {
                                // maybe a pair: look ahead without committing
                                let save = self.i;
                                self.i += 2;
                                match self.hex4() {
                                    Ok(lo) if (0xdc00..0xe000).contains(&lo) => {
                                        push(&mut out, 0x10000 + ((hi - 0xd800) << 10) + (lo - 0xdc00));
                                    }
                                    _ => {
                                        // not a low surrogate (or malformed: the main loop reports it)
                                        self.i = save;
                                        push(&mut out, hi);
                                    }
                                }
                            } else {
                                push(&mut out, hi);
                            }
                        }
                        _ => {
                            self.i -= 1;
                            return self.err("invalid escape");
                        }
                    }
                }
                Some(_) => return self.err("raw control character in string"),
            }
        }
    }
}

#[cfg(test)]
mod tests {
    use super::*;

    fn ok(s: &str) -> J {
        parse(s.as_bytes()).unwrap_or_else(|e| panic!("{s:?} rejected: {e}"))
    }
    fn bad(s: &[u8]) {
        assert!(parse(s).is_err(), "{:?} accepted", String::from_utf8_lossy(s));
    }

    #[test]
    fn accepts() {
        assert_eq!(ok("null"), J::Null);
        assert_eq!(ok(" true "), J::Bool(true));
        assert_eq!(ok("\tfalse\r\n"), J::Bool(false));
        assert_eq!(ok("0"), J::Num("0".into()));
        assert_eq!(ok("-0"), J::Num("-0".into()));
        assert_eq!(ok("-0.0e-0"), J::Num("-0.0e-0".into()));
        assert_eq!(ok("1.5E+10"), J::Num("1.5E+10".into()));
        assert_eq!(ok("1e400"), J::Num("1e400".into()));
        assert_eq!(ok("[]"), J::Arr(vec![]));
        assert_eq!(ok(" [ ] "), J::Arr(vec![]));
        assert_eq!(ok("{}"), J::Obj(vec![]));
        assert_eq!(ok("\"\""), J::Str("".into()));
        assert_eq!(ok(r#""a\"\\\/\b\f\n\r\t\u0041\u00e9""#), J::Str("a\"\\/\u{8}\u{c}\n\r\tA\u{e9}".into()));
        assert_eq!(ok(r#""\ud83d\ude00""#), J::Str("\u{1f600}".into()));
        assert_eq!(ok(r#""\uD83D\uDE00""#), J::Str("\u{1f600}".into()));
        assert_eq!(ok(r#""\ud800""#), J::Str("\u{fffd}".into()));
        assert_eq!(ok(r#""\ud800\u0041""#), J::Str("\u{fffd}A".into()));
        assert_eq!(ok("\"\u{7f}é日本😀\""), J::Str("\u{7f}é日本😀".into()));
        assert_eq!(
            ok(r#"{"a":1,"b":[true,null,{"a":"x"}],"a":2}"#),
            J::Obj(vec![
                ("a".into(), J::Num("1".into())),
                ("b".into(), J::Arr(vec![J::Bool(true), J::Null, J::Obj(vec![("a".into(), J::Str("x".into()))])])),
                ("a".into(), J::Num("2".into())),
            ])
        );
        let deep = format!("{}{}", "[".repeat(50), "]".repeat(50));
        ok(&deep);
    }

    #[test]
    fn rejects() {
        for s in [
            "", " ", "01", "-", "1.", ".5", "1e", "1e+", "+1", "--1", "0x10", "1.e5", "-01", "[1,]", "[,1]", "[1 2]",
            "{\"a\":1,}", "{\"a\" 1}", "{a:1}", "{\"a\":}", "{,}", "[", "]", "{", "}", "[}", "\"", "\"abc",
            "\"\\u12\"", "\"\\x\"", "\"\\u00zz\"", "\"\\", "\"\\\"", "tru", "nulll", "True", "1 2", "[] []", "nul",
            "\"a\nb\"", "\"a\u{1}b\"", "\"\t\"", "{\"a\":1}x", "\u{feff}1", "'a'", "NaN", "Infinity", "-Infinity",
            "{\"Values\":[1,]}",
        ] {
            bad(s.as_bytes());
        }
        bad(b"\"\xff\"");
        bad(b"\"\xc3\"");
        bad(b"\"\xed\xa0\x80\""); // UTF-8 encoded surrogate
        assert!(accepts_grammar(b"\"\xff\""));
        assert!(!accepts_grammar(b"\"\x1f\""));
    }

    #[test]
    fn duplicates() {
        let j = ok(r#"{"a":1,"b":{"c":1,"c":2,"c":3},"a":[{"x":1,"x":2}]}"#);
        assert_eq!(duplicate_members(&j), vec!["c", "c", "a", "x"]);
        assert!(duplicate_members(&ok(r#"{"a":{"a":1},"b":{"a":1}}"#)).is_empty());
    }
}
